from pydantic.v1 import BaseModel, Field as _Field
class SQLModel(BaseModel):
    def __init_subclass__(cls, table=False, **kw):
        super().__init_subclass__(**kw)
def Field(default=..., *, primary_key=False, **kw):
    return _Field(default, **kw)
