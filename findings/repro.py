#!/venv/bin/python
"""Minimal reproductions of the defects of DESIGN.md section 7, run against /repo's working tree.

Usage: PYTHONPATH=/repo /venv/bin/python findings/repro.py [D1 D2 ...]
Prints one line per defect:  <id> OK | <id> FAILS <detail>.   Exit status 1 if any listed defect manifests.
Each function is the replay of one known-findings entry (status known or fixed); the checks run the
same inputs first (corpus), so a fixed defect that returns is reported as a violation again.
"""
import os
import subprocess
import sys
import tempfile
import threading
import types

sys.path.insert(0, os.environ.get("J2M_REPO", "/repo"))
HERE = os.path.dirname(os.path.abspath(__file__))
sys.path.insert(0, os.path.join(os.path.dirname(HERE), "stubs"))


def _pipeline(samples, fw="pydantic", structure="flat", cmp=None, gen_kwargs=None, datetime=False, name="Root",
              dkr=None, dkf=None):
    from json_to_models.generator import MetadataGenerator
    from json_to_models.registry import ModelRegistry
    from json_to_models.models.base import generate_code, GenericModelCodeGenerator
    from json_to_models.models.pydantic import PydanticModelCodeGenerator
    from json_to_models.models.attr import AttrsModelCodeGenerator
    from json_to_models.models.dataclasses import DataclassModelCodeGenerator
    from json_to_models.models.sqlmodel import SqlModelCodeGenerator
    from json_to_models.models.structure import compose_models, compose_models_flat
    from json_to_models.dynamic_typing import StringSerializableRegistry, IntString, FloatString, BooleanString
    reg = StringSerializableRegistry()
    reg.add(cls=IntString)
    reg.add(replace_types=(IntString,), cls=FloatString)
    reg.add(cls=BooleanString)
    if datetime:
        from json_to_models.dynamic_typing import register_datetime_classes
        register_datetime_classes(reg)
    g = MetadataGenerator(reg, dict_keys_regex=dkr, dict_keys_fields=dkf)
    r = ModelRegistry(*(cmp or ()))
    r.process_meta_data(g.generate(*samples), name)
    r.merge_models(g)
    r.generate_names()
    st = (compose_models if structure == "nested" else compose_models_flat)(r.models_map)
    cls = {"base": GenericModelCodeGenerator, "pydantic": PydanticModelCodeGenerator, "attrs": AttrsModelCodeGenerator,
           "dataclasses": DataclassModelCodeGenerator, "sqlmodel": SqlModelCodeGenerator}[fw]
    return generate_code(st, cls, class_generator_kwargs=gen_kwargs or {}), r


_n = [0]


def _load(code):
    _n[0] += 1
    m = types.ModuleType(f"j2m_generated_{_n[0]}")
    sys.modules[m.__name__] = m
    exec(compile(code, m.__name__, "exec"), m.__dict__)
    for v in list(m.__dict__.values()):
        if isinstance(v, type) and hasattr(v, "update_forward_refs") and v.__module__ == m.__name__:
            v.update_forward_refs(**m.__dict__)
    return m


def D1():
    code, _ = _pipeline([{"a": []}, {"a": [None]}])
    m = _load(code)
    m.Root.parse_obj({"a": []}); m.Root.parse_obj({"a": [None]})


def D2():
    samples = [{"a": "1"}, {"a": "1.5"}, {"a": "true"}]
    code, _ = _pipeline(samples)
    m = _load(code)
    for s in samples:
        m.Root.parse_obj(s)


def D3():
    # two nested models with the same key, one of them lacking it in one object: merged model must keep x optional
    for samples in ([{"p": [{"x": 1, "y": 1}, {"y": 1}], "q": {"x": 1, "y": 2}}],
                    [{"q": {"x": 1, "y": 2}, "p": [{"x": 1, "y": 1}, {"y": 1}]}]):
        code, _ = _pipeline(samples)
        m = _load(code)
        for s in samples:
            m.Root.parse_obj(s)


def D4():
    sample = '[{"a": {"x": 1, "y": "s", "z": null}, "b": {"y": 2.5, "x": "t", "w": []}, "c": [{"x": null, "y": 1, "k": {"x": 1, "y": 2, "u": 1}}]}]'
    outs = set()
    with tempfile.TemporaryDirectory(dir=os.environ.get("VERIF_TMP")) as d:
        p = os.path.join(d, "in.json")
        open(p, "w").write(sample)
        for seed in range(8):
            env = dict(os.environ, PYTHONHASHSEED=str(seed), PYTHONPATH=os.environ.get("J2M_REPO", "/repo"))
            o = subprocess.run([sys.executable, "-m", "json_to_models", "-m", "Root", p, "--merge", "number_2"],
                               capture_output=True, text=True, env=env, cwd=d)
            assert o.returncode == 0, o.stderr[-500:]
            outs.add(o.stdout.split('"""\n', 2)[-1])
    assert len(outs) == 1, f"{len(outs)} distinct outputs over 8 hash seeds"


def D5():
    err = []

    def w():
        try:
            _pipeline([{"a": {"b": 1}}], structure="nested")
        except BaseException as e:  # noqa
            err.append(repr(e))
    t = threading.Thread(target=w); t.start(); t.join()
    assert not err, err[0]


def D6():
    code, _ = _pipeline([{"a": "1"}, {}], fw="attrs")
    m = _load(code)
    assert m.Root(a="1").a == 1 and m.Root().a is None


def D7():
    for key in ('a"b', "a\\b", "a\\"):
        code, _ = _pipeline([{key: 1}])
        m = _load(code)
        f = list(m.Root.__fields__.values())[0]
        assert f.alias == key, (key, f.alias)


def D8():
    code, _ = _pipeline([{"d": {"ax": 1, "b": 2}}], dkr=None)
    from json_to_models.cli import Cli
    c = Cli()
    with tempfile.TemporaryDirectory(dir=os.environ.get("VERIF_TMP")) as d:
        p = os.path.join(d, "in.json")
        open(p, "w").write('{"d": {"ax": 1, "b": 2}}')
        c.parse_args(["-m", "Root", p, "--dkr", "a|b", r"^\d+|[a-f]+$"])
    import re
    pats = ["a|b", r"^\d+|[a-f]+$"]
    for r, pat in zip(c.dict_keys_regex, pats):
        for key in ("ax", "a", "b", "1st", "12", "abc", "zabc"):
            assert bool(r.match(key)) == bool(re.fullmatch(pat, key)), f"--dkr {pat!r}: key {key!r} matches {bool(r.match(key))}, the whole-key rule says {bool(re.fullmatch(pat, key))}"


def D11():
    import typing
    code, _ = _pipeline([{"a": "\U0001F600"}, {"a": "\u00e9"}])
    m = _load(code)
    args = set(typing.get_type_hints(m.Root)["a"].__args__)
    assert args == {"\U0001F600", "\u00e9"}, args
    m.Root.parse_obj({"a": "\U0001F600"})


def D22():
    _pipeline([{"phone": "12345678901-2"}], datetime=True)


def D24():
    src = os.path.join(HERE, "d24_input.json")
    outs = set()
    for seed in range(8):
        env = dict(os.environ, PYTHONHASHSEED=str(seed), PYTHONPATH=os.environ.get("J2M_REPO", "/repo"))
        o = subprocess.run([sys.executable, "-m", "json_to_models", "-m", "Root", src, "--merge", "percent_50"],
                           capture_output=True, text=True, env=env)
        assert o.returncode == 0, o.stderr[-500:]
        outs.add(o.stdout.split('"""\n', 2)[-1])
    assert len(outs) == 1, f"{len(outs)} distinct outputs over 8 hash seeds"


def D31():
    import typing
    samples = [{"x": ["a,b"]}, {"x": ["a", "b"]}]
    code, _ = _pipeline(samples)
    m = _load(code)
    for s in samples:
        m.Root.parse_obj(s)


def D32():
    from json_to_models.generator import MetadataGenerator
    from json_to_models.registry import ModelRegistry, ModelFieldsNumberMatch
    from json_to_models.dynamic_typing import StringSerializableRegistry, IntString, FloatString, BooleanString, DUnion, DList
    samples = [{"name": "-", "x": "1"}, {"c": {"b": {"x": [None, "s", []], "y": "T"}}}, {"y": [{"name": []}, {"x": {}}, {"x": [[{}]]}]}]
    reg = StringSerializableRegistry(); reg.add(cls=IntString); reg.add(replace_types=(IntString,), cls=FloatString); reg.add(cls=BooleanString)
    g = MetadataGenerator(reg); r = ModelRegistry(ModelFieldsNumberMatch(2))
    r.process_meta_data(g.generate(*samples), "Root"); r.merge_models(g)

    from json_to_models.dynamic_typing import ModelPtr

    def lists_in_union(t):
        if isinstance(t, ModelPtr):
            return False
        if isinstance(t, dict):
            return any(lists_in_union(v) for v in t.values())
        if isinstance(t, DUnion) and sum(isinstance(x, DList) for x in t.types) > 1:
            return True
        return any(lists_in_union(x) for x in t) if hasattr(t, "__iter__") and not isinstance(t, type) else False
    assert not any(lists_in_union(m.type) for m in r.models), "a union with several list members survives merge_models"


def D33():
    from json_to_models.generator import MetadataGenerator
    from json_to_models.registry import ModelRegistry
    from json_to_models.dynamic_typing import StringSerializableRegistry
    g = MetadataGenerator(StringSerializableRegistry()); r = ModelRegistry()
    r.process_meta_data(g.generate({"a": {"x": 1}}), "A")
    second = [m for m in r.models if m.name is None][0]
    r.process_meta_data(g.generate({"y": "s"}), "A_" + second.index)       # the name the duplicate is about to get
    r.merge_models(g); r.generate_names()
    names = [m.name for m in r.models]
    assert len(set(names)) == len(names), f"duplicate class names {names}"


def D9():
    sample = {"list": {"x": 1}, "optional": {"y": [1]}, "field": [{"z": None}], "union": {"q": 1}, "any": {"w": 2},
              "base_model": {"v": 1}, "dict": {"u": 1}, "literal": {"t": "s"}}
    for fw in ("pydantic", "dataclasses", "attrs", "base"):
        code, _ = _pipeline([sample], fw=fw)
        m = _load(code)
        assert hasattr(m, "Root")


def D10():
    for fw, sample in (("dataclasses", [{"field": 1, "other": []}, {"other": [1]}]),
                       ("attrs", [{"attr": 1, "optional": "1", "b": "2"}, {"attr": 2, "optional": "3"}])):
        code, _ = _pipeline(sample, fw=fw)
        m = _load(code)
        assert hasattr(m, "Root")


def D28():
    with tempfile.TemporaryDirectory(dir=os.environ.get("VERIF_TMP")) as d:
        p = os.path.join(d, "in.json")
        open(p, "w").write('{"a": "1"}')
        env = dict(os.environ, PYTHONPATH=os.environ.get("J2M_REPO", "/repo"))
        o = subprocess.run([sys.executable, "-m", "json_to_models", "-m", "Root", p, "-f", "dataclasses", "--strings-converters"],
                           capture_output=True, text=True, env=env, cwd=d)
        assert o.returncode == 0, o.stderr[-300:]
        assert "convert_strings(" in o.stdout, "--strings-converters was dropped for dataclasses"


def D29():
    samples = [{"a": "true"}, {"a": None}]
    for fw in ("attrs", "dataclasses"):
        code, _ = _pipeline(samples, fw=fw, gen_kwargs={"post_init_converters": True})
        m = _load(code)
        assert m.Root(a=None).a is None
        assert m.Root(a="true").a == True  # noqa: E712


def D30():
    with tempfile.TemporaryDirectory(dir=os.environ.get("VERIF_TMP")) as d:
        p = os.path.join(d, "in.json")
        open(p, "w").write('{"a": "\\ud800"}')
        out = os.path.join(d, "out.py")
        open(out, "w").write("# precious\n")
        env = dict(os.environ, PYTHONPATH=os.environ.get("J2M_REPO", "/repo"))
        o = subprocess.run([sys.executable, "-m", "json_to_models", "-m", "Root", p, "-o", out], capture_output=True, text=True, env=env, cwd=d)
        assert o.returncode != 0, "an un-encodable text was reported as written"
        assert open(out).read() == "# precious\n", "the existing output file was modified by a failing run"


def D13():
    samples = [{"a": None}, {"a": ["1"]}]
    for fw in ("attrs", "dataclasses"):
        code, _ = _pipeline(samples, fw=fw, gen_kwargs={"post_init_converters": True})
        m = _load(code)
        assert m.Root(a=None).a is None
        assert m.Root(a=["1"]).a == [1]


def D15():
    with tempfile.TemporaryDirectory(dir=os.environ.get("VERIF_TMP")) as d:
        p = os.path.join(d, "in.json")
        open(p, "w").write('{"a": 1}')
        env = dict(os.environ, PYTHONPATH=os.environ.get("J2M_REPO", "/repo"))
        o = subprocess.run([sys.executable, "-m", "json_to_models", "-m", "Root", p, "--preamble", 'x = """q"""'],
                           capture_output=True, text=True, env=env, cwd=d)
        assert o.returncode == 0, o.stderr[-300:]
        import ast
        tree = ast.parse(o.stdout)
        first = tree.body[0]
        assert isinstance(first, ast.Expr) and isinstance(first.value, ast.Constant) and "command:" in first.value.value \
            and "--preamble" in first.value.value, "header is not one string statement"
        assert any(isinstance(n, ast.ClassDef) for n in tree.body[1:]), "no class after header"


def D19():
    for fw in ("attrs", "dataclasses"):
        code, _ = _pipeline([{"a": [], "b": "1"}], fw=fw, gen_kwargs={"post_init_converters": True})
        m = _load(code)
        assert m.Root(a=[], b="1").b == 1


ALL = {k: v for k, v in list(globals().items()) if k[0] == "D" and k[1:].isdigit() and callable(v)}

if __name__ == "__main__":
    ids = sys.argv[1:] or sorted(ALL, key=lambda s: int(s[1:]))
    bad = 0
    for i in ids:
        try:
            ALL[i]()
            print(i, "OK")
        except BaseException as e:  # noqa
            bad += 1
            print(i, "FAILS", type(e).__name__, str(e).replace("\n", " ")[:300])
    sys.exit(1 if bad else 0)
