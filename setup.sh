#!/bin/sh
# Builds the proof development from files on disk only (offline): translator -> coq/Gen, coq_makefile, full .vo build.
set -e
cd "$(dirname "$0")"
export PIP_NO_INDEX=1
mkdir -p build evidence replays coq/Gen
/venv/bin/python - <<'PY'
import sys
sys.path.insert(0, '.')
from harness import common
r = common.ensure_build()
print({k: v for k, v in r.items() if k != 'log'})
if r['failed'] or any(r['translator'].values()):
    print(r['log'][-3000:])
    sys.exit(1)
PY
