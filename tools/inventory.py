#!/venv/bin/python
"""Prints the inventory of the proof development: per Props file the theorem names, line counts of Model/Proofs."""
import os, re, sys
sys.path.insert(0, os.path.dirname(os.path.dirname(os.path.abspath(__file__))))
from harness import common
tot = {}
for d in ("Model", "Sem", "Proofs", "Props", "Views", "Gen"):
    p = os.path.join(common.COQ, d)
    n = 0
    for f in sorted(os.listdir(p)):
        if f.endswith(".v"):
            n += sum(1 for _ in open(os.path.join(p, f)))
    tot[d] = n
print("lines:", tot, "total", sum(tot.values()))
for f in sorted(os.listdir(os.path.join(common.COQ, "Props"))):
    if f.endswith(".v"):
        names = common.theorems_of("Props/" + f)
        print(f, len(names), ", ".join(names))
