#!/venv/bin/python
"""Validate coq/Model/PyAnn.v (parse_ann, denote, ty_fuel, ann_wf) and Model/Emit.v (print_ty) against the implementation.

Run:  [J2M_REPO=/repo] /venv/bin/python /verif/tools/validate_pyann.py [--n 3600] [--seed 1] [--jobs 6] [--keep DIR]
      (the implementation is imported from $J2M_REPO, default /repo; the summary names the path actually used)

Random type terms t (depth <= 4; literal strings over an alphabet with the double quote, the single quote, backslash,
comma, brackets, space, newline, tab, a control character, letters of escapes, non-ASCII BMP and astral characters;
model pointers with random identifier names, with and without an injected parent path) are built as REAL metadata
objects (DList / DOptional / DUnion / DDict / StringLiteral / ModelPtr / the StringSerializable classes / Null /
Unknown) and printed by the REAL printer json_to_models.dynamic_typing.metadata_to_typing under the types_style that
each of the five generators resolves (literal limit in {0, 1, 2, 3, 5, 10, 16, 100}).  CPython's own parser
(ast.parse(text, mode="eval")) supplies the syntax tree A of the printed text.

Coq (one shard = <= 300 cases, `Eval vm_compute`, only counts / failing indices are printed) checks for every case
    print_ty names ctx o t           = Some (_, text)                 (the printer model prints the same text)
    parse_ann (ty_fuel t) text       = Some (A, [])                   (the parser model agrees with CPython's parser,
                                                                       with the fuel the theorem promises)
    denote names ctx o t             = A                              (the specification denotes that tree)
    parse_ann (ty_fuel t) (text ++ ", x]") = Some (A, ", x]")         (a follow text)
    ann_wf names ctx o t             = true
and, for the cases whose text contains the empty `Literal[]` (printed for an overflowed / empty StringLiteral; CPython:
SyntaxError), that ann_wf = false and parse_ann rejects the text as well (parse_ann_all = None for fuel 200).
Exit status 0 and a one-line summary when everything agrees; the first disagreements otherwise.
"""
import argparse, ast, copy, os, random, re, subprocess, sys, tempfile, time
from concurrent.futures import ThreadPoolExecutor

REPO = os.environ.get("J2M_REPO", "/repo")     # where the implementation is imported from
sys.path.insert(0, REPO)
from json_to_models.dynamic_typing import (DDict, DList, DOptional, DUnion, ModelMeta, ModelPtr, Null, StringLiteral,  # noqa: E402
                                           Unknown, AbsoluteModelRef, metadata_to_typing, IntString, FloatString,
                                           BooleanString, IsoDateString, IsoTimeString, IsoDatetimeString)
from json_to_models.models.base import GenericModelCodeGenerator  # noqa: E402
from json_to_models.models.attr import AttrsModelCodeGenerator  # noqa: E402
from json_to_models.models.dataclasses import DataclassModelCodeGenerator  # noqa: E402
from json_to_models.models.pydantic import PydanticModelCodeGenerator  # noqa: E402

try:
    from json_to_models.models.sqlmodel import SqlModelCodeGenerator
except Exception:  # sqlmodel not installed: the class only inherits the pydantic style
    SqlModelCodeGenerator = PydanticModelCodeGenerator

import json_to_models  # noqa: E402
IMPL_FILE = os.path.abspath(json_to_models.__file__)
COQ_DIR = "/verif/coq"
QFLAGS = ["-Q", "Model", "J2M.Model", "-Q", "Sem", "J2M.Sem", "-Q", "Gen", "J2M.Gen", "-Q", "Proofs", "J2M.Proofs",
          "-Q", "Props", "J2M.Props", "-Q", "Views", "J2M.Views"]
SHARD = 300

FRAMEWORKS = [("FBase", GenericModelCodeGenerator), ("FPydantic", PydanticModelCodeGenerator),
              ("FSqlmodel", SqlModelCodeGenerator), ("FAttrs", AttrsModelCodeGenerator),
              ("FDataclasses", DataclassModelCodeGenerator)]
LIMITS = [0, 1, 2, 3, 5, 10, 16, 100]
PSEUDO = [("PInt", IntString), ("PFloat", FloatString), ("PBool", BooleanString), ("PDate", IsoDateString),
          ("PTime", IsoTimeString), ("PDatetime", IsoDatetimeString)]
BASE = [("TInt", int), ("TFloat", float), ("TBool", bool), ("TStr", str), ("TNull", Null), ("TUnknown", Unknown)]
ALPHA = ['"', "'", "\\", ",", "[", "]", " ", "\n", "\t", "\r", "\x01", "\x1f", "\x7f", "a", "b", "n", "u", "x", "0", "L",
         "\xe9", "\u4e2d", "\u2028", "\ud7ff", "\U0001f600", "\U0010ffff"]
WEIGHT = [6, 3, 6, 4, 3, 3, 2, 2, 1, 1, 1, 1, 1, 3, 2, 2, 2, 1, 1, 1,
          2, 2, 1, 1, 2, 1]
assert len(ALPHA) == len(WEIGHT)
ID0 = "ABCMXabcxyz_"
ID1 = ID0 + "0129"


def resolved_style(gen_cls, limit):
    """GenericModelCodeGenerator.__init__ (models/base.py) without a model"""
    st = copy.deepcopy(gen_cls.default_types_style)
    st[StringLiteral][StringLiteral.TypeStyle.max_literals] = int(limit)
    return st


def cps(s):
    return "[" + ";".join(str(ord(c)) for c in s) + "]"


def coq_list(items):
    return "[" + ";".join(items) + "]"


class Gen:
    def __init__(self, rnd):
        self.rnd = rnd
        self.models = []     # (index, ModelMeta)
        self.ctx = {}        # child ModelMeta -> parent ModelMeta

    def ident(self):
        r = self.rnd
        return r.choice(ID0) + "".join(r.choice(ID1) for _ in range(r.choice([0, 0, 1, 2, 3, 6])))

    def lit_string(self):
        r = self.rnd
        return "".join(r.choices(ALPHA, WEIGHT, k=r.choice([0, 1, 1, 2, 2, 3, 4, 6, 9, 19])))

    def new_model(self, named=True):
        idx = len(self.models) + 1
        m = ModelMeta({"f": int}, str(idx))
        if named:
            m.set_raw_name(self.ident())
        self.models.append((idx, m))
        return idx, m

    def ty(self, depth):
        """-> (coq term, metadata object)"""
        r = self.rnd
        k = r.random()
        if depth <= 0 or k < 0.30:
            k2 = r.random()
            if k2 < 0.30:
                return r.choice(BASE)
            if k2 < 0.45:
                c, o = r.choice(PSEUDO)
                return "(TPseudo %s)" % c, o
            if k2 < 0.80:
                k3 = r.random()
                if k3 < 0.06:                      # overflowed literal: the implementation empties the set
                    return "(TLit true [])", StringLiteral({"x" * r.choice([20, 25])})
                if k3 < 0.09:
                    return "(TLit false [])", StringLiteral(set())
                ls = {self.lit_string() for _ in range(r.choice([1, 1, 2, 2, 3, 4, 6, 11, 15]))}
                o = StringLiteral(ls)
                assert not o.overflowed
                return "(TLit false %s)" % coq_list(cps(s) for s in sorted(ls)), o
            # model pointer
            named = [(i, m) for i, m in self.models if m.name is not None]
            if named and r.random() < 0.3:
                idx, m = r.choice(named)
            else:
                idx, m = self.new_model()
                kk = r.random()
                if kk < 0.35:                      # nested model: absolute path through a named parent
                    _, p = self.new_model()
                    self.ctx[m] = p
                elif kk < 0.42:                    # parent without a name: no path
                    _, p = self.new_model(named=False)
                    self.ctx[m] = p
            return "(TPtr %d)" % idx, ModelPtr(m)
        if k < 0.45:
            c, o = self.ty(depth - 1)
            return "(TOpt %s)" % c, DOptional(o)
        if k < 0.60:
            c, o = self.ty(depth - 1)
            return "(TList %s)" % c, DList(o)
        if k < 0.75:
            c, o = self.ty(depth - 1)
            return "(TDict %s)" % c, DDict(o)
        parts = [self.ty(depth - 1) for _ in range(r.choice([1, 2, 2, 3, 3, 4, 5]))]
        u = DUnion()
        u.types = [o for _, o in parts]            # the property setter: no normalisation, the members are as given
        return "(TUnion %s)" % coq_list(c for c, _ in parts), u


def ann_of_ast(e):
    """CPython syntax tree of an annotation -> Coq term of type ann"""
    if isinstance(e, ast.Name):
        return "(AName %s)" % cps(e.id)
    if isinstance(e, ast.Constant) and e.value is None:
        return "(AName %s)" % cps("None")
    if isinstance(e, ast.Constant) and isinstance(e.value, str):
        return "(ARef %s)" % cps(e.value)
    if isinstance(e, ast.Subscript) and isinstance(e.value, ast.Name):
        elts = e.slice.elts if isinstance(e.slice, ast.Tuple) else [e.slice]
        if e.value.id == "Literal":
            assert all(isinstance(x, ast.Constant) and isinstance(x.value, str) for x in elts)
            return "(ALit %s)" % coq_list(cps(x.value) for x in elts)
        return "(ASub %s %s)" % (cps(e.value.id), coq_list(ann_of_ast(x) for x in elts))
    raise ValueError("unexpected syntax: " + ast.dump(e))


def make_case(rnd):
    g = Gen(rnd)
    fw, gen_cls = rnd.choice(FRAMEWORKS)
    limit = rnd.choice(LIMITS)
    term, obj = g.ty(rnd.choice([0, 1, 2, 3, 3, 4, 4, 4]))
    style = resolved_style(gen_cls, limit)
    inject = {m: p for m, p in g.ctx.items()}
    with AbsoluteModelRef.inject(inject):
        _, text = metadata_to_typing(obj, types_style=style)
    try:
        tree = ast.parse(text, mode="eval").body
        expected = ann_of_ast(tree)
    except SyntaxError:
        expected = None
        assert "Literal[]" in text, text
    names = coq_list("(%d,%s)" % (i, "None" if m.name is None else "Some " + cps(m.name)) for i, m in g.models)
    index_of = {id(m): i for i, m in g.models}
    ctx = coq_list("(%d,%d)" % (index_of[id(c)], index_of[id(p)]) for c, p in g.ctx.items())
    o = "(Build_opts %s %d%%nat false true false)" % (fw, limit)
    coq = "(%s,%s,%s,%s,%s,%s)" % (o, names, ctx, term, cps(text), "None" if expected is None else "Some " + expected)
    return coq, expected is None, text


PRELUDE = """From Coq Require Import List Bool NArith.
From J2M.Model Require Import Base Framework Emit PyLex PyAnn.
Import ListNotations.
Local Open Scope N_scope.
Fixpoint ann_eqb (a b : ann) {struct a} : bool :=
  match a, b with
  | AName x, AName y | ARef x, ARef y => str_eqb x y
  | ALit x, ALit y => strs_eqb x y
  | ASub h xs, ASub k ys =>
      str_eqb h k && (fix go l1 l2 := match l1, l2 with
                                      | [], [] => true | x :: r, y :: r' => ann_eqb x y && go r r' | _, _ => false end) xs ys
  | _, _ => false
  end.
Definition res_eqb (r : option (ann * str)) (a : ann) (rest : str) : bool :=
  match r with Some (x, t) => ann_eqb x a && str_eqb t rest | None => false end.
Fixpoint assoc (l : list (N * N)) (m : N) : option N :=
  match l with [] => None | (k, v) :: r => if N.eqb k m then Some v else assoc r m end.
Fixpoint failing {A} (f : A -> bool) (i : N) (l : list A) : list N :=
  match l with [] => [] | x :: r => if f x then failing f (i + 1) r else i :: failing f (i + 1) r end.
Definition FOLLOW : str := [44; 32; 120; 93].
Definition case := (opts * ntab * list (N * N) * ty * str * option ann)%type.
Definition ok (x : case) : bool :=
  let '(o, nt, cx, t, text, expected) := x in
  let names := nt_get nt in let ctx := assoc cx in
  match print_ty names ctx o t with Some (_, s) => str_eqb s text | None => false end &&
  match expected with
  | Some a =>
      res_eqb (parse_ann (ty_fuel t) text) a [] && ann_eqb (denote names ctx o t) a &&
      res_eqb (parse_ann (ty_fuel t) (text ++ FOLLOW)) a FOLLOW && ann_wf names ctx o t
  | None =>
      negb (ann_wf names ctx o t) && match parse_ann_all 200%nat text with None => true | Some _ => false end
  end.
"""

RES = re.compile(r"=\s*\((\d+),\s*\[([^\]]*)\]\)")


def run_coq(workdir, name, cases):
    text = PRELUDE + "Definition cases : list case := [\n" + ";\n".join(cases) + "\n].\n" \
        + "Eval vm_compute in (N.of_nat (length cases), firstn 10 (failing ok 0 cases)).\n"
    path = os.path.join(workdir, name + ".v")
    with open(path, "w") as f:
        f.write(text)
    p = None
    for _ in range(4):
        p = subprocess.run(["timeout", "600", "coqc"] + QFLAGS + [path], cwd=COQ_DIR, capture_output=True, text=True)
        if p.returncode == 0:
            break
        if "inconsistent assumptions" in p.stderr or "Cannot find a physical path" in p.stderr or ".vo" in p.stderr:
            time.sleep(30)
            continue
        break
    if p.returncode != 0:
        return name, None, "coqc failed (%d): %s" % (p.returncode, p.stderr.strip()[:800])
    m = RES.search(p.stdout.replace("\n", " "))
    if not m:
        return name, None, "cannot parse coqc output: %r" % p.stdout[:300]
    fails = [int(x) for x in m.group(2).replace(" ", "").split(";") if x]
    return name, int(m.group(1)), fails


def main():
    ap = argparse.ArgumentParser()
    ap.add_argument("--n", type=int, default=3600)
    ap.add_argument("--seed", type=int, default=1)
    ap.add_argument("--jobs", type=int, default=6)
    ap.add_argument("--keep", default=None)
    a = ap.parse_args()
    rnd = random.Random(a.seed)
    cases = [make_case(rnd) for _ in range(a.n)]
    n_syntax = sum(1 for _, bad, _ in cases if bad)
    workdir = a.keep or tempfile.mkdtemp(prefix="pyann_")
    os.makedirs(workdir, exist_ok=True)
    shards = [cases[i:i + SHARD] for i in range(0, len(cases), SHARD)]
    bad = []
    total = 0
    with ThreadPoolExecutor(max_workers=a.jobs) as ex:
        futs = [ex.submit(run_coq, workdir, "PyAnnCases%02d" % k, [c for c, _, _ in sh]) for k, sh in enumerate(shards)]
        for k, fut in enumerate(futs):
            name, n, fails = fut.result()
            if n is None:
                bad.append("%s: %s" % (name, fails))
                continue
            total += n
            if n != len(shards[k]):
                bad.append("%s: %d cases evaluated, %d expected" % (name, n, len(shards[k])))
            for i in fails:
                bad.append("%s case %d: %s\n    %r" % (name, i, shards[k][i][0][:400], shards[k][i][2]))
    if not a.keep:
        for f in os.listdir(workdir):
            os.remove(os.path.join(workdir, f))
        os.rmdir(workdir)
    if bad:
        print("validate_pyann: DISAGREEMENTS (%d)" % len(bad))
        for b in bad[:20]:
            print("  " + b)
        return 1
    maxlen = max(len(t) for _, _, t in cases)
    print("validate_pyann: OK  %d cases in %d shards (%d readable: print_ty = text, parse_ann text = CPython ast = denote t, "
          "follow text, ann_wf; %d with Literal[]: SyntaxError in CPython, rejected by parse_ann and ann_wf); "
          "longest text %d code points; seed %d; implementation %s"
          % (total, len(shards), total - n_syntax, n_syntax, maxlen, a.seed, os.path.dirname(os.path.dirname(IMPL_FILE))))
    return 0


if __name__ == "__main__":
    sys.exit(main())
