#!/venv/bin/python
"""tools/validate_pyeq.py [--n N] [--seed S] [--module Scratch.PyEq2|J2M.Model.Merge] [--fn py_eq2|py_eq]
Differential test of the model of Python == on metadata (ComplexType.__eq__: sort by str(item), compare element-wise)
against the implementation: pairs of RAW types (MetadataGenerator._detect_type of random JSON values, their type twins
1 / 1.0 / true, list permutations and key-order permutations) -> (a == b) in Python vs the Coq function on the same pair."""
import argparse, copy, json, os, random, subprocess, sys
VERIF = os.path.dirname(os.path.dirname(os.path.abspath(__file__)))
sys.path.insert(0, VERIF)
from harness import common, coqterm as ct, gen, impl   # noqa: E402
common.setup_import_path()


def perturb(r, v):
    k = r.random()
    if isinstance(v, list) and v:
        w = [perturb(r, x) for x in v]
        if k < 0.5:
            r.shuffle(w)
        return w
    if isinstance(v, dict):
        items = [(a, perturb(r, b)) for a, b in v.items()]
        if k < 0.5:
            r.shuffle(items)
        return dict(items)
    if isinstance(v, bool):
        return int(v) if k < 0.3 else v
    if isinstance(v, int):
        return (float(v) if k < 0.2 else bool(v) if k < 0.3 and v in (0, 1) else v)
    return v


def main():
    ap = argparse.ArgumentParser()
    ap.add_argument("--n", type=int, default=3000)
    ap.add_argument("--seed", type=int, default=1)
    ap.add_argument("--module", default="J2M.Model.Merge")
    ap.add_argument("--fn", default="py_eq")
    ap.add_argument("--extra-q", default=None)
    ap.add_argument("--keep", default=None)
    a = ap.parse_args()
    from json_to_models.generator import MetadataGenerator
    r = random.Random(a.seed)
    G = MetadataGenerator(impl.make_registry())
    cases = []
    for i in range(a.n):
        g = gen.Gen(r.randrange(10 ** 9))
        v1 = g.value(3) if i % 3 else [g.value(2) for _ in range(r.randint(1, 4))]
        v2 = perturb(r, copy.deepcopy(v1)) if i % 4 else g.value(3)
        t1, t2 = G._detect_type(copy.deepcopy(v1)), G._detect_type(copy.deepcopy(v2))
        try:
            exp = bool(t1 == t2)
        except RecursionError:
            continue
        cases.append((v1, v2, f"({ct.cty(t1)}, {ct.cty(t2)}, {ct.cbool(exp)})"))
    wd = a.keep or os.path.join(common.BUILD, "pyeq_cases")
    os.makedirs(wd, exist_ok=True)
    bad_total, shards = [], [cases[i:i + 300] for i in range(0, len(cases), 300)]
    for si, sh in enumerate(shards):
        src = ("From Coq Require Import List Bool Arith NArith ZArith String.\nFrom J2M.Model Require Import Base Union Merge.\n"
               f"Require Import {a.module}.\nImport ListNotations.\n"
               "Definition cases : list (ty * ty * bool) := " + ct.clist([c[2] for c in sh]) + ".\n"
               f"Definition bad := map fst (filter (fun ic => negb (Bool.eqb ({a.fn} N.eqb (fst (fst (snd ic))) (snd (fst (snd ic)))) (snd (snd ic)))) (combine (seq 0 (List.length cases)) cases)).\n"
               "Eval vm_compute in (List.length cases, bad).\n")
        path = os.path.join(wd, f"pyeq_{si}.v")
        open(path, "w").write(src)
        flags = common.coq_flags() + (["-Q", a.extra_q, "Scratch"] if a.extra_q else [])
        p = subprocess.run(["timeout", "600", "coqc"] + flags + [path], capture_output=True, text=True)
        if p.returncode != 0:
            print("validate_pyeq: coqc failed:", p.stderr[-600:])
            return 1
        import re
        m = re.search(r"=\s*\((\d+),\s*\[(.*?)\]\)", p.stdout.replace("\n", " "))
        idx = [int(x) for x in m.group(2).replace(" ", "").split(";") if x] if m else [-1]
        for j in idx:
            bad_total.append(sh[j][:2] if j >= 0 else ("?", p.stdout[-300:]))
    if bad_total:
        print(f"validate_pyeq: DISAGREEMENTS ({len(bad_total)} of {len(cases)})")
        for v1, v2 in bad_total[:5]:
            print("  ", json.dumps(v1)[:300], "  vs  ", json.dumps(v2)[:300])
        return 1
    print(f"validate_pyeq: OK  {len(cases)} pairs ({sum(1 for c in cases if c[2].endswith('true)'))} equal in Python), seed {a.seed}")
    return 0


if __name__ == "__main__":
    sys.exit(main())
