#!/venv/bin/python
"""Differential validation of coq/Model/Grammar.v (int_ok, float_ok, float_ok_2pass, bool_ok) against CPython 3.12.

Run:  /venv/bin/python /verif/tools/validate_grammar.py [--random 24000] [--seed 1] [--jobs 8] [--keep DIR] [--model DIR]

 (i)   ALL strings of length <= 4 over the 16-character alphabet ALPHA (69 905 strings).
 (ii)  --random longer strings from a structured generator: whitespace of many kinds (including U+001C..U+001F, which
       are str.isspace() but are not stripped by int()/float()), NUL and control characters, zero-width space, signs,
       digit groups in several scripts joined by underscores, points, exponents, inf/infinity/nan and true/false
       spellings in mixed case with look-alikes, followed by random character-level mutations.
 (iii) the hypotheses of Proofs/GrammarProps.v about the oracles (G3), checked on all 0x110000 code points.

CPython side: int(s) / float(s) succeed (ValueError = reject), s.lower() in ("true", "false").
Coq side: one cases file per shard (<= 2000 strings of (i), <= 1000 of (ii)); strings are `list N` literals, the oracle
tables hold exactly the characters of the shard (str.isspace, unicodedata.decimal, str.lower of one character);
`Eval vm_compute` prints only the counts and the first failing indices.  Up to --jobs coqc processes run in parallel.
Exit status 0 and a one-line summary when everything agrees; the first disagreeing strings otherwise.
All generated digit runs are far shorter than sys.get_int_max_str_digits() (4300; not modelled by int_ok).
"""
import argparse, itertools, os, random, re, subprocess, sys, tempfile, unicodedata
from concurrent.futures import ThreadPoolExecutor

COQ_DIR = "/verif/coq"
CHECKS = ["int_ok", "float_ok", "float_ok_2pass", "bool_ok"]
ALPHA = ["1", "0", "_", "+", "-", ".", "e", " ", "\t", "\u0661", "\uff11", "\u2003", "n", "i", "a", "f"]
MAXDIGITS = 400
MODEL_DIR = [os.path.join(COQ_DIR, "Model")]   # --model DIR: a directory holding Base.vo and a (mutated) Grammar.vo


REPO = os.environ.get("J2M_REPO", "/repo")     # the implementation: the package's own IntString / FloatString / BooleanString
sys.path.insert(0, REPO)
from json_to_models.dynamic_typing import IntString, FloatString, BooleanString  # noqa: E402


def _accepts(cls, s):
    try:
        cls.to_internal_value(s)
        return True
    except ValueError:
        return False


def py_int(s):
    return _accepts(IntString, s)


def py_float(s):
    return _accepts(FloatString, s)


def py_bool(s):
    return _accepts(BooleanString, s)


def expected(s):
    i, f, b = py_int(s), py_float(s), py_bool(s)
    return (1 if i else 0) | (2 if f else 0) | (4 if f else 0) | (8 if b else 0)


# ---------------------------------------------------------------- generator (ii)
SPACES = [" ", "\t", "\n", "\x0b", "\x0c", "\r", "\x1c", "\x1d", "\x1e", "\x1f", "\x85", "\xa0", "\u1680", "\u2000",
          "\u2003", "\u2009", "\u2028", "\u2029", "\u202f", "\u205f", "\u3000"]
STRIPPED = [c for c in SPACES if not "\x1c" <= c <= "\x1f"]
NOT_SPACES = ["\u200b", "\u180e", "\ufeff", "\x00", "\x01", "\x08", "\x1b", "\x7f", "\x80", "\xad", "\u2060", "\ud800"]
DIGIT_ZEROS = [0x30, 0x30, 0x30, 0x660, 0x6F0, 0x966, 0x9E6, 0xE50, 0xFF10, 0x1D7CE, 0x1D7D8, 0x104A0, 0x1E950]
NOT_DECIMAL = ["\xb2", "\xbd", "\u2460", "\u2167", "\u4e00", "\u3007", "\u2070", "\u0bf0", "a", "A", "o", "O", "l"]
SIGNS = ["", "", "", "+", "-", "+", "-", "++", "+-", "\u2212", "\uff0b", "\uff0d", "+ ", "- "]
POINTS = [".", ".", ".", ".", ",", "\uff0e", "\u066b", "..", "._", "_."]
EXPS = ["e", "E", "e", "E", "\uff45", "x", "p", "d", "ee", "e_", "_e"]
SPECIALS = ["inf", "infinity", "nan", "infinit", "infinityy", "in f", "na", "nane", "\u0131nf", "\u0130nf",
            "\uff49\uff4e\uff46", "n\u0251n", "in_f", "na_n", "infi", "inff", "nan0", "0nan", "infnan", "snan", "qnan",
            "nan(1)", "1.#INF", "Infinity", "NaN", "INF", "-inf", "+nan", "i", "n", "inf.", ".inf", "infe1", "nane1"]
BOOLS = ["true", "false", "tru", "fals", "truee", "true false", "fal\u017fe", "\uff34\uff32\uff35\uff25", "t\u0280ue",
         "FALS\u0395", "\u0130", "\u03a3", "true\u03a3", "\u212a", "tr\u00fce", "yes", "no", "1", "0", "t", "f",
         "True", "False", "TRUE", "FALSE", "truE", "fAlSe", "true_", "t_rue", "+true", "true.", "truefalse"]
POOL = (SPACES + NOT_SPACES + ["0", "1", "5", "9", "_", "_", "+", "-", ".", "e", "E", "\u0661", "\u0669", "\uff11",
        "\u0967", "\U0001d7cf", "n", "a", "i", "f", "t", "y", "N", "A", "I", "F", "T", "r", "u", "R", "U", "s", "l",
        "S", "L", "?", "x", "j", "\u200b", "\xb2"])


def rnd_case(rng, word):
    return "".join(c.upper() if rng.random() < 0.4 else c for c in word)


def pick(rng, clean, good, noisy):
    """a well-formed choice for clean strings; any choice (mostly well-formed ones come first in the lists) otherwise"""
    return rng.choice(good) if clean or rng.random() < 0.6 else rng.choice(noisy)


def gen_ws(rng, clean):
    if rng.random() < 0.55:
        return ""
    n = rng.choice([1, 1, 1, 2, 3])
    return "".join(pick(rng, clean, STRIPPED, SPACES + NOT_SPACES) for _ in range(n))


def gen_digits(rng, clean, allow_empty=True):
    if allow_empty and rng.random() < (0.1 if clean else 0.15):
        return ""
    ngroups = rng.choice([1, 1, 1, 1, 2, 2, 3, 4])
    mixed = rng.random() < 0.3
    z = rng.choice(DIGIT_ZEROS)
    groups = []
    for _ in range(ngroups):
        n = rng.choice([1, 1, 1, 2, 2, 3, 5, 8]) if rng.random() < 0.97 else rng.randint(20, MAXDIGITS)
        g = ""
        for _ in range(n):
            if mixed:
                z = rng.choice(DIGIT_ZEROS)
            g += chr(z + rng.randint(0, 9)) if clean or rng.random() < 0.97 else rng.choice(NOT_DECIMAL)
        groups.append(g)
    s = pick(rng, clean, ["_"], ["__", "", " ", "_ ", "\uff3f", "'", ","]).join(groups)
    if not clean:
        r = rng.random()
        if r < 0.05:
            s = "_" + s
        elif r < 0.1:
            s = s + "_"
    return s


def gen_number(rng, clean):
    r = rng.random()
    if r < 0.35:
        return gen_digits(rng, clean, allow_empty=False)
    s = gen_digits(rng, clean)
    if rng.random() < 0.8:
        s += pick(rng, clean, ["."], POINTS) + gen_digits(rng, clean)
    if rng.random() < 0.5:
        s += pick(rng, clean, ["e", "E"], EXPS) + pick(rng, clean, ["", "+", "-"], SIGNS) \
            + gen_digits(rng, clean, allow_empty=not clean)
    return s


def mutate(rng, s, clean):
    k = rng.choice([0, 0, 0, 0, 0, 1] if clean else [0, 0, 1, 1, 2, 3])
    cs = list(s)
    for _ in range(k):
        op = rng.random()
        pos = rng.randint(0, len(cs))
        if op < 0.45 or not cs:
            cs.insert(pos, rng.choice(POOL))
        elif op < 0.7:
            del cs[min(pos, len(cs) - 1)]
        elif op < 0.9:
            cs[min(pos, len(cs) - 1)] = rng.choice(POOL)
        else:
            i = min(pos, len(cs) - 1)
            cs.insert(i, cs[i])
    return "".join(cs)


def gen_random(rng):
    clean = rng.random() < 0.5
    r = rng.random()
    if r < 0.62:
        body = pick(rng, clean, ["", "+", "-"], SIGNS) + gen_number(rng, clean)
    elif r < 0.78:
        body = pick(rng, clean, ["", "+", "-"], SIGNS) + rnd_case(rng, pick(rng, clean, ["inf", "infinity", "nan"], SPECIALS))
    elif r < 0.92:
        body = rnd_case(rng, pick(rng, clean, ["true", "false"], BOOLS))
    else:
        body = "".join(rng.choice(POOL) for _ in range(rng.randint(0, 9)))
    return mutate(rng, gen_ws(rng, clean) + body + gen_ws(rng, clean), clean)


# ---------------------------------------------------------------- Coq side
PRELUDE = """From Coq Require Import List Bool NArith.
From J2M.Model Require Import Base Grammar.
Import ListNotations.
Local Open Scope N_scope.
Fixpoint failing {A} (f : A -> bool) (i : N) (l : list A) : list N :=
  match l with [] => [] | x :: r => if f x then failing f (i + 1) r else i :: failing f (i + 1) r end.
Fixpoint assoc {B} (c : N) (t : list (N * B)) : option B :=
  match t with [] => None | (k, v) :: r => if c =? k then Some v else assoc c r end.
"""


def cps(s):
    return "[" + ";".join(str(ord(c)) for c in s) + "]"


def shard_text(cases):
    chars = sorted({c for s, _ in cases for c in s})
    spaces = [ord(c) for c in chars if c.isspace()]
    digits = [(ord(c), unicodedata.decimal(c)) for c in chars if unicodedata.decimal(c, None) is not None]
    lowers = [(ord(c), c.lower()) for c in chars if c.lower() != c]
    out = [PRELUDE]
    out.append("Definition spaces : list N := [%s]." % ";".join(map(str, spaces)))
    out.append("Definition digits : list (N * N) := [%s]." % ";".join("(%d,%d)" % p for p in digits))
    out.append("Definition lowers : list (N * str) := [%s]." % ";".join("(%d,%s)" % (k, cps(v)) for k, v in lowers))
    out.append("Definition isp (c : N) : bool := existsb (N.eqb c) spaces.")
    out.append("Definition dv (c : N) : option N := assoc c digits.")
    out.append("Definition low (c : N) : str := match assoc c lowers with Some l => l | None => [c] end.")
    out.append("Definition cases : list (str * N) := [")
    out.append(";\n".join("(%s,%d)" % (cps(s), e) for s, e in cases))
    out.append("].")
    out.append("Definition fails (f : str -> bool) (bit : N) : list N :=")
    out.append("  failing (fun x : str * N => Bool.eqb (f (fst x)) (N.testbit (snd x) bit)) 0 cases.")
    out.append("Definition report (l : list N) := (N.of_nat (length l), firstn 10 l).")
    out.append("Eval vm_compute in (N.of_nat (length cases), report (fails (int_ok isp dv) 0), "
               "report (fails (float_ok isp dv) 1), report (fails (float_ok_2pass isp dv) 2), "
               "report (fails (bool_ok low) 3)).")
    return "\n".join(out) + "\n"


RESULT = re.compile(r"=\s*\(\s*(\d+)\s*," + r"\s*,".join([r"\s*\(\s*(\d+)\s*,\s*\[([\d;\s]*)\]\s*\)"] * 4) + r"\s*\)")


def run_shard(args):
    idx, cases, workdir = args
    path = os.path.join(workdir, "GC%04d.v" % idx)
    with open(path, "w") as fh:
        fh.write(shard_text(cases))
    cmd = ["timeout", "900", "coqc", "-Q", MODEL_DIR[0], "J2M.Model", path]
    p = subprocess.run(cmd, capture_output=True, text=True, cwd=workdir)
    if p.returncode != 0:
        return idx, None, "coqc exit %d: %s" % (p.returncode, (p.stderr or p.stdout)[-800:])
    m = RESULT.search(p.stdout)
    if not m:
        return idx, None, "unparsable coqc output: %r" % p.stdout[-800:]
    g = m.groups()
    if int(g[0]) != len(cases):
        return idx, None, "case count mismatch: Coq saw %s of %d" % (g[0], len(cases))
    res = []
    for k in range(4):
        n = int(g[1 + 2 * k])
        first = [int(x) for x in g[2 + 2 * k].replace(" ", "").replace("\n", "").split(";") if x]
        res.append((n, first))
    return idx, res, None


# ---------------------------------------------------------------- (iii) oracle hypotheses of GrammarProps.v
def g_lower(c):
    return c + 32 if 65 <= c <= 90 else c


def norm_c(c):
    ch = chr(c)
    if c < 127:
        return c
    if ch.isspace():
        return 32
    d = unicodedata.decimal(ch, None)
    return 63 if d is None else 48 + d


def g_cspace(c):
    return 9 <= c <= 13 or c == 32


FLOAT_LETTERS = set(map(ord, "eEinfatyINFATY"))


def check_hypotheses():
    """Returns a list of violations of the Section hypotheses used by G3 (expected: empty)."""
    bad = []
    for c in range(0x110000):
        ch = chr(c)
        lo = [ord(x) for x in ch.lower()]
        d = unicodedata.decimal(ch, None)
        if d is not None and not 0 <= d <= 9:
            bad.append(("digit value", hex(c), d))
        a = norm_c(c)
        int_char = g_cspace(a) or 48 <= a <= 57 or a in (43, 45, 95)
        float_char = int_char or a == 46 or a in FLOAT_LETTERS
        # lower_int_chars: characters int() can read never lower-case to something containing 't' or 'f'
        if int_char and (116 in lo or 102 in lo):
            bad.append(("lower_int_chars", hex(c), lo))
        # lower_ascii: below 127 str.lower is Py_TOLOWER
        if c < 127 and lo != [g_lower(c)]:
            bad.append(("lower_ascii", hex(c), lo))
        # lower_float_chars: characters float() can read lower-case to one character: ASCII lower or themselves
        if float_char and lo != [g_lower(c) if c < 127 else c]:
            bad.append(("lower_float_chars", hex(c), lo))
        # the only stripped characters: str.isspace minus U+001C..U+001F
        if g_cspace(a) != (ch.isspace() and not 0x1c <= c <= 0x1f):
            bad.append(("strip_c", hex(c), ch.isspace()))
    return bad


# ---------------------------------------------------------------- main
def ensure_model():
    v = os.path.join(COQ_DIR, "Model", "Grammar.v")
    vo = os.path.join(COQ_DIR, "Model", "Grammar.vo")
    if os.path.exists(vo) and os.path.getmtime(vo) >= os.path.getmtime(v):
        return
    cmd = ["timeout", "900", "coqc", "-Q", "Model", "J2M.Model", "-Q", "Sem", "J2M.Sem", "-Q", "Gen", "J2M.Gen",
           "-Q", "Proofs", "J2M.Proofs", "-Q", "Props", "J2M.Props", "-Q", "Views", "J2M.Views", "Model/Grammar.v"]
    p = subprocess.run(cmd, cwd=COQ_DIR, capture_output=True, text=True)
    if p.returncode != 0:
        sys.exit("cannot compile Model/Grammar.v: " + p.stderr[-800:])


def main():
    ap = argparse.ArgumentParser()
    ap.add_argument("--random", type=int, default=24000)
    ap.add_argument("--seed", type=int, default=1)
    ap.add_argument("--jobs", type=int, default=8)
    ap.add_argument("--keep", default=None, help="keep the generated .v files in this directory")
    ap.add_argument("--model", default=None, help="directory with compiled Base.vo/Grammar.vo (mutation testing)")
    a = ap.parse_args()
    jobs = max(1, min(8, a.jobs))
    assert sys.version_info[:2] == (3, 12), "validated against CPython 3.12"
    assert MAXDIGITS * 4 < sys.get_int_max_str_digits()
    if a.model:
        MODEL_DIR[0] = a.model
    else:
        ensure_model()

    exhaustive = ["".join(t) for n in range(5) for t in itertools.product(ALPHA, repeat=n)]
    rng = random.Random(a.seed)
    rand = [gen_random(rng) for _ in range(a.random)]
    assert all(sum(c.isdigit() for c in s) < sys.get_int_max_str_digits() for s in rand)
    shards = []
    for i in range(0, len(exhaustive), 2000):
        shards.append([(s, expected(s)) for s in exhaustive[i:i + 2000]])
    for i in range(0, len(rand), 1000):
        shards.append([(s, expected(s)) for s in rand[i:i + 1000]])

    hyp_bad = check_hypotheses()

    if a.keep:
        os.makedirs(a.keep, exist_ok=True)
        workdir, tmp = a.keep, None
    else:
        tmp = tempfile.TemporaryDirectory(prefix="valgrammar")
        workdir = tmp.name
    with ThreadPoolExecutor(max_workers=jobs) as ex:
        results = list(ex.map(run_shard, [(i, sh, workdir) for i, sh in enumerate(shards)]))
    if tmp is not None:
        tmp.cleanup()

    errors = [(i, e) for i, r, e in results if e]
    disagree = {k: [] for k in range(4)}
    total_bad = [0, 0, 0, 0]
    for i, r, e in results:
        if r is None:
            continue
        for k in range(4):
            total_bad[k] += r[k][0]
            for j in r[k][1]:
                s, exp = shards[i][j]
                disagree[k].append((s, bool(exp >> k & 1)))
    allcases = [c for sh in shards for c in sh]
    n = len(allcases)
    ni = sum(1 for _, e in allcases if e & 1)
    nf = sum(1 for _, e in allcases if e & 2)
    nb = sum(1 for _, e in allcases if e & 8)
    nstrict = sum(1 for _, e in allcases if e & 1 and not e & 2)
    distinct = len({s for s, _ in allcases})
    if errors or any(total_bad) or hyp_bad or nstrict:
        print("validate_grammar: FAILED")
        for i, e in errors[:5]:
            print("  shard %d: %s" % (i, e))
        for k in range(4):
            if total_bad[k]:
                print("  %s disagrees with CPython on %d strings; first:" % (CHECKS[k], total_bad[k]))
                for s, exp in disagree[k][:15]:
                    print("    %r  %s  CPython=%s Coq=%s" % (s, [hex(ord(c)) for c in s], exp, not exp))
        if nstrict:
            print("  FINDING: CPython int() accepts but float() rejects %d strings; first:" % nstrict)
            for s, e in [c for c in allcases if c[1] & 1 and not c[1] & 2][:15]:
                print("    %r" % s)
        for b in hyp_bad[:15]:
            print("  oracle hypothesis violated:", b)
        sys.exit(1)
    print("validate_grammar: OK  %d strings (%d distinct; %d exhaustive len<=4 over %d chars + %d random, seed %d) in %d "
          "shards; CPython accepts int %d, float %d, bool %d; int-but-not-float 0; 0 disagreements for %s; "
          "oracle hypotheses hold on all 0x110000 code points"
          % (n, distinct, len(exhaustive), len(ALPHA), len(rand), a.seed, len(shards), ni, nf, nb, ", ".join(CHECKS)))


if __name__ == "__main__":
    main()
