#!/venv/bin/python
"""tools/mkprops.py OUT.v "header text" name1=Module.lemma1 name2=Module.lemma2 ...
Writes a Props file whose theorems restate (via Check) the given lemmas and close them with `exact`."""
import re, subprocess, sys, os
sys.path.insert(0, os.path.dirname(os.path.dirname(os.path.abspath(__file__))))
from harness import common
out, header, imports = sys.argv[1], sys.argv[2], sys.argv[3]
pairs = [a.split("=", 1) for a in sys.argv[4:]]
src = imports + "\nSet Printing Width 110. Set Printing Depth 10000.\n" + "".join(f'Check {l}.\nGoal True. idtac "@@END". exact I. Qed.\n' for _, l in pairs)
open("/verif/build/mkprops_tmp.v", "w").write(src)
r = subprocess.run(["coqc"] + common.coq_flags() + ["/verif/build/mkprops_tmp.v"], capture_output=True, text=True)
if r.returncode: print(r.stderr[-2000:]); sys.exit(1)
chunks = r.stdout.split("@@END")
body = header + "\n" + imports + "\n\n"
for (name, lemma), ch in zip(pairs, chunks):
    ch = ch.strip()
    m = re.match(r"^\S+\s*\n?\s*:\s*(.*)$", ch, re.S)
    ty = m.group(1).strip()
    body += f"Theorem {name} :\n  {ty}.\nProof. exact {lemma}. Qed.\n\n"
open(out, "w").write(body)
print(body[-3000:])
