#!/venv/bin/python
"""tools/design13.py — rewrites the generated tables of DESIGN.md section 13 (between the BEGIN/END GENERATED markers):
theorem inventory per Props file, defect list from known_findings.json, seeded changes from seeded/*/meta.json."""
import json, os, re, sys
VERIF = os.path.dirname(os.path.dirname(os.path.abspath(__file__)))
sys.path.insert(0, VERIF)
from harness import common


def inventory():
    tot = {}
    for d in ("Model", "Sem", "Proofs", "Props", "Views", "Gen"):
        p = os.path.join(common.COQ, d)
        tot[d] = (sum(1 for f in os.listdir(p) if f.endswith(".v")),
                  sum(sum(1 for _ in open(os.path.join(p, f))) for f in os.listdir(p) if f.endswith(".v")))
    out = ["| directory | files | lines |", "|---|---|---|"]
    for d, (n, l) in tot.items():
        out.append(f"| `coq/{d}` | {n} | {l} |")
    out.append(f"| total | {sum(n for n, _ in tot.values())} | {sum(l for _, l in tot.values())} |")
    out += ["", "| property | theorems in `coq/Props` (each closed by `exact`, `Print Assumptions` run on every check) |", "|---|---|"]
    for f in sorted(os.listdir(os.path.join(common.COQ, "Props"))):
        if f.endswith(".v"):
            names = common.theorems_of("Props/" + f)
            out.append(f"| {f[:-2]} | {len(names)}: " + ", ".join(n.split("_", 1)[1] for n in names) + " |")
    return "\n".join(out)


def defects():
    d = json.load(open(os.path.join(VERIF, "known_findings.json")))
    by = {}
    for f in d["findings"]:
        e = by.setdefault(f["id"], {"props": [], "status": f["status"], "commit": f.get("commit", ""), "desc": f.get("description", "")})
        if f["property"] not in e["props"]:
            e["props"].append(f["property"])
    key = lambda k: (int(re.sub(r"\D", "", k)), k)
    out = ["| id | properties | status | what fails |", "|---|---|---|---|"]
    for k in sorted(by, key=key):
        e = by[k]
        st = f"fixed `{e['commit']}`" if e["status"] == "fixed" else "known finding"
        out.append(f"| {k} | {' '.join(sorted(e['props']))} | {st} | {e['desc'][:260].replace('|', '/').replace(chr(10), ' ')} |")
    return "\n".join(out)


def seeded():
    out = ["| seeded change | property | demo (orig / patched) | suite with patch | caught by (quick tier) | how |", "|---|---|---|---|---|---|"]
    sd = os.path.join(VERIF, "seeded")
    for name in sorted(os.listdir(sd)):
        mp = os.path.join(sd, name, "meta.json")
        if not os.path.exists(mp):
            continue
        m = json.load(open(mp))
        how = []
        for c, r in m.get("checks", {}).items():
            if r["exit"] != 0:
                v = r["violations"][0] if r["violations"] else ""
                how.append(f"{c}: " + ("broken obligation / tie (no-failing-input-found)" if "no-failing-input-found" in v else "failing input replayed"))
        missed = [c for c, r in m.get("checks", {}).items() if r["exit"] == 0]
        how = []
        for c, r in m.get("checks", {}).items():
            if r["exit"] != 0:
                wit = any("no-failing-input-found" not in v for v in r["violations"])
                how.append(f"{c}: " + ("failing input replayed" if wit else "broken obligation / tie (no-failing-input-found)"))
        note = " — OBSOLETE: harmless on the current tree (demo passes)" if m.get("obsolete") else ""
        out.append(f"| `{name}` | {m['property']} | {m.get('demo_on_original')} / {m.get('demo_with_patch')} | {m.get('suite_with_patch', '')[:24]} | "
                   f"{', '.join(m.get('caught_by', [])) or '**none**'} | {'; '.join(how)}" + (f" (also run, silent: {', '.join(missed)})" if missed else "") + note + " |")
    return "\n".join(out)


GEN = {"inventory": inventory, "defects": defects, "seeded": seeded}
p = os.path.join(VERIF, "DESIGN.md")
s = open(p).read()
for k, fn in GEN.items():
    a, b = f"<!-- BEGIN GENERATED {k} -->", f"<!-- END GENERATED {k} -->"
    if a in s:
        i, j = s.index(a) + len(a), s.index(b)
        s = s[:i] + "\n" + fn() + "\n" + s[j:]
open(p, "w").write(s)
print("DESIGN.md tables refreshed")
