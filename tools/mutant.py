#!/venv/bin/python
"""tools/mutant.py <name> <dir-with-patch.diff-and-demo.py> <property> [checks...]
Confirms a seeded change (applies to /repo, demo passes without / fails with it, suite passes with it), runs the named
checks against it, undoes it, and stores it under /verif/seeded/<name>/ with meta.json."""
import json, os, shutil, subprocess, sys, time
VERIF = os.path.dirname(os.path.dirname(os.path.abspath(__file__)))
name, src, prop = sys.argv[1], sys.argv[2], sys.argv[3]
checks = sys.argv[4:] or [prop]
PY = "/venv/bin/python"
env = dict(os.environ, PYTHONPATH="/repo", PYTHONHASHSEED="0")

def sh(cmd, **kw):
    return subprocess.run(cmd, shell=isinstance(cmd, str), capture_output=True, text=True, **kw)

assert sh("git -C /repo status --porcelain").stdout.strip() == "", "/repo is not clean"
patch = os.path.join(src, "patch.diff")
demo = os.path.join(src, "demo.py")
meta = {"name": name, "property": prop, "ran": []}
r = sh([PY, demo], env=env, cwd=src, timeout=600)
meta["demo_on_original"] = r.returncode
print("demo on original tree: exit", r.returncode)
ap = sh(f"git -C /repo apply {patch}")
if ap.returncode:
    print("patch does not apply:", ap.stderr); sys.exit(2)
try:
    r = sh([PY, demo], env=env, cwd=src, timeout=600)
    meta["demo_with_patch"] = r.returncode
    print("demo with patch: exit", r.returncode, (r.stdout + r.stderr).strip().split("\n")[-1][:200])
    t = sh(f"cd /repo && {PY} -m pytest -q -p no:cacheprovider -n 8 2>&1 | tail -1", timeout=1800)
    meta["suite_with_patch"] = t.stdout.strip()
    print("suite with patch:", t.stdout.strip())
    results = {}
    for c in checks:
        t0 = time.time()
        rr = sh([os.path.join(VERIF, "check"), c, "--tier", "quick"], cwd=VERIF, timeout=3600)
        lines = [l for l in rr.stdout.split("\n") if l.startswith("VIOLATION") or l.startswith(c + ":")]
        results[c] = {"exit": rr.returncode, "violations": [l for l in lines if l.startswith("VIOLATION")][:3], "summary": lines[-1] if lines else rr.stdout[-300:], "wall_s": round(time.time() - t0, 1)}
        print(f"check {c}: exit {rr.returncode}", results[c]["summary"])
        for v in results[c]["violations"][:2]:
            print("   ", v)
            p = v.split("replay=")[1].split()[0]
            try:
                print("      ", json.load(open(p)).get("note", json.load(open(p)).get("broken", ""))[:300])
            except Exception as e:
                pass
    meta["checks"] = results
finally:
    sh("git -C /repo checkout -- .")
    assert sh("git -C /repo status --porcelain").stdout.strip() == "", "/repo not restored"
dst = os.path.join(VERIF, "seeded", name)
os.makedirs(dst, exist_ok=True)
if os.path.abspath(src) != os.path.abspath(dst):
    shutil.copy(patch, os.path.join(dst, "patch.diff"))
    shutil.copy(demo, os.path.join(dst, "demo.py"))
    if os.path.exists(os.path.join(src, "notes.md")):
        shutil.copy(os.path.join(src, "notes.md"), os.path.join(dst, "notes.md"))
meta["needs"] = open(os.path.join(src, "notes.md")).read()[:1500] if os.path.exists(os.path.join(src, "notes.md")) else ""
meta["caught_by"] = [c for c, r in meta.get("checks", {}).items() if r["exit"] != 0]
# first violation of every check that carries a failing input (not a broken tie only)
meta["witness_by"] = [c for c, r in meta.get("checks", {}).items() if any("no-failing-input-found" not in v for v in r["violations"])]
if meta.get("demo_with_patch") == 0:
    meta["obsolete"] = ("the demonstration passes with the patch on the current tree: a later repair of /repo made this change harmless; "
                        "a check that still reports it does so through a broken tie only")
json.dump(meta, open(os.path.join(dst, "meta.json"), "w"), indent=1)
print("caught by:", meta["caught_by"])
