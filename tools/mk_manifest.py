#!/venv/bin/python
"""Writes /verif/MANIFEST.json from the table below (kept in one place so that it stays valid)."""
import json
import os

VERIF = os.path.dirname(os.path.dirname(os.path.abspath(__file__)))
CLAIMED = {
    "C08": dict(
        text="Theorems about the Gallina model of DUnion construction / merge_field_sets / optimize_type (Props/C08.v: "
             "normal form of every optimised raw term, second pass is the identity), tied to the code by the exact "
             "(ordered) correspondence views X-infer and X-union — the latter exhaustive over every multiset of <=3 members "
             "of a 35-type universe — and by the executable statement of the property run on the implementation.",
        note="Model = coq/Model/{Base,Union,Merge,Optimize,Detect}.v evaluated inside coqc; Python == on metadata and hash-string "
             "caches are abstracted (DESIGN 3.2, 9); oracles: string-type parsers.",
        technique="Coq proof over an executable model + differential correspondence (vm_compute) + property oracle",
        design="6 (C08)"),
}
ALL = ["C%02d" % i for i in range(1, 20)]
NOT_YET = "check not built yet in this revision (work in progress; the property is in scope of the method — see DESIGN.md section 6)"

m = {
    "version": 1,
    "setup_cmd": "./setup.sh",
    "hooks": {"guard": "J2M_VERIF", "enable": "no source hooks are needed: every observable is reached through the public API or a subprocess",
              "baseline_off_cmd": "cd /repo && /venv/bin/python -m pytest -q -p no:cacheprovider", "source_commits": [], "add_only": True},
    "engines": [{"name": "coq-model", "path": "coq/", "serves_properties": sorted(CLAIMED), "kind_free_text": "Coq 8.16.1 proof development + executable model evaluated by vm_compute"},
                {"name": "harness", "path": "harness/", "serves_properties": sorted(CLAIMED), "kind_free_text": "translator (T), correspondence (X), oracle search (S)"}],
    "checks": [],
    "notes": "See DESIGN.md. ./check <ID> --tier quick|thorough; evidence in evidence/<ID>.json; replays in replays/<ID>/.",
    "not_applicable": [],
}
fixes = os.popen("git -C /repo log --format=%H\\ %s 0589c57..HEAD 2>/dev/null").read().strip().splitlines()
m["hooks"]["source_commits"] = [l.split()[0] for l in fixes if l.split(" ", 1)[1].startswith("fix:")]
for pid in ALL:
    if pid in CLAIMED:
        c = CLAIMED[pid]
        m["checks"].append({
            "property_id": pid, "quick_cmd": f"./check {pid} --tier quick", "thorough_cmd": f"./check {pid} --tier thorough",
            "evidence_file": f"evidence/{pid}.json", "replay_cmd_template": f"./check {pid} --replay {{path}}",
            "engine": "coq-model",
            "level_claimed": {"category": "proof", "text": c["text"], "design_ref": c["design"]},
            "level_note": c["note"], "technique": c["technique"]})
    else:
        m["not_applicable"].append({"property_id": pid, "reason": NOT_YET})
json.dump(m, open(os.path.join(VERIF, "MANIFEST.json"), "w"), indent=1)
print("claimed:", sorted(CLAIMED))
