#!/venv/bin/python
"""Writes /verif/MANIFEST.json from the table below (kept in one place so that it stays valid)."""
import json
import os

VERIF = os.path.dirname(os.path.dirname(os.path.abspath(__file__)))
COMMON_NOTE = ("Model = coq/Model/*.v, hand-written, evaluated inside coqc (vm_compute) on the implementation's own inputs; "
               "Python == on metadata and hash-string caches are abstracted (DESIGN 3.2, 9); oracles: string-type parsers, re, "
               "per-character Unicode tables, singularize; last mile judged by CPython / pydantic.v1 / attrs / dataclasses.")
TECH = "Coq proof over an executable Gallina model + translator-regenerated definitions + differential correspondence + property oracle"


def C(text, design, note=COMMON_NOTE, technique=TECH):
    return dict(text=text, design=design, note=note, technique=technique)


CLAIMED = {
    "C01": C("Theorems (Props/C01.v): pipeline_sound — for EVERY list of well-formed samples, registry, sound replacement table, dict "
             "decision, similarity oracle and fuel on which generate, process_root and merge_models succeed, every sample is admitted "
             "by the final root model in the final graph, cyclic merged graphs included (induction on the size of the value); stage "
             "theorems for detect, mk_union, merge_field_sets, optimize, generate, proc, ptr_eq_g, opt_model, merge_group, "
             "merge_models; the liberal reading of Any is refuted at the two places where it fails. The model is tied by X-infer, "
             "X-registry (graphs and replacement lists) and X-emit (bytes); acceptance by the loaded classes (pydantic parse_obj / "
             "structural validator over evaluated annotations) is judged by the oracle on every case, including one targeted case "
             "per registered replace pair: partial only in that last mile.", "6 (C01)"),
    "C05": C("Theorems (Props/C05.v): the group-closure loop yields exactly the connected components of the comparator's answers and "
             "terminates within its fuel; merged models have the union of their members' keys; untouched models keep index, name and "
             "keys; the replacement list matches; every reference stays registered (closed graph invariant through process_meta_data, "
             "_merge, merge_models). Comparator bodies are regenerated from registry.py (Gen/Cmp.v) and proved equal to the model's. "
             "X-registry is exhaustive over all similarity graphs on <=5 (quick) / <=6 (thorough) models.", "6 (C05)"),
    "C08": C("Theorems (Props/C08.v): every result of generate() is in the ordered normal form (generate_nfo, no hypothesis), a second "
             "simplification pass is the identity and never fails; optimize on raw terms yields nfo and is the identity on nfo terms; "
             "REGISTRY stage (pipeline_nfo): for every successful run generate -> process_root -> merge_models every model of the "
             "final registry is in ordered normal form and a further pass that succeeds returns the same graph (not proved: that "
             "such a pass never exhausts the model's fuel); the second pass of merge_models is shown load-bearing by a concrete run. "
             "Tied by the exact (ordered) views X-infer, X-registry and X-union — the latter exhaustive over every multiset of <=3 "
             "members of a 35-type universe — and by the executable statement run on the implementation's final registries.", "6 (C08)"),
    "C09": C("Theorems (Props/C09.v): first-match detection in registration order (iff); resolve keeps a type covering every member "
             "under sound+acyclic replace pairs (refuted for cyclic pairs); disabled types never appear in generate() output; explicit "
             "recognisers of what int() / float() / the boolean rule accept, with int_ok_float_ok (EVERY string int() accepts, float() "
             "accepts) discharging the soundness premise for the replacement table regenerated from the source (Gen/StrReg.v), so the "
             "resolution theorem holds premise-free for the shipped registry. The recognisers are tied to the package's IntString / "
             "FloatString / BooleanString on all strings of length <=4 over 16 characters plus structured random ones (X-grammar). "
             "parse/render/parse round trips of float and date/time VALUES are oracle-only (CPython dtoa, dateutil): partial.", "6 (C09)"),
    "C10": C("Theorems (Props/C10.v): the overflow rule (<=15 literals, each < 20 chars) regenerated from complex.py equals the model's; "
             "DUnion keeps exactly one literal holding exactly the observed plain strings iff no str member, no overflowed literal and "
             "the folded set does not overflow, otherwise str; render limit (len < max, 0 or attrs => never); the printed Literal "
             "annotation reads back (parser of the annotation language) as EXACTLY the literal set, a hidden set as str. Annotation "
             "bytes tied by X-emit; evaluated annotations of the loaded module judged by the oracle over the boundary stream "
             "(set sizes 1..17 x lengths 19/20/21 x limits x repetition of the strings).", "6 (C10)"),
    "C03": C("Theorems (Props/C03.v): every Python keyword is blacklisted and the '_' suffix escapes the blacklist (tables regenerated "
             "from models/base.py and the interpreter); after generate_names every model has a name and names are pairwise distinct "
             "(premise: no empty explicit name, shown necessary), first holders / unique names / indices / fields unchanged, the code "
             "before the D33 repair refuted; in the flat layout of a closed graph every model reference targets exactly one placed, "
             "uniquely named class. Model of generate_names tied by X-names(registry), the emitter byte-for-byte by X-emit (also "
             "where the implementation raises); that CPython compiles, executes and resolves every annotation of the emitted text is "
             "judged by the oracle (compile + exec + get_type_hints with the class scope chain): partial.", "6 (C03)"),
    "C04": C("Theorems (Props/C04.v): per generator, the field body holds a default exactly when the field is optional ([] / {} / "
             "None; list / dict factories), alias=json(key) exactly when the label differs from the key; parse_print: for EVERY type, "
             "style and name table, reading the annotation text print_ty printed with a parser of the annotation language gives back "
             "denote t (the specified syntax tree) and consumes nothing else; denote_injective states exactly what a style erases. "
             "print_ty = metadata_to_typing and parse_ann = CPython's ast.parse on printed texts (X-ann), class bytes by X-emit; the "
             "EVALUATED annotations, attached keys and defaults of the loaded classes are compared field by field with an "
             "independent rendering of the registry by the oracle (typing's normalisation is runtime): partial.", "6 (C04)"),
    "C11": C("Theorems (Props/C11.v): labels of keys that differ after folding are distinct (label_injective over label_fold), a "
             "label is never blacklisted, starts with a letter or underscore, None exactly for keys without a word character, "
             "conversion is idempotent; table links. prepare_label / underscore / camelize are tied by X-names on wide-alphabet keys, "
             "generate_names by X-names(registry), alias / metadata literals by X-emit; distinctness and recoverability judged on the "
             "loaded field tables: partial (unidecode / str.lower / re are oracles whose premises are checked over every code point).",
             "6 (C11)"),
    "C12": C("Model of compose_models / compose_models_flat / extract_root / PositionsDict validated on both layouts of every explored "
             "registry (X-layout, exact). Theorems (Props/C12.v): the flat layout is a permutation of the models placing each exactly "
             "once, roots first; on tree-shaped graphs the nested layout is a permutation too, every non-root class sits inside the "
             "class that references it, children in reference order; both layouts hold the same models. The oracle compares both "
             "emitted modules class by class on tree-shaped graphs and checks flat completeness on all inputs.", "6 (C12)"),
    "C13": C("Theorems (Props/C13.v): an object is detected as Dict iff it is empty, or the direct value of a named field, or all keys "
             "match one regex (dict_decision_iff); otherwise a model with exactly its keys; element/values of containers are never "
             "affected by the field option; Dict value type = union of the value types. Regex matching itself is an oracle (re); the "
             "command-line anchoring is judged against re.fullmatch by the oracle: partial.", "6 (C13)"),
    "C14": C("Theorems (Props/C14.v): the package has exactly two state-carrying module/class-level objects (regenerated scan of every "
             "module- and class-level assignment and of their writers, fail-closed); class-name conversion — the only thing rendering "
             "writes into a registry — is idempotent; the context slot is restored by every render, also one left by an exception; a "
             "render that raised after converting k names changes nothing for later renders. X-hist: every sequence of <=3 (quick) / "
             "<=4 (thorough) calls over generations, renders on shared registries, failing renders and default-registry mutations, "
             "each call compared with the same call in a fresh process.", "6 (C14)"),
    "C15": C("Theorems (Props/C15.v): for EVERY interleaving of Enter/Exit/Read events whose context objects are thread-owned, what a "
             "thread reads from the thread-local context slot is what it reads when run alone (C15_noninterference); a read in a "
             "thread that never entered is defined; nested renders restore. Byte-code atomicity, the GIL, Jinja's and re's caches are "
             "not modelled: real threads under a minimal switch interval are compared with solo runs (X-thread), and two pipelines "
             "are run under FORCED schedules by a cooperative scheduler (X-sched: one thread stopped at its j-th constructor / "
             "generate() entry while the other runs to its end) — deterministic, replayable. Partial by nature.",
             "6 (C15)"),
    "C16": C("Theorems (Props/C16.v): defaults regenerated from the argparse declarations equal the documented ones; list documents "
             "contribute their elements, objects themselves, dotted lookups unfold key by key; splitting documents over arguments or a "
             "list over files does not change the assembled samples; per name the samples are the concatenation in argument order "
             "(all -m before all -l). 'stdout after the header = library result' is a correspondence over fresh subprocesses: partial.",
             "6 (C16)"),
    "C17": C("Theorems (Props/C17.v): the effect order regenerated from cli.py:main / parse_args / run satisfies atomicb; for ALL fault "
             "schedules an atomic list leaves the output file and stdout untouched on failure and writes / prints exactly the built "
             "text on success; opening before generating is refuted. The fault enumeration (21 kinds x 4 positions x with/without an "
             "existing file, with and without -o) runs completely in both tiers. Failures inside write(), signals: not modelled.",
             "6 (C17)"),
    "C19": C("Theorems (Props/C19.v): whatever argv contains, the header (template regenerated from cli.py) is exactly one raw "
             "triple-quoted literal followed by the module text (header_is_one_string; the unrepaired header is refuted); "
             "py_unescape (json.dumps(s, ensure_ascii=False)) = s and py_unescape (repr s) = s for every string; an empty or "
             "whitespace-only preamble is dropped. The tokenizer model is compared with CPython (ast) on every CLI output of the run.",
             "6 (C19)"),
    "C02": C("Theorems (Props/C02.v): tightb (Sem/Tight.v) is the decidable statement of the property (evidence per union member, "
             "element type, Optional, Literal string, Any); generate_tight: for EVERY non-empty list of well-formed samples, registry, "
             "replacement table, dict decision and fuel on which generate succeeds, the result is tight for those samples (both "
             "premises shown necessary); generate_tight2, the sharper statement: str appears only with a REASON among the observed "
             "strings (a long plain string, more than 15 distinct plain strings, or two different detected pseudo-types), each "
             "reason shown necessary, a premature overflow rejected. The registry stages after generate are not under the theorem: "
             "the statement is evaluated on the model for every case (Vtight), the model is tied by X-infer, and the implementation's "
             "final registry is judged position by position by the oracle (same str rule): partial.",
             "6 (C02)"),
    "C06": C("The model is a function, so determinism reduces to the set-iteration sites: the translator enumerates every iteration "
             "site of the package and fails on one that is not in the reviewed table (237 sites, 40 over sets, each with the reason "
             "why the order cannot reach the output); order-independence lemmas are merged from Proofs/OrderIndep.v. CPython's set "
             "layout is over-approximated by 'any permutation'; hash-string caches are assumed transparent. X-seeds: fresh processes "
             "under 8 / 64 PYTHONHASHSEED values, bodies compared byte for byte: partial.", "6 (C06)"),
    "C07": C("Theorems (Props/C07.v): generate_perm_dup, unconditional: for sample lists equal as sets (any permutation, any "
             "repetition) and every registry / replacement table / dict decision / fuel on which both runs succeed, the results of "
             "generate are equal up to field and member order (sem_eqb, decided by canon). The registry stages (merge_models) are not "
             "under the theorem: the model statement is evaluated for every case of the run (Vperm) and the oracle compares "
             "canonical registries (colour refinement) over all permutations of <=4 samples and duplications, after merge_models, "
             "under several merge policies; the model of Python == on metadata (order sensitive on same-key-set dicts) is proved equal "
             "to the sorted element-wise comparison and tied to the implementation by X-pyeq: partial.", "6 (C07)"),
    "C18": C("Theorems (Props/C18.v): on a value that inhabits its annotation the post-init converter (model of "
             "_process_string_field_value / get_string_field_paths, Model/Converters.v) never raises and returns exactly the "
             "specification convert_spec (parsed at pseudo-typed leaves, null kept, lists and mappings mapped); post_init keeps key "
             "order, converts every field with a path, leaves the others untouched; the code before the D13 repair is refuted. Tied "
             "by X-conv on every sample object of the run. The attrs / dataclasses constructors themselves are runtime: the oracle "
             "constructs the generated classes from their samples and compares every field with an independent conversion: partial.",
             "6 (C18)"),
}
ALL = ["C%02d" % i for i in range(1, 20)]
NOT_YET = "check not built yet in this revision (work in progress; the property is in scope of the method — see DESIGN.md section 6)"

m = {
    "version": 1,
    "setup_cmd": "./setup.sh",
    "hooks": {"guard": "J2M_VERIF", "enable": "no source hooks are needed: every observable is reached through the public API or a subprocess",
              "baseline_off_cmd": "cd /repo && /venv/bin/python -m pytest -q -p no:cacheprovider", "source_commits": [], "add_only": True},
    "engines": [{"name": "coq-model", "path": "coq/", "serves_properties": sorted(CLAIMED), "kind_free_text": "Coq 8.16.1 proof development + executable model evaluated by vm_compute"},
                {"name": "harness", "path": "harness/", "serves_properties": sorted(CLAIMED), "kind_free_text": "translator (T), correspondence (X), oracle search (S)"}],
    "checks": [],
    "notes": "See DESIGN.md. ./check <ID> --tier quick|thorough; evidence in evidence/<ID>.json; replays in replays/<ID>/.",
    "not_applicable": [],
}
fixes = os.popen("git -C /repo log --format=%H\\ %s 0589c57..HEAD 2>/dev/null").read().strip().splitlines()
# no hook commits exist; the unguarded "fix:" commits are not hooks: they are listed in known_findings.json and in notes
m["notes"] += " Unguarded fix: commits in /repo (recorded as fixed in known_findings.json): " + ", ".join(
    l.split()[0][:7] for l in fixes if l.split(" ", 1)[1].startswith("fix:")) + "."
for pid in ALL:
    if pid in CLAIMED:
        c = CLAIMED[pid]
        m["checks"].append({
            "property_id": pid, "quick_cmd": f"./check {pid} --tier quick", "thorough_cmd": f"./check {pid} --tier thorough",
            "evidence_file": f"evidence/{pid}.json", "replay_cmd_template": f"./check {pid} --replay {{path}}",
            "engine": "coq-model",
            "level_claimed": {"category": "proof", "text": c["text"], "design_ref": c["design"]},
            "level_note": c["note"], "technique": c["technique"]})
    else:
        m["not_applicable"].append({"property_id": pid, "reason": NOT_YET})
json.dump(m, open(os.path.join(VERIF, "MANIFEST.json"), "w"), indent=1)
print("claimed:", sorted(CLAIMED))
