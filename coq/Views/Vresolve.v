(* Views/Vresolve.v — X-strtypes: StringSerializableRegistry.resolve on every subset, and detection order. *)
From Coq Require Import List Bool Arith NArith.
From J2M.Model Require Import Base Union Merge Optimize Detect.
Import ListNotations.
Record case := {
  c_registry : list pseudo; c_replaces : list (pseudo * pseudo);
  c_types : list pseudo;            (* arguments of resolve *)
  c_resolved : list pseudo;         (* resulting set *)
  c_string : str; c_accepted_by : list pseudo;   (* one string and the registered types that accept it *)
  c_detected : option pseudo;       (* what _detect_type answers for it (None = plain string) *)
}.
Definition pset_eqb (a b : list pseudo) := forallb (fun x => pmem x b) a && forallb (fun x => pmem x a) b.
Definition agree (c : case) : bool :=
  pset_eqb (resolve (c_replaces c) (S (length (c_types c))) (c_types c)) (c_resolved c) &&
  match detect_str (c_registry c) (fun p _ => pmem p (c_accepted_by c)) (c_string c), c_detected c with
  | TPseudo p, Some q => pseudo_eqb p q
  | TLit _ _, None => true
  | _, _ => false
  end.
Definition report (cs : list case) : nat * nat * list nat :=
  let bad := map fst (filter (fun ic => negb (agree (snd ic))) (combine (seq 0 (length cs)) cs)) in
  (length cs, length bad, firstn 20 bad).
