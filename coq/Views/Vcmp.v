(* Views/Vcmp.v — X-cmp: ModelRegistry._models_cmp_fn on key sets vs Model.Cmp.models_cmp *)
From Coq Require Import List Bool Arith NArith.
From J2M.Model Require Import Base Cmp.
Import ListNotations.
Record case := { c_policy : list cmp_spec; c_a : list str; c_b : list str; c_expected : option bool }.
Definition obool_eqb (a b : option bool) := match a, b with Some x, Some y => Bool.eqb x y | None, None => true | _, _ => false end.
Definition agree (c : case) : bool := obool_eqb (models_cmp (c_policy c) (c_a c) (c_b c)) (c_expected c).
Definition report (cs : list case) : nat * nat * list nat :=
  let bad := map fst (filter (fun ic => negb (agree (snd ic))) (combine (seq 0 (length cs)) cs)) in
  (length cs, length bad, firstn 20 bad).
