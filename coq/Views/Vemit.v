(* Views/Vemit.v — X-emit: generate_code bytes vs Model.Emit.generate_code fed with the implementation's own registry
   and structure.  Blacklist / ones come from Gen/Labels.v (regenerated from the source). *)
From Coq Require Import List Bool Arith NArith.
From J2M.Model Require Import Base Framework Label Emit.
From J2M.Gen Require Labels.
Import ListNotations.

Record case := {
  c_unidecode : list (N * str);
  c_word : list (N * bool);
  c_decimal : list (N * bool);
  c_lower : list (N * str);
  c_upper : list (N * str);
  c_printable : list (N * bool);
  c_fw : framework; c_maxlit : nat; c_conv : bool; c_cu : bool; c_meta : bool;
  c_models : list (N * option str * fields);     (* registry before rendering: index, name, fields *)
  c_root : list node;
  c_ctx : list (N * N);
  c_preamble : option str;
  c_expected : option str;                         (* None = generate_code raised *)
  c_names_after : list (N * option str);           (* model names after rendering (rendering renames models) *)
}.
Fixpoint lookN {A} (d : A) (k : N) (l : list (N * A)) : A :=
  match l with [] => d | (k', v) :: r => if N.eqb k k' then v else lookN d k r end.
Definition run_model (c : case) : option (str * ntab) :=
  let uni k := lookN [k] k (c_unidecode c) in
  let word k := lookN false k (c_word c) in
  let dec k := lookN false k (c_decimal c) in
  let low k := lookN [k] k (c_lower c) in
  let upp k := lookN [k] k (c_upper c) in
  let prt k := lookN true k (c_printable c) in
  let o := {| o_fw := c_fw c; o_maxlit := c_maxlit c; o_conv := c_conv c; o_cu := c_cu c; o_meta := c_meta c |} in
  let fields_of m := lookN None m (map (fun x => (fst (fst x), Some (snd x))) (c_models c)) in
  let ctx m := lookN None m (map (fun x => (fst x, Some (snd x))) (c_ctx c)) in
  let nt := map (fun x => (fst (fst x), snd (fst x))) (c_models c) in
  generate_code uni word dec low prt Labels.blacklist Labels.ones ctx fields_of o (c_root c) nt (c_preamble c).
Definition ostr_eqb (a b : option str) := match a, b with Some x, Some y => str_eqb x y | None, None => true | _, _ => false end.
Definition agree (c : case) : bool :=
  match run_model c, c_expected c with
  | Some (txt, nt), Some e => str_eqb txt e && forallb (fun kv => ostr_eqb (nt_get nt (fst kv)) (snd kv)) (c_names_after c)
  | None, None => true
  | _, _ => false
  end.
Definition report (cs : list case) : nat * nat * list nat :=
  let bad := map fst (filter (fun ic => negb (agree (snd ic))) (combine (seq 0 (length cs)) cs)) in
  (length cs, length bad, firstn 20 bad).
