(* Views/Vconv.v — X-conv: _process_string_field_value on (path, sample value, annotation) of generated classes vs Model.run_path,
   and get_string_field_paths vs Model.string_field_paths. *)
From Coq Require Import List Bool Arith NArith ZArith.
From J2M.Model Require Import Base Emit Converters.
From J2M.Views Require Import Vcli.
Import ListNotations.
Record case := {
  c_accepts : list (str * list pseudo);
  c_fields : fields;                                   (* the model's fields *)
  c_paths : option (list (str * str));                 (* get_string_field_paths(model): (key, path tokens); None = it raised *)
  c_obj : list (str * json);                           (* one sample object routed to this model *)
  c_expected : option (list (str * cval));             (* per key: converted value; None = the conversion raised *)
}.
Definition accepts_of (tab : list (str * list pseudo)) (p : pseudo) (s : str) : bool :=
  match lookup s tab with Some l => existsb (pseudo_eqb p) l | None => false end.
Fixpoint cval_eqb (a b : cval) {struct a} : bool :=
  match a, b with
  | VRaw x, VRaw y => json_eqb x y
  | VParsed p s, VParsed q t => pseudo_eqb p q && str_eqb s t
  | VList xs, VList ys => (fix go l1 l2 := match l1, l2 with [], [] => true | x :: r, y :: r' => cval_eqb x y && go r r' | _, _ => false end) xs ys
  | VDict xs, VDict ys => (fix go l1 l2 := match l1, l2 with [], [] => true | (k, x) :: r, (k', y) :: r' => str_eqb k k' && cval_eqb x y && go r r' | _, _ => false end) xs ys
  | _, _ => false
  end.
Definition agree (c : case) : bool :=
  match string_field_paths (c_fields c), c_paths c with
  | Some p, Some e => list_eqb (fun x y => str_eqb (fst x) (fst y) && str_eqb (snd x) (snd y)) p e
  | None, None => true
  | _, _ => false
  end &&
  match post_init (accepts_of (c_accepts c)) (c_fields c) (c_obj c), c_expected c with
  | Some r, Some e => list_eqb (fun x y => str_eqb (fst x) (fst y) && cval_eqb (snd x) (snd y)) r e
  | None, None => true
  | _, _ => false
  end.
Definition report (cs : list case) : nat * nat * list nat :=
  let bad := map fst (filter (fun ic => negb (agree (snd ic))) (combine (seq 0 (length cs)) cs)) in
  (length cs, length bad, firstn 20 bad).
