(* Views/Vinfer.v — X-infer: MetadataGenerator.generate vs Model.generate on the same samples. *)
From Coq Require Import List Bool Arith NArith ZArith.
From J2M.Model Require Import Base Union Merge Optimize Detect Canon.
Import ListNotations.

Record case := {
  c_registry : list pseudo;
  c_replaces : list (pseudo * pseudo);
  c_accepts : list (str * list pseudo);     (* oracle table: which registered types accept each string of the case *)
  c_regex : list (list (str * bool));       (* per regular expression: does it match key k *)
  c_dict_fields : list str;
  c_samples : list (list (str * json));
  c_expected : option fields;               (* implementation: Some fields | None = IndexError *)
}.

Definition accepts_of (tab : list (str * list pseudo)) (p : pseudo) (s : str) : bool :=
  match lookup s tab with Some l => existsb (pseudo_eqb p) l | None => false end.
Definition matches_of (tab : list (list (str * bool))) (i : nat) (k : str) : bool :=
  match lookup k (nth i tab []) with Some b => b | None => false end.

Definition FUEL : nat := 60.
Definition run_model (c : case) : option fields :=
  generate (c_registry c) (c_replaces c) (accepts_of (c_accepts c)) (length (c_regex c)) (matches_of (c_regex c))
           (c_dict_fields c) FUEL (c_samples c).
(* exact = ordered comparison; sem = fields / union members compared as sets *)
Definition agree (exact : bool) (c : case) : bool :=
  match run_model c, c_expected c with
  | None, None => true
  | Some a, Some b => if exact then ty_eqb (TObj a) (TObj b) else sem_eqb (TObj a) (TObj b)
  | _, _ => false
  end.
Definition bad_indices (f : case -> bool) (cs : list case) : list nat :=
  map fst (filter (fun ic => negb (f (snd ic))) (combine (seq 0 (length cs)) cs)).
Definition report_with (exact : bool) (cs : list case) : nat * nat * list nat :=
  let bad := bad_indices (agree exact) cs in (length cs, length bad, firstn 20 bad).
Definition report := report_with true.
