(* Views/Vcli.v — X-cli(assemble): Cli.setup_models_data on parsed documents vs Model.Cli.assemble *)
From Coq Require Import List Bool Arith NArith ZArith.
From J2M.Model Require Import Base Emit Cli.
Import ListNotations.
Record case := { c_models : list marg; c_lists : list marg; c_expected : option (list (str * list json)) }.
Fixpoint json_eqb (a b : json) {struct a} : bool :=
  match a, b with
  | JNull, JNull => true
  | JBool x, JBool y => Bool.eqb x y
  | JInt x, JInt y => Z.eqb x y
  | JFloat x, JFloat y => N.eqb x y
  | JStr x, JStr y => str_eqb x y
  | JArr xs, JArr ys => (fix go l1 l2 := match l1, l2 with [], [] => true | x :: r, y :: r' => json_eqb x y && go r r' | _, _ => false end) xs ys
  | JObj xs, JObj ys => (fix go l1 l2 := match l1, l2 with [], [] => true | (k, x) :: r, (k', y) :: r' => str_eqb k k' && json_eqb x y && go r r' | _, _ => false end) xs ys
  | _, _ => false
  end.
Fixpoint list_eqb {A B} (f : A -> B -> bool) (a : list A) (b : list B) : bool :=
  match a, b with [], [] => true | x :: r, y :: r' => f x y && list_eqb f r r' | _, _ => false end.
Definition agree (c : case) : bool :=
  match assemble (c_models c) (c_lists c), c_expected c with
  | Some d, Some e => list_eqb (fun x y => str_eqb (fst x) (fst y) && list_eqb json_eqb (snd x) (snd y)) d e
  | None, None => true
  | _, _ => false
  end.
Definition report (cs : list case) : nat * nat * list nat :=
  let bad := map fst (filter (fun ic => negb (agree (snd ic))) (combine (seq 0 (length cs)) cs)) in
  (length cs, length bad, firstn 20 bad).
