(* Views/Vunion.v — X-union: DUnion construction and optimize_type on IR terms directly (IR generator, not JSON). *)
From Coq Require Import List Bool Arith NArith ZArith.
From J2M.Model Require Import Base Union Merge Optimize Canon.
Import ListNotations.

Record case := {
  c_registry : list pseudo;
  c_replaces : list (pseudo * pseudo);
  c_members : list ty;
  c_union : list ty;            (* DUnion(members...).types *)
  c_opt1 : option ty;           (* optimize_type(DUnion(members...)) ; None = exception *)
  c_opt2 : option ty;           (* optimize_type applied once more *)
}.
Definition FUEL : nat := 40.
Definition oty_eqb (a b : option ty) := match a, b with Some x, Some y => ty_eqb x y | None, None => true | _, _ => false end.
Definition agree (c : case) : bool :=
  let u := mk_union (c_members c) in
  let o1 := optimize (c_registry c) (c_replaces c) N.eqb FUEL (TUnion u) in
  let o2 := match o1 with Some t => optimize (c_registry c) (c_replaces c) N.eqb FUEL t | None => None end in
  ty_eqb (TUnion u) (TUnion (c_union c)) && oty_eqb o1 (c_opt1 c) && oty_eqb o2 (c_opt2 c).
Definition report (cs : list case) : nat * nat * list nat :=
  let bad := map fst (filter (fun ic => negb (agree (snd ic))) (combine (seq 0 (length cs)) cs)) in
  (length cs, length bad, firstn 20 bad).
