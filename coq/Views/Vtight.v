(* Views/Vtight.v — statement test for C02 (a test of the statement, not a proof): the model's generate() result is tight
   w.r.t. the samples, on the same cases as X-infer. *)
From Coq Require Import List Bool Arith NArith ZArith.
From J2M.Model Require Import Base Union Merge Optimize Detect.
From J2M.Sem Require Import Tight.
From J2M.Views Require Import Vinfer.
Import ListNotations.
Definition case := Vinfer.case.
Definition check (c : case) : bool :=
  match run_model c with
  | Some fs => tightb (accepts_of (c_accepts c)) 40 (map JObj (c_samples c)) false (TObj fs)
  | None => true
  end.
Definition report (cs : list case) : nat * nat * list nat :=
  let bad := bad_indices check cs in (length cs, length bad, firstn 20 bad).
