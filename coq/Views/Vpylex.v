(* Views/Vpylex.v — X-cli(header): the raw triple-quoted header of real CLI output, read by the model's tokenizer rule,
   vs CPython (ast): value of the first statement and the text that follows. Also py_unescape vs ast.literal_eval. *)
From Coq Require Import List Bool Arith NArith.
From J2M.Model Require Import Base PyLex.
Import ListNotations.
Record case := {
  c_text : str;                          (* the whole CLI output *)
  c_header_value : option str;           (* value of the first statement when it is a string constant *)
  c_rest_len : nat;                      (* length of the module text after the header's closing quotes *)
  c_literal : str; c_literal_value : option str;    (* one ordinary string literal from the output and ast.literal_eval of it *)
}.
Definition ostr_eqb (a b : option str) := match a, b with Some x, Some y => str_eqb x y | None, None => true | _, _ => false end.
Definition agree (c : case) : bool :=
  (match py_raw_triple_end (skipn 4 (c_text c)), c_header_value c with
   | Some (body, rest), Some v => str_eqb body v && Nat.eqb (length rest) (c_rest_len c) && str_eqb (firstn 4 (c_text c)) [114; 34; 34; 34]%N
   | None, None => true
   | _, _ => false
   end) && ostr_eqb (py_unescape (c_literal c)) (c_literal_value c).
Definition report (cs : list case) : nat * nat * list nat :=
  let bad := map fst (filter (fun ic => negb (agree (snd ic))) (combine (seq 0 (length cs)) cs)) in
  (length cs, length bad, firstn 20 bad).
