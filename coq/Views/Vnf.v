(* Views/Vnf.v — tests of the C08 statements on concrete cases (a test of the statements, not a proof):
   raw invariant before optimisation, nfo after, a second pass is the identity. *)
From Coq Require Import List Bool Arith NArith ZArith.
From J2M.Model Require Import Base Union Merge Optimize Detect Canon.
From J2M.Sem Require Import NF.
From J2M.Views Require Import Vinfer.
Import ListNotations.
Definition case := Vinfer.case.
Definition check (c : case) : bool :=
  let raw_fs := merge_field_sets N.eqb (map (convert (c_registry c) (accepts_of (c_accepts c)) (length (c_regex c)) (matches_of (c_regex c)) (c_dict_fields c)) (c_samples c)) in
  raw_fields raw_fs &&
  match optimize_fields (c_registry c) (c_replaces c) N.eqb FUEL raw_fs with
  | None => false
  | Some fs => nfo (c_registry c) (TObj fs) &&
               match optimize_fields (c_registry c) (c_replaces c) N.eqb FUEL fs with
               | Some fs' => ty_eqb (TObj fs) (TObj fs')
               | None => false
               end
  end.
Definition report (cs : list case) : nat * nat * list nat :=
  let bad := bad_indices check cs in (length cs, length bad, firstn 20 bad).
