(* Views/Vperm.v — statement test for C07 on the model: generate on two sample lists that are equal as sets gives
   results equal up to field / member order. *)
From Coq Require Import List Bool Arith NArith ZArith.
From J2M.Model Require Import Base Union Merge Optimize Detect Canon.
From J2M.Views Require Import Vinfer.
Import ListNotations.
Record case := { c_base : Vinfer.case; c_other : list (list (str * json)) }.
Definition check (c : case) : bool :=
  let b := c_base c in
  let run s := generate (c_registry b) (c_replaces b) (accepts_of (c_accepts b)) (length (c_regex b)) (matches_of (c_regex b))
                        (c_dict_fields b) FUEL s in
  match run (c_samples b), run (c_other c) with
  | Some a, Some a' => sem_eqb (TObj a) (TObj a')
  | None, None => true
  | _, _ => false
  end.
Definition report (cs : list case) : nat * nat * list nat :=
  let bad := map fst (filter (fun ic => negb (check (snd ic))) (combine (seq 0 (length cs)) cs)) in
  (length cs, length bad, firstn 20 bad).
