(* Views/Vgennames.v — X-names(registry): ModelRegistry.generate_names on the implementation's registry vs Model.Names. *)
From Coq Require Import List Bool Arith NArith.
From J2M.Model Require Import Base Label Registry Names.
Import ListNotations.
Record case := {
  c_decimal : list (N * bool); c_lower : list (N * str); c_upper : list (N * str);
  c_singular : list (str * str);                       (* singularize on the words of this case *)
  c_models : list (N * option str * option bool);      (* registry before generate_names: index, name, is_name_generated *)
  c_ptrs : list (N * option N * option str);
  c_expected : list (N * option str * option bool);    (* after generate_names *)
}.
Fixpoint lookN {A} (d : A) (k : N) (l : list (N * A)) : A :=
  match l with [] => d | (k', v) :: r => if N.eqb k k' then v else lookN d k r end.
Definition ostr_eqb (a b : option str) := match a, b with Some x, Some y => str_eqb x y | None, None => true | _, _ => false end.
Definition obool_eqb (a b : option bool) := match a, b with Some x, Some y => Bool.eqb x y | None, None => true | _, _ => false end.
Fixpoint list_eqb {A B} (f : A -> B -> bool) (a : list A) (b : list B) : bool :=
  match a, b with [], [] => true | x :: r, y :: r' => f x y && list_eqb f r r' | _, _ => false end.
Definition agree (c : case) : bool :=
  let g := {| ms := map (fun x => {| m_idx := fst (fst x); m_fields := []; m_name := snd (fst x); m_gen := snd x |}) (c_models c);
              ps := map (fun x => {| p_tgt := fst (fst x); p_par := snd (fst x); p_fld := snd x |}) (c_ptrs c); nxt := 0%N |} in
  let g' := generate_names (fun k => lookN false k (c_decimal c)) (fun k => lookN [k] k (c_lower c)) (fun k => lookN [k] k (c_upper c))
                           (fun w => match lookup w (c_singular c) with Some s => s | None => w end) g in
  list_eqb (fun m e => N.eqb (m_idx m) (fst (fst e)) && ostr_eqb (m_name m) (snd (fst e)) && obool_eqb (m_gen m) (snd e)) (ms g') (c_expected c).
Definition report (cs : list case) : nat * nat * list nat :=
  let bad := map fst (filter (fun ic => negb (agree (snd ic))) (combine (seq 0 (length cs)) cs)) in
  (length cs, length bad, firstn 20 bad).
