(* Views/Vnames.v — X-names: prepare_label / inflection.underscore / inflection.camelize vs the model. *)
From Coq Require Import List Bool Arith NArith.
From J2M.Model Require Import Base Label.
Import ListNotations.

Record case := {
  c_unidecode : list (N * str);
  c_word : list (N * bool);
  c_decimal : list (N * bool);
  c_lower : list (N * str);
  c_upper : list (N * str);
  c_blacklist : list str;          (* only the entries relevant to the case: the expected label's candidates *)
  c_cu : bool; c_snake : bool;
  c_input : str;
  c_label : option str;            (* prepare_label(...) ; None = IndexError *)
  c_underscore : str;              (* inflection.underscore(input) *)
  c_camelize : str;                (* inflection.camelize(input) *)
}.
Fixpoint lookN {A} (d : A) (k : N) (l : list (N * A)) : A :=
  match l with [] => d | (k', v) :: r => if N.eqb k k' then v else lookN d k r end.
Definition ONES : list str :=
  [[]; [111;110;101]; [116;119;111]; [116;104;114;101;101]; [102;111;117;114]; [102;105;118;101]; [115;105;120];
   [115;101;118;101;110]; [101;105;103;104;116]; [110;105;110;101]]%N.
Definition ostr_eqb (a b : option str) := match a, b with Some x, Some y => str_eqb x y | None, None => true | _, _ => false end.
Definition agree (c : case) : bool :=
  let uni k := lookN [k] k (c_unidecode c) in
  let word k := lookN false k (c_word c) in
  let dec k := lookN false k (c_decimal c) in
  let low k := lookN [k] k (c_lower c) in
  let upp k := lookN [k] k (c_upper c) in
  ostr_eqb (prepare_label uni word dec low (c_blacklist c) ONES (c_cu c) (c_snake c) (c_input c)) (c_label c)
  && str_eqb (underscore dec low (c_input c)) (c_underscore c)
  && str_eqb (camelize upp (c_input c)) (c_camelize c).
Definition report (cs : list case) : nat * nat * list nat :=
  let bad := map fst (filter (fun ic => negb (agree (snd ic))) (combine (seq 0 (length cs)) cs)) in
  (length cs, length bad, firstn 20 bad).
