(* Views/Vregistry.v — X-registry: process_meta_data + merge_models on the implementation vs the model.
   The comparator's pairwise answers are supplied per case (recorded by wrapping _models_cmp_fn on the
   ModelRegistry instance from the harness); the comparator bodies themselves are tied by Gen/Cmp.v. *)
From Coq Require Import List Bool Arith NArith ZArith.
From J2M.Model Require Import Base Union Merge Optimize Groups Registry Canon.
Import ListNotations.

Record case := {
  c_registry : list pseudo;
  c_replaces : list (pseudo * pseudo);
  c_roots : list (fields * option str);              (* generate() results and root names, in call order *)
  c_pairs : list (N * N);                            (* index pairs for which the comparator said yes *)
  c_expected : option (list (N * fields * option str * option bool)   (* registry after merge_models, dict order *)
                       * list (N * option N * option str)              (* pointer multiset (target, parent, field) *)
                       * list (N * list N));                           (* merge_models return value *)
}.

Definition run_model (c : case) : option (graph * list (N * list N)) :=
  let g0 := fold_left (fun g rn => snd (process_root (fst rn) (snd rn) g)) (c_roots c) empty_graph in
  let idxs := map m_idx (ms g0) in
  let R (a b : nat) :=
      let ia := nth a idxs 0%N in let ib := nth b idxs 0%N in
      existsb (fun p => (N.eqb (fst p) ia && N.eqb (snd p) ib) || (N.eqb (fst p) ib && N.eqb (snd p) ia)) (c_pairs c) in
  merge_models (c_registry c) (c_replaces c) R g0.

Definition ostr_eqb (a b : option str) := match a, b with Some x, Some y => str_eqb x y | None, None => true | _, _ => false end.
Definition oN_eqb (a b : option N) := match a, b with Some x, Some y => N.eqb x y | None, None => true | _, _ => false end.
Definition obool_eqb (a b : option bool) := match a, b with Some x, Some y => Bool.eqb x y | None, None => true | _, _ => false end.
Definition peq (a b : N * option N * option str) :=
  let '(t, p, f) := a in let '(t', p', f') := b in N.eqb t t' && oN_eqb p p' && ostr_eqb f f'.
Definition mseq (a b : list (N * option N * option str)) :=
  Nat.eqb (length a) (length b) &&
  forallb (fun p => Nat.eqb (length (filter (peq p) a)) (length (filter (peq p) b))) a.
Definition set_eqN (a b : list N) := forallb (fun x => memN x b) a && forallb (fun x => memN x a) b.
Fixpoint list_eqb {A B} (f : A -> B -> bool) (a : list A) (b : list B) : bool :=
  match a, b with [], [] => true | x :: r, y :: r' => f x y && list_eqb f r r' | _, _ => false end.

Definition agree (exact : bool) (c : case) : bool :=
  match run_model c, c_expected c with
  | None, None => true
  | Some (g, reps), Some (ems, eps, ereps) =>
      list_eqb (fun m e => let '(i, fs, n, gn) := e in
                           N.eqb (m_idx m) i && (if exact then ty_eqb (TObj (m_fields m)) (TObj fs) else sem_eqb (TObj (m_fields m)) (TObj fs))
                           && ostr_eqb (m_name m) n && obool_eqb (m_gen m) gn) (ms g) ems
      && mseq (map (fun p => (p_tgt p, p_par p, p_fld p)) (ps g)) eps
      && list_eqb (fun a b => N.eqb (fst a) (fst b) && set_eqN (snd a) (snd b)) reps ereps
  | _, _ => false
  end.
Definition bad_indices (f : case -> bool) (cs : list case) : list nat :=
  map fst (filter (fun ic => negb (f (snd ic))) (combine (seq 0 (length cs)) cs)).
Definition report_with (exact : bool) (cs : list case) : nat * nat * list nat :=
  let bad := bad_indices (agree exact) cs in (length cs, length bad, firstn 20 bad).
Definition report := report_with true.
