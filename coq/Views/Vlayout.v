(* Views/Vlayout.v — X-layout: compose_models / compose_models_flat on the implementation's registry vs the model. *)
From Coq Require Import List Bool Arith NArith.
From J2M.Model Require Import Base Registry Emit Layout.
Import ListNotations.
Record case := {
  c_models : list N;                               (* registry order *)
  c_ptrs : list (N * option N);                    (* every pointer of every model: (target, parent) *)
  c_nested : bool;
  c_expected : option (list node * list (N * N));  (* structure and path injections; None = exception *)
}.
Fixpoint node_eqb (a b : node) : bool :=
  match a, b with
  | Node m xs, Node n ys => N.eqb m n &&
      (fix go l1 l2 := match l1, l2 with [] , [] => true | x :: r, y :: r' => node_eqb x y && go r r' | _, _ => false end) xs ys
  end.
Fixpoint list_eqb {A B} (f : A -> B -> bool) (a : list A) (b : list B) : bool :=
  match a, b with [], [] => true | x :: r, y :: r' => f x y && list_eqb f r r' | _, _ => false end.
Definition graph_of (c : case) : graph :=
  {| ms := map (fun i => {| m_idx := i; m_fields := []; m_name := None; m_gen := None |}) (c_models c);
     ps := map (fun tp => {| p_tgt := fst tp; p_par := snd tp; p_fld := None |}) (c_ptrs c); nxt := 0%N |}.
Definition inj_eqb (a b : list (N * N)) : bool :=
  forallb (fun x => existsb (fun y => N.eqb (fst x) (fst y) && N.eqb (snd x) (snd y)) b) a &&
  forallb (fun x => existsb (fun y => N.eqb (fst x) (fst y) && N.eqb (snd x) (snd y)) a) b.
Definition agree (c : case) : bool :=
  let g := graph_of c in
  let got := if c_nested c then compose_nested g
             else match compose_flat g with Some l => Some (l, []) | None => None end in
  match got, c_expected c with
  | Some (r, inj), Some (er, einj) => list_eqb node_eqb r er && inj_eqb inj einj
  | None, None => true
  | _, _ => false
  end.
Definition report (cs : list case) : nat * nat * list nat :=
  let bad := map fst (filter (fun ic => negb (agree (snd ic))) (combine (seq 0 (length cs)) cs)) in
  (length cs, length bad, firstn 20 bad).
