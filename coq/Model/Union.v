(* Model/Union.v — DUnion.__init__ (dynamic_typing/complex.py:143-188), order preserving. *)
From Coq Require Import List Bool Arith NArith.
From J2M.Model Require Import Base.
Import ListNotations.

(* StringLiteral.__init__ overflow rule; Gen/Limits.v regenerates the same expression from the source
   and Props/Link.v proves the two equal. *)
Definition MAX_LITERALS : nat := 15.
Definition MAX_STRING_LENGTH : nat := 20.
Definition lit_overflow (ls : list str) : bool :=
  (MAX_LITERALS <? length ls) || existsb (fun s => MAX_STRING_LENGTH <=? length s) ls.
(* StringLiteral(set_of_strings) *)
Definition mk_lit (ls : list str) : ty := if lit_overflow ls then TLit true [] else TLit false ls.

(* _extract_nested_types: flatten unions nested in unions (at any depth) *)
Fixpoint flat (t : ty) : list ty :=
  match t with
  | TUnion us => (fix go l := match l with [] => [] | x :: r => flat x ++ go r end) us
  | x => [x]
  end.
Definition flatten_union (ts : list ty) : list ty := flat (TUnion ts).

Definition add_unique (u : list ty) (t : ty) : list ty := if existsb (ty_eqb t) u then u else u ++ [t].

(* state of the loop: (unique_types, use_literals, str_literals) *)
Definition union_step (st : list ty * bool * list str) (t : ty) : list ty * bool * list str :=
  let '(u, ul, ls) := st in
  match t with
  | TLit o l => if negb ul then (u, false, ls)
                else if o then (u, false, ls)
                else (u, true, fold_left (fun acc s => insert_sorted s acc) l ls)
  | _ => (add_unique u t, (if is_str t then false else ul), ls)
  end.

Definition mk_union (ts : list ty) : list ty :=
  let '(u, ul, ls) := fold_left union_step (flatten_union ts) ([], true, []) in
  let '(u, ul) := match ls with
                  | [] => (u, ul)
                  | _ => if ul then (if lit_overflow ls then (u, false) else (u ++ [TLit false ls], true))
                         else (u, ul)
                  end in
  if ul then u else add_unique u TStr.

(* "DUnion(...); if len == 1 take the member" *)
Definition union1 (ts : list ty) : ty := match mk_union ts with [x] => x | l => TUnion l end.
Definition dunion (ts : list ty) : ty := TUnion (mk_union ts).
