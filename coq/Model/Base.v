(* Model/Base.v — data of the formal model: strings, JSON values, the type IR.
   Executable definitions only; lemmas live in Proofs/. *)
From Coq Require Import List Bool Arith NArith ZArith.
Import ListNotations.

(* Python str = list of code points; len = List.length *)
Definition str := list N.
Definition str_eqb (a b : str) : bool := if list_eq_dec N.eq_dec a b then true else false.

Fixpoint str_cmp (a b : str) : comparison :=
  match a, b with
  | [], [] => Eq | [], _ => Lt | _, [] => Gt
  | c :: a', d :: b' => match N.compare c d with Eq => str_cmp a' b' | o => o end
  end.
(* sorted, duplicate-free insertion: the model of a frozenset of strings *)
Fixpoint insert_sorted (s : str) (l : list str) : list str :=
  match l with
  | [] => [s]
  | x :: r => match str_cmp s x with Eq => l | Lt => s :: l | Gt => x :: insert_sorted s r end
  end.
Definition set_of_strs (l : list str) : list str := fold_left (fun acc s => insert_sorted s acc) l [].

(* string pseudo-types (StringSerializable subclasses shipped with the package) *)
Inductive pseudo := PInt | PFloat | PBool | PDate | PTime | PDatetime.
Definition pseudo_eqb (a b : pseudo) : bool :=
  match a, b with
  | PInt, PInt | PFloat, PFloat | PBool, PBool | PDate, PDate | PTime, PTime | PDatetime, PDatetime => true
  | _, _ => false
  end.

Inductive json :=
| JNull | JBool (b : bool) | JInt (z : Z) | JFloat (tok : N) | JStr (s : str)
| JArr (l : list json) | JObj (l : list (str * json)).

Inductive ty :=
| TInt | TFloat | TBool | TStr | TNull | TUnknown
| TPseudo (p : pseudo)
| TLit (overflow : bool) (ls : list str)      (* StringLiteral; ls sorted and duplicate-free *)
| TOpt (t : ty) | TList (t : ty) | TDict (t : ty)
| TUnion (ts : list ty)
| TObj (fs : list (str * ty))                  (* a raw dict: a model-to-be, insertion ordered *)
| TPtr (i : N).                                (* ModelPtr, identified by the index of its target *)

Definition fields := list (str * ty).

Section ty_ind2.
  Variable P : ty -> Prop.
  Hypothesis Hint : P TInt. Hypothesis Hfloat : P TFloat. Hypothesis Hbool : P TBool.
  Hypothesis Hstr : P TStr. Hypothesis Hnull : P TNull. Hypothesis Hunk : P TUnknown.
  Hypothesis Hps : forall p, P (TPseudo p).
  Hypothesis Hlit : forall o ls, P (TLit o ls).
  Hypothesis Hopt : forall t, P t -> P (TOpt t).
  Hypothesis Hlist : forall t, P t -> P (TList t).
  Hypothesis Hdict : forall t, P t -> P (TDict t).
  Hypothesis Hunion : forall ts, Forall P ts -> P (TUnion ts).
  Hypothesis Hobj : forall fs, Forall (fun kv => P (snd kv)) fs -> P (TObj fs).
  Hypothesis Hptr : forall i, P (TPtr i).
  Fixpoint ty_ind2 (t : ty) : P t :=
    match t with
    | TInt => Hint | TFloat => Hfloat | TBool => Hbool | TStr => Hstr | TNull => Hnull | TUnknown => Hunk
    | TPseudo p => Hps p | TLit o ls => Hlit o ls
    | TOpt t => Hopt t (ty_ind2 t) | TList t => Hlist t (ty_ind2 t) | TDict t => Hdict t (ty_ind2 t)
    | TUnion ts => Hunion ts ((fix go l : Forall P l :=
        match l with [] => Forall_nil _ | x :: r => Forall_cons _ (ty_ind2 x) (go r) end) ts)
    | TObj fs => Hobj fs ((fix go l : Forall (fun kv => P (snd kv)) l :=
        match l with [] => Forall_nil _ | x :: r => Forall_cons _ (ty_ind2 (snd x)) (go r) end) fs)
    | TPtr i => Hptr i
    end.
End ty_ind2.

Section json_ind2.
  Variable P : json -> Prop.
  Hypothesis Hnull : P JNull. Hypothesis Hbool : forall b, P (JBool b).
  Hypothesis Hint : forall z, P (JInt z). Hypothesis Hfloat : forall f, P (JFloat f).
  Hypothesis Hstr : forall s, P (JStr s).
  Hypothesis Harr : forall l, Forall P l -> P (JArr l).
  Hypothesis Hobj : forall l, Forall (fun kv => P (snd kv)) l -> P (JObj l).
  Fixpoint json_ind2 (v : json) : P v :=
    match v with
    | JNull => Hnull | JBool b => Hbool b | JInt z => Hint z | JFloat f => Hfloat f | JStr s => Hstr s
    | JArr l => Harr l ((fix go l : Forall P l :=
        match l with [] => Forall_nil _ | x :: r => Forall_cons _ (json_ind2 x) (go r) end) l)
    | JObj l => Hobj l ((fix go l : Forall (fun kv => P (snd kv)) l :=
        match l with [] => Forall_nil _ | x :: r => Forall_cons _ (json_ind2 (snd x)) (go r) end) l)
    end.
End json_ind2.

Definition strs_eqb (a b : list str) : bool := if list_eq_dec (list_eq_dec N.eq_dec) a b then true else false.

(* get_hash_string equality: structural on ordered terms; literal sets are kept sorted, so
   structural equality of the lists is equality of the sets; ModelPtr hashes by target index. *)
Fixpoint ty_eqb (a b : ty) {struct a} : bool :=
  match a, b with
  | TInt, TInt | TFloat, TFloat | TBool, TBool | TStr, TStr | TNull, TNull | TUnknown, TUnknown => true
  | TPseudo p, TPseudo q => pseudo_eqb p q
  | TLit o ls, TLit o' ls' => Bool.eqb o o' && strs_eqb ls ls'
  | TOpt x, TOpt y | TList x, TList y | TDict x, TDict y => ty_eqb x y
  | TUnion xs, TUnion ys =>
      (fix go l1 l2 := match l1, l2 with
                       | [], [] => true | x :: r, y :: r' => ty_eqb x y && go r r' | _, _ => false end) xs ys
  | TObj xs, TObj ys =>
      (fix go l1 l2 := match l1, l2 with
                       | [], [] => true
                       | (k, x) :: r, (k', y) :: r' => str_eqb k k' && ty_eqb x y && go r r'
                       | _, _ => false end) xs ys
  | TPtr i, TPtr j => N.eqb i j
  | _, _ => false
  end.

(* Python dict as association list: assignment keeps the slot of an existing key, new keys append *)
Fixpoint lookup {A} (k : str) (fs : list (str * A)) : option A :=
  match fs with [] => None | (k', t) :: r => if str_eqb k k' then Some t else lookup k r end.
Fixpoint update {A} (k : str) (t : A) (fs : list (str * A)) : list (str * A) :=
  match fs with
  | [] => [(k, t)]
  | (k', t') :: r => if str_eqb k k' then (k', t) :: r else (k', t') :: update k t r
  end.
Definition has_key {A} (k : str) (fs : list (str * A)) : bool :=
  match lookup k fs with Some _ => true | None => false end.

Definition is_opt t := match t with TOpt _ => true | _ => false end.
Definition is_lit t := match t with TLit _ _ => true | _ => false end.
Definition is_str t := match t with TStr => true | _ => false end.
Definition is_null t := match t with TNull => true | _ => false end.
Definition is_unknown t := match t with TUnknown => true | _ => false end.
Definition is_union t := match t with TUnion _ => true | _ => false end.
Definition members t := match t with TUnion ts => ts | _ => [t] end.
Definition wrap_opt t := if is_opt t then t else TOpt t.

Fixpoint remove_first {A} (f : A -> bool) (l : list A) : list A :=
  match l with [] => [] | x :: r => if f x then r else x :: remove_first f r end.
