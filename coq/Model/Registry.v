(* Model/Registry.v — ModelRegistry.process_meta_data / merge_models / _merge (registry.py), with the D4 repair
   (members of a group are merged in registry order). Models are identified by their position counter:
   index "1A" = 0, "1B" = 1, ... "2A" = 26 (utils.Index). *)
From Coq Require Import List Bool Arith NArith.
From J2M.Model Require Import Base Union Merge Optimize Groups.
Import ListNotations.

(* one record per ModelPtr object ever created; ModelMeta.pointers of m = entries with p_tgt = m,
   child_pointers of m = entries with p_par = Some m *)
Record ptr := { p_tgt : N; p_par : option N; p_fld : option str }.
Record model := { m_idx : N; m_fields : fields; m_name : option str; m_gen : option bool }.
Record graph := { ms : list model (* registry dict order *); ps : list ptr; nxt : N }.

Definition empty_graph : graph := {| ms := []; ps := []; nxt := 0%N |}.
Definition find_model (g : graph) (i : N) : option model := find (fun m => N.eqb (m_idx m) i) (ms g).
Definition fields_of (g : graph) (i : N) : option fields := option_map m_fields (find_model g i).
Definition fields_of_d (g : graph) (i : N) : fields := match fields_of g i with Some f => f | None => [] end.
Definition set_fields (i : N) (fs : fields) (g : graph) : graph :=
  {| ms := map (fun m => if N.eqb (m_idx m) i
                         then {| m_idx := i; m_fields := fs; m_name := m_name m; m_gen := m_gen m |} else m) (ms g);
     ps := ps g; nxt := nxt g |}.
Definition set_name (i : N) (name : option str) (gen : option bool) (g : graph) : graph :=
  {| ms := map (fun m => if N.eqb (m_idx m) i
                         then {| m_idx := i; m_fields := m_fields m; m_name := name; m_gen := gen |} else m) (ms g);
     ps := ps g; nxt := nxt g |}.

(* process_meta_data: pre-order registration, one fresh pointer per dict *)
Fixpoint proc (t : ty) (par : option (N * str)) (g : graph) {struct t} : ty * graph :=
  match t with
  | TObj fs =>
      let idx := nxt g in
      let g1 := {| ms := ms g ++ [{| m_idx := idx; m_fields := []; m_name := None; m_gen := None |}];
                   ps := ps g ++ [{| p_tgt := idx; p_par := option_map fst par; p_fld := option_map snd par |}];
                   nxt := N.succ (nxt g) |} in
      let '(fs', g2) := (fix go (l : fields) (g : graph) : fields * graph :=
          match l with
          | [] => ([], g)
          | (k, v) :: r => let '(v', g') := proc v (Some (idx, k)) g in
                           let '(r', g'') := go r g' in ((k, v') :: r', g'')
          end) fs g1 in
      (TPtr idx, set_fields idx fs' g2)
  | TOpt x => let '(x', g') := proc x par g in (TOpt x', g')
  | TList x => let '(x', g') := proc x par g in (TList x', g')
  | TDict x => let '(x', g') := proc x par g in (TDict x', g')
  | TUnion ts =>
      let '(ts', g') := (fix go (l : list ty) (g : graph) : list ty * graph :=
          match l with
          | [] => ([], g)
          | x :: r => let '(x', g') := proc x par g in let '(r', g'') := go r g' in (x' :: r', g'')
          end) ts g in
      (TUnion ts', g')
  | _ => (t, g)
  end.
(* registry.process_meta_data(meta, model_name) for a root model *)
Definition process_root (fs : fields) (name : option str) (g : graph) : N * graph :=
  let idx := nxt g in
  let '(_, g') := proc (TObj fs) None g in
  (idx, match name with Some n => set_name idx (Some n) (Some false) g' | None => g' end).

Definition memN (x : N) (s : list N) := existsb (N.eqb x) s.
Fixpoint rename (members : list N) (new : N) (t : ty) : ty :=
  match t with
  | TPtr p => if memN p members then TPtr new else t
  | TOpt x => TOpt (rename members new x) | TList x => TList (rename members new x) | TDict x => TDict (rename members new x)
  | TUnion ts => TUnion (map (rename members new) ts)
  | TObj fs => TObj (map (fun kv => (fst kv, rename members new (snd kv))) fs)
  | _ => t
  end.

(* ModelPtr.__eq__: structural comparison of the target models' fields (identical targets compare equal
   without recursion); fuel exhaustion stands for RecursionError and falls back to identity *)
Fixpoint ptr_eq_g (g : graph) (fuel : nat) (i j : N) : bool :=
  if N.eqb i j then true else           (* written with if: vm_compute is call-by-value, orb would not short-circuit *)
  match fuel with
  | O => false
  | S f => match fields_of g i, fields_of g j with
           | Some a, Some b => py_eq (ptr_eq_g g f) (TObj a) (TObj b)
           | _, _ => false
           end
  end.
Definition PTR_FUEL : nat := 6.

(* utils.distinct_words over an already ordered list: the substring-minimal words, each once *)
Fixpoint is_prefix (a b : str) : bool :=
  match a, b with [], _ => true | _, [] => false | x :: a', y :: b' => N.eqb x y && is_prefix a' b' end.
Fixpoint is_substr (a b : str) : bool :=
  is_prefix a b || match b with [] => false | _ :: b' => is_substr a b' end.
Definition distinct_words (ws : list str) : list str :=
  let ws := set_of_strs ws in
  filter (fun w => negb (existsb (fun o => negb (str_eqb o w) && is_substr o w) ws)) ws.
Fixpoint join_with (sep : str) (l : list str) : str :=
  match l with [] => [] | [x] => x | x :: r => x ++ sep ++ join_with sep r end.
Definition UNDERSCORE : str := [95%N].

Section MM.
  Variable registry : list pseudo.
  Variable replaces : list (pseudo * pseudo).
  Definition OPT_FUEL : nat := 60.

  Definition opt_model (g : graph) (i : N) : option graph :=
    match fields_of g i with
    | None => None
    | Some fs => match optimize_fields registry replaces (ptr_eq_g g PTR_FUEL) OPT_FUEL fs with
                 | Some fs' => Some (set_fields i fs' g)
                 | None => None
                 end
    end.

  (* _merge + the first optimize_type; members come in registry order *)
  Definition merge_group (g : graph) (members : list N) : option graph :=
    let new := nxt g in
    let mods := flat_map (fun i => match find_model g i with Some m => [m] | None => [] end) members in
    let merged := merge_field_sets (ptr_eq_g g PTR_FUEL) (map m_fields mods) in
    let names := distinct_words (flat_map (fun m => match m_gen m, m_name m with
                                                     | Some false, Some n => match n with [] => [] | _ => [n] end
                                                     | _, _ => [] end) mods) in
    let newm := {| m_idx := new; m_fields := merged;
                   m_name := match names with [] => None | _ => Some (join_with UNDERSCORE names) end;
                   m_gen := match names with [] => None | _ => Some false end |} in
    let ms1 := filter (fun m => negb (memN (m_idx m) members)) (ms g) ++ [newm] in
    let ren := rename members new in
    let ms2 := map (fun m => {| m_idx := m_idx m; m_fields := map (fun kv => (fst kv, ren (snd kv))) (m_fields m);
                                m_name := m_name m; m_gen := m_gen m |}) ms1 in
    let ps2 := map (fun p => {| p_tgt := if memN (p_tgt p) members then new else p_tgt p;
                                p_par := option_map (fun q => if memN q members then new else q) (p_par p);
                                p_fld := p_fld p |}) (ps g) in
    opt_model {| ms := ms2; ps := ps2; nxt := N.succ new |} new.

  (* R answers _models_cmp_fn on registry positions; groups are lists of positions into the pre-merge registry *)
  Definition merge_models (R : nat -> nat -> bool) (g : graph) : option (graph * list (N * list N)) :=
    let idxs := map m_idx (ms g) in
    match merge_groups R (seq 0 (length idxs)) with
    | None => None
    | Some groups =>
      let groupsN := map (fun grp => map (fun p => nth p idxs 0%N) grp) groups in
      let step (acc : option (graph * list (N * list N))) (grp : list N) :=
        match acc with
        | None => None
        | Some (g, reps) =>
          let ordered := filter (fun i => memN i grp) (map m_idx (ms g)) in
          match merge_group g ordered with
          | Some g' => Some (g', reps ++ [(nxt g, grp)])
          | None => None
          end
        end in
      match fold_left step groupsN (Some (g, [])) with
      | None => None
      | Some (g', reps) =>
        match fold_left (fun og i => match og with None => None | Some g => opt_model g i end)
                        (map m_idx (ms g')) (Some g') with
        | Some g'' => Some (g'', reps)
        | None => None
        end
      end
    end.
End MM.
