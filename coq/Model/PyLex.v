(* Model/PyLex.v — an executable model of the part of the Python lexer that reads back the string literals emitted by
   the generator (Model/Emit.v):
     py_unescape        : value of ONE ordinary short string literal (quoted with SQ = ' or with DQ = the double quote)
                          given its source text;
     py_raw_triple_end  : where a raw triple-quoted literal r DQ DQ DQ ... DQ DQ DQ ends (CPython tokenizer rule);
     replace_triple     : str.replace(DQ DQ DQ, DQ DQ BSL DQ)        (BSL = backslash);
     header_text        : the CLI header  r DQ DQ DQ \n <line> \n command: <argv> \n DQ DQ DQ \n  (json_to_models/cli.py).
   Definitions only (no proofs); the statements are in Proofs/PyLexProps.v, the comparison with CPython 3.12 in
   tools/validate_pylex.py.
   Conventions: a text is a list of code points AFTER universal-newline translation of the source (CPython turns CR and
   CR LF into LF before tokenizing); the model nevertheless treats a raw CR like a raw LF so that it agrees with
   ast.literal_eval on untranslated text. *)
From Coq Require Import List Bool Arith NArith.
From J2M.Model Require Import Base.
Import ListNotations.
Local Open Scope list_scope.

(* ---- digits ---- *)
Definition hexval (c : N) : option N :=
  if ((48 <=? c) && (c <=? 57))%N then Some (c - 48)%N
  else if ((97 <=? c) && (c <=? 102))%N then Some (c - 87)%N
  else if ((65 <=? c) && (c <=? 70))%N then Some (c - 55)%N
  else None.
Definition octval (c : N) : option N :=
  if ((48 <=? c) && (c <=? 55))%N then Some (c - 48)%N else None.

(* exactly n hex digits: value (accumulated onto acc) and the remaining text; None if fewer than n hex digits *)
Fixpoint hexn (n : nat) (acc : N) (s : str) : option (N * str) :=
  match n with
  | O => Some (acc, s)
  | S k => match s with
           | [] => None
           | c :: r => match hexval c with None => None | Some v => hexn k (acc * 16 + v)%N r end
           end
  end.

Definition hex_escape (n : nat) (r : str) : option (list N * str) :=
  match hexn n 0%N r with
  | Some (v, r') => if (v <? 1114112)%N then Some ([v], r') else None     (* \U beyond 0x10FFFF: illegal *)
  | None => None                                                          (* truncated \x \u \U escape *)
  end.

(* the escape sequence  backslash e r...  : Some (characters produced, remaining text); None = not a legal literal.
   e is the character after the backslash, r the text after e. *)
Definition decode_escape (e : N) (r : str) : option (list N * str) :=
  if N.eqb e 10 then Some ([], r)                                          (* backslash-newline: line continuation *)
  else if N.eqb e 13 then Some ([], match r with c :: r' => if N.eqb c 10 then r' else r | [] => r end)
  else if N.eqb e 0 then None                                              (* NUL in source *)
  else if N.eqb e 92 || N.eqb e 39 || N.eqb e 34 then Some ([e], r)
  else if N.eqb e 97 then Some ([7%N], r)                                  (* \a *)
  else if N.eqb e 98 then Some ([8%N], r)                                  (* \b *)
  else if N.eqb e 102 then Some ([12%N], r)                                (* \f *)
  else if N.eqb e 110 then Some ([10%N], r)                                (* \n *)
  else if N.eqb e 114 then Some ([13%N], r)                                (* \r *)
  else if N.eqb e 116 then Some ([9%N], r)                                 (* \t *)
  else if N.eqb e 118 then Some ([11%N], r)                                (* \v *)
  else if N.eqb e 120 then hex_escape 2 r                                  (* \xhh *)
  else if N.eqb e 117 then hex_escape 4 r                                  (* \uXXXX *)
  else if N.eqb e 85 then hex_escape 8 r                                   (* \UXXXXXXXX *)
  else if N.eqb e 78 then None                                             (* \N{...}: not modelled *)
  else match octval e with
       | Some v1 =>                                                        (* \o \oo \ooo *)
           match r with
           | d2 :: r2 =>
               match octval d2 with
               | Some v2 =>
                   match r2 with
                   | d3 :: r3 =>
                       match octval d3 with
                       | Some v3 => Some ([(v1 * 64 + v2 * 8 + v3)%N], r3)
                       | None => Some ([(v1 * 8 + v2)%N], r2)
                       end
                   | [] => Some ([(v1 * 8 + v2)%N], r2)
                   end
               | None => Some ([v1], r)
               end
           | [] => Some ([v1], r)
           end
       | None => Some ([92%N; e], r)                                       (* unknown escape: the backslash stays *)
       end.

(* the text after the opening quote q: decoded value if the text is  body q  with nothing after the closing quote *)
Fixpoint unesc_body (fuel : nat) (q : N) (s : str) : option str :=
  match fuel with
  | O => None
  | S f =>
      match s with
      | [] => None                                                         (* unterminated *)
      | c :: r =>
          if N.eqb c q then match r with [] => Some [] | _ :: _ => None end  (* closing quote; trailing text: None *)
          else if N.eqb c 92 then
            match r with
            | [] => None
            | e :: r1 =>
                match decode_escape e r1 with
                | None => None
                | Some (out, r2) => match unesc_body f q r2 with Some t => Some (out ++ t) | None => None end
                end
            end
          else if N.eqb c 10 || N.eqb c 13 || N.eqb c 0 then None          (* raw newline / NUL inside the literal *)
          else match unesc_body f q r with Some t => Some (c :: t) | None => None end
      end
  end.

(* one ordinary short string literal, quotes included.  (A text starting with three quotes is rejected by the
   trailing-text rule: the second quote closes the empty literal.) *)
Definition py_unescape (t : str) : option str :=
  match t with
  | q :: r => if N.eqb q 39 || N.eqb q 34 then unesc_body (List.length t) q r else None
  | [] => None
  end.

(* ---- raw triple-quoted literal  r DQ DQ DQ ... DQ DQ DQ ---- *)
Definition starts_triple (s : str) : bool :=
  match s with
  | a :: b :: c :: _ => N.eqb a 34 && N.eqb b 34 && N.eqb c 34
  | _ => false
  end.
(* three consecutive double quotes somewhere in s (plain substring test) *)
Fixpoint has_triple (s : str) : bool :=
  match s with
  | [] => false
  | _ :: r => starts_triple s || has_triple r
  end.

(* s = the source text right after the opening r DQ DQ DQ.  CPython tokenizer: read characters; three consecutive quote
   characters end the literal; any other character resets the count and, if it is a backslash, the next character is
   skipped (it stays in the value). *)
Fixpoint py_raw_triple_end (s : str) : option (str * str) :=
  match s with
  | [] => None
  | c :: r =>
      if N.eqb c 92 then
        match r with
        | [] => None
        | e :: r1 => match py_raw_triple_end r1 with Some (b, t) => Some (c :: e :: b, t) | None => None end
        end
      else if starts_triple s then Some ([], skipn 3 s)
      else match py_raw_triple_end r with Some (b, t) => Some (c :: b, t) | None => None end
  end.

(* str.replace(DQ DQ DQ, DQ DQ BSL DQ): leftmost, non-overlapping *)
Fixpoint replace_triple (s : str) : str :=
  match s with
  | [] => []
  | a :: r =>
      match r with
      | b :: c :: r2 =>
          if N.eqb a 34 && N.eqb b 34 && N.eqb c 34 then 34%N :: 34%N :: 92%N :: 34%N :: replace_triple r2
          else a :: replace_triple r
      | _ => a :: replace_triple r
      end
  end.

(* ---- the CLI header ---- *)
Definition TRIPLE : str := [34; 34; 34]%N.
Definition COMMAND_PREFIX : str := [99; 111; 109; 109; 97; 110; 100; 58; 32]%N.      (* command:SPACE *)
(* value of the raw literal: \n <line> \n command: <cmd> \n *)
Definition header_body_of (line cmd : str) : str := [10%N] ++ line ++ [10%N] ++ COMMAND_PREFIX ++ cmd ++ [10%N].
Definition header_body (line argv : str) : str := header_body_of line (replace_triple argv).
Definition header_text_of (line cmd : str) : str := [114%N] ++ TRIPLE ++ header_body_of line cmd ++ TRIPLE ++ [10%N].
Definition header_text (line argv : str) : str := header_text_of line (replace_triple argv).
(* the header without the repair (argv pasted verbatim) — refuted in Proofs/PyLexProps.v *)
Definition header_text_unrepaired (line argv : str) : str := header_text_of line argv.
