(* Model/Names.v — ModelMeta.generate_name, ModelRegistry.generate_names / fix_name_duplicates (models_meta.py, registry.py). *)
From Coq Require Import List Bool Arith NArith String.
From J2M.Model Require Import Base Label Registry Emit Layout.
Import ListNotations.
Local Open Scope list_scope.

Section Names.
  Variable is_decimal_c : N -> bool.
  Variable lower_c : N -> str.
  Variable upper_c : N -> str.
  Variable singularize_w : str -> str.           (* oracle: inflection.singularize *)

  (* generate_name: parent field names of the model's pointers -> singular snake words -> substring-minimal, sorted -> CamelCase, joined *)
  Definition generated_name (g : graph) (i : N) : str :=
    let base := flat_map (fun p => if N.eqb (p_tgt p) i
                                   then match p_par p, p_fld p with Some _, Some f => [singularize_w (underscore is_decimal_c lower_c f)] | _, _ => [] end
                                   else []) (ps g) in
    join_with UNDERSCORE (map (camelize upper_c) (distinct_words base)).
  Definition name_model (g : graph) (m : model) : model :=
    let m1 := match m_gen m with
              | None => match generated_name g (m_idx m) with
                        | [] => m
                        | n => {| m_idx := m_idx m; m_fields := m_fields m; m_name := Some n; m_gen := Some true |}
                        end
              | Some _ => m
              end in
    match m_name m1 with
    | None => {| m_idx := m_idx m1; m_fields := m_fields m1; m_name := Some ($"Unknown_" ++ index_str (m_idx m1)); m_gen := Some true |}
    | Some _ => m1
    end.
  (* fix_name_duplicates (after the D33 repair): the second and later holders of a name get "_<index>" appended, again and
     again while the result is a name some model of the registry has or was given (taken); the loop ends because names
     grow: fuel S (length taken) is enough (Proofs/NamesProps.v). *)
  Definition name_mem (n : str) (l : list str) : bool := existsb (str_eqb n) l.
  Fixpoint fresh (fuel : nat) (taken : list str) (idx n : str) : str :=
    match fuel with
    | O => n
    | S f => if name_mem n taken then fresh f taken idx (n ++ UNDERSCORE ++ idx) else n
    end.
  Definition names_of (l : list model) : list str := flat_map (fun m => match m_name m with Some n => [n] | None => [] end) l.
  Definition dup_step (st : list (str * nat) * list str * list model) (m : model) : list (str * nat) * list str * list model :=
    let '(cnt, taken, acc) := st in
    let key := match m_name m with Some n => match n with [] => index_str (m_idx m) | _ => n end | None => index_str (m_idx m) end in
    let c := match lookup key cnt with Some c => S c | None => 1 end in
    let cnt := update key c cnt in
    let c2 := match m_name m with Some n => match lookup n cnt with Some c => c | None => 0 end | None => 0 end in
    if 1 <? c2
    then let idx := index_str (m_idx m) in
         let n1 := fresh (S (List.length taken)) taken idx (match m_name m with Some n => n | None => [] end ++ UNDERSCORE ++ idx) in
         (cnt, n1 :: taken, acc ++ [{| m_idx := m_idx m; m_fields := m_fields m; m_name := Some n1; m_gen := Some true |}])
    else (cnt, taken, acc ++ [m]).
  Definition fix_dups (l : list model) : list model := snd (fold_left dup_step l ([], names_of l, [])).
  (* the code before the repair: one suffix, no look at the other names (kept for the refutation) *)
  Definition dup_step_old (st : list (str * nat) * list model) (m : model) : list (str * nat) * list model :=
    let '(cnt, acc) := st in
    let key := match m_name m with Some n => match n with [] => index_str (m_idx m) | _ => n end | None => index_str (m_idx m) end in
    let c := match lookup key cnt with Some c => S c | None => 1 end in
    let cnt := update key c cnt in
    let c2 := match m_name m with Some n => match lookup n cnt with Some c => c | None => 0 end | None => 0 end in
    if 1 <? c2
    then (cnt, acc ++ [{| m_idx := m_idx m; m_fields := m_fields m;
                          m_name := Some (match m_name m with Some n => n | None => [] end ++ UNDERSCORE ++ index_str (m_idx m));
                          m_gen := Some true |}])
    else (cnt, acc ++ [m]).
  Definition fix_dups_old (l : list model) : list model := snd (fold_left dup_step_old l ([], [])).
  Definition generate_names (g : graph) : graph :=
    {| ms := fix_dups (map (name_model g) (ms g)); ps := ps g; nxt := nxt g |}.
End Names.
