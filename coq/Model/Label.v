(* Model/Label.v — prepare_label (models/base.py:286-298), inflection.underscore / camelize as character scans
   (DESIGN appendix A.7), ModelMeta.generate_name, fix_name_duplicates.  External tables are Section variables. *)
From Coq Require Import List Bool Arith NArith.
From J2M.Model Require Import Base.
Import ListNotations.

Definition ascii_upper (c : N) : bool := (65 <=? c)%N && (c <=? 90)%N.      (* [A-Z] *)
Definition ascii_lower (c : N) : bool := (97 <=? c)%N && (c <=? 122)%N.     (* [a-z] *)
Definition ascii_digit (c : N) : bool := (48 <=? c)%N && (c <=? 57)%N.      (* '0' <= c <= '9' *)
Definition NL : N := 10%N.
Definition USCORE : N := 95%N.
Definition HYPHEN : N := 45%N.

Section Label.
  Variable unidecode_c : N -> str.       (* unidecode of one code point *)
  Variable is_word_c : N -> bool.        (* re \w *)
  Variable is_decimal_c : N -> bool.     (* re \d = Unicode Nd *)
  Variable lower_c : N -> str.           (* chr(c).lower() *)
  Variable upper_c : N -> str.           (* chr(c).upper() *)
  Variable blacklist : list str.         (* keywords | builtins | other common names *)
  Variable ones : list str.              (* ['', 'one', ..., 'nine'] *)

  Definition lower (s : str) : str := flat_map lower_c s.

  (* re.sub(r"([A-Z]+)([A-Z][a-z])", r'\1_\2'): a maximal run of >= 2 capitals followed by a lower-case letter
     gets "_" before its last capital.  Scan on fuel = length. *)
  Fixpoint take_upper (s : str) : str * str :=
    match s with
    | c :: r => if ascii_upper c then let '(u, rest) := take_upper r in (c :: u, rest) else ([], s)
    | [] => ([], [])
    end.
  Fixpoint pass1 (fuel : nat) (s : str) : str :=
    match fuel with O => s | S f =>
    match s with
    | [] => []
    | c :: r =>
      if ascii_upper c then
        let '(run, rest) := take_upper s in
        match rest with
        | d :: rest' =>
            if (2 <=? length run) && ascii_lower d
            then removelast run ++ [USCORE; last run 0%N; d] ++ pass1 f rest'
            else run ++ pass1 f rest
        | [] => run
        end
      else c :: pass1 f r
    end end.
  (* re.sub(r"([a-z\d])([A-Z])", r'\1_\2') *)
  Fixpoint pass2 (s : str) : str :=
    match s with
    | c :: ((d :: r) as t) =>
        if (ascii_lower c || is_decimal_c c) && ascii_upper d then c :: USCORE :: d :: pass2 r
        else c :: pass2 t
    | _ => s
    end.
  Definition underscore (s : str) : str :=
    lower (map (fun c => if N.eqb c HYPHEN then USCORE else c) (pass2 (pass1 (length s) s))).

  (* re.sub(r"(?:^|_)(.)", upper): "." does not match newline; "^" wins at position 0 *)
  Fixpoint camel_rest (s : str) : str :=
    match s with
    | c :: ((d :: r) as t) => if N.eqb c USCORE && negb (N.eqb d NL) then upper_c d ++ camel_rest r else c :: camel_rest t
    | _ => s
    end.
  Definition camelize (s : str) : str :=
    match s with
    | c :: r => if N.eqb c NL then camel_rest s else upper_c c ++ camel_rest r
    | [] => []
    end.

  Definition str_le (a b : str) : bool := match str_cmp a b with Gt => false | _ => true end.
  Definition is_az (x : str) : bool := str_le [97%N] x && str_le x [122%N].
  Definition digit_val (c : N) : nat := N.to_nat (c - 48)%N.

  (* None = IndexError (the label is empty after stripping) *)
  Definition prepare_label (cu snake : bool) (s : str) : option str :=
    let s := if cu then flat_map unidecode_c s else s in
    let s := filter is_word_c s in
    match s with
    | [] => None
    | c :: r =>
      let s := if negb (is_az (lower_c c)) && ascii_digit c then nth (digit_val c) ones [] ++ [USCORE] ++ r else s in
      let s := if snake then underscore s else s in
      Some (if existsb (str_eqb s) blacklist then s ++ [USCORE] else s)
    end.
End Label.
