(* Model/Layout.v — models/structure.py: extract_root, compose_models (nested), compose_models_flat, with
   models/utils.py ListEx.insert_before and PositionsDict.update_position.  Reads the pointer table including stale
   pointers, as the implementation does. *)
From Coq Require Import List Bool Arith NArith ZArith String Ascii.
From J2M.Model Require Import Base Registry Emit.
Import ListNotations.
Local Open Scope list_scope.

(* utils.Index: position counter -> "1A", "1B", ... "2A" *)
Fixpoint dec_digits (fuel : nat) (n : N) : str :=
  match fuel with
  | O => []
  | S f => if (n <? 10)%N then [(48 + n)%N] else dec_digits f (n / 10)%N ++ [(48 + n mod 10)%N]
  end.
Definition index_str (i : N) : str := dec_digits 20 (i / 26 + 1)%N ++ [(65 + i mod 26)%N].

Section Layout.
  Variable g : graph.
  Definition ptrs_to (m : N) : list ptr := filter (fun p => N.eqb (p_tgt p) m) (ps g).
  (* filter_pointers: pointers with a parent *)
  Definition parent_ptrs (m : N) : list N := flat_map (fun p => match p_par p with Some q => [q] | None => [] end) (ptrs_to m).
  Definition has_root_ptr (m : N) : bool := existsb (fun p => match p_par p with None => true | Some _ => false end) (ptrs_to m).
  Definition nodupN (l : list N) : list N := fold_left (fun acc x => if memN x acc then acc else acc ++ [x]) l [].
  Definition parents_of (m : N) : list N := nodupN (parent_ptrs m).
  (* min(parents): the parent whose index string is smallest in Python's string order *)
  Definition min_parent (l : list N) : N :=
    match l with
    | [] => 0%N
    | x :: r => fold_left (fun best y => match str_cmp (index_str y) (index_str best) with Lt => y | _ => best end) r x
    end.

  (* extract_root: the ancestors that have no parent pointer themselves, as a set *)
  Fixpoint roots_from (fuel : nat) (frontier seen acc : list N) : list N :=
    match fuel with
    | O => acc
    | S f =>
      match frontier with
      | [] => acc
      | m :: rest =>
        if memN m seen then roots_from f rest seen acc
        else
          let ps := parents_of m in
          (* every parent q of m: if q has no parent pointers it is a root, else continue upward *)
          let new_roots := filter (fun q => match parent_ptrs q with [] => true | _ => false end) ps in
          let up := filter (fun q => match parent_ptrs q with [] => false | _ => true end) ps in
          roots_from f (rest ++ up) (m :: seen) (fold_left (fun a r => if memN r a then a else a ++ [r]) new_roots acc)
      end
    end.
  Definition extract_root (m : N) : list N := roots_from (S (List.length (ms g)) * S (List.length (ps g))) [m] [] [].

  (* ---- nested ---- *)
  (* the structure is kept as: root list (model indices, in order) + nested children per model (in order) *)
  Record nstate := { ns_roots : list N; ns_nested : list (N * list N); ns_inj : list (N * N); ns_ix : nat }.
  Definition children (st : list (N * list N)) (m : N) : list N :=
    match find (fun kv => N.eqb (fst kv) m) st with Some kv => snd kv | None => [] end.
  Definition set_children (st : list (N * list N)) (m : N) (c : list N) : list (N * list N) :=
    if existsb (fun kv => N.eqb (fst kv) m) st
    then map (fun kv => if N.eqb (fst kv) m then (m, c) else kv) st else st ++ [(m, c)].
  Fixpoint index_of (x : N) (l : list N) (i : nat) : option nat :=
    match l with [] => None | y :: r => if N.eqb x y then Some i else index_of x r (S i) end.
  Fixpoint insert_at {A} (i : nat) (x : A) (l : list A) : list A :=
    match i, l with
    | O, _ => x :: l
    | S k, y :: r => y :: insert_at k x r
    | S _, [] => [x]
    end.
  Definition min_list (l : list nat) : option nat :=
    match l with [] => None | x :: r => Some (fold_left Nat.min r x) end.

  (* None = the 'Model ... has no pointers' exception *)
  Definition nested_step (ost : option nstate) (m : N) : option nstate :=
    match ost with None => None | Some st =>
    let pars := parents_of m in
    let hasroot := has_root_ptr m in
    match parent_ptrs m with
    | [] => if hasroot then Some {| ns_roots := ns_roots st ++ [m]; ns_nested := ns_nested st; ns_inj := ns_inj st; ns_ix := ns_ix st |}
            else None
    | _ =>
      let roots := extract_root m in
      if hasroot || ((1 <? List.length pars) && (1 <? List.length roots)) then
        match min_list (flat_map (fun r => match index_of r (ns_roots st) 0 with Some i => [i] | None => [] end) roots) with
        | Some pos => Some {| ns_roots := insert_at pos m (ns_roots st); ns_nested := ns_nested st; ns_inj := ns_inj st; ns_ix := ns_ix st |}
        | None => Some {| ns_roots := insert_at (ns_ix st) m (ns_roots st); ns_nested := ns_nested st; ns_inj := ns_inj st; ns_ix := S (ns_ix st) |}
        end
      else if (1 <? List.length pars) && Nat.eqb (List.length roots) 1 then
        let p := hd 0%N roots in
        Some {| ns_roots := ns_roots st; ns_nested := set_children (ns_nested st) p (m :: children (ns_nested st) p);
                ns_inj := ns_inj st ++ [(m, p)]; ns_ix := ns_ix st |}
      else
        let p := min_parent pars in
        Some {| ns_roots := ns_roots st; ns_nested := set_children (ns_nested st) p (children (ns_nested st) p ++ [m]);
                ns_inj := ns_inj st; ns_ix := ns_ix st |}
    end end.
  Fixpoint build_tree (fuel : nat) (nested : list (N * list N)) (m : N) : node :=
    match fuel with
    | O => Node m []
    | S f => Node m (map (build_tree f nested) (children nested m))
    end.
  Definition compose_nested : option (list node * list (N * N)) :=
    match fold_left nested_step (map m_idx (ms g)) (Some {| ns_roots := []; ns_nested := []; ns_inj := []; ns_ix := 0 |}) with
    | None => None
    | Some st => Some (map (build_tree (List.length (ms g)) (ns_nested st)) (ns_roots st), ns_inj st)
    end.

  (* ---- flat ---- *)
  Definition pdict := list (str * Z).            (* PositionsDict, insertion ordered *)
  Definition pd_get (d : pdict) (k : str) : option Z := lookup k d.
  Definition pd_set (d : pdict) (k : str) (v : Z) : pdict := update k v d.
  (* update_position(key, value) with an explicit value *)
  Definition update_position (d : pdict) (k : str) (v : Z) : pdict :=
    let '(old, delta) := match pd_get d k with Some o => (o, (v - o)%Z) | None => (v, 1%Z) end in
    pd_set (map (fun kv => if negb (str_eqb (fst kv) k) && (old <=? snd kv)%Z then (fst kv, (snd kv + delta)%Z) else kv) d) k v.
  Definition ROOT : str := $"root".
  Definition HASH : str := $"#".
  Record fstate := { fs_list : list N; fs_pos : pdict; fs_top : list N }.
  Definition flat_step (ost : option fstate) (m : N) : option fstate :=
    match ost with None => None | Some st =>
    let pars := parents_of m in
    let hasroot := has_root_ptr m in
    let key := index_str m in
    match parent_ptrs m with
    | [] =>
      if hasroot then
        (* positions["root"] (defaultdict creates it), insert, update_position("root", INC) *)
        let d := match pd_get (fs_pos st) ROOT with Some _ => fs_pos st | None => fs_pos st ++ [(ROOT, 0%Z)] end in
        let pos := match pd_get d ROOT with Some p => p | None => 0%Z end in
        Some {| fs_list := insert_at (Z.to_nat pos) m (fs_list st); fs_pos := update_position d ROOT (pos + 1)%Z; fs_top := fs_top st ++ [m] |}
      else None
    | _ =>
      let roots := extract_root m in
      let '(pos, d) :=
        if hasroot || ((1 <? List.length pars) && (1 <=? List.length roots)) then
          let pkeys := map index_str pars ++ (if existsb (fun p => memN p (fs_top st)) pars then [ROOT] else []) in
          let joined := join HASH (set_of_strs pkeys) in
          let pp := flat_map (fun k => match pd_get (fs_pos st) k with Some p => [p] | None => [] end) (pkeys ++ [joined]) in
          let pos := match pp with [] => Z.of_nat (List.length (fs_list st)) | x :: r => fold_left Z.max r x end in
          (pos, update_position (fs_pos st) joined (pos + 1)%Z)
        else
          let pk := index_str (min_parent pars) in
          let pos := match pd_get (fs_pos st) pk with Some p => p | None => Z.of_nat (List.length (fs_list st)) end in
          (pos, update_position (fs_pos st) pk (pos + 1)%Z) in
      let d := update_position d key (pos + 1)%Z in
      Some {| fs_list := insert_at (Z.to_nat pos) m (fs_list st); fs_pos := d; fs_top := fs_top st |}
    end end.
  Definition compose_flat : option (list node) :=
    match fold_left flat_step (map m_idx (ms g)) (Some {| fs_list := []; fs_pos := []; fs_top := [] |}) with
    | None => None
    | Some st => Some (map (fun m => Node m []) (fs_list st))
    end.
End Layout.
