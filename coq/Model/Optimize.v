(* Model/Optimize.v — StringSerializableRegistry.resolve (string_serializable.py:105-126, D2 repair)
   and MetadataGenerator.optimize_type/_optimize_union (generator.py:177-279, D1 repair). *)
From Coq Require Import List Bool Arith NArith.
From J2M.Model Require Import Base Union Merge.
Import ListNotations.

Section Opt.
  Variable registry : list pseudo.               (* str_types_registry.types, in registration order *)
  Variable replaces : list (pseudo * pseudo).    (* (special, general) pairs *)
  Variable ptr_eq : N -> N -> bool.

  Definition pmem (p : pseudo) (l : list pseudo) := existsb (pseudo_eqb p) l.
  Definition pdedup (l : list pseudo) := fold_left (fun acc p => if pmem p acc then acc else acc ++ [p]) l [].
  Definition replaced_by (ps : list pseudo) (t1 : pseudo) : bool :=
    existsb (fun t2 => negb (pseudo_eqb t1 t2) &&
                       existsb (fun pq => pseudo_eqb (fst pq) t1 && pseudo_eqb (snd pq) t2) replaces) ps.
  (* while flag: drop every member that another member replaces *)
  Fixpoint resolve (fuel : nat) (ps : list pseudo) : list pseudo :=
    match fuel with
    | O => ps
    | S f => if existsb (replaced_by ps) ps
             then resolve f (filter (fun t => negb (replaced_by ps t)) ps)
             else ps
    end.

  Definition in_reg (t : ty) : bool :=
    match t with TStr => true | TPseudo p => pmem p registry | _ => false end.

  (* the category split of _optimize_union, one item at a time, in source order *)
  Definition cats := (list ty * list fields * list ty * list ty * list ty)%type.
  Definition split_step (st : cats) (item : ty) : cats :=
    let '(strs, objs, lists, dicts, other) := st in
    let '(item, other) := match item with TOpt x => (x, other ++ [TNull]) | _ => (item, other) end in
    match item with
    | TObj f => (strs, objs ++ [f], lists, dicts, other)
    | TList x => (strs, objs, lists ++ [x], dicts, other)
    | TDict x => (strs, objs, lists, dicts ++ [x], other)
    | _ => if in_reg item then (strs ++ [item], objs, lists, dicts, other)
           else (strs, objs, lists, dicts, other ++ [item])
    end.
  Definition pseudos_of (strs : list ty) : list pseudo :=
    pdedup (flat_map (fun i => match i with TPseudo p => [p] | _ => [] end) strs).
  Definition str_result (strs : list ty) : list ty :=
    if existsb is_str strs then [TStr]
    else match strs with
         | [] => []
         | _ => let ps := pseudos_of strs in
                match resolve (S (length ps)) ps with
                | [p] => [TPseudo p]
                | _ => [TStr]
                end
         end.
  (* the work-list of _optimize_union (D32 repair): an Optional member contributes a Null and is replaced by its payload; a
     union member (which can only sit under such an Optional) is replaced by its members, in place *)
  Fixpoint members_deep (t : ty) : list ty :=
    match t with
    | TOpt x => TNull :: members_deep x
    | TUnion us => (fix go l := match l with [] => [] | x :: r => members_deep x ++ go r end) us
    | x => [x]
    end.
  Definition regroup (ts : list ty) : list ty :=
    let '(strs, objs, lists, dicts, other) := fold_left split_step (flat_map members_deep ts) ([], [], [], [], []) in
    let other := if existsb (ty_eqb TInt) other && existsb (ty_eqb TFloat) other
                 then remove_first (ty_eqb TInt) other else other in
    let other := other ++ (match objs with [] => [] | _ => [TObj (merge_field_sets ptr_eq objs)] end) in
    let other := other ++ (match lists with [] => [] | _ => [TList (dunion lists)] end) in
    let other := other ++ (match dicts with [] => [] | _ => [TDict (dunion dicts)] end) in
    other ++ str_result strs.
  (* the tail of _optimize_union, after the members were optimised *)
  Definition finish (types : list ty) : option ty :=
    match types with
    | [] => None                                          (* types[0] on an empty list: IndexError *)
    | [x] => Some x
    | _ =>
      let types := if existsb is_unknown types && existsb (fun t => negb (is_unknown t) && negb (is_null t)) types
                   then remove_first is_unknown types else types in
      let optional := existsb is_null types in
      let types := filter (fun x => negb (is_null x)) types in
      let m := union1 types in
      Some (if optional then TOpt m else m)
    end.

  Fixpoint optimize (fuel : nat) (t : ty) {struct fuel} : option ty :=
    match fuel with O => None | S fuel =>
    let opt_list := fix go (l : list ty) : option (list ty) :=
        match l with
        | [] => Some []
        | x :: r => match optimize fuel x, go r with Some x', Some r' => Some (x' :: r') | _, _ => None end
        end in
    let opt_fields := fix go (l : fields) : option fields :=
        match l with
        | [] => Some []
        | (k, x) :: r => match optimize fuel x, go r with Some x', Some r' => Some ((k, x') :: r') | _, _ => None end
        end in
    match t with
    | TObj fs => option_map TObj (opt_fields fs)
    | TOpt x => match optimize fuel x with Some (TOpt y) => Some (TOpt y) | Some y => Some (TOpt y) | None => None end
    | TList x => option_map TList (optimize fuel x)
    | TDict x => option_map TDict (optimize fuel x)
    | TLit o ls => Some (if o || match ls with [] => true | _ => false end then TStr else t)
    | TUnion ts => match opt_list (regroup ts) with None => None | Some types => finish types end
    | _ => Some t
    end end.

  Definition optimize_fields (fuel : nat) (fs : fields) : option fields :=
    match optimize fuel (TObj fs) with Some (TObj fs') => Some fs' | _ => None end.
End Opt.
