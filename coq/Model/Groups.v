(* Model/Groups.v — the group closure loop of ModelRegistry.merge_models (registry.py:143-171).
   Models are nat positions in registry order; R is the comparator's pairwise answer. *)
From Coq Require Import List Bool Arith.
Import ListNotations.

Section G.
  Variable R : nat -> nat -> bool.
  Definition mem (x : nat) (s : list nat) := existsb (Nat.eqb x) s.
  Definition inter_nonempty (a b : list nat) := existsb (fun x => mem x b) a.
  Definition union (a b : list nat) := a ++ filter (fun x => negb (mem x a)) b.
  Definition subset (a b : list nat) := forallb (fun x => mem x b) a.
  Definition seteq (a b : list nat) := subset a b && subset b a.
  (* itertools.combinations(models, 2) *)
  Fixpoint combos (l : list nat) : list (nat * nat) :=
    match l with [] => [] | x :: r => map (pair x) r ++ combos r end.
  (* models2merge[a].add(b): a defaultdict in insertion order *)
  Fixpoint add_edge (d : list (nat * list nat)) (a b : nat) : list (nat * list nat) :=
    match d with
    | [] => [(a, [b])]
    | (k, v) :: r => if Nat.eqb k a then (k, if mem b v then v else v ++ [b]) :: r else (k, v) :: add_edge r a b
    end.
  Definition models2merge (ms : list nat) : list (nat * list nat) :=
    fold_left (fun d ab => if R (fst ab) (snd ab)
                           then add_edge (add_edge d (fst ab) (snd ab)) (snd ab) (fst ab) else d) (combos ms) [].
  Definition groups0 (ms : list nat) : list (list nat) := map (fun kv => fst kv :: snd kv) (models2merge ms).
  (* OrderedSet.add of a frozenset *)
  Definition oset_add (s : list (list nat)) (g : list nat) := if existsb (seteq g) s then s else s ++ [g].
  (* one pass of the while-loop body; "gr1 is gr2" is identity of position *)
  Definition pass (groups : list (list nat)) : bool * list (list nat) :=
    let idx := combine (seq 0 (length groups)) groups in
    fold_left (fun (st : bool * list (list nat)) ig1 =>
      let '(i, g1) := ig1 in
      let '(flag, ng, in_set) :=
        fold_left (fun (st2 : bool * list (list nat) * bool) jg2 =>
          let '(fl, ng, ins) := st2 in let '(j, g2) := jg2 in
          if Nat.eqb i j then st2 else
          if inter_nonempty g1 g2 then
            let ng' := oset_add ng (union g1 g2) in
            (fl || (length ng <? length ng'), ng', true)
          else st2) idx (fst st, snd st, false) in
      (flag, if in_set then ng else oset_add ng g1)) idx (false, []).
  Fixpoint loop (fuel : nat) (groups : list (list nat)) : option (list (list nat)) :=
    match fuel with
    | O => None
    | S f => let '(flag, ng) := pass groups in if flag then loop f ng else Some groups
    end.
  Definition merge_groups (ms : list nat) : option (list (list nat)) := loop (S (S (length ms))) (groups0 ms).
End G.
