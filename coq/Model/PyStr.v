(* Model/PyStr.v — str() of metadata and ComplexType.sorted (dynamic_typing/complex.py:77-91): what Python's == on unions
   sorts by.  str(item) for everything but raw dicts, str(sorted(keys)) for a raw dict; sorted() is stable, so members
   with equal keys (two raw dicts with the same key set) keep their relative order — which makes == on such unions
   ORDER SENSITIVE.  Validated against the implementation by tools/validate_pyeq.py (X-pyeq).
   Approximation kept: repr() of a key escapes non-printable characters; key_repr only handles quotes, backslash and
   \n \r \t.  It matters only for the relative order of two raw dicts with DIFFERENT key sets, which never changes the
   answer of == (members with different key sets are unequal wherever they land). *)
From Coq Require Import List Bool Arith NArith String.
From J2M.Model Require Import Base Union.
Import ListNotations.
Local Open Scope list_scope.

Definition ms_ (x : string) : str := map (fun a => N.of_nat (Ascii.nat_of_ascii a)) (list_ascii_of_string x).
Fixpoint join_str (sep : str) (l : list str) : str :=
  match l with [] => [] | [x] => x | x :: r => x ++ sep ++ join_str sep r end.
(* utils.Index: 0 -> "1A", 25 -> "1Z", 26 -> "2A" *)
Fixpoint dec_digits (fuel : nat) (n : N) (acc : str) : str :=
  match fuel with
  | O => acc
  | S f => let d := (48 + N.modulo n 10)%N in
           if (n <? 10)%N then d :: acc else dec_digits f (N.div n 10) (d :: acc)
  end.
Definition idx_key (i : N) : str := dec_digits 40 (N.div i 26 + 1) [] ++ [(65 + N.modulo i 26)%N].
(* repr of a key inside str(dict) / str(sorted(keys)): quotes only (non-printable characters are left as they are: see the
   header comment of Merge.v) *)
Definition key_repr (k : str) : str :=
  let has_sq := existsb (N.eqb 39) k in
  let has_dq := existsb (N.eqb 34) k in
  let q := if has_sq && negb has_dq then 34%N else 39%N in
  q :: flat_map (fun c => if N.eqb c 92 then [92; 92] else if N.eqb c q then [92; c]
                          else if N.eqb c 10 then [92; 110] else if N.eqb c 13 then [92; 114] else if N.eqb c 9 then [92; 116]
                          else [c])%N k ++ [q].
Definition pseudo_str (p : pseudo) : str :=
  match p with
  | PInt => ms_ "<class 'json_to_models.dynamic_typing.string_serializable.IntString'>"
  | PFloat => ms_ "<class 'json_to_models.dynamic_typing.string_serializable.FloatString'>"
  | PBool => ms_ "<class 'json_to_models.dynamic_typing.string_serializable.BooleanString'>"
  | PDate => ms_ "<class 'json_to_models.dynamic_typing.string_datetime.IsoDateString'>"
  | PTime => ms_ "<class 'json_to_models.dynamic_typing.string_datetime.IsoTimeString'>"
  | PDatetime => ms_ "<class 'json_to_models.dynamic_typing.string_datetime.IsoDatetimeString'>"
  end.
(* str(item) (r = false) and repr(item) (r = true).  Python's str(dict) shows the VALUES of the dict with repr(): a class
   reprs like its str, a BaseType instance as "<Name [...]>" (the inside again with str), Null / Unknown — which define
   __str__ only — with the default object repr "<module.Class object at 0x...>" (the address is not modelled: two keys that
   agree up to it agree on the object as well, it is one singleton). *)
Fixpoint pystr_ (r : bool) (t : ty) {struct t} : str :=
  let wrap (name : str) (inner : str) : str :=
      if r then ms_ "<" ++ name ++ ms_ " [" ++ inner ++ ms_ "]>" else name ++ ms_ "[" ++ inner ++ ms_ "]" in
  match t with
  | TInt => ms_ "<class 'int'>" | TFloat => ms_ "<class 'float'>" | TBool => ms_ "<class 'bool'>" | TStr => ms_ "<class 'str'>"
  | TNull => if r then ms_ "<json_to_models.dynamic_typing.base.NoneType object at 0x>" else ms_ "NoneType"
  | TUnknown => if r then ms_ "<json_to_models.dynamic_typing.base.UnknownType object at 0x>" else ms_ "Unknown"
  | TPseudo p => pseudo_str p
  | TLit o ls => wrap (ms_ "StringLiteral") (if o then ms_ "..." else join_str (ms_ ",") ls)
  | TOpt x => wrap (ms_ "DOptional") (pystr_ false x)
  | TList x => wrap (ms_ "DList") (pystr_ false x)
  | TDict x => wrap (ms_ "DDict") (pystr_ false x)
  | TUnion ts => wrap (ms_ "DUnion") (join_str (ms_ ", ") (map (pystr_ false) ts))
  | TObj fs => ms_ "{" ++ join_str (ms_ ", ") (map (fun kv => key_repr (fst kv) ++ ms_ ": " ++ pystr_ true (snd kv)) fs) ++ ms_ "}"
  | TPtr i => wrap (ms_ "ModelPtr") (ms_ "Model#" ++ idx_key i)
  end.
Definition pystr (t : ty) : str := pystr_ false t.
(* ComplexType._sort_key *)
Definition sort_key (t : ty) : str :=
  match t with
  | TObj fs => ms_ "[" ++ join_str (ms_ ", ") (map key_repr (set_of_strs (map fst fs))) ++ ms_ "]"
  | _ => pystr t
  end.
(* sorted(types, key=_sort_key): stable insertion sort *)
Fixpoint ins_by (k : ty -> str) (x : ty) (l : list ty) : list ty :=
  match l with
  | [] => [x]
  | y :: r => match str_cmp (k x) (k y) with Gt => y :: ins_by k x r | _ => x :: l end
  end.
Definition ssort (l : list ty) : list ty := fold_right (ins_by sort_key) [] l.

(* position of the element with key k, preceded in its list by elements with keys `pre`, in the STABLE sort of a list whose
   keys are `all` *)
Definition str_ltb (a b : str) : bool := match str_cmp a b with Lt => true | _ => false end.
Definition sorted_pos (all pre : list str) (k : str) : nat :=
  List.length (filter (fun k' => str_ltb k' k) all) + List.length (filter (fun k' => str_eqb k' k) pre).

