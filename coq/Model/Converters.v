(* Model/Converters.v — models/string_converters.py: _process_string_field_value (with the D13 / D29 repairs) and the path
   computation get_string_field_paths (path_of in Model/Emit.v).  Values after conversion: *)
From Coq Require Import List Bool Arith NArith.
From J2M.Model Require Import Base Emit.
Import ListNotations.

Inductive cval :=
| VRaw (v : json)                       (* left as it was *)
| VParsed (p : pseudo) (s : str)        (* p.to_internal_value(s) *)
| VList (l : list cval)
| VDict (l : list (str * cval)).

Section Conv.
  Variable accepts : pseudo -> str -> bool.
  (* path tokens: 83 = S, 79 = O, 76 = L, 68 = D.  `t` is the field's annotation.  None = the call raises. *)
  Fixpoint run_path (path : str) (v : json) (t : ty) (optional : bool) {struct path} : option cval :=
    match path with
    | [] => None                                            (* "token, *path = path" on an empty list: ValueError *)
    | tok :: rest =>
      if optional && match v with JNull => true | _ => false end then Some (VRaw v)      (* "if optional and value is None" *)
      else if N.eqb tok 83 then
        match t with
        | TPseudo p =>
            match v with
            | JStr s => if accepts p s then Some (VParsed p s) else if optional then Some (VRaw v) else None    (* ValueError *)
            | _ => if optional then Some (VRaw v) else None                                                      (* TypeError / ValueError *)
            end
        | _ => None
        end
      else if N.eqb tok 79 then
        match t with TOpt x => run_path rest v x true | _ => None end
      else if N.eqb tok 76 then
        match t, v with
        | TList x, JArr l =>
            option_map VList
              ((fix go (l : list json) : option (list cval) :=
                  match l with
                  | [] => Some []
                  | e :: r => match run_path rest e x optional, go r with Some a, Some b => Some (a :: b) | _, _ => None end
                  end) l)
        | _, _ => None
        end
      else if N.eqb tok 68 then
        match t, v with
        | TDict x, JObj kvs =>
            option_map VDict
              ((fix go (l : list (str * json)) : option (list (str * cval)) :=
                  match l with
                  | [] => Some []
                  | (k, e) :: r => match run_path rest e x optional, go r with Some a, Some b => Some ((k, a) :: b) | _, _ => None end
                  end) kvs)
        | _, _ => None
        end
      else None
    end.

  (* what the property asks for: parse at the pseudo-typed leaves, keep None, map over lists / mappings *)
  Fixpoint convert_spec (fuel : nat) (t : ty) (v : json) : cval :=
    match fuel with O => VRaw v | S f =>
    match t, v with
    | TPseudo p, JStr s => VParsed p s
    | TOpt x, JNull => VRaw JNull
    | TOpt x, _ => convert_spec f x v
    | TList x, JArr l => VList (map (convert_spec f x) l)
    | TDict x, JObj kvs => VDict (map (fun kv => (fst kv, convert_spec f x (snd kv))) kvs)
    | _, _ => VRaw v
    end end.

  (* post_init_converters: the fields with a path are converted, every other field is left alone *)
  Definition post_init (fs : fields) (obj : list (str * json)) : option (list (str * cval)) :=
    match string_field_paths fs with
    | None => None
    | Some paths =>
      opt_all (map (fun kv =>
                 match lookup (fst kv) paths, lookup (fst kv) fs with
                 | Some p, Some t => match run_path (match p with [] => [83%N] | _ => p end) (snd kv) t false with
                                     | Some c => Some (fst kv, c) | None => None end
                 | _, _ => Some (fst kv, VRaw (snd kv))
                 end) obj)
    end.
End Conv.
