(* Model/PyAnn.v — the READ side of the type annotations emitted by Model/Emit.v (print_ty):
     ann        : abstract syntax of the annotation language the generator emits
                  ( int | 'Path.Name' | Literal["a", "b"] | Head[arg, arg, ...] );
     parse_ann  : a recursive-descent parser of that language on fuel (Some (annotation, remaining text));
     denote     : the SPECIFICATION: which annotation object an inferred type `ty` denotes under a generator style
                  (framework, literal limit).  It is written on the abstract syntax and never builds any text;
     erase      : the information that `denote` forgets under a style (used by the injectivity statement).
   Definitions only (no proofs); the statements are in Proofs/AnnProps.v, the comparison with the implementation
   (json_to_models.dynamic_typing.metadata_to_typing) in tools/validate_pyann.py.

   Concrete syntax read by parse_ann (a text is a list of code points):
     ann    ::= ident                                   AName ident      (ident not followed by an open bracket)
              | SQ dotted SQ                            ARef dotted      (a quoted forward reference; no escapes)
              | "Literal" "[" strlit { sep strlit } "]" ALit [values]    (at least one literal: Literal[] is a Python
                                                                          SyntaxError and is rejected here as well)
              | ident "[" ann { sep ann } "]"           ASub ident [args]
     sep    ::= "," [ " " ]                              (one optional space after the comma)
     ident  ::= [A-Za-z_][A-Za-z0-9_]*                   (longest match)
     dotted ::= ident { "." ident }
     strlit ::= DQ ... DQ up to the first DQ that is not preceded by an (unpaired) backslash; its VALUE is computed by
                PyLex.py_unescape, the model of the Python lexer's short-string-literal rule. *)
From Coq Require Import List Bool Arith NArith String Ascii.
From J2M.Model Require Import Base Framework Emit PyLex.
Import ListNotations.
Local Open Scope list_scope.

Inductive ann :=
| AName (n : str)                       (* a bare name: int, float, bool, str, None, Any, IntString, date, ... *)
| ARef (s : str)                        (* a quoted forward reference 'Path.Name' *)
| ALit (l : list str)                   (* Literal[...]: the VALUES of the string literals, in source order *)
| ASub (head : str) (args : list ann).  (* Optional[X] = ASub "Optional" [X]; Dict[str, X] = ASub "Dict" [AName "str"; X] *)

Section ann_ind2.
  Variable P : ann -> Prop.
  Hypothesis Hname : forall n, P (AName n).
  Hypothesis Href : forall s, P (ARef s).
  Hypothesis Hlit : forall l, P (ALit l).
  Hypothesis Hsub : forall h args, Forall P args -> P (ASub h args).
  Fixpoint ann_ind2 (a : ann) : P a :=
    match a with
    | AName n => Hname n | ARef s => Href s | ALit l => Hlit l
    | ASub h args => Hsub h args ((fix go l : Forall P l :=
        match l with [] => Forall_nil _ | x :: r => Forall_cons _ (ann_ind2 x) (go r) end) args)
    end.
End ann_ind2.

(* ---- characters ---- *)
Definition LBR : N := 91%N.     (* open bracket *)
Definition RBR : N := 93%N.     (* close bracket *)
Definition COMMA : N := 44%N.
Definition SPACE : N := 32%N.
Definition DOT : N := 46%N.

Definition ident_start (c : N) : bool :=
  (((65 <=? c) && (c <=? 90)) || ((97 <=? c) && (c <=? 122)) || (c =? 95))%N.
Definition ident_char (c : N) : bool := ident_start c || ((48 <=? c) && (c <=? 57))%N.
(* a non-empty ASCII identifier *)
Definition ident_ok (s : str) : bool :=
  match s with [] => false | c :: r => ident_start c && forallb ident_char r end.
(* ident { "." ident } : the state is "an identifier must start here" *)
Fixpoint dotted_aux (start : bool) (s : str) : bool :=
  match s with
  | [] => negb start
  | c :: r => if start then ident_start c && dotted_aux false r
              else if N.eqb c DOT then dotted_aux true r
              else ident_char c && dotted_aux false r
  end.
Definition dotted_ok (s : str) : bool := dotted_aux true s.

(* longest prefix of characters satisfying p, and the rest *)
Fixpoint span (p : N -> bool) (s : str) : str * str :=
  match s with
  | [] => ([], [])
  | c :: r => if p c then let '(a, b) := span p r in (c :: a, b) else ([], s)
  end.

(* the text that may follow a bare name: anything that neither continues the identifier nor opens a subscript *)
Definition follow_ok (rest : str) : bool :=
  match rest with [] => true | c :: _ => negb (ident_char c) && negb (N.eqb c LBR) end.

(* s = the text after an opening SQ: the body up to the next SQ and the text after that SQ *)
Definition split_sq (s : str) : option (str * str) :=
  match span (fun c => negb (N.eqb c SQ)) s with
  | (body, _ :: rest) => Some (body, rest)
  | (_, []) => None                                                         (* unterminated *)
  end.

(* s = the text after an opening DQ: the literal's remaining source text INCLUDING its closing DQ, and the text after
   it.  A backslash protects the next character whatever it is (this is how the Python tokenizer finds the end of a
   short string literal); the meaning of the escapes is left to PyLex.py_unescape. *)
Fixpoint split_dq (s : str) : option (str * str) :=
  match s with
  | [] => None                                                              (* unterminated *)
  | c :: r =>
      if N.eqb c DQ then Some ([DQ], r)
      else if N.eqb c BSL then
        match r with
        | [] => None
        | e :: r1 => match split_dq r1 with Some (b, t) => Some (c :: e :: b, t) | None => None end
        end
      else match split_dq r with Some (b, t) => Some (c :: b, t) | None => None end
  end.

(* one optional space *)
Definition skip_space (s : str) : str :=
  match s with c :: r => if N.eqb c SPACE then r else s | [] => s end.

Definition LITERAL : str := $"Literal".

(* s = the text after "Literal[" (or after a separator): strlit { sep strlit } "]" *)
Fixpoint parse_lits (fuel : nat) (s : str) : option (list str * str) :=
  match fuel with
  | O => None
  | S f =>
      match s with
      | c :: r =>
          if N.eqb c DQ then
            match split_dq r with
            | Some (body, rest) =>
                match py_unescape (DQ :: body) with
                | Some v =>
                    match rest with
                    | d :: rest1 =>
                        if N.eqb d RBR then Some ([v], rest1)
                        else if N.eqb d COMMA then
                          match parse_lits f (skip_space rest1) with
                          | Some (l, t) => Some (v :: l, t)
                          | None => None
                          end
                        else None
                    | [] => None
                    end
                | None => None
                end
            | None => None
            end
          else None
      | [] => None
      end
  end.

Fixpoint parse_ann (fuel : nat) (s : str) : option (ann * str) :=
  match fuel with
  | O => None
  | S f =>
      match s with
      | [] => None
      | c :: r =>
          if N.eqb c SQ then
            match split_sq r with
            | Some (body, rest) => if dotted_ok body then Some (ARef body, rest) else None
            | None => None
            end
          else if ident_start c then
            let '(name, rest) := span ident_char s in
            match rest with
            | d :: rest1 =>
                if N.eqb d LBR then
                  if str_eqb name LITERAL then
                    match parse_lits f rest1 with Some (l, t) => Some (ALit l, t) | None => None end
                  else
                    match parse_args f rest1 with Some (l, t) => Some (ASub name l, t) | None => None end
                else Some (AName name, rest)
            | [] => Some (AName name, rest)
            end
          else None
      end
  end
(* s = the text after "Head[" (or after a separator): ann { sep ann } "]" *)
with parse_args (fuel : nat) (s : str) : option (list ann * str) :=
  match fuel with
  | O => None
  | S f =>
      match parse_ann f s with
      | Some (a, rest) =>
          match rest with
          | d :: rest1 =>
              if N.eqb d RBR then Some ([a], rest1)
              else if N.eqb d COMMA then
                match parse_args f (skip_space rest1) with
                | Some (l, t) => Some (a :: l, t)
                | None => None
                end
              else None
          | [] => None
          end
      | None => None
      end
  end.

(* the whole text is one annotation *)
Definition parse_ann_all (fuel : nat) (s : str) : option ann :=
  match parse_ann fuel s with Some (a, []) => Some a | _ => None end.

(* ---- the specification ---- *)
Section Denote.
  Variable names : N -> option str.        (* model index -> current class name *)
  Variable ctx : N -> option N.            (* path injections: child model -> the model it is nested in *)

  (* the absolute name of a model: Parent.Name if a path is injected for it (and that path is not empty) *)
  Definition qual_name (m : N) : option str :=
    match names m with
    | None => None
    | Some n =>
        let path := match ctx m with
                    | Some p => match names p with Some pn => pn | None => [] end
                    | None => [] end in
        Some (match path, n with
              | [], _ => n
              | _, [] => path
              | _, _ => path ++ [DOT] ++ n
              end)
    end.

  Definition pseudo_name (fw : framework) (p : pseudo) : str :=
    if use_actual_type fw then snd (pseudo_actual p) else pseudo_cls_name p.
  (* a literal type is shown as Literal[...] iff the style uses literals and the set is below the limit *)
  Definition lit_shown (o : opts) (ls : list str) : bool := use_literals (o_fw o) && lit_render_ok (o_maxlit o) ls.

  Fixpoint denote (o : opts) (t : ty) {struct t} : ann :=
    match t with
    | TInt => AName $"int" | TFloat => AName $"float" | TBool => AName $"bool" | TStr => AName $"str"
    | TNull => AName $"None"
    | TUnknown => AName $"Any"
    | TPseudo p => AName (pseudo_name (o_fw o) p)
    | TLit _ ls => if lit_shown o ls then ALit ls else AName $"str"
    | TOpt x => ASub $"Optional" [denote o x]
    | TList x => ASub $"List" [denote o x]
    | TDict x => ASub $"Dict" [AName $"str"; denote o x]
    | TUnion ts => ASub $"Union" (map (denote o) ts)
    | TObj _ => AName $"dict"              (* a raw dict has no annotation (print_ty = None); never compared *)
    | TPtr m => ARef (match qual_name m with Some s => s | None => [] end)
    end.

  (* ---- side conditions of the read-back theorem (decidable) ---- *)
  (* every model the type points to has a name, the names involved are identifiers, every shown literal set and every
     union is non-empty, there is no raw dict *)
  Fixpoint ann_wf (o : opts) (t : ty) {struct t} : bool :=
    match t with
    | TLit _ ls => negb (lit_shown o ls) || negb (match ls with [] => true | _ => false end)
    | TOpt x | TList x | TDict x => ann_wf o x
    | TUnion ts => negb (match ts with [] => true | _ => false end) && forallb (ann_wf o) ts
    | TObj _ => false
    | TPtr m =>
        match names m with
        | Some n => ident_ok n &&
                    match ctx m with
                    | Some p => match names p with Some pn => match pn with [] => true | _ => ident_ok pn end
                                                 | None => true end
                    | None => true
                    end
        | None => false
        end
    | _ => true
    end.

  (* fuel that suffices to read the annotation of t back *)
  Fixpoint ty_fuel (t : ty) : nat :=
    match t with
    | TLit _ ls => 2 + List.length ls
    | TOpt x | TList x => 2 + ty_fuel x
    | TDict x => 3 + ty_fuel x
    | TUnion ts => 1 + list_sum (map (fun x => 1 + ty_fuel x) ts)
    | _ => 1
    end.

  (* ---- what the style erases ---- *)
  (* Under use_actual_type the pseudo-types IntString / FloatString / BooleanString are shown as their actual types
     int / float / bool (the date-time pseudo-types keep distinct names date / time / datetime); a literal type that is
     not shown (literals off, or at/above the limit) is shown as str; the overflow flag of a literal type is never
     shown.  Model pointers are shown by their absolute NAME: erase leaves them alone, the injectivity statement
     assumes that distinct models have distinct absolute names. *)
  Fixpoint erase (o : opts) (t : ty) {struct t} : ty :=
    match t with
    | TPseudo p => if use_actual_type (o_fw o)
                   then match p with PInt => TInt | PFloat => TFloat | PBool => TBool | _ => t end
                   else t
    | TLit _ ls => if lit_shown o ls then TLit false ls else TStr
    | TOpt x => TOpt (erase o x) | TList x => TList (erase o x) | TDict x => TDict (erase o x)
    | TUnion ts => TUnion (map (erase o) ts)
    | _ => t
    end.
  Fixpoint no_obj (t : ty) : bool :=
    match t with
    | TOpt x | TList x | TDict x => no_obj x
    | TUnion ts => forallb no_obj ts
    | TObj _ => false
    | _ => true
    end.
  Fixpoint ptrs (t : ty) : list N :=
    match t with
    | TPtr m => [m]
    | TOpt x | TList x | TDict x => ptrs x
    | TUnion ts => flat_map ptrs ts
    | _ => []
    end.
End Denote.
