(* Model/Cli.v — the command-line front end (cli.py) as far as the properties need it:
   sample assembly (setup_models_data / iter_json_file / dict_lookup), the effect order of main / parse_args / run
   (for the atomicity of -o), documented defaults, preamble handling. *)
From Coq Require Import List Bool Arith NArith String.
From J2M.Model Require Import Base Emit.
Import ListNotations.
Local Open Scope list_scope.

(* ---- dict_lookup / iter_json_file ---- *)
Definition DOT : N := 46%N.
Definition DASH : str := [45%N].
(* str.split('.', 1) *)
Fixpoint split_dot (s : str) : str * option str :=
  match s with
  | [] => ([], None)
  | c :: r => if N.eqb c DOT then ([], Some r)
              else let '(a, b) := split_dot r in (c :: a, b)
  end.
Definition jget (d : json) (k : str) : option json :=
  match d with JObj kvs => lookup k kvs | _ => None end.        (* d[key]: KeyError / TypeError -> None *)
(* while lookup and lookup != "-": ... ; fuel = length of the lookup string *)
Fixpoint dict_lookup (fuel : nat) (d : json) (lk : str) : option json :=
  match fuel with
  | O => Some d
  | S f =>
    match lk with
    | [] => Some d
    | _ => if str_eqb lk DASH then Some d
           else match split_dot lk with
                | (k, None) => jget d k
                | (k, Some rest) => match jget d k with Some d' => dict_lookup f d' rest | None => None end
                end
    end
  end.
(* list -> its elements; object -> itself; anything else: TypeError *)
Definition iter_json_file (d : json) (lk : str) : option (list json) :=
  match dict_lookup (S (List.length lk)) d lk with
  | Some (JArr l) => Some l
  | Some (JObj o) => Some [JObj o]
  | _ => None
  end.

(* ---- setup_models_data ---- *)
(* one -m / -l argument after path expansion: model name, lookup, the parsed documents of the matched files in order *)
Record marg := { a_name : str; a_lookup : str; a_docs : list json }.
Definition add_samples (d : list (str * list json)) (name : str) (xs : list json) : list (str * list json) :=
  match lookup name d with
  | Some old => update name (old ++ xs) d
  | None => d ++ [(name, xs)]
  end.
(* models_dict[model_name].extend(iterator) for every file of every argument; None = a lookup / type error.
   (The defaultdict entry is created even when the file list of a pattern is empty only if it is touched: it is not.) *)
Fixpoint assemble_from (d : list (str * list json)) (args : list marg) : option (list (str * list json)) :=
  match args with
  | [] => Some d
  | a :: r =>
    match (fix files (d : list (str * list json)) (docs : list json) : option (list (str * list json)) :=
             match docs with
             | [] => Some d
             | doc :: rest => match iter_json_file doc (a_lookup a) with
                              | Some xs => files (add_samples d (a_name a) xs) rest
                              | None => None
                              end
             end) d (a_docs a) with
    | Some d' => assemble_from d' r
    | None => None
    end
  end.
Definition assemble (models lists : list marg) : option (list (str * list json)) := assemble_from [] (models ++ lists).

(* ---- effect order (C17) ---- *)
Inductive op :=
| ParseArgv            (* argparse: may exit(2) *)
| MutateDefaultRegistry (* registry.remove_by_name / register_datetime_classes *)
| LoadSamples          (* open + parse every input file, lookups *)
| Validate
| SetArgs              (* may raise: unknown merge policy argument, bad regex, import of a custom generator *)
| Generate             (* MetadataGenerator / ModelRegistry / merge / names / structure *)
| BuildText            (* version_string + generate_code(...) : the complete output text *)
| OpenTruncate         (* open(output_file, "w") *)
| WriteAll             (* f.write(output) *)
| ReturnMsg            (* return "Output is written to ..." *)
| Print.               (* print(cli.run()) *)
Definition fallible (o : op) : bool :=
  match o with WriteAll | ReturnMsg | Print => false | _ => true end.    (* failures inside write/print are not modelled *)

Record cstate := { file : option str;        (* content of the -o path; None = the file does not exist *)
                   stdout : list str;
                   text : option str;        (* the built output *)
                   ret : option str;         (* value returned by run() *)
                   failed : bool }.
Definition MSG : str := $"Output is written to".
(* faults i = true: the i-th executed operation raises (if it is fallible) *)
Definition step (full : str) (faults : nat -> bool) (ist : nat * cstate) (o : op) : nat * cstate :=
  let '(i, st) := ist in
  if failed st then (S i, st)                                        (* the exception propagates: nothing else runs *)
  else if fallible o && faults i then (S i, {| file := file st; stdout := stdout st; text := text st; ret := ret st; failed := true |})
  else (S i,
        match o with
        | BuildText => {| file := file st; stdout := stdout st; text := Some full; ret := Some full; failed := false |}
        | OpenTruncate => {| file := Some []; stdout := stdout st; text := text st; ret := ret st; failed := false |}
        | WriteAll => {| file := text st; stdout := stdout st; text := text st; ret := ret st; failed := false |}
        | ReturnMsg => {| file := file st; stdout := stdout st; text := text st; ret := Some MSG; failed := false |}
        | Print => {| file := file st; stdout := stdout st ++ match ret st with Some r => [r] | None => [] end; text := text st; ret := ret st; failed := false |}
        | _ => st
        end).
Definition run_ops (full : str) (faults : nat -> bool) (ops : list op) (file0 : option str) : cstate :=
  snd (fold_left (step full faults) ops (O, {| file := file0; stdout := []; text := None; ret := None; failed := false |})).

(* nothing observable (truncate, write, print) happens before the last fallible operation, the text is built before the file
   is opened, and what is written / printed is the built text *)
Fixpoint no_effect_before_fallible (ops : list op) : bool :=
  match ops with
  | [] => true
  | o :: r => match o with
              | OpenTruncate => forallb (fun x => negb (fallible x)) r && no_effect_before_fallible r
              | WriteAll | Print => forallb (fun x => negb (fallible x)) r && no_effect_before_fallible r
              | _ => no_effect_before_fallible r
              end
  end.
Fixpoint built_before_open (ops : list op) (built : bool) : bool :=
  match ops with
  | [] => true
  | BuildText :: r => built_before_open r true
  | (OpenTruncate | WriteAll | Print) :: r => built && built_before_open r built
  | _ :: r => built_before_open r built
  end.
(* after OpenTruncate the very next operation is WriteAll *)
Fixpoint open_then_write (ops : list op) : bool :=
  match ops with
  | OpenTruncate :: ((WriteAll :: _) as r) => open_then_write r
  | OpenTruncate :: _ => false
  | _ :: r => open_then_write r
  | [] => true
  end.
Definition atomicb (ops : list op) : bool :=
  no_effect_before_fallible ops && built_before_open ops false && open_then_write ops.

(* the two paths through main(): with and without -o *)
Definition main_ops (parse_args run_common : list op) (with_file : bool) : list op :=
  parse_args ++ run_common ++ (if with_file then [OpenTruncate; WriteAll; ReturnMsg] else []) ++ [Print].

(* ---- defaults documented in the README / --help ---- *)
Record defaults := { d_framework : str; d_structure : str; d_merge : list str; d_max_literals : nat; d_input_format : str;
                     d_datetime : bool; d_strings_converters : bool; d_disable_unicode : bool; d_output : str }.
Definition documented_defaults : defaults :=
  {| d_framework := $"base"; d_structure := $"flat"; d_merge := [$"percent"; $"number"]; d_max_literals := 10;
     d_input_format := $"json"; d_datetime := false; d_strings_converters := false; d_disable_unicode := false; d_output := [] |}.

(* ---- preamble: "if preamble: preamble = preamble.strip()" ; "self.preamble = preamble or None" ---- *)
Section Preamble.
  Variable is_space_c : N -> bool.       (* str.isspace of one code point *)
  Fixpoint lstrip (s : str) : str := match s with c :: r => if is_space_c c then lstrip r else s | [] => [] end.
  Definition strip (s : str) : str := rev (lstrip (rev (lstrip s))).
  Definition cli_preamble (p : option str) : option str :=
    match p with
    | None => None
    | Some [] => None
    | Some s => match strip s with [] => None | s' => Some s' end
    end.
End Preamble.
