(* Model/Merge.v — MetadataGenerator.merge_field_sets (generator.py:126-175, with the D3 repair). *)
From Coq Require Import List Bool Arith NArith.
From J2M.Model Require Import Base Union PyStr.
Import ListNotations.

Section Merge.
  (* ModelPtr.__eq__ compares the target models' fields; supplied by the registry stage.
     Before models exist there are no pointers and any function will do. *)
  Variable ptr_eq : N -> N -> bool.

  (* Python == on metadata.  ComplexType.__eq__ is `self.sorted == other.sorted`: both member lists are sorted (stable) by
     str(item) — str(sorted(keys)) for a raw dict — and compared element-wise (Model/PyStr.v).  It is therefore ORDER
     SENSITIVE on members with equal sort keys: two raw dicts with the same key set keep their relative order, so
     Union[{a: bool}, {a: int}] != Union[{a: int}, {a: bool}].  The element of xs that lands at position p of sorted(xs) is
     compared with the element at position p of sorted(ys); written as an iteration over xs itself (with the position
     computed from the keys) so that the recursion stays structural.  dict == dict ignores order.
     Validated against the implementation on random pairs of raw types by tools/validate_pyeq.py (X-pyeq). *)
  Fixpoint py_eq (a b : ty) {struct a} : bool :=
    match a, b with
    | TUnion xs, TUnion ys =>
        let kx := map sort_key xs in
        let sys := ssort ys in
        Nat.eqb (length xs) (length ys) &&
        (fix go (pre : list str) (l : list ty) {struct l} : bool :=
           match l with
           | [] => true
           | x :: r => py_eq x (nth (sorted_pos kx pre (sort_key x)) sys TNull) && go (pre ++ [sort_key x]) r
           end) [] xs
    | TObj xs, TObj ys =>
        Nat.eqb (length xs) (length ys) &&
        (fix all l := match l with
                      | [] => true
                      | (k, x) :: r => match lookup k ys with Some y => py_eq x y | None => false end && all r
                      end) xs
    | TOpt x, TOpt y | TList x, TList y | TDict x, TDict y => py_eq x y
    | TLit _ ls, TLit _ ls' => strs_eqb ls ls'
    | TPtr i, TPtr j => ptr_eq i j
    | _, _ => ty_eqb a b
    end.

  Definition merge_field (first : bool) (acc : fields) (kv : str * ty) : fields :=
    let '(name, field) := kv in
    match lookup name acc with
    | None => update name (if first || is_opt field then field else TOpt field) acc
    | Some fo =>
        match fo with
        | TOpt fo' =>
            if py_eq fo field || py_eq fo' field then acc
            else update name (TOpt (union1 (members field ++ members fo'))) acc
        | _ =>
            if py_eq fo field then acc
            else match field with
                 | TOpt f' => if py_eq fo f' then update name field acc
                              else update name (union1 (members field ++ members fo)) acc
                 | _ => update name (union1 (members field ++ members fo)) acc
                 end
        end
    end.

  Definition merge_step (st : bool * fields) (model : fields) : bool * fields :=
    let '(first, acc) := st in
    let acc' := fold_left (merge_field first) model acc in
    (false, map (fun kt => if has_key (fst kt) acc && negb (has_key (fst kt) model)
                           then (fst kt, wrap_opt (snd kt)) else kt) acc').

  Definition merge_field_sets (sets : list fields) : fields := snd (fold_left merge_step sets (true, [])).
End Merge.
