(* Model/Merge.v — MetadataGenerator.merge_field_sets (generator.py:126-175, with the D3 repair). *)
From Coq Require Import List Bool Arith NArith.
From J2M.Model Require Import Base Union.
Import ListNotations.

Section Merge.
  (* ModelPtr.__eq__ compares the target models' fields; supplied by the registry stage.
     Before models exist there are no pointers and any function will do. *)
  Variable ptr_eq : N -> N -> bool.

  (* Python == on metadata.  ComplexType.__eq__ sorts both member lists by str(item) and compares
     element-wise; modelled as: same length, every member of the left side equal to some member of the right
     side AND every member of the right side equal to some member of the left side (a one-sided matching is
     unsound: [A; A'] with A == A' would equal [A; int]).  Exact unless two different members share a sort
     key — see DESIGN 3.2.  dict == dict ignores order. *)
  Fixpoint py_eq (a b : ty) {struct a} : bool :=
    match a, b with
    | TUnion xs, TUnion ys =>
        Nat.eqb (length xs) (length ys) &&
        (fix all l := match l with [] => true | x :: r => existsb (py_eq x) ys && all r end) xs &&
        forallb (fun y => (fix any l := match l with [] => false | x :: r => py_eq x y || any r end) xs) ys
    | TObj xs, TObj ys =>
        Nat.eqb (length xs) (length ys) &&
        (fix all l := match l with
                      | [] => true
                      | (k, x) :: r => match lookup k ys with Some y => py_eq x y | None => false end && all r
                      end) xs
    | TOpt x, TOpt y | TList x, TList y | TDict x, TDict y => py_eq x y
    | TLit _ ls, TLit _ ls' => strs_eqb ls ls'
    | TPtr i, TPtr j => ptr_eq i j
    | _, _ => ty_eqb a b
    end.

  Definition merge_field (first : bool) (acc : fields) (kv : str * ty) : fields :=
    let '(name, field) := kv in
    match lookup name acc with
    | None => update name (if first || is_opt field then field else TOpt field) acc
    | Some fo =>
        match fo with
        | TOpt fo' =>
            if py_eq fo field || py_eq fo' field then acc
            else update name (TOpt (union1 (members field ++ members fo'))) acc
        | _ =>
            if py_eq fo field then acc
            else match field with
                 | TOpt f' => if py_eq fo f' then update name field acc
                              else update name (union1 (members field ++ members fo)) acc
                 | _ => update name (union1 (members field ++ members fo)) acc
                 end
        end
    end.

  Definition merge_step (st : bool * fields) (model : fields) : bool * fields :=
    let '(first, acc) := st in
    let acc' := fold_left (merge_field first) model acc in
    (false, map (fun kt => if has_key (fst kt) acc && negb (has_key (fst kt) model)
                           then (fst kt, wrap_opt (snd kt)) else kt) acc').

  Definition merge_field_sets (sets : list fields) : fields := snd (fold_left merge_step sets (true, [])).
End Merge.
