(* Model/Ctx.v — the state that survives a call: AbsoluteModelRef.Context (a thread-local slot), the default string
   registry (module global), and the names of a registry's models (rewritten by rendering).  State machines for
   C14 (histories) and C15 (threads). *)
From Coq Require Import List Bool Arith NArith.
From J2M.Model Require Import Base.
Import ListNotations.

(* ---- thread-local context slot (models_meta.py:168-185, with the D5 repair: every thread sees the class default None) ---- *)
Definition ctxmap := list (N * N).                 (* path injections: child model -> parent model *)
Definition tid := nat.
Definition tls := list (tid * option ctxmap).      (* per-thread value of Context.data.context; absent = class default None *)
Definition tls_get (s : tls) (t : tid) : option ctxmap :=
  match find (fun kv => Nat.eqb (fst kv) t) s with Some kv => snd kv | None => None end.
Fixpoint tls_set (s : tls) (t : tid) (v : option ctxmap) : tls :=
  match s with
  | [] => [(t, v)]
  | (k, w) :: r => if Nat.eqb k t then (k, v) :: r else (k, w) :: tls_set r t v
  end.

(* one Context object = one `with` block of generate_code: remembers what it replaced *)
Inductive ev :=
| Enter (t : tid) (c : nat) (patches : ctxmap)     (* Context c .__enter__ in thread t *)
| Exit (t : tid) (c : nat)                         (* Context c .__exit__ (also on exceptions) *)
| Read (t : tid).                                  (* AbsoluteModelRef.to_typing_code reads the slot *)
Record tstate := { slots : tls; saved : list (nat * option ctxmap); reads : list (tid * option ctxmap) }.
Definition tinit : tstate := {| slots := []; saved := []; reads := [] |}.
Definition saved_get (l : list (nat * option ctxmap)) (c : nat) : option ctxmap :=
  match find (fun kv => Nat.eqb (fst kv) c) l with Some kv => snd kv | None => None end.
Definition tstep (st : tstate) (e : ev) : tstate :=
  match e with
  | Enter t c p => {| slots := tls_set (slots st) t (Some p); saved := (c, tls_get (slots st) t) :: saved st; reads := reads st |}
  | Exit t c => {| slots := tls_set (slots st) t (saved_get (saved st) c); saved := saved st; reads := reads st |}
  | Read t => {| slots := slots st; saved := saved st; reads := reads st ++ [(t, tls_get (slots st) t)] |}
  end.
Definition trun (sched : list ev) : tstate := fold_left tstep sched tinit.
Definition ev_tid (e : ev) : tid := match e with Enter t _ _ | Exit t _ | Read t => t end.
Definition project (t : tid) (sched : list ev) : list ev := filter (fun e => Nat.eqb (ev_tid e) t) sched.
Definition reads_of (t : tid) (st : tstate) : list (option ctxmap) :=
  map snd (filter (fun r => Nat.eqb (fst r) t) (reads st)).

(* a well-bracketed render in one thread: Enter c; reads...; Exit c *)
Definition render_events (t : tid) (c : nat) (p : ctxmap) (n_reads : nat) : list ev :=
  Enter t c p :: repeat (Read t) n_reads ++ [Exit t c].

(* ---- history machine (C14) ---- *)
(* What rendering leaves behind in a registry: the model names, rewritten through convert_class_name.  `conv` is
   prepare_label cu false (None = IndexError).  A render that fails after k classes has converted a prefix. *)
Section Names.
  Variable conv : str -> option str.
  Definition names := list (N * str).
  Fixpoint convert_prefix (k : nat) (ns : names) : option names :=
    match k, ns with
    | O, _ => Some ns
    | _, [] => Some []
    | S k', (i, n) :: r => match conv n, convert_prefix k' r with
                           | Some n', Some r' => Some ((i, n') :: r')
                           | _, _ => None
                           end
    end.
  Definition convert_all (ns : names) : option names := convert_prefix (List.length ns) ns.
End Names.
