(* Model/Canon.v — order-insensitive canonical form of types (semantic views compare canon t1 = canon t2). *)
From Coq Require Import List Bool Arith NArith.
From J2M.Model Require Import Base.
Import ListNotations.

Definition pseudo_rank (p : pseudo) : nat :=
  match p with PInt => 0 | PFloat => 1 | PBool => 2 | PDate => 3 | PTime => 4 | PDatetime => 5 end.
Definition ty_rank (t : ty) : nat :=
  match t with
  | TInt => 0 | TFloat => 1 | TBool => 2 | TStr => 3 | TNull => 4 | TUnknown => 5 | TPseudo _ => 6 | TLit _ _ => 7
  | TOpt _ => 8 | TList _ => 9 | TDict _ => 10 | TUnion _ => 11 | TObj _ => 12 | TPtr _ => 13
  end.
Definition lex (a b : comparison) : comparison := match a with Eq => b | _ => a end.
Fixpoint strs_cmp (a b : list str) : comparison :=
  match a, b with [], [] => Eq | [], _ => Lt | _, [] => Gt | x :: r, y :: r' => lex (str_cmp x y) (strs_cmp r r') end.

Fixpoint ty_cmp (a b : ty) {struct a} : comparison :=
  match a, b with
  | TPseudo p, TPseudo q => Nat.compare (pseudo_rank p) (pseudo_rank q)
  | TLit o l, TLit o' l' => lex (Bool.compare o o') (strs_cmp l l')
  | TOpt x, TOpt y | TList x, TList y | TDict x, TDict y => ty_cmp x y
  | TUnion xs, TUnion ys =>
      (fix go l1 l2 := match l1, l2 with
                       | [], [] => Eq | [], _ => Lt | _, [] => Gt
                       | x :: r, y :: r' => lex (ty_cmp x y) (go r r') end) xs ys
  | TObj xs, TObj ys =>
      (fix go l1 l2 := match l1, l2 with
                       | [], [] => Eq | [], _ => Lt | _, [] => Gt
                       | (k, x) :: r, (k', y) :: r' => lex (str_cmp k k') (lex (ty_cmp x y) (go r r')) end) xs ys
  | TPtr i, TPtr j => N.compare i j
  | _, _ => Nat.compare (ty_rank a) (ty_rank b)
  end.

Fixpoint insert_by {A} (cmp : A -> A -> comparison) (x : A) (l : list A) : list A :=
  match l with [] => [x] | y :: r => match cmp x y with Gt => y :: insert_by cmp x r | _ => x :: l end end.
Definition sort_by {A} (cmp : A -> A -> comparison) (l : list A) : list A := fold_right (insert_by cmp) [] l.

Fixpoint canon (t : ty) : ty :=
  match t with
  | TOpt x => TOpt (canon x) | TList x => TList (canon x) | TDict x => TDict (canon x)
  | TUnion ts => TUnion (sort_by ty_cmp (map canon ts))
  | TObj fs => TObj (sort_by (fun a b => str_cmp (fst a) (fst b)) (map (fun kv => (fst kv, canon (snd kv))) fs))
  | _ => t
  end.
Definition sem_eqb (a b : ty) : bool := ty_eqb (canon a) (canon b).
