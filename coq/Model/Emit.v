(* Model/Emit.v — the code emitter: metadata_to_typing (dynamic_typing/*.py to_typing_code), field bodies of the five
   generators (models/{base,pydantic,sqlmodel,attr,dataclasses}.py), class body (BODY template), compile_imports,
   _generate_code / generate_code, get_string_field_paths.  A template-free transliteration of DESIGN appendix A.6.
   Every function returns None where the implementation raises. *)
From Coq Require Import List Bool Arith NArith String Ascii.
From J2M.Model Require Import Base Framework Label.
Import ListNotations.
Local Open Scope list_scope.

Definition s_ (x : string) : str := map N_of_ascii (list_ascii_of_string x).
Notation "$ x" := (s_ x) (at level 0, x at level 0, only parsing).

Fixpoint join (sep : str) (l : list str) : str :=
  match l with [] => [] | [x] => x | x :: r => x ++ sep ++ join sep r end.
Definition COMMA_SP : str := $", ".

(* ---- number / escape rendering ---- *)
Definition hex_digit (n : N) : N := if (n <? 10)%N then (48 + n)%N else (87 + n)%N.      (* lower-case hex *)
Definition hex2 (c : N) : str := [hex_digit (c / 16 mod 16); hex_digit (c mod 16)]%N.
Definition hex4 (c : N) : str := hex2 (c / 256) ++ hex2 c.
Definition hex8 (c : N) : str := hex4 (c / 65536) ++ hex4 c.
Definition BSL : N := 92%N.   (* backslash *)
Definition DQ : N := 34%N.    (* double quote *)
Definition SQ : N := 39%N.    (* single quote *)

(* json.dumps(s) with ensure_ascii=True (py_encode_basestring_ascii) *)
Definition json_escape_char (c : N) : str :=
  if N.eqb c DQ then [BSL; DQ] else if N.eqb c BSL then [BSL; BSL]
  else if N.eqb c 10 then [BSL; 110%N] else if N.eqb c 13 then [BSL; 114%N] else if N.eqb c 9 then [BSL; 116%N]
  else if N.eqb c 8 then [BSL; 98%N] else if N.eqb c 12 then [BSL; 102%N]
  else if ((32 <=? c) && (c <=? 126))%N then [c]
  else if (c <? 65536)%N then [BSL; 117%N] ++ hex4 c
  else let v := (c - 65536)%N in
       [BSL; 117%N] ++ hex4 (55296 + v / 1024)%N ++ [BSL; 117%N] ++ hex4 (56320 + v mod 1024)%N.
Definition json_escape (s : str) : str := [DQ] ++ flat_map json_escape_char s ++ [DQ].
(* json.dumps(s, ensure_ascii=False) (py_encode_basestring) *)
Definition json_escape_char_raw (c : N) : str :=
  if N.eqb c DQ then [BSL; DQ] else if N.eqb c BSL then [BSL; BSL]
  else if N.eqb c 10 then [BSL; 110%N] else if N.eqb c 13 then [BSL; 114%N] else if N.eqb c 9 then [BSL; 116%N]
  else if N.eqb c 8 then [BSL; 98%N] else if N.eqb c 12 then [BSL; 102%N]
  else if (c <? 32)%N then [BSL; 117%N] ++ hex4 c
  else [c].
Definition json_escape_raw (s : str) : str := [DQ] ++ flat_map json_escape_char_raw s ++ [DQ].

Section Emit.
  (* oracles *)
  Variable unidecode_c : N -> str.
  Variable is_word_c : N -> bool.
  Variable is_decimal_c : N -> bool.
  Variable lower_c : N -> str.
  Variable upper_c : N -> str.
  Variable is_printable_c : N -> bool.    (* str.isprintable of one code point *)
  Variable blacklist : list str.
  Variable ones : list str.

  (* repr(str) *)
  Definition py_repr (s : str) : str :=
    let q := if existsb (N.eqb SQ) s && negb (existsb (N.eqb DQ) s) then DQ else SQ in
    let esc (c : N) : str :=
        if N.eqb c q || N.eqb c BSL then [BSL; c]
        else if N.eqb c 9 then [BSL; 116%N] else if N.eqb c 10 then [BSL; 110%N] else if N.eqb c 13 then [BSL; 114%N]
        else if (c <? 32)%N || N.eqb c 127 then [BSL; 120%N] ++ hex2 c
        else if (c <? 127)%N then [c]
        else if is_printable_c c then [c]
        else if (c <? 256)%N then [BSL; 120%N] ++ hex2 c
        else if (c <? 65536)%N then [BSL; 117%N] ++ hex4 c
        else [BSL; 85%N] ++ hex8 c in
    [q] ++ flat_map esc s ++ [q].
  Definition py_repr_list (l : list str) : str := $"[" ++ join COMMA_SP (map py_repr l) ++ $"]".

  Record opts := { o_fw : framework; o_maxlit : nat; o_conv : bool; o_cu : bool; o_meta : bool }.
  (* Pydantic and SqlModel force post_init_converters off *)
  Definition conv_on (o : opts) : bool :=
    match o_fw o with FPydantic | FSqlmodel => false | _ => o_conv o end.
  Definition use_literals (fw : framework) : bool := match fw with FAttrs => false | _ => true end.
  Definition use_actual_type (fw : framework) : bool := match fw with FPydantic | FSqlmodel => true | _ => false end.
  Definition lit_render_ok (limit : nat) (ls : list str) : bool := List.length ls <? limit.

  Definition imp := (str * option (list str))%type.      (* (module, None) = "import module" *)

  Definition pseudo_cls_name (p : pseudo) : str :=
    match p with
    | PInt => $"IntString" | PFloat => $"FloatString" | PBool => $"BooleanString"
    | PDate => $"IsoDateString" | PTime => $"IsoTimeString" | PDatetime => $"IsoDatetimeString"
    end.
  Definition pseudo_actual (p : pseudo) : list imp * str :=
    match p with
    | PInt => ([], $"int") | PFloat => ([], $"float") | PBool => ([], $"bool")
    | PDate => ([($"datetime", Some [$"date"])], $"date")
    | PTime => ([($"datetime", Some [$"time"])], $"time")
    | PDatetime => ([($"datetime", Some [$"datetime"])], $"datetime")
    end.
  Definition T (n : str) : imp := ($"typing", Some [n]).

  (* names : current model names (mutated while generators are constructed); ctx : path injections child -> parent *)
  Variable names : N -> option str.
  Variable ctx : N -> option N.

  Fixpoint print_ty (o : opts) (t : ty) {struct t} : option (list imp * str) :=
    match t with
    | TInt => Some ([], $"int") | TFloat => Some ([], $"float") | TBool => Some ([], $"bool") | TStr => Some ([], $"str")
    | TNull => Some ([], $"None")
    | TUnknown => Some ([T $"Any"], $"Any")
    | TPseudo p => Some (if use_actual_type (o_fw o) then pseudo_actual p
                         else ([($"json_to_models.dynamic_typing", Some [pseudo_cls_name p])], pseudo_cls_name p))
    | TLit _ ls => Some (if use_literals (o_fw o) && lit_render_ok (o_maxlit o) ls
                         then ([T $"Literal"], $"Literal[" ++ join COMMA_SP (map json_escape_raw ls) ++ $"]")
                         else ([], $"str"))
    | TOpt x => match print_ty o x with Some (i, n) => Some (i ++ [T $"Optional"], $"Optional[" ++ n ++ $"]") | None => None end
    | TList x => match print_ty o x with Some (i, n) => Some (i ++ [T $"List"], $"List[" ++ n ++ $"]") | None => None end
    | TDict x => match print_ty o x with Some (i, n) => Some (i ++ [T $"Dict"], $"Dict[str, " ++ n ++ $"]") | None => None end
    | TUnion ts =>
        match ts with
        | [] => None                      (* zip of an empty list cannot be unpacked: ValueError *)
        | _ =>
          match (fix go (l : list ty) : option (list imp * list str) :=
                   match l with
                   | [] => Some ([], [])
                   | x :: r => match print_ty o x, go r with
                               | Some (i, n), Some (ri, rn) => Some (i ++ ri, n :: rn)
                               | _, _ => None
                               end
                   end) ts with
          | Some (i, ns) => Some (i ++ [T $"Union"], $"Union[" ++ join COMMA_SP ns ++ $"]")
          | None => None
          end
        end
    | TObj _ => None                      (* "Can not convert dict instance to typing code" *)
    | TPtr m =>
        match names m with
        | None => None                    (* 'Model without name can not be typed' *)
        | Some n =>
          let path := match ctx m with Some p => match names p with Some pn => pn | None => [] end | None => [] end in
          Some ([], [SQ] ++ (match path with [] => n | _ => match n with [] => path | _ => path ++ $"." ++ n end end) ++ [SQ])
        end
    end.

  (* convert_field_name.  cached_method keeps ONE cache per generator object keyed by the arguments only, and
     __init__ has already cached convert_class_name(model.name): a key equal to the model's (unconverted) name
     therefore gets the class-style label.  `cached` = (unconverted model name, converted model name). *)
  Definition field_label (o : opts) (cached : str * str) (name : str) : option str :=
    let plain := if str_eqb name (fst cached) then Some (snd cached)
                 else prepare_label unidecode_c is_word_c is_decimal_c lower_c blacklist ones (o_cu o) true name in
    match o_fw o with
    | FSqlmodel => if str_eqb name $"id" || str_eqb name $"pk" then Some name else plain
    | _ => plain
    end.

  Definition kwargs_s (kw : list (str * str)) : str := join COMMA_SP (map (fun kv => fst kv ++ $"=" ++ snd kv) kw).
  Definition metadata_kw (name : str) : str * str := ($"metadata", $"{'J2M_ORIGINAL_FIELD': " ++ py_repr name ++ $"}").
  Definition inner (t : ty) : ty := match t with TOpt x => x | _ => t end.

  (* field_data of each generator: the text after "label: type" ("= body") and extra imports *)
  Definition field_body (o : opts) (name lab : str) (t : ty) (optional : bool) : list imp * option str :=
    let renamed := negb (str_eqb name lab) in
    match o_fw o with
    | FBase => ([], None)
    | FPydantic | FSqlmodel =>
        let default := if optional then Some (match inner t with TList _ => $"[]" | TDict _ => $"{}" | _ => $"None" end) else None in
        let kw := (if renamed then [($"alias", json_escape_raw name)] else [])
                  ++ (match o_fw o with
                      | FSqlmodel => if (str_eqb lab $"id" || str_eqb lab $"pk") && ty_eqb t TInt then [($"primary_key", $"True")] else []
                      | _ => [] end) in
        match kw with
        | [] => ([], default)
        | _ => ([], Some ($"Field(" ++ (match default with Some d => d | None => $"..." end) ++ $", " ++ kwargs_s kw ++ $")"))
        end
    | FAttrs =>
        let '(imports, kw) :=
          if optional then
            match inner t with
            | TList _ => ([], [($"factory", $"list")])
            | TDict _ => ([], [($"factory", $"dict")])
            | TPseudo p => if negb (conv_on o)
                           then ([($"attr.converters", Some [$"optional"])],
                                 [($"default", $"None"); ($"converter", $"optional(" ++ pseudo_cls_name p ++ $")")])
                           else ([], [($"default", $"None")])
            | _ => ([], [($"default", $"None")])
            end
          else match t with
               | TPseudo p => if negb (conv_on o) then ([], [($"converter", pseudo_cls_name p)]) else ([], [])
               | _ => ([], [])
               end in
        let kw := kw ++ (if o_meta o && renamed then [metadata_kw name] else []) in
        (imports, Some ($"attr.ib(" ++ kwargs_s kw ++ $")"))
    | FDataclasses =>
        let kw := (if optional then
                     match inner t with
                     | TList _ => [($"default_factory", $"list")]
                     | TDict _ => [($"default_factory", $"dict")]
                     | _ => [($"default", $"None")]
                     end
                   else []) ++ (if o_meta o && renamed then [metadata_kw name] else []) in
        match kw with
        | [] => ([], None)
        | [(k, v)] => if str_eqb k $"default" then ([], Some v) else ([], Some ($"field(" ++ kwargs_s kw ++ $")"))
        | _ => ([], Some ($"field(" ++ kwargs_s kw ++ $")"))
        end
    end.

  Definition field_line (o : opts) (cached : str * str) (name : str) (t : ty) (optional : bool) : option (list imp * str) :=
    match print_ty o t, field_label o cached name with
    | Some (i, typ), Some lab =>
        let '(bi, body) := field_body o name lab t optional in
        Some (i ++ bi, lab ++ $": " ++ typ ++ (match body with Some b => $" = " ++ b | None => [] end))
    | _, _ => None
    end.

  Fixpoint has_ptr (t : ty) : bool :=
    match t with
    | TPtr _ => true
    | TOpt x | TList x | TDict x => has_ptr x
    | TUnion ts => (fix any l := match l with [] => false | x :: r => has_ptr x || any r end) ts
    | TObj fs => (fix any (l : fields) := match l with [] => false | (_, x) :: r => has_ptr x || any r end) fs
    | _ => false
    end.
  (* sort_fields(model, unicode_fix = not convert_unicode) *)
  Definition sort_fields (unicode_fix : bool) (fs : fields) : list str * list str :=
    let opt := filter (fun kt => is_opt (snd kt)) fs in
    let req := filter (fun kt => negb (is_opt (snd kt))) fs in
    let req1 := filter (fun kt => negb (unicode_fix && has_ptr (snd kt))) req in
    let req2 := filter (fun kt => unicode_fix && has_ptr (snd kt)) req in
    (map fst (req1 ++ req2), map fst opt).

  (* get_string_field_paths: Some None = no (single) path; None = TypeError *)
  Fixpoint path_of (t : ty) : option (option str) :=
    match t with
    | TPseudo _ => Some (Some $"S")
    | TOpt x => match path_of x with Some (Some p) => Some (Some (79%N :: p)) | r => r end
    | TList x => match path_of x with Some (Some p) => Some (Some (76%N :: p)) | r => r end
    | TDict x => match path_of x with Some (Some p) => Some (Some (68%N :: p)) | r => r end
    | TObj _ => None
    | _ => Some None
    end.
  Fixpoint string_field_paths (fs : fields) : option (list (str * str)) :=
    match fs with
    | [] => Some []
    | (k, t) :: r =>
      match path_of t, string_field_paths r with
      | Some (Some p), Some rr => Some ((k, if str_eqb p $"S" then [] else p) :: rr)
      | Some None, Some rr => Some rr
      | _, _ => None
      end
    end.
  Definition dotted (p : str) : str := join $"." (map (fun c => [c]) p).

  Fixpoint opt_all {A} (l : list (option A)) : option (list A) :=
    match l with
    | [] => Some []
    | Some x :: r => match opt_all r with Some rr => Some (x :: rr) | None => None end
    | None :: _ => None
    end.
  Definition indent (code : str) : str :=
    let fix lines (cur : str) (s : str) : list str :=
        match s with [] => [rev cur] | c :: r => if N.eqb c 10 then rev cur :: lines [] r else lines (c :: cur) r end in
    join [10%N] (map (fun ln => $"    " ++ ln) (lines [] code)).

  (* GenericModelCodeGenerator.generate for one model, given its already rendered nested classes *)
  Definition class_code (o : opts) (orig_name name : str) (fs : fields) (nested : list str) : option (list imp * str) :=
    let cached := (orig_name, name) in
    let '(req, opt) := sort_fields (negb (o_cu o)) fs in
    let keep (k : str) := match o_fw o, lookup k fs with
                          | (FPydantic | FSqlmodel), Some (TUnknown | TNull) => false
                          | _, _ => true end in
    let line (optional : bool) (k : str) := match lookup k fs with Some t => field_line o cached k t optional | None => None end in
    match opt_all (map (line false) (filter keep req) ++ map (line true) (filter keep opt)) with
    | None => None
    | Some fl =>
      let imports := flat_map fst fl in
      let lines := map snd fl in
      let cls_type := match o_fw o with FAttrs => Some $"ClassType.Attrs" | FDataclasses => Some $"ClassType.Dataclass" | _ => None end in
      let deco :=
        if conv_on o then
          match string_field_paths fs with
          | None => None
          | Some ps =>
            match opt_all (map (fun kp => match field_label o cached (fst kp) with
                                          | Some l => Some (l ++ match snd kp with [] => [] | p => $"#" ++ dotted p end)
                                          | None => None end) ps) with
            | None => None
            | Some paths =>
              match paths, cls_type with
              | _ :: _, Some ct =>
                  Some ([($"json_to_models.models", Some [$"ClassType"]);
                         ($"json_to_models.models.string_converters", Some [$"convert_strings"])],
                        [$"convert_strings(" ++ py_repr_list paths ++ $", class_type=" ++ ct ++ $")"])
              | _, _ => Some ([], [])
              end
            end
          end
        else Some ([], []) in
      match deco with
      | None => None
      | Some (dimports, decos) =>
        let '(dimports, decos) :=
          match o_fw o with
          | FAttrs => (dimports ++ [($"attr", None)], $"attr.s" :: decos)
          | FDataclasses => (dimports ++ [($"dataclasses", Some [$"dataclass"; $"field"])], $"dataclass" :: decos)
          | _ => (dimports, decos)
          end in
        let bases := match o_fw o with FPydantic => Some $"BaseModel" | FSqlmodel => Some $"SQLModel, table=True" | _ => None end in
        let text := flat_map (fun d => $"@" ++ d ++ [10%N]) decos
                    ++ $"class " ++ name ++ (match bases with Some b => $"(" ++ b ++ $")" | None => [] end) ++ $":"
                    ++ flat_map (fun code => [10%N] ++ indent code ++ [10%N]) nested
                    ++ (match lines with [] => [10%N] ++ $"    pass" | _ => flat_map (fun l => [10%N] ++ $"    " ++ l) lines end) in
        let imports := imports ++ dimports ++
                       match o_fw o with
                       | FPydantic => [($"pydantic.v1", Some [$"BaseModel"; $"Field"])]
                       | FSqlmodel => [($"sqlmodel", Some [$"SQLModel"; $"Field"])]
                       | _ => [] end in
        let text := match o_fw o with
                    | FSqlmodel => $"# Warn! This generated code does not respect SQLModel Relationship and foreign_key, please add them manually." ++ [10%N] ++ text
                    | _ => text end in
        Some (imports, text)
      end
    end.
End Emit.

(* compile_imports *)
Definition compile_imports (imports : list (str * option (list str))) : str :=
  let pkgs := set_of_strs (flat_map (fun i => match snd i with None => [fst i] | Some _ => [] end) imports) in
  let mods := set_of_strs (flat_map (fun i => match snd i with Some _ => [fst i] | None => [] end) imports) in
  let classes_of (m : str) := set_of_strs (flat_map (fun i => if str_eqb (fst i) m then match snd i with Some cs => cs | None => [] end else []) imports) in
  let lines := map (fun m => $"import " ++ m) pkgs
               ++ map (fun m => $"from " ++ m ++ $" import " ++ join COMMA_SP (classes_of m)) mods in
  join [10%N] lines.

(* ---- _generate_code / generate_code ---- *)
Inductive node := Node (m : N) (nested : list node).       (* structure: {"model": m, "nested": [...]} *)
Definition ntab := list (N * option str).                    (* model index -> current name *)
Fixpoint nt_get (nt : ntab) (m : N) : option str :=
  match nt with [] => None | (k, v) :: r => if N.eqb k m then v else nt_get r m end.
Fixpoint nt_set (nt : ntab) (m : N) (v : option str) : ntab :=
  match nt with [] => [(m, v)] | (k, w) :: r => if N.eqb k m then (k, v) :: r else (k, w) :: nt_set r m v end.

Section Gen.
  Variable unidecode_c : N -> str.
  Variable is_word_c : N -> bool.
  Variable is_decimal_c : N -> bool.
  Variable lower_c : N -> str.
  Variable upper_c : N -> str.
  Variable is_printable_c : N -> bool.
  Variable blacklist : list str.
  Variable ones : list str.
  Variable ctx : N -> option N.                 (* path injections: child model -> root model *)
  Variable fields_of : N -> option fields.
  Variable o : opts.

  (* GenericModelCodeGenerator.__init__: model.set_raw_name(convert_class_name(model.name)) *)
  Definition convert_name (nt : ntab) (m : N) : option ntab :=
    match nt_get nt m with
    | Some n => match prepare_label unidecode_c is_word_c is_decimal_c lower_c blacklist ones (o_cu o) false n with
                | Some n' => Some (nt_set nt m (Some n'))
                | None => None
                end
    | None => None
    end.
  Definition render_level (gens : list (N * str * list str)) (nt : ntab) : option (list imp * list str) :=
    match opt_all (map (fun g => let '(m, orig, nested) := g in
                                 match fields_of m, nt_get nt m with
                                 | Some fs, Some name =>
                                     class_code unidecode_c is_word_c is_decimal_c lower_c is_printable_c blacklist ones
                                                (nt_get nt) ctx o orig name fs nested
                                 | _, _ => None
                                 end) gens) with
    | Some l => Some (flat_map fst l, map snd l)
    | None => None
    end.
  Fixpoint walk_node (n : node) (nt : ntab) {struct n} : option (list imp * (N * str * list str) * ntab) :=
    match n with
    | Node m nested =>
      match (fix p1 (l : list node) (nt : ntab) : option (list imp * list (N * str * list str) * ntab) :=
               match l with
               | [] => Some ([], [], nt)
               | x :: r => match walk_node x nt with
                           | Some (i, g, nt1) => match p1 r nt1 with
                                                 | Some (ri, rg, nt2) => Some (i ++ ri, g :: rg, nt2)
                                                 | None => None end
                           | None => None
                           end
               end) nested nt with
      | None => None
      | Some (ni, gens, nt1) =>
        match render_level gens nt1 with
        | None => None
        | Some (ci, classes) =>
          match nt_get nt1 m, convert_name nt1 m with
          | Some orig, Some nt2 => Some (ni ++ ci, (m, orig, classes), nt2)
          | _, _ => None
          end
        end
      end
    end.
  Fixpoint walk_items (l : list node) (nt : ntab) : option (list imp * list (N * str * list str) * ntab) :=
    match l with
    | [] => Some ([], [], nt)
    | x :: r => match walk_node x nt with
                | Some (i, g, nt1) => match walk_items r nt1 with
                                      | Some (ri, rg, nt2) => Some (i ++ ri, g :: rg, nt2)
                                      | None => None end
                | None => None
                end
    end.
  Definition DELIM : str := [10%N; 10%N; 10%N].
  (* -> (text, final name table) *)
  Definition generate_code (root : list node) (nt : ntab) (preamble : option str) : option (str * ntab) :=
    match walk_items root nt with
    | None => None
    | Some (ni, gens, nt1) =>
      match render_level gens nt1 with
      | None => None
      | Some (ci, classes) =>
        let imports := ni ++ ci in
        let s := match imports with [] => [] | _ => compile_imports imports ++ DELIM end in
        let s := s ++ match preamble with Some (c :: p) => (c :: p) ++ DELIM | _ => [] end in
        Some (s ++ join DELIM classes ++ [10%N], nt1)
      end
    end.
End Gen.
