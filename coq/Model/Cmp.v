(* Model/Cmp.v — model comparators (registry.py:12-44) over key sets; thresholds are rationals num/den. *)
From Coq Require Import List Bool Arith NArith.
From J2M.Model Require Import Base.
Import ListNotations.

Definition smem (x : str) (l : list str) : bool := existsb (str_eqb x) l.
Definition set_inter (a b : list str) : list str := filter (fun x => smem x b) a.
Definition set_union (a b : list str) : list str := a ++ filter (fun x => negb (smem x a)) b.
Definition set_eqb (a b : list str) : bool := forallb (fun x => smem x b) a && forallb (fun x => smem x a) b.

Inductive cmp_spec := CExact | CPercent (num den : nat) | CNumber (n : nat).
(* len(a & b) / len(a | b) >= num/den, cross-multiplied; both sets empty: ZeroDivisionError in Python (None here) *)
Definition cmp_one (s : cmp_spec) (a b : list str) : option bool :=
  match s with
  | CExact => Some (set_eqb a b)
  | CPercent num den => match length (set_union a b) with
                        | O => None
                        | _ => Some (Nat.leb (num * length (set_union a b)) (den * length (set_inter a b)))
                        end
  | CNumber n => Some (Nat.leb n (length (set_inter a b)))
  end.
(* any(cmp.cmp(a, b) for cmp in policy): short-circuits at the first True *)
Fixpoint models_cmp (policy : list cmp_spec) (a b : list str) : option bool :=
  match policy with
  | [] => Some false
  | s :: r => match cmp_one s a b with
              | Some true => Some true
              | Some false => models_cmp r a b
              | None => None
              end
  end.
Definition default_policy : list cmp_spec := [CPercent 7 10; CNumber 10].
