(* Model/Framework.v — the five code generators *)
Inductive framework := FBase | FPydantic | FSqlmodel | FAttrs | FDataclasses.
Definition framework_eqb (a b : framework) : bool :=
  match a, b with
  | FBase, FBase | FPydantic, FPydantic | FSqlmodel, FSqlmodel | FAttrs, FAttrs | FDataclasses, FDataclasses => true
  | _, _ => false
  end.
