(* Model/Detect.v — MetadataGenerator._convert/_detect_type/generate (generator.py:45-124). *)
From Coq Require Import List Bool Arith NArith ZArith.
From J2M.Model Require Import Base Union Merge Optimize.
Import ListNotations.

Section Detect.
  Variable registry : list pseudo.
  Variable replaces : list (pseudo * pseudo).
  (* oracles: T.to_internal_value(s) does not raise ValueError; regex_i.match(key) *)
  Variable accepts : pseudo -> str -> bool.
  Variable n_regex : nat.
  Variable key_matches : nat -> str -> bool.
  Variable dict_fields : list str.

  Definition detect_str (s : str) : ty :=
    match find (fun p => accepts p s) registry with
    | Some p => TPseudo p
    | None => mk_lit [s]
    end.
  (* "if len(types) > 1: union = DUnion(*types); one member -> that member" *)
  Definition elem_type (types : list ty) : ty :=
    match types with
    | [] => TUnknown
    | [t] => t
    | _ => match mk_union types with [t] => t | l => TUnion l end
    end.
  Definition all_keys_match (ks : list str) : bool :=
    existsb (fun i => forallb (key_matches i) ks) (seq 0 n_regex).

  Fixpoint detect (convert_dict : bool) (v : json) {struct v} : ty :=
    match v with
    | JNull => TNull
    | JBool _ => TBool
    | JInt _ => TInt
    | JFloat _ => TFloat
    | JStr s => detect_str s
    | JArr l => TList (elem_type ((fix go (l : list json) := match l with [] => [] | x :: r => detect true x :: go r end) l))
    | JObj kvs =>
        match kvs with
        | [] => TDict TUnknown
        | _ =>
          if convert_dict && negb (all_keys_match (map fst kvs))
          then TObj ((fix go (l : list (str * json)) : fields :=
                        match l with
                        | [] => []
                        | (k, x) :: r => (k, detect (negb (existsb (str_eqb k) dict_fields)) x) :: go r
                        end) kvs)       (* keys of a parsed JSON object are unique (wf_json) *)
          else TDict (elem_type ((fix go (l : list (str * json)) := match l with [] => [] | (_, x) :: r => detect true x :: go r end) kvs))
        end
    end.
  (* _convert: the top-level sample is always a model, never a mapping *)
  Definition convert (kvs : list (str * json)) : fields :=
    map (fun kv => (fst kv, detect (negb (existsb (str_eqb (fst kv)) dict_fields)) (snd kv))) kvs.

  Definition generate (fuel : nat) (samples : list (list (str * json))) : option fields :=
    optimize_fields registry replaces N.eqb fuel (merge_field_sets N.eqb (map convert samples)).
End Detect.
