(* Model/Grammar.v — the strings accepted by CPython 3.12 `int(s)` (base 10), `float(s)` and the boolean-string
   rule `s.lower() in ("true", "false")` (dynamic_typing/string_serializable.py:164), as boolean recognisers over
   `str` = list of code points.  Executable definitions only; theorems are in Proofs/GrammarProps.v; the recognisers
   are tied to CPython by differential testing (tools/validate_grammar.py).

   CPython reads a str in two steps (Objects/unicodeobject.c `_PyUnicode_TransformDecimalAndSpaceToASCII`, then
   Objects/longobject.c `PyLong_FromString` / Objects/floatobject.c `PyFloat_FromString` +
   Python/pystrtod.c `_Py_string_to_number_with_underscores`, `_Py_dg_strtod`, `_Py_parse_inf_or_nan`):
     1. every code point >= 127 is replaced: a `str.isspace` character by ' ', a Unicode decimal digit (category Nd,
        any script) by the ASCII digit of its value, anything else by '?' (and the text is cut after that '?').
        Code points < 127 are kept unchanged.
     2. the ASCII text is stripped of C-locale whitespace (Py_ISSPACE: \t \n \v \f \r and ' ') at both ends and the
        rest must match the numeric grammar completely.
   Consequence (validated, see the script): U+001C..U+001F satisfy `str.isspace()` but are NOT stripped by
   int()/float() (they are < 127, hence never rewritten to ' ', and Py_ISSPACE rejects them); U+0085, U+00A0,
   U+2003, ... are stripped.  The cut after '?' is not modelled: '?' matches nothing in either grammar and both
   recognisers are complete matches, so the cut cannot change the answer.

   Modelled, not verified: `sys.set_int_max_str_digits` (default 4300) makes int() raise ValueError for more than 4300
   digits; `int_ok` ignores the limit (float() has none).  The validation script stays far below it. *)
From Coq Require Import List Bool NArith.
From J2M.Model Require Import Base.
Import ListNotations.
Local Open Scope N_scope.

(* ---- ASCII character classes ---- *)
Definition G_SPACE : N := 32.  Definition G_PLUS : N := 43.  Definition G_MINUS : N := 45.
Definition G_DOT : N := 46.    Definition G_QMARK : N := 63. Definition G_USCORE : N := 95.
Definition g_digit (c : N) : bool := (48 <=? c) && (c <=? 57).                 (* '0'..'9' *)
Definition g_cspace (c : N) : bool := ((9 <=? c) && (c <=? 13)) || (c =? G_SPACE). (* Py_ISSPACE *)
Definition g_sign (c : N) : bool := (c =? G_PLUS) || (c =? G_MINUS).
Definition g_exp (c : N) : bool := (c =? 101) || (c =? 69).                    (* 'e' 'E' *)
Definition g_lower (c : N) : N := if (65 <=? c) && (c <=? 90) then c + 32 else c. (* Py_TOLOWER *)

Definition s_inf : str := [105; 110; 102].                                     (* "inf" *)
Definition s_infinity : str := [105; 110; 102; 105; 110; 105; 116; 121].       (* "infinity" *)
Definition s_nan : str := [110; 97; 110].                                      (* "nan" *)
Definition s_true : str := [116; 114; 117; 101].                               (* "true" *)
Definition s_false : str := [102; 97; 108; 115; 101].                          (* "false" *)

(* ---- stripping (on the ASCII text of step 1) ---- *)
Fixpoint g_lstrip (t : str) : str :=
  match t with
  | c :: r => if g_cspace c then g_lstrip r else t
  | [] => []
  end.
Definition g_rstrip (t : str) : str := rev (g_lstrip (rev t)).
Definition g_strip (t : str) : str := g_rstrip (g_lstrip t).

(* ---- int: [sign] digit (['_'] digit)*   (PyLong_FromString, base 10) ---- *)
(* the text after a digit: more digits, single underscores each followed by a digit, then the end *)
Fixpoint int_after_digit (t : str) : bool :=
  match t with
  | [] => true
  | c :: r =>
    if g_digit c then int_after_digit r
    else if c =? G_USCORE then match r with d :: r' => g_digit d && int_after_digit r' | [] => false end
    else false
  end.
Definition int_digits (t : str) : bool :=
  match t with c :: r => g_digit c && int_after_digit r | [] => false end.
Definition unsign (t : str) : str :=
  match t with c :: r => if g_sign c then r else t | [] => [] end.
Definition int_ascii (t : str) : bool := int_digits (unsign (g_strip t)).

(* ---- float: [sign] ( inf | infinity | nan | mantissa [exponent] ) ---- *)
(* exponent after 'e'/'E': [sign] digits *)
Definition float_exp (t : str) : bool := int_digits (unsign t).
(* after a fraction digit *)
Fixpoint float_frac_after_digit (t : str) : bool :=
  match t with
  | [] => true
  | c :: r =>
    if g_digit c then float_frac_after_digit r
    else if c =? G_USCORE then match r with d :: r' => g_digit d && float_frac_after_digit r' | [] => false end
    else if g_exp c then float_exp r
    else false
  end.
(* after the point; `seen` = the integer part had a digit ("1." and "1.e5" are numbers, "." and ".e5" are not).
   An underscore next to the point is rejected on either side ("1_.5", "1._5"). *)
Definition float_after_point (seen : bool) (t : str) : bool :=
  match t with
  | [] => seen
  | c :: r =>
    if g_digit c then float_frac_after_digit r
    else if g_exp c then seen && float_exp r
    else false
  end.
(* after a digit of the integer part *)
Fixpoint float_int_after_digit (t : str) : bool :=
  match t with
  | [] => true
  | c :: r =>
    if g_digit c then float_int_after_digit r
    else if c =? G_USCORE then match r with d :: r' => g_digit d && float_int_after_digit r' | [] => false end
    else if c =? G_DOT then float_after_point true r
    else if g_exp c then float_exp r
    else false
  end.
Definition float_number (t : str) : bool :=
  match t with
  | c :: r => if g_digit c then float_int_after_digit r else if c =? G_DOT then float_after_point false r else false
  | [] => false
  end.
Definition float_special (t : str) : bool :=
  let l := map g_lower t in str_eqb l s_inf || str_eqb l s_infinity || str_eqb l s_nan.
Definition float_unsigned (t : str) : bool := float_special t || float_number t.
Definition float_ascii (t : str) : bool := float_unsigned (unsign (g_strip t)).

(* ---- CPython's own algorithm for float (two passes), kept as a cross-check of `float_ascii` in the validation:
        underscores are legal only between two ASCII digits; they are removed; the rest is parsed without them ---- *)
Fixpoint us_ok (prev : N) (t : str) : bool :=
  match t with
  | [] => negb (prev =? G_USCORE)
  | c :: r =>
    (if c =? G_USCORE then g_digit prev else negb (prev =? G_USCORE) || g_digit c) && us_ok c r
  end.
Definition drop_us (t : str) : str := filter (fun c => negb (c =? G_USCORE)) t.
Fixpoint skip_digits (t : str) : str :=
  match t with c :: r => if g_digit c then skip_digits r else t | [] => [] end.
Definition plain_exp_end (t : str) : bool :=      (* [('e'|'E') [sign] digit+] end *)
  match t with
  | [] => true
  | c :: r => g_exp c && (let u := unsign r in match u with d :: _ => g_digit d && match skip_digits u with [] => true | _ => false end | [] => false end)
  end.
Definition plain_number (t : str) : bool :=
  let a := skip_digits t in
  let nint := (length t - length a)%nat in
  match a with
  | c :: r =>
    if c =? G_DOT then
      let b := skip_digits r in
      let nfrac := (length r - length b)%nat in
      negb (Nat.eqb (nint + nfrac) 0) && plain_exp_end b
    else negb (Nat.eqb nint 0) && plain_exp_end a
  | [] => negb (Nat.eqb nint 0)
  end.
Definition float_ascii_2pass (t : str) : bool :=
  let u := g_strip t in
  if existsb (N.eqb G_USCORE) u
  then us_ok 0 u && (let v := unsign (drop_us u) in float_special v || plain_number v)
  else let v := unsign u in float_special v || plain_number v.

Section Grammar.
  Variable is_space_c : N -> bool.       (* chr(c).isspace() *)
  Variable digit_val_c : N -> option N.  (* unicodedata.decimal(chr(c)): Some 0..9 for category Nd, any script *)
  Variable lower_c : N -> str.           (* chr(c).lower(), as in Model/Label.v *)

  (* step 1: _PyUnicode_TransformDecimalAndSpaceToASCII, one code point *)
  Definition norm_c (c : N) : N :=
    if c <? 127 then c
    else if is_space_c c then G_SPACE
    else match digit_val_c c with Some d => 48 + d | None => G_QMARK end.
  Definition norm (s : str) : str := map norm_c s.

  (* what int()/float() strip: NOT str.isspace below 127 *)
  Definition strip_c (c : N) : bool := g_cspace (norm_c c).

  Definition int_ok (s : str) : bool := int_ascii (norm s).
  Definition float_ok (s : str) : bool := float_ascii (norm s).
  Definition float_ok_2pass (s : str) : bool := float_ascii_2pass (norm s).

  (* value.lower() in ("true", "false").  str.lower is per code point except for the final-sigma rule, whose two
     possible outputs are both outside "true"/"false"; so the per-character oracle decides the same strings. *)
  Definition bool_ok (s : str) : bool :=
    let l := flat_map lower_c s in str_eqb l s_true || str_eqb l s_false.
End Grammar.
