(* Sem/NF.v — the normal form of C08, as decidable predicates, and the invariant of raw (pre-optimisation) terms. *)
From Coq Require Import List Bool Arith NArith.
From J2M.Model Require Import Base Union Optimize.
Import ListNotations.

Definition is_pseudo t := match t with TPseudo _ => true | _ => false end.
Definition is_list t := match t with TList _ => true | _ => false end.
Definition is_dict t := match t with TDict _ => true | _ => false end.
Definition is_obj t := match t with TObj _ => true | _ => false end.
Definition is_ptr t := match t with TPtr _ => true | _ => false end.
Definition count {A} (f : A -> bool) (l : list A) : nat := length (filter f l).
Fixpoint nodupb (l : list ty) : bool :=
  match l with [] => true | x :: r => negb (existsb (ty_eqb x) r) && nodupb r end.
Fixpoint wf_json (v : json) : bool :=
  match v with
  | JArr l => (fix all l := match l with [] => true | x :: r => wf_json x && all r end) l
  | JObj l => (fix nd (l : list (str * json)) := match l with [] => true | (k, _) :: r => negb (existsb (fun kv => str_eqb k (fst kv)) r) && nd r end) l
              && (fix all (l : list (str * json)) := match l with [] => true | (_, x) :: r => wf_json x && all r end) l
  | _ => true
  end.

Section NF.
  Variable registry : list pseudo.
  Definition str_like (t : ty) : bool := in_reg registry t.      (* TStr or a registered pseudo-type *)

  (* the statement of C08, member by member *)
  Definition union_ok (ts : list ty) : bool :=
    (2 <=? length ts)
    && forallb (fun m => negb (is_union m) && negb (is_null m) && negb (is_opt m)) ts     (* flat, no null, no Optional member *)
    && nodupb ts                                                                           (* no duplicates *)
    && negb (existsb (ty_eqb TInt) ts && existsb (ty_eqb TFloat) ts)                       (* int absorbed by float *)
    && negb (existsb is_str ts && existsb (fun m => is_lit m || str_like m && negb (is_str m)) ts)  (* str alone *)
    && (count is_list ts <=? 1) && (count is_dict ts <=? 1) && (count is_obj ts <=? 1)
    && (count is_lit ts <=? 1) && (count str_like ts <=? 1)
    && negb (existsb is_unknown ts).     (* Any never sits beside a concrete member *)
  Fixpoint nf (t : ty) : bool :=
    match t with
    | TUnion ts => union_ok ts && (fix all l := match l with [] => true | m :: r => nf m && all r end) ts
    | TOpt x => nf x && negb (is_opt x)
    | TList x | TDict x => nf x
    | TObj fs => (fix all (l : fields) := match l with [] => true | (_, m) :: r => nf m && all r end) fs
    | TLit o ls => negb o && match ls with [] => false | _ => true end
    | _ => true
    end.

  (* member order that one pass of _optimize_union produces: others, object, list, mapping, string type, literal *)
  Definition cat_rank (t : ty) : nat :=
    match t with
    | TObj _ => 1 | TList _ => 2 | TDict _ => 3 | TLit _ _ => 5
    | _ => if str_like t then 4 else 0
    end.
  Fixpoint sorted_by_rank (l : list ty) : bool :=
    match l with
    | [] => true
    | x :: r => forallb (fun y => cat_rank x <=? cat_rank y) r && sorted_by_rank r
    end.
  Fixpoint ordered (t : ty) : bool :=
    match t with
    | TUnion ts => sorted_by_rank ts && (fix all l := match l with [] => true | m :: r => ordered m && all r end) ts
    | TOpt x | TList x | TDict x => ordered x
    | TObj fs => (fix all (l : fields) := match l with [] => true | (_, m) :: r => ordered m && all r end) fs
    | _ => true
    end.
  Definition nfo (t : ty) : bool := nf t && ordered t.

  (* Raw terms: what detection + DUnion construction + merge_field_sets hand to optimize_type before any model
     exists.  Unions are outputs of DUnion.__init__: flat, duplicate-free, no overflowed literal inside, at most
     one literal, never str beside a literal, never an Optional member; Optional only at the top of a field. *)
  Definition raw_union_ok (ts : list ty) : bool :=
    forallb (fun m => negb (is_union m) && negb (is_opt m) && negb (is_ptr m)) ts
    && nodupb ts
    && (count is_lit ts <=? 1)
    && forallb (fun m => match m with TLit o ls => negb o && match ls with [] => false | _ => true end | _ => true end) ts
    && negb (existsb is_str ts && existsb is_lit ts)
    && match ts with [] => false | _ => true end.
  Fixpoint raw (t : ty) : bool :=          (* inside a field *)
    match t with
    | TUnion ts => raw_union_ok ts && (fix all l := match l with [] => true | m :: r => raw m && all r end) ts
    | TOpt _ => false
    | TList x | TDict x => raw x
    | TObj fs => (fix all (l : fields) := match l with [] => true | (_, m) :: r => raw_field m && all r end) fs
    | TPtr _ => false
    | TLit o ls => if o then match ls with [] => true | _ => false end else match ls with [] => false | _ => true end
    | _ => true
    end
  with raw_field (t : ty) : bool :=        (* a field of a (merged) field set: Optional allowed once, on top *)
    match t with
    | TOpt x => raw x
    | TUnion ts => raw_union_ok ts && (fix all l := match l with [] => true | m :: r => raw m && all r end) ts
    | TList x | TDict x => raw x
    | TObj fs => (fix all (l : fields) := match l with [] => true | (_, m) :: r => raw_field m && all r end) fs
    | TPtr _ => false
    | TLit o ls => if o then match ls with [] => true | _ => false end else match ls with [] => false | _ => true end
    | _ => true
    end.
  Definition raw_fields (fs : fields) : bool := forallb (fun kv => raw_field (snd kv)) fs.
End NF.
