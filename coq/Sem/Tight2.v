(* Sem/Tight2.v -- C02, sharper reading: str only as a documented widening.
   tightb2 registry accepts fuel obs missing t is Sem/Tight.tightb with the clause of TStr replaced by a REASON
   among the strings observed at the position:
     reason_long   some observed string is plain (no registered pseudo-type accepts it) and has
                   MAX_STRING_LENGTH code points or more                      (a literal overflowed on length),
     reason_many   more than MAX_LITERALS distinct plain strings were observed (a literal set overflowed on size),
     reason_mixed  two observed strings are detected as different pseudo-types  (pseudo-types collapsed to str).
   Every other clause is the clause of Sem/Tight.v, verbatim.  tight2 is the fuel-free propositional twin (the
   twin of tightb, `tight`, lives in Proofs/TightProps.v; vals2 / miss2 / tcontP2 are its vals / miss / tcontP).
   Definitions only; the theorems are in Proofs/Tight2Props.v. *)
From Coq Require Import List Bool Arith NArith ZArith.
From J2M.Model Require Import Base Union.
From J2M.Sem Require Import Tight.
Import ListNotations.

Definition str_dec : forall a b : str, {a = b} + {a <> b} := list_eq_dec N.eq_dec.
(* the strings routed to a position *)
Definition strs_of (obs : list json) : list str :=
  flat_map (fun v => match v with JStr s => [s] | _ => [] end) obs.
Definition vals2 (k : str) (objs : list (list (str * json))) : list json :=
  flat_map (fun o => match lookup k o with Some v => [v] | None => [] end) objs.
Definition miss2 (k : str) (objs : list (list (str * json))) : bool :=
  existsb (fun o => negb (has_key k o)) objs.

Section Tight2.
  Variable registry : list pseudo.
  Variable accepts : pseudo -> str -> bool.

  (* no registered pseudo-type accepts s: detect_str makes a literal of it *)
  Definition plain (s : str) : bool := forallb (fun p => negb (accepts p s)) registry.
  (* the pseudo-type detect_str returns for s: the first registered one that accepts it *)
  Definition det (s : str) : option pseudo := find (fun p => accepts p s) registry.

  Definition reason_long (ss : list str) : bool :=
    existsb (fun s => plain s && (MAX_STRING_LENGTH <=? List.length s)) ss.
  Definition reason_many (ss : list str) : bool :=
    MAX_LITERALS <? List.length (nodup str_dec (filter plain ss)).
  Definition reason_mixed (ss : list str) : bool :=
    existsb (fun s => existsb (fun s' => match det s, det s' with
                                         | Some p, Some q => negb (pseudo_eqb p q)
                                         | _, _ => false
                                         end) ss) ss.
  Definition str_reason (obs : list json) : bool :=
    let ss := strs_of obs in reason_long ss || reason_many ss || reason_mixed ss.

  Fixpoint tightb2 (fuel : nat) (obs : list json) (missing : bool) (t : ty) {struct fuel} : bool :=
    match fuel with O => false | S fuel =>
    match t with
    | TInt => existsb (fun v => match v with JInt _ => true | _ => false end) obs
    | TFloat => existsb (fun v => match v with JInt _ | JFloat _ => true | _ => false end) obs          (* int absorbed by float *)
    | TBool => existsb (fun v => match v with JBool _ => true | _ => false end) obs
    | TNull => existsb is_jnull obs
    | TStr => str_reason obs                                                                              (* str needs one of the three reasons *)
    | TUnknown => false
    | TPseudo p => existsb (fun v => match v with JStr s => accepts p s | _ => false end) obs
    | TLit o ls => negb o && negb (isnil ls) &&
                   forallb (fun s => existsb (fun v => match v with JStr s' => str_eqb s s' | _ => false end) obs) ls
    | TOpt x => (missing || existsb is_jnull obs) && tight_elem2 fuel obs x
    | TList x => negb (isnil (arrays_of obs)) && tight_container2 fuel (arrays_of obs) (concat (arrays_of obs)) x
    | TDict x => negb (isnil (objects_of obs)) &&
                 tight_container2 fuel (map (map snd) (objects_of obs)) (concat (map (map snd) (objects_of obs))) x
    | TUnion ts => (2 <=? List.length ts) && forallb (tightb2 fuel obs false) ts
    | TObj fs =>
        let objs := objects_of obs in
        negb (isnil objs) &&
        forallb (fun kt =>
                   let k := fst kt in
                   let vals := flat_map (fun o => match lookup k o with Some v => [v] | None => [] end) objs in
                   negb (isnil vals) &&
                   match snd kt with
                   | TOpt x => (existsb (fun o => negb (has_key k o)) objs || existsb is_jnull vals) && tight_elem2 fuel vals x
                   | x => tightb2 fuel vals false x
                   end) fs
    | TPtr _ => true
    end end
  with tight_elem2 (fuel : nat) (obs : list json) (x : ty) {struct fuel} : bool :=
    match fuel with O => false | S fuel => tightb2 fuel obs false x end
  with tight_container2 (fuel : nat) (containers : list (list json)) (elems : list json) (x : ty) {struct fuel} : bool :=
    match fuel with O => false | S fuel =>
    match x with
    | TUnknown => existsb isnil containers
    | TOpt TUnknown => existsb isnil containers && existsb is_jnull elems
    | _ => tightb2 fuel elems false x
    end end.

  (* the fuel-free specification *)
  Definition tcontP2 (x : ty) (containers : list (list json)) (elems : list json) (P : Prop) : Prop :=
    match x with
    | TUnknown => existsb isnil containers = true
    | TOpt TUnknown => existsb isnil containers = true /\ existsb is_jnull elems = true
    | _ => P
    end.

  Fixpoint tight2 (t : ty) (obs : list json) (m : bool) {struct t} : Prop :=
    match t with
    | TInt => existsb (fun v => match v with JInt _ => true | _ => false end) obs = true
    | TFloat => existsb (fun v => match v with JInt _ | JFloat _ => true | _ => false end) obs = true
    | TBool => existsb (fun v => match v with JBool _ => true | _ => false end) obs = true
    | TNull => existsb is_jnull obs = true
    | TStr => str_reason obs = true
    | TUnknown => False
    | TPseudo p => existsb (fun v => match v with JStr s => accepts p s | _ => false end) obs = true
    | TLit o ls => o = false /\ ls <> [] /\ forall s, In s ls -> In (JStr s) obs
    | TOpt x => (m = true \/ existsb is_jnull obs = true) /\ tight2 x obs false
    | TList x => arrays_of obs <> [] /\
                 tcontP2 x (arrays_of obs) (concat (arrays_of obs)) (tight2 x (concat (arrays_of obs)) false)
    | TDict x => objects_of obs <> [] /\
                 tcontP2 x (map (map snd) (objects_of obs)) (concat (map (map snd) (objects_of obs)))
                         (tight2 x (concat (map (map snd) (objects_of obs))) false)
    | TUnion ts => 2 <= List.length ts /\
                   (fix all (l : list ty) : Prop := match l with [] => True | x :: r => tight2 x obs false /\ all r end) ts
    | TObj fs =>
        objects_of obs <> [] /\
        (fix all (l : fields) : Prop :=
           match l with
           | [] => True
           | (k, x) :: r => (vals2 k (objects_of obs) <> [] /\
                             tight2 x (vals2 k (objects_of obs)) (miss2 k (objects_of obs))) /\ all r
           end) fs
    | TPtr _ => True
    end.
End Tight2.
