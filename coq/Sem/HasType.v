(* Sem/HasType.v — value semantics of the type IR: which JSON values a type admits.
   Relative to a graph lookup (model index -> fields) for TPtr.  Inductive relation + decidable twin on fuel. *)
From Coq Require Import List Bool Arith NArith ZArith.
From J2M.Model Require Import Base.
Import ListNotations.

Section Sem.
  Variable accepts : pseudo -> str -> bool.      (* oracle: the pseudo-type's parser accepts the string *)
  Variable model_fields : N -> option fields.    (* the registry: fields of the model with a given index *)

  Inductive ht : json -> ty -> Prop :=
  | HInt z : ht (JInt z) TInt
  | HIntF z : ht (JInt z) TFloat
  | HFloat f : ht (JFloat f) TFloat
  | HBool b : ht (JBool b) TBool
  | HNull : ht JNull TNull
  | HAny v : ht v TUnknown
  | HStr s : ht (JStr s) TStr
  | HLit s ls : In s ls -> ht (JStr s) (TLit false ls)
  | HLitO s ls : ht (JStr s) (TLit true ls)      (* an overflowed literal is rendered as str *)
  | HPs s p : accepts p s = true -> ht (JStr s) (TPseudo p)
  | HOptN t : ht JNull (TOpt t)
  | HOptS v t : ht v t -> ht v (TOpt t)
  | HList l t : Forall (fun v => ht v t) l -> ht (JArr l) (TList t)
  | HDict l t : Forall (fun kv => ht (snd kv) t) l -> ht (JObj l) (TDict t)
  | HUnion v ts t : In t ts -> ht v t -> ht v (TUnion ts)
  | HObj l fs :
      Forall (fun kv => exists t, lookup (fst kv) fs = Some t /\ ht (snd kv) t) l ->
      (forall k t, lookup k fs = Some t -> is_opt t = false -> In k (map fst l)) ->
      ht (JObj l) (TObj fs)
  | HPtr l i fs : model_fields i = Some fs -> ht (JObj l) (TObj fs) -> ht (JObj l) (TPtr i).

  (* every key of the object has a field admitting its value; every non-Optional field is present *)
  Definition obj_ok (fs : fields) (l : list (str * json)) : Prop :=
    Forall (fun kv => exists t, lookup (fst kv) fs = Some t /\ ht (snd kv) t) l /\
    (forall k t, lookup k fs = Some t -> is_opt t = false -> In k (map fst l)).

  Definition wider (a b : ty) : Prop := forall v, ht v a -> ht v b.

  (* decidable twin; fuel bounds the number of pointer dereferences plus the term depth *)
  Fixpoint htb (fuel : nat) (v : json) (t : ty) {struct fuel} : bool :=
    match fuel with O => false | S fuel =>
    match t with
    | TUnknown => true
    | TInt => match v with JInt _ => true | _ => false end
    | TFloat => match v with JInt _ | JFloat _ => true | _ => false end
    | TBool => match v with JBool _ => true | _ => false end
    | TNull => match v with JNull => true | _ => false end
    | TStr => match v with JStr _ => true | _ => false end
    | TLit o ls => match v with JStr s => o || existsb (str_eqb s) ls | _ => false end
    | TPseudo p => match v with JStr s => accepts p s | _ => false end
    | TOpt x => match v with JNull => true | _ => htb fuel v x end
    | TList x => match v with JArr l => forallb (fun e => htb fuel e x) l | _ => false end
    | TDict x => match v with JObj l => forallb (fun kv => htb fuel (snd kv) x) l | _ => false end
    | TUnion ts => existsb (htb fuel v) ts
    | TObj fs =>
        match v with
        | JObj l => forallb (fun kv => match lookup (fst kv) fs with Some t => htb fuel (snd kv) t | None => false end) l
                    && forallb (fun kt => is_opt (snd kt) || existsb (str_eqb (fst kt)) (map fst l)) fs
        | _ => false
        end
    | TPtr i => match v, model_fields i with JObj _, Some fs => htb fuel v (TObj fs) | _, _ => false end
    end end.
End Sem.
