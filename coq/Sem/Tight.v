(* Sem/Tight.v — C02: every part of an inferred type is justified by an observation.
   tightb obs missing t: `obs` are the sample values routed to the position, `missing` says that some object of the
   enclosing model lacked the key.  Evidence per constructor; the three documented widenings are exactly the places
   where the evidence is weaker than "some observation inhabits precisely this member": int is evidence for float, any
   string is evidence for str, a string the parser accepts is evidence for a pseudo-type. *)
From Coq Require Import List Bool Arith NArith ZArith.
From J2M.Model Require Import Base.
Import ListNotations.

Definition is_jnull v := match v with JNull => true | _ => false end.
Definition arrays_of (obs : list json) : list (list json) := flat_map (fun v => match v with JArr l => [l] | _ => [] end) obs.
Definition objects_of (obs : list json) : list (list (str * json)) := flat_map (fun v => match v with JObj l => [l] | _ => [] end) obs.
Definition isnil {A} (l : list A) : bool := match l with [] => true | _ => false end.

Section Tight.
  Variable accepts : pseudo -> str -> bool.
  Fixpoint tightb (fuel : nat) (obs : list json) (missing : bool) (t : ty) {struct fuel} : bool :=
    match fuel with O => false | S fuel =>
    match t with
    | TInt => existsb (fun v => match v with JInt _ => true | _ => false end) obs
    | TFloat => existsb (fun v => match v with JInt _ | JFloat _ => true | _ => false end) obs          (* int absorbed by float *)
    | TBool => existsb (fun v => match v with JBool _ => true | _ => false end) obs
    | TNull => existsb is_jnull obs
    | TStr => existsb (fun v => match v with JStr _ => true | _ => false end) obs                       (* literals overflow / pseudo-types collapse to str *)
    | TUnknown => false                                                                                   (* Any only as an element type: see TList / TDict *)
    | TPseudo p => existsb (fun v => match v with JStr s => accepts p s | _ => false end) obs
    | TLit o ls => negb o && negb (isnil ls) &&
                   forallb (fun s => existsb (fun v => match v with JStr s' => str_eqb s s' | _ => false end) obs) ls
    | TOpt x => (missing || existsb is_jnull obs) && tight_elem fuel obs x
    | TList x => negb (isnil (arrays_of obs)) && tight_container fuel (arrays_of obs) (concat (arrays_of obs)) x
    | TDict x => negb (isnil (objects_of obs)) &&
                 tight_container fuel (map (map snd) (objects_of obs)) (concat (map (map snd) (objects_of obs))) x
    | TUnion ts => (2 <=? length ts) && forallb (tightb fuel obs false) ts
    | TObj fs =>
        let objs := objects_of obs in
        negb (isnil objs) &&
        forallb (fun kt =>
                   let k := fst kt in
                   let vals := flat_map (fun o => match lookup k o with Some v => [v] | None => [] end) objs in
                   negb (isnil vals) &&
                   match snd kt with
                   | TOpt x => (existsb (fun o => negb (has_key k o)) objs || existsb is_jnull vals) && tight_elem fuel vals x
                   | x => tightb fuel vals false x
                   end) fs
    | TPtr _ => true          (* the registry stage is outside this predicate *)
    end end
  (* the payload of an Optional: TNull is allowed there (a field that only ever held null) *)
  with tight_elem (fuel : nat) (obs : list json) (x : ty) {struct fuel} : bool :=
    match fuel with O => false | S fuel => tightb fuel obs false x end
  (* element type of a container: Any needs a container observed empty (or only nulls next to an Optional) *)
  with tight_container (fuel : nat) (containers : list (list json)) (elems : list json) (x : ty) {struct fuel} : bool :=
    match fuel with O => false | S fuel =>
    match x with
    | TUnknown => existsb isnil containers
    | TOpt TUnknown => existsb isnil containers && existsb is_jnull elems
    | _ => tightb fuel elems false x
    end end.
End Tight.
