(* Proofs/RegistryInv.v — the rest of C05 (Model/Registry.v):
   "A merged model has the union of its members' fields, untouched models are unchanged, the reported
    replacement list matches the result, and every reference anywhere in the graph points to a model that
    is still registered."
   (K1)/(K2) live in RegistryInvAux.v; this file has the graph invariant `closed` and (K3)-(K7).
   No axioms; stdlib only. *)
From Coq Require Import List Bool Arith NArith Lia Permutation.
From J2M.Model Require Import Base Union Merge Optimize Groups Registry.
From J2M.Proofs Require Import RegistryInvAux.
From J2M.Proofs Require ClosureAux Closure.
Import ListNotations.

(* ptrs_of : ty -> list N is defined in RegistryInvAux.v (all i with TPtr i occurring in t);
   fptrs fs = flat_map (fun kv => ptrs_of (snd kv)) fs. *)
Definition registered (g : graph) (i : N) : Prop := In i (map m_idx (ms g)).
Definition closed (g : graph) : Prop :=
     (forall m i, In m (ms g) -> In i (flat_map (fun kv => ptrs_of (snd kv)) (m_fields m)) -> registered g i)
  /\ (forall p, In p (ps g) -> registered g (p_tgt p) /\ (forall q, p_par p = Some q -> registered g q))
  /\ NoDup (map m_idx (ms g)) /\ (forall i, registered g i -> (i < nxt g)%N).

(* ------------------------------------------------------------------ *)
(* (0) small facts                                                     *)
(* ------------------------------------------------------------------ *)
Lemma registered_mono g g' i :
  (forall m, In m (ms g) -> In m (ms g')) -> registered g i -> registered g' i.
Proof.
  unfold registered. intros H Hi. apply in_map_iff in Hi as [m [<- Hm]]. apply in_map. auto.
Qed.
Lemma registered_model g m : In m (ms g) -> registered g (m_idx m).
Proof. intros H. apply in_map. exact H. Qed.
Lemma NoDup_snoc {A} (l : list A) x : NoDup l -> ~ In x l -> NoDup (l ++ [x]).
Proof.
  intros Hl Hx. induction Hl as [|y r Hy Hr IH]; simpl.
  - constructor; [intros [] | constructor].
  - constructor.
    + intros H. apply in_app_or in H as [H | [H | []]]; [contradiction |]. subst. apply Hx. left. reflexivity.
    + apply IH. intros H. apply Hx. right. exact H.
Qed.
Lemma closed_empty : closed empty_graph.
Proof.
  repeat split; simpl; try (intros; contradiction). constructor.
Qed.

(* set_fields / set_name keep the index list *)
Lemma set_fields_idx i fs g : map m_idx (ms (set_fields i fs g)) = map m_idx (ms g).
Proof.
  unfold set_fields. simpl. rewrite map_map. apply map_ext_in. intros m _.
  destruct (N.eqb (m_idx m) i) eqn:E; [| reflexivity]. simpl. apply N.eqb_eq in E. congruence.
Qed.
Lemma set_name_idx i n b g : map m_idx (ms (set_name i n b g)) = map m_idx (ms g).
Proof.
  unfold set_name. simpl. rewrite map_map. apply map_ext_in. intros m _.
  destruct (N.eqb (m_idx m) i) eqn:E; [| reflexivity]. simpl. apply N.eqb_eq in E. congruence.
Qed.
Lemma set_fields_registered i fs g j : registered (set_fields i fs g) j <-> registered g j.
Proof. unfold registered. rewrite set_fields_idx. timeout 20 tauto. Qed.
Lemma set_name_registered i n b g j : registered (set_name i n b g) j <-> registered g j.
Proof. unfold registered. rewrite set_name_idx. timeout 20 tauto. Qed.

Lemma set_fields_closed i fs g :
  closed g -> (forall j, In j (fptrs fs) -> registered g j) -> closed (set_fields i fs g).
Proof.
  intros [C1 [C2 [C3 C4]]] Hfs. split; [| split; [| split]].
  - intros m j Hm Hj. apply set_fields_registered.
    simpl in Hm. apply in_map_iff in Hm as [m0 [<- Hm0]].
    destruct (N.eqb (m_idx m0) i); [apply Hfs, Hj | apply (C1 m0 j Hm0 Hj)].
  - intros p Hp. simpl in Hp. destruct (C2 p Hp) as [A B]. split.
    + apply set_fields_registered, A.
    + intros q Hq. apply set_fields_registered, (B q Hq).
  - rewrite set_fields_idx. exact C3.
  - intros j Hj. apply set_fields_registered in Hj. apply (C4 j Hj).
Qed.
Lemma set_name_closed i n b g : closed g -> closed (set_name i n b g).
Proof.
  intros [C1 [C2 [C3 C4]]]. split; [| split; [| split]].
  - intros m j Hm Hj. apply set_name_registered.
    simpl in Hm. apply in_map_iff in Hm as [m0 [<- Hm0]].
    destruct (N.eqb (m_idx m0) i); apply (C1 m0 j Hm0 Hj).
  - intros p Hp. simpl in Hp. destruct (C2 p Hp) as [A B]. split.
    + apply set_name_registered, A.
    + intros q Hq. apply set_name_registered, (B q Hq).
  - rewrite set_name_idx. exact C3.
  - intros j Hj. apply set_name_registered in Hj. apply (C4 j Hj).
Qed.

(* ------------------------------------------------------------------ *)
(* (K3) proc / process_root                                            *)
(* ------------------------------------------------------------------ *)
Fixpoint proc_flds (idx : N) (l : fields) (g : graph) : fields * graph :=
  match l with
  | [] => ([], g)
  | (k, v) :: r => let '(v', g') := proc v (Some (idx, k)) g in
                   let '(r', g'') := proc_flds idx r g' in ((k, v') :: r', g'')
  end.
Fixpoint proc_list (par : option (N * str)) (l : list ty) (g : graph) : list ty * graph :=
  match l with
  | [] => ([], g)
  | x :: r => let '(x', g') := proc x par g in let '(r', g'') := proc_list par r g' in (x' :: r', g'')
  end.

Definition obj_start (par : option (N * str)) (g : graph) : graph :=
  {| ms := ms g ++ [{| m_idx := nxt g; m_fields := []; m_name := None; m_gen := None |}];
     ps := ps g ++ [{| p_tgt := nxt g; p_par := option_map fst par; p_fld := option_map snd par |}];
     nxt := N.succ (nxt g) |}.

Lemma proc_obj fs par g :
  proc (TObj fs) par g =
  let '(fs', g2) := proc_flds (nxt g) fs (obj_start par g) in (TPtr (nxt g), set_fields (nxt g) fs' g2).
Proof.
  assert (E : forall idx l g0,
    (fix go (l : fields) (g : graph) : fields * graph :=
       match l with
       | [] => ([], g)
       | (k, v) :: r => let '(v', g') := proc v (Some (idx, k)) g in
                        let '(r', g'') := go r g' in ((k, v') :: r', g'')
       end) l g0 = proc_flds idx l g0).
  { induction l as [|[k v] r IH]; intros g0; [reflexivity |].
    cbn [proc_flds]. destruct (proc v (Some (idx, k)) g0) as [v' g']. rewrite IH. reflexivity. }
  cbn [proc]. cbn zeta. rewrite E. reflexivity.
Qed.
Lemma proc_union ts par g :
  proc (TUnion ts) par g = let '(ts', g') := proc_list par ts g in (TUnion ts', g').
Proof.
  assert (E : forall l g0,
    (fix go (l : list ty) (g : graph) : list ty * graph :=
       match l with
       | [] => ([], g)
       | x :: r => let '(x', g') := proc x par g in let '(r', g'') := go r g' in (x' :: r', g'')
       end) l g0 = proc_list par l g0).
  { induction l as [|x r IH]; intros g0; [reflexivity |].
    cbn [proc_list]. destruct (proc x par g0) as [x' g']. rewrite IH. reflexivity. }
  cbn [proc]. rewrite E. reflexivity.
Qed.

Definition par_ok (g : graph) (par : option (N * str)) : Prop :=
  forall q k, par = Some (q, k) -> registered g q.
Definition proc_post (g : graph) (out : list N) (g' : graph) : Prop :=
  closed g' /\ (forall i, In i out -> registered g' i) /\
  (forall m, In m (ms g) -> In m (ms g')) /\ (nxt g <= nxt g')%N.
Definition proc_ok (t : ty) : Prop :=
  forall par g, closed g -> (forall i, In i (ptrs_of t) -> registered g i) -> par_ok g par ->
    proc_post g (ptrs_of (fst (proc t par g))) (snd (proc t par g)).

Lemma proc_post_refl g out : closed g -> (forall i, In i out -> registered g i) -> proc_post g out g.
Proof. intros C H. split; [exact C | split; [exact H | split; [auto | apply N.le_refl]]]. Qed.

Lemma proc_list_ok ts : Forall proc_ok ts ->
  forall par g, closed g -> (forall i, In i (tptrs ts) -> registered g i) -> par_ok g par ->
    proc_post g (tptrs (fst (proc_list par ts g))) (snd (proc_list par ts g)).
Proof.
  induction 1 as [|x r Hx Hr IH]; intros par g C Hp Hpar.
  - simpl. apply proc_post_refl; auto.
  - cbn [proc_list].
    assert (Hpx : forall i, In i (ptrs_of x) -> registered g i).
    { intros i Hi. apply Hp. simpl. apply in_or_app. auto. }
    specialize (Hx par g C Hpx Hpar).
    destruct (proc x par g) as [x' g1]. cbn [fst snd] in Hx. destruct Hx as [C1 [P1 [M1 N1]]].
    assert (Hpr : forall i, In i (tptrs r) -> registered g1 i).
    { intros i Hi. apply (registered_mono g g1 i M1). apply Hp. simpl. apply in_or_app. auto. }
    assert (Hpar1 : par_ok g1 par).
    { intros q k E. apply (registered_mono g g1 q M1). apply (Hpar q k E). }
    specialize (IH par g1 C1 Hpr Hpar1).
    destruct (proc_list par r g1) as [r' g2]. cbn [fst snd] in IH |- *. destruct IH as [C2 [P2 [M2 N2]]].
    split; [exact C2 | split; [| split]].
    + intros i Hi. simpl in Hi. apply in_app_or in Hi as [Hi | Hi].
      * apply (registered_mono g1 g2 i M2). apply P1, Hi.
      * apply P2, Hi.
    + auto.
    + eapply N.le_trans; timeout 20 eauto.
Qed.

Lemma proc_flds_ok (fs : fields) : Forall (fun kv => proc_ok (snd kv)) fs ->
  forall idx g, closed g -> (forall i, In i (fptrs fs) -> registered g i) -> registered g idx ->
    proc_post g (fptrs (fst (proc_flds idx fs g))) (snd (proc_flds idx fs g)).
Proof.
  induction 1 as [|[k x] r Hx Hr IH]; intros idx g C Hp Hidx.
  - simpl. apply proc_post_refl; auto.
  - cbn [proc_flds]. cbn [snd] in Hx.
    assert (Hpx : forall i, In i (ptrs_of x) -> registered g i).
    { intros i Hi. apply Hp. simpl. apply in_or_app. auto. }
    assert (Hpar : par_ok g (Some (idx, k))).
    { intros q k' E. injection E as <- <-. exact Hidx. }
    specialize (Hx (Some (idx, k)) g C Hpx Hpar).
    destruct (proc x (Some (idx, k)) g) as [x' g1]. cbn [fst snd] in Hx. destruct Hx as [C1 [P1 [M1 N1]]].
    assert (Hpr : forall i, In i (fptrs r) -> registered g1 i).
    { intros i Hi. apply (registered_mono g g1 i M1). apply Hp. simpl. apply in_or_app. auto. }
    assert (Hidx1 : registered g1 idx) by (apply (registered_mono g g1 idx M1), Hidx).
    specialize (IH idx g1 C1 Hpr Hidx1).
    destruct (proc_flds idx r g1) as [r' g2]. cbn [fst snd] in IH |- *. destruct IH as [C2 [P2 [M2 N2]]].
    split; [exact C2 | split; [| split]].
    + intros i Hi. simpl in Hi. apply in_app_or in Hi as [Hi | Hi].
      * apply (registered_mono g1 g2 i M2). apply P1, Hi.
      * apply P2, Hi.
    + auto.
    + eapply N.le_trans; timeout 20 eauto.
Qed.

Lemma obj_start_closed par g : closed g -> par_ok g par ->
  closed (obj_start par g) /\ registered (obj_start par g) (nxt g) /\
  (forall m, In m (ms g) -> In m (ms (obj_start par g))).
Proof.
  intros [C1 [C2 [C3 C4]]] Hpar.
  assert (M : forall m, In m (ms g) -> In m (ms (obj_start par g))).
  { intros m Hm. simpl. apply in_or_app. auto. }
  assert (R : registered (obj_start par g) (nxt g)).
  { unfold registered. simpl. rewrite map_app. apply in_or_app. right. left. reflexivity. }
  split; [| split; [exact R | exact M]].
  split; [| split; [| split]].
  - intros m i Hm Hi. simpl in Hm. apply in_app_or in Hm as [Hm | [<- | []]]; [| destruct Hi].
    apply (registered_mono g _ i M). apply (C1 m i Hm Hi).
  - intros p Hp. simpl in Hp. apply in_app_or in Hp as [Hp | [<- | []]].
    + destruct (C2 p Hp) as [A B]. split; [apply (registered_mono g _ _ M A) |].
      intros q Hq. apply (registered_mono g _ _ M (B q Hq)).
    + simpl. split; [exact R |]. intros q Hq. destruct par as [[q' k]|]; [| discriminate].
      simpl in Hq. injection Hq as <-. apply (registered_mono g _ _ M). apply (Hpar q' k eq_refl).
  - simpl. rewrite map_app. simpl. apply NoDup_snoc; [exact C3 |].
    intros H. apply C4 in H. lia.
  - intros i Hi. unfold registered in Hi. simpl in Hi. rewrite map_app in Hi.
    change (nxt (obj_start par g)) with (N.succ (nxt g)).
    apply in_app_or in Hi as [Hi | [<- | []]]; [apply C4 in Hi |]; cbn [m_idx]; lia.
Qed.

Lemma proc_all_ok : forall t, proc_ok t.
Proof.
  induction t as [| | | | | | p | o ls | t IH | t IH | t IH | ts IH | fs IH | i] using ty_ind2;
    try (intros par g C Hp Hpar; simpl; apply proc_post_refl; assumption).
  - intros par g C Hp Hpar. specialize (IH par g C Hp Hpar). cbn [proc].
    destruct (proc t par g) as [x' g']. exact IH.
  - intros par g C Hp Hpar. specialize (IH par g C Hp Hpar). cbn [proc].
    destruct (proc t par g) as [x' g']. exact IH.
  - intros par g C Hp Hpar. specialize (IH par g C Hp Hpar). cbn [proc].
    destruct (proc t par g) as [x' g']. exact IH.
  - intros par g C Hp Hpar. rewrite proc_union. rewrite ptrs_of_union in Hp.
    pose proof (proc_list_ok ts IH par g C Hp Hpar) as H.
    destruct (proc_list par ts g) as [ts' g']. cbn [fst snd] in H |- *. rewrite ptrs_of_union. exact H.
  - intros par g C Hp Hpar. rewrite proc_obj. rewrite ptrs_of_obj in Hp.
    destruct (obj_start_closed par g C Hpar) as [C1 [R1 M1]].
    assert (Hp1 : forall i, In i (fptrs fs) -> registered (obj_start par g) i).
    { intros i Hi. apply (registered_mono g _ i M1). apply Hp, Hi. }
    pose proof (proc_flds_ok fs IH (nxt g) (obj_start par g) C1 Hp1 R1) as H.
    destruct (proc_flds (nxt g) fs (obj_start par g)) as [fs' g2]. cbn [fst snd] in H |- *.
    destruct H as [C2 [P2 [M2 N2]]].
    split; [apply set_fields_closed; assumption | split; [| split]].
    + intros i [<- | []]. apply set_fields_registered. apply (registered_mono _ g2 _ M2 R1).
    + intros m Hm. simpl. apply in_map_iff. exists m. split; [| apply M2, M1, Hm].
      destruct (N.eqb (m_idx m) (nxt g)) eqn:E; [| reflexivity].
      apply N.eqb_eq in E. destruct C as [_ [_ [_ C4]]].
      specialize (C4 (m_idx m) (registered_model g m Hm)). lia.
    + simpl in N2 |- *. lia.
Qed.

(* (K3) in the requested form; the hypothesis "no TPtr occurs in t" is generalised to
   "every TPtr occurring in t is registered in g" (proc_closed_ptrfree is the special case). *)
Theorem proc_closed t par g :
  closed g -> (forall i, In i (ptrs_of t) -> registered g i) ->
  (forall q k, par = Some (q, k) -> registered g q) ->
  let '(t', g') := proc t par g in
  closed g' /\ (forall i, In i (ptrs_of t') -> registered g' i) /\
  (forall m, In m (ms g) -> In m (ms g')) /\ (nxt g <= nxt g')%N.
Proof.
  intros C Hp Hpar. pose proof (proc_all_ok t par g C Hp Hpar) as H.
  destruct (proc t par g) as [t' g']. exact H.
Qed.
Corollary proc_closed_ptrfree t par g :
  closed g -> ptrs_of t = [] ->
  (forall q k, par = Some (q, k) -> registered g q) ->
  let '(t', g') := proc t par g in
  closed g' /\ (forall i, In i (ptrs_of t') -> registered g' i) /\
  (forall m, In m (ms g) -> In m (ms g')) /\ (nxt g <= nxt g')%N.
Proof.
  intros C E Hpar. apply proc_closed; auto. rewrite E. intros i [].
Qed.

Lemma process_root_step fs name g :
  closed g -> (forall i, In i (fptrs fs) -> registered g i) ->
  closed (snd (process_root fs name g)) /\
  registered (snd (process_root fs name g)) (fst (process_root fs name g)) /\
  fst (process_root fs name g) = nxt g /\
  (forall i, registered g i -> registered (snd (process_root fs name g)) i).
Proof.
  intros C Hp. unfold process_root.
  assert (Hp' : forall i, In i (ptrs_of (TObj fs)) -> registered g i) by (rewrite ptrs_of_obj; exact Hp).
  assert (Hpar : forall q k, @None (N * str) = Some (q, k) -> registered g q) by discriminate.
  pose proof (proc_closed (TObj fs) None g C Hp' Hpar) as H.
  assert (E : fst (proc (TObj fs) None g) = TPtr (nxt g)).
  { rewrite proc_obj. destruct (proc_flds _ _ _). reflexivity. }
  destruct (proc (TObj fs) None g) as [t' g']. cbn [fst snd] in *. subst t'.
  destruct H as [C' [P' [M' N']]].
  assert (R : registered g' (nxt g)) by (apply P'; left; reflexivity).
  destruct name as [n|]; cbn [fst snd].
  - split; [apply set_name_closed, C' | split; [apply set_name_registered, R | split; [reflexivity |]]].
    intros i Hi. apply set_name_registered. apply (registered_mono g g' i M' Hi).
  - split; [exact C' | split; [exact R | split; [reflexivity |]]].
    intros i Hi. apply (registered_mono g g' i M' Hi).
Qed.

(* any sequence of process_root calls on pointer-free field sets, starting from the empty graph *)
Definition process_roots (roots : list (fields * option str)) (g : graph) : graph :=
  fold_left (fun g r => snd (process_root (fst r) (snd r) g)) roots g.

Theorem process_roots_closed roots : forall g,
  closed g -> (forall r, In r roots -> fptrs (fst r) = []) -> closed (process_roots roots g).
Proof.
  induction roots as [|r rs IH]; intros g C H; simpl; [exact C |].
  apply IH.
  - apply process_root_step; auto. rewrite (H r (or_introl eq_refl)). intros i [].
  - intros r' Hr'. apply H. right. exact Hr'.
Qed.
Theorem process_root_closed roots :
  (forall r, In r roots -> fptrs (fst r) = []) -> closed (process_roots roots empty_graph).
Proof. apply process_roots_closed. apply closed_empty. Qed.

(* ------------------------------------------------------------------ *)
(* find_model, shapes                                                  *)
(* ------------------------------------------------------------------ *)
Lemma find_model_some g i m : find_model g i = Some m -> In m (ms g) /\ m_idx m = i.
Proof.
  unfold find_model. intros H. apply find_some in H as [H1 H2]. apply N.eqb_eq in H2. auto.
Qed.
Lemma find_none_all {A} (p : A -> bool) l : (forall x, In x l -> p x = false) -> find p l = None.
Proof.
  induction l as [|x r IH]; intros H; simpl; [reflexivity |].
  rewrite (H x (or_introl eq_refl)). apply IH. intros y Hy. apply H. right. exact Hy.
Qed.
Lemma find_snoc {A} (p : A -> bool) l x :
  find p (l ++ [x]) = match find p l with Some y => Some y | None => if p x then Some x else None end.
Proof.
  induction l as [|y r IH]; simpl; [reflexivity |]. destruct (p y); [reflexivity | exact IH].
Qed.
Lemma find_map_idx (f : model -> model) j l : (forall m, m_idx (f m) = m_idx m) ->
  find (fun m => N.eqb (m_idx m) j) (map f l) = option_map f (find (fun m => N.eqb (m_idx m) j) l).
Proof.
  intros Hf. induction l as [|m r IH]; simpl; [reflexivity |].
  rewrite Hf. destruct (N.eqb (m_idx m) j); [reflexivity | exact IH].
Qed.
Lemma find_filter_idx (p : model -> bool) j l : (forall m, m_idx m = j -> p m = true) ->
  find (fun m => N.eqb (m_idx m) j) (filter p l) = find (fun m => N.eqb (m_idx m) j) l.
Proof.
  intros Hp. induction l as [|m r IH]; simpl; [reflexivity |].
  destruct (N.eqb (m_idx m) j) eqn:E.
  - apply N.eqb_eq in E. rewrite (Hp m E). simpl. apply N.eqb_eq in E. rewrite E. reflexivity.
  - destruct (p m); simpl; rewrite ?E; exact IH.
Qed.
Lemma registered_find g i : registered g i -> exists m, find_model g i = Some m.
Proof.
  intros H. apply in_map_iff in H as [m [E Hm]].
  unfold find_model. destruct (find _ (ms g)) as [m'|] eqn:F; [timeout 20 eauto |].
  exfalso. apply (find_none _ _ F) in Hm. apply N.eqb_neq in Hm. contradiction.
Qed.
Lemma find_registered g i m : find_model g i = Some m -> registered g i.
Proof. intros H. apply find_model_some in H as [H <-]. apply registered_model, H. Qed.

(* what (K6) observes of a model: name, generated-flag, key list *)
Definition shape_of (m : model) : option str * option bool * list str :=
  (m_name m, m_gen m, map fst (m_fields m)).
Definition shape (g : graph) (i : N) : option (option str * option bool * list str) :=
  option_map shape_of (find_model g i).

Lemma set_fields_shape i fs g j :
  (forall m, find_model g i = Some m -> map fst fs = map fst (m_fields m)) ->
  shape (set_fields i fs g) j = shape g j.
Proof.
  intros H. unfold shape, find_model in *. cbn [ms set_fields].
  rewrite find_map_idx.
  2:{ intros m. destruct (N.eqb (m_idx m) i) eqn:E; [| reflexivity]. simpl. apply N.eqb_eq in E. congruence. }
  destruct (find (fun m => N.eqb (m_idx m) j) (ms g)) as [m|] eqn:F; [| reflexivity].
  cbn [option_map]. destruct (N.eqb (m_idx m) i) eqn:E; [| reflexivity].
  apply N.eqb_eq in E. pose proof (find_some _ _ F) as [_ Ej]. apply N.eqb_eq in Ej.
  assert (Eji : j = i) by congruence. rewrite Eji in F.
  unfold shape_of. cbn [m_name m_gen m_fields]. rewrite (H m F). reflexivity.
Qed.

Lemma NoDup_map_filter {A B} (f : A -> B) (p : A -> bool) l : NoDup (map f l) -> NoDup (map f (filter p l)).
Proof.
  induction l as [|x r IH]; simpl; intros H; [constructor |].
  inversion H as [| ? ? Hx Hr]; subst.
  destruct (p x); simpl; [| apply IH, Hr].
  constructor; [| apply IH, Hr].
  intros Hin. apply Hx. apply in_map_iff in Hin as [y [E Hy]]. apply filter_In in Hy as [Hy _].
  rewrite <- E. apply in_map. exact Hy.
Qed.

Section MM.
  Variable registry : list pseudo.
  Variable replaces : list (pseudo * pseudo).

  (* ---------------------------------------------------------------- *)
  (* opt_model                                                         *)
  (* ---------------------------------------------------------------- *)
  Lemma opt_model_spec g i g' : opt_model registry replaces g i = Some g' ->
    exists m fs', find_model g i = Some m /\
      optimize_fields registry replaces (ptr_eq_g g PTR_FUEL) OPT_FUEL (m_fields m) = Some fs' /\
      g' = set_fields i fs' g.
  Proof.
    unfold opt_model, fields_of. destruct (find_model g i) as [m|]; [| discriminate]. cbn [option_map].
    destruct (optimize_fields _ _ _ _ _) as [fs'|] eqn:E; [| discriminate].
    intros H. injection H as <-. timeout 20 eauto.
  Qed.

  Lemma opt_model_inv g i g' : closed g -> opt_model registry replaces g i = Some g' ->
    closed g' /\ (forall j, registered g' j <-> registered g j) /\
    (forall j, shape g' j = shape g j) /\ nxt g' = nxt g.
  Proof.
    intros C H. apply opt_model_spec in H as [m [fs' [F [O ->]]]].
    split; [| split; [| split]].
    - apply set_fields_closed; [exact C |]. intros j Hj.
      apply (optimize_fields_ptrs _ _ _ _ _ _ O) in Hj.
      destruct C as [C1 _]. apply find_model_some in F as [F _]. apply (C1 m j F Hj).
    - intros j. apply set_fields_registered.
    - intros j. apply set_fields_shape. intros m0 F0. rewrite F in F0. injection F0 as <-.
      apply (optimize_fields_keys _ _ _ _ _ _ O).
    - reflexivity.
  Qed.

  (* ---------------------------------------------------------------- *)
  (* (K4) merge_group                                                  *)
  (* ---------------------------------------------------------------- *)
  Definition mg_mods (g : graph) (mbs : list N) : list model :=
    flat_map (fun i => match find_model g i with Some m => [m] | None => [] end) mbs.
  Definition mg_new (g : graph) (mbs : list N) : model :=
    let mods := mg_mods g mbs in
    let names := distinct_words (flat_map (fun m => match m_gen m, m_name m with
                                                     | Some false, Some n => match n with [] => [] | _ => [n] end
                                                     | _, _ => [] end) mods) in
    {| m_idx := nxt g; m_fields := merge_field_sets (ptr_eq_g g PTR_FUEL) (map m_fields mods);
       m_name := match names with [] => None | _ => Some (join_with UNDERSCORE names) end;
       m_gen := match names with [] => None | _ => Some false end |}.
  Definition ren_model (mbs : list N) (new : N) (m : model) : model :=
    {| m_idx := m_idx m; m_fields := map (fun kv => (fst kv, rename mbs new (snd kv))) (m_fields m);
       m_name := m_name m; m_gen := m_gen m |}.
  Definition ren_ptr (mbs : list N) (new : N) (p : ptr) : ptr :=
    {| p_tgt := if memN (p_tgt p) mbs then new else p_tgt p;
       p_par := option_map (fun q => if memN q mbs then new else q) (p_par p);
       p_fld := p_fld p |}.
  (* the graph after _merge, before the merged model is optimised *)
  Definition mg_mid (g : graph) (mbs : list N) : graph :=
    {| ms := map (ren_model mbs (nxt g))
                 (filter (fun m => negb (memN (m_idx m) mbs)) (ms g) ++ [mg_new g mbs]);
       ps := map (ren_ptr mbs (nxt g)) (ps g);
       nxt := N.succ (nxt g) |}.
  Lemma merge_group_eq g mbs :
    merge_group registry replaces g mbs = opt_model registry replaces (mg_mid g mbs) (nxt g).
  Proof. reflexivity. Qed.

  Lemma mg_mid_idx g mbs :
    map m_idx (ms (mg_mid g mbs)) =
    map m_idx (filter (fun m => negb (memN (m_idx m) mbs)) (ms g)) ++ [nxt g].
  Proof. cbn [mg_mid ms]. rewrite map_map. cbn [ren_model m_idx]. rewrite map_app. reflexivity. Qed.

  Lemma mg_mid_registered g mbs j :
    registered (mg_mid g mbs) j <-> (registered g j /\ ~ In j mbs) \/ j = nxt g.
  Proof.
    unfold registered. rewrite mg_mid_idx, in_app_iff. split.
    - intros [H | [H | []]]; [left | right; congruence].
      apply in_map_iff in H as [m [<- Hm]]. apply filter_In in Hm as [Hm Hp].
      split; [apply in_map, Hm |]. apply negb_true_iff in Hp. apply memN_false in Hp. exact Hp.
    - intros [[H1 H2] | ->]; [left | right; left; reflexivity].
      apply in_map_iff in H1 as [m [<- Hm]]. apply in_map. apply filter_In. split; [exact Hm |].
      apply negb_true_iff. apply memN_false. exact H2.
  Qed.

  Lemma mg_mods_in g mbs m : In m (mg_mods g mbs) -> In m (ms g).
  Proof.
    unfold mg_mods. intros H. apply in_flat_map in H as [i [_ H]].
    destruct (find_model g i) as [m'|] eqn:F; [| destruct H].
    destruct H as [<- | []]. apply (find_model_some _ _ _ F).
  Qed.

  Lemma mg_mid_closed g mbs : closed g -> closed (mg_mid g mbs).
  Proof.
    intros C. pose proof C as [C1 [C2 [C3 C4]]].
    assert (Hren : forall i0, registered g i0 -> registered (mg_mid g mbs) (ren_idx mbs (nxt g) i0)).
    { intros i0 H. apply mg_mid_registered. unfold ren_idx. destruct (memN i0 mbs) eqn:E; [right; reflexivity |].
      left. split; [exact H |]. apply memN_false, E. }
    split; [| split; [| split]].
    - intros m i Hm Hi. cbn [mg_mid ms] in Hm. apply in_map_iff in Hm as [m0 [<- Hm0]].
      cbn [ren_model m_fields] in Hi. fold (fptrs (map (fun kv => (fst kv, rename mbs (nxt g) (snd kv))) (m_fields m0))) in Hi.
      rewrite rename_fields_ptrs in Hi. apply in_map_iff in Hi as [i0 [<- Hi0]]. apply Hren.
      apply in_app_or in Hm0 as [Hm0 | [<- | []]].
      + apply filter_In in Hm0 as [Hm0 _]. apply (C1 m0 i0 Hm0 Hi0).
      + cbn [mg_new m_fields] in Hi0. apply merge_field_sets_ptrs in Hi0.
        apply in_flat_map in Hi0 as [fs [Hfs Hi0]]. apply in_map_iff in Hfs as [m1 [<- Hm1]].
        apply mg_mods_in in Hm1. apply (C1 m1 i0 Hm1 Hi0).
    - intros p Hp. cbn [mg_mid ps] in Hp. apply in_map_iff in Hp as [p0 [<- Hp0]].
      destruct (C2 p0 Hp0) as [A B]. cbn [ren_ptr p_tgt p_par]. split.
      + apply (Hren _ A).
      + intros q Hq. destruct (p_par p0) as [q0|]; [| discriminate]. cbn [option_map] in Hq.
        injection Hq as <-. apply (Hren q0 (B q0 eq_refl)).
    - rewrite mg_mid_idx. apply NoDup_snoc; [apply NoDup_map_filter, C3 |].
      intros H. apply in_map_iff in H as [m [E Hm]]. apply filter_In in Hm as [Hm _].
      specialize (C4 _ (registered_model g m Hm)). lia.
    - intros j Hj. apply mg_mid_registered in Hj. cbn [mg_mid nxt].
      destruct Hj as [[Hj _] | ->]; [apply C4 in Hj |]; lia.
  Qed.

  Lemma mg_mods_keys g mbs :
    flat_map (fun fs : fields => map fst fs) (map m_fields (mg_mods g mbs)) =
    flat_map (fun i => map fst (fields_of_d g i)) mbs.
  Proof.
    unfold mg_mods. induction mbs as [|i r IH]; [reflexivity |].
    cbn [flat_map]. rewrite map_app, flat_map_app, IH. f_equal.
    unfold fields_of_d, fields_of. destruct (find_model g i) as [m|]; [| reflexivity].
    simpl. apply app_nil_r.
  Qed.

  Lemma mg_mid_find_new g mbs : closed g ->
    find_model (mg_mid g mbs) (nxt g) = Some (ren_model mbs (nxt g) (mg_new g mbs)).
  Proof.
    intros [_ [_ [_ C4]]]. unfold find_model. cbn [mg_mid ms].
    rewrite find_map_idx by reflexivity. rewrite find_snoc.
    rewrite find_none_all.
    - cbn [mg_new m_idx]. rewrite N.eqb_refl. reflexivity.
    - intros m Hm. apply filter_In in Hm as [Hm _]. apply N.eqb_neq.
      specialize (C4 _ (registered_model g m Hm)). lia.
  Qed.
  Lemma mg_mid_shape g mbs j : closed g -> ~ In j mbs -> j <> nxt g -> shape (mg_mid g mbs) j = shape g j.
  Proof.
    intros C Hj Hn. unfold shape, find_model. cbn [mg_mid ms].
    rewrite find_map_idx by reflexivity. rewrite find_snoc.
    rewrite find_filter_idx.
    2:{ intros m <-. apply negb_true_iff. apply memN_false. exact Hj. }
    destruct (find _ (ms g)) as [m|]; cbn [option_map].
    - unfold shape_of. cbn [ren_model m_name m_gen m_fields]. rewrite rename_fields_keys. reflexivity.
    - cbn [mg_new m_idx]. destruct (N.eqb (nxt g) j) eqn:E; [| reflexivity].
      apply N.eqb_eq in E. congruence.
  Qed.

  (* the strong form: no side conditions on the member list *)
  Theorem merge_group_inv g mbs g' :
    closed g -> merge_group registry replaces g mbs = Some g' ->
    closed g' /\
    (forall j, registered g' j <-> (registered g j /\ ~ In j mbs) \/ j = nxt g) /\
    nxt g' = N.succ (nxt g) /\
    (forall j, ~ In j mbs -> j <> nxt g -> shape g' j = shape g j) /\
    (exists m, find_model g' (nxt g) = Some m /\
       map fst (m_fields m) = dedup_keys (flat_map (fun i => map fst (fields_of_d g i)) mbs)).
  Proof.
    intros C H. rewrite merge_group_eq in H.
    pose proof (mg_mid_closed g mbs C) as Cm.
    destruct (opt_model_inv _ _ _ Cm H) as [C' [R' [S' N']]].
    split; [exact C' | split; [| split; [| split]]].
    - intros j. rewrite R'. apply mg_mid_registered.
    - rewrite N'. reflexivity.
    - intros j Hj Hn. rewrite S'. apply mg_mid_shape; assumption.
    - specialize (S' (nxt g)). unfold shape in S'. rewrite (mg_mid_find_new g mbs C) in S'.
      destruct (find_model g' (nxt g)) as [m|]; [| discriminate]. exists m. split; [reflexivity |].
      cbn [option_map] in S'. injection S' as _ _ E. rewrite E.
      cbn [ren_model m_fields]. rewrite rename_fields_keys. cbn [mg_new m_fields].
      rewrite merge_field_sets_keys, mg_mods_keys. reflexivity.
  Qed.

  (* (K4) as requested (members <> [] and NoDup members are not needed) *)
  Theorem merge_group_closed g mbs g' :
    closed g -> mbs <> [] -> (forall i, In i mbs -> registered g i) -> NoDup mbs ->
    merge_group registry replaces g mbs = Some g' ->
    closed g' /\ registered g' (nxt g) /\
    (forall i, In i mbs -> ~ registered g' i) /\
    (forall i, registered g i -> ~ In i mbs -> registered g' i) /\
    nxt g' = N.succ (nxt g) /\
    (exists m, find_model g' (nxt g) = Some m /\
       map fst (m_fields m) = dedup_keys (flat_map (fun i => map fst (fields_of_d g i)) mbs)).
  Proof.
    intros C _ Hreg _ H. pose proof C as [_ [_ [_ C4]]].
    destruct (merge_group_inv g mbs g' C H) as [C' [R' [N' [_ K]]]].
    split; [exact C' | split; [| split; [| split; [| split; [exact N' | exact K]]]]].
    - apply R'. right. reflexivity.
    - intros i Hi Hr. apply R' in Hr as [[_ Hn] | ->]; [contradiction |].
      specialize (C4 _ (Hreg _ Hi)). lia.
    - intros i Hi Hn. apply R'. left. auto.
  Qed.

  (* ---------------------------------------------------------------- *)
  (* (K5)-(K7) merge_models                                            *)
  (* ---------------------------------------------------------------- *)
  Definition mm_step (acc : option (graph * list (N * list N))) (grp : list N) :=
    match acc with
    | None => None
    | Some (g, reps) =>
      let ordered := filter (fun i => memN i grp) (map m_idx (ms g)) in
      match merge_group registry replaces g ordered with
      | Some g' => Some (g', reps ++ [(nxt g, grp)])
      | None => None
      end
    end.
  Definition opt_all (l : list N) (og : option graph) : option graph :=
    fold_left (fun og i => match og with None => None | Some g => opt_model registry replaces g i end) l og.
  Definition groupsN_of (g : graph) (groups : list (list nat)) : list (list N) :=
    map (fun grp => map (fun p => nth p (map m_idx (ms g)) 0%N) grp) groups.

  Lemma merge_models_eq R g :
    merge_models registry replaces R g =
    match merge_groups R (seq 0 (length (map m_idx (ms g)))) with
    | None => None
    | Some groups =>
      match fold_left mm_step (groupsN_of g groups) (Some (g, [])) with
      | None => None
      | Some (g', reps) =>
        match opt_all (map m_idx (ms g')) (Some g') with
        | Some g'' => Some (g'', reps)
        | None => None
        end
      end
    end.
  Proof. reflexivity. Qed.

  (* the replacement list a run over [l] produces when the first fresh index is [start] *)
  Fixpoint fresh_list (start : N) (l : list (list N)) : list (N * list N) :=
    match l with [] => [] | grp :: r => (start, grp) :: fresh_list (N.succ start) r end.

  Lemma fresh_list_snd l : forall s, map snd (fresh_list s l) = l.
  Proof. induction l as [|x r IH]; intros s; simpl; [reflexivity | now rewrite IH]. Qed.
  Lemma fresh_list_fst l : forall s,
    map fst (fresh_list s l) = map (fun k => (s + N.of_nat k)%N) (seq 0 (length l)).
  Proof.
    induction l as [|x r IH]; intros s; [reflexivity |].
    cbn [fresh_list map length seq fst]. f_equal; [simpl; lia |].
    rewrite IH, <- seq_shift, map_map. apply map_ext. intros k. lia.
  Qed.
  Lemma fresh_list_nth l : forall s k grp,
    nth_error l k = Some grp -> nth_error (fresh_list s l) k = Some ((s + N.of_nat k)%N, grp).
  Proof.
    induction l as [|x r IH]; intros s k grp H; destruct k as [|k]; try discriminate.
    - simpl in H |- *. injection H as ->. f_equal. f_equal. lia.
    - cbn [nth_error fresh_list] in H |- *. rewrite (IH _ _ _ H). f_equal. f_equal. lia.
  Qed.
  Lemma fresh_list_in l : forall s r, In r (fresh_list s l) ->
    In (snd r) l /\ (s <= fst r < s + N.of_nat (length l))%N.
  Proof.
    induction l as [|x rs IH]; intros s r H; [destruct H |].
    destruct H as [<- | H].
    - simpl. split; [auto | lia].
    - apply IH in H as [H1 H2]. split; [right; exact H1 |]. cbn [length]. lia.
  Qed.

  Lemma fold_mm_step_none l : fold_left mm_step l None = None.
  Proof. induction l; simpl; auto. Qed.

  Lemma in_ordered g grp j :
    In j (filter (fun i => memN i grp) (map m_idx (ms g))) <-> registered g j /\ In j grp.
  Proof. rewrite filter_In, memN_In. unfold registered. timeout 20 tauto. Qed.

  Lemma fold_mm_step_inv l : forall g reps g' reps',
    closed g -> fold_left mm_step l (Some (g, reps)) = Some (g', reps') ->
    closed g' /\
    nxt g' = (nxt g + N.of_nat (length l))%N /\
    reps' = reps ++ fresh_list (nxt g) l /\
    (* (a) untouched models *)
    (forall j, registered g j -> (forall grp, In grp l -> ~ In j grp) ->
               registered g' j /\ shape g' j = shape g j) /\
    (* (b) nothing else appears *)
    (forall j, registered g' j -> registered g j \/ (nxt g <= j < nxt g')%N) /\
    (* (c) fresh indices stay *)
    ((forall grp x, In grp l -> In x grp -> (x < nxt g)%N) ->
     forall j, (nxt g <= j < nxt g')%N -> registered g' j) /\
    (* (d) members are gone *)
    (forall grp j, In grp l -> In j grp -> (j < nxt g)%N -> ~ registered g' j).
  Proof.
    induction l as [|grp rest IH]; intros g reps g' reps' C H.
    - simpl in H. injection H as <- <-. cbn [length fresh_list].
      split; [exact C | split; [simpl; lia | split; [now rewrite app_nil_r |]]].
      split; [intros j Hj _; auto |]. split; [auto |].
      split; [intros _ j Hj; lia |]. intros grp j [].
    - cbn [fold_left] in H.
      destruct (mm_step (Some (g, reps)) grp) as [[g1 reps1]|] eqn:E;
        [| rewrite fold_mm_step_none in H; discriminate].
      cbn [mm_step] in E.
      set (ordered := filter (fun i => memN i grp) (map m_idx (ms g))) in E.
      destruct (merge_group registry replaces g ordered) as [g1'|] eqn:MG; [| discriminate].
      injection E as -> <-.
      destruct (merge_group_inv g ordered g1 C MG) as [C1 [R1 [N1 [S1 _]]]].
      destruct (IH g1 _ g' reps' C1 H) as [C' [N' [RP [A [B [CC D]]]]]]. clear IH.
      pose proof C as [_ [_ [_ C4]]].
      split; [exact C' | split; [| split; [| split; [| split; [| split]]]]].
      + rewrite N', N1. cbn [length]. lia.
      + rewrite RP, N1, <- app_assoc. reflexivity.
      + intros j Hj Hng.
        assert (Hno : ~ In j ordered).
        { intros Ho. apply in_ordered in Ho as [_ Ho]. apply (Hng grp (or_introl eq_refl) Ho). }
        assert (Hnx : j <> nxt g) by (specialize (C4 j Hj); lia).
        assert (Hj1 : registered g1 j) by (apply R1; left; auto).
        destruct (A j Hj1 (fun grp' Hg' => Hng grp' (or_intror Hg'))) as [A1 A2].
        split; [exact A1 |]. rewrite A2. apply S1; assumption.
      + intros j Hj. apply B in Hj as [Hj | Hj].
        * apply R1 in Hj as [[Hj _] | ->]; [left; exact Hj | right; lia].
        * right. lia.
      + intros Hlt j Hj.
        destruct (N.eq_dec j (nxt g)) as [-> | Hne].
        * apply A.
          -- apply R1. right. reflexivity.
          -- intros grp' Hg' Hin. specialize (Hlt grp' (nxt g) (or_intror Hg') Hin). lia.
        * apply CC; [| lia]. intros grp' x Hg' Hx. specialize (Hlt grp' x (or_intror Hg') Hx). lia.
      + intros grp0 j [<- | Hg0] Hj Hlt.
        * intros Hr. apply B in Hr as [Hr | Hr]; [| lia].
          apply R1 in Hr as [[Hr Hno] | ->]; [| lia].
          apply Hno. apply in_ordered. auto.
        * apply (D grp0 j Hg0 Hj). lia.
  Qed.

  Lemma opt_all_none l : opt_all l None = None.
  Proof. induction l; simpl; auto. Qed.
  Lemma opt_all_inv l : forall g g', closed g -> opt_all l (Some g) = Some g' ->
    closed g' /\ (forall j, registered g' j <-> registered g j) /\
    (forall j, shape g' j = shape g j) /\ nxt g' = nxt g.
  Proof.
    induction l as [|i r IH]; intros g g' C H.
    - simpl in H. injection H as <-.
      split; [exact C | split; [intros j; timeout 20 tauto | split; [intros j; reflexivity | reflexivity]]].
    - cbn [opt_all fold_left] in H. fold (opt_all r) in H.
      destruct (opt_model registry replaces g i) as [g1|] eqn:E; [| rewrite opt_all_none in H; discriminate].
      destruct (opt_model_inv g i g1 C E) as [C1 [R1 [S1 N1]]].
      destruct (IH g1 g' C1 H) as [C' [R' [S' N']]].
      split; [exact C' | split; [| split]].
      + intros j. rewrite R'. apply R1.
      + intros j. rewrite S'. apply S1.
      + congruence.
  Qed.

  (* decomposition of a successful merge_models run *)
  Lemma merge_models_run R g g' reps :
    merge_models registry replaces R g = Some (g', reps) ->
    exists groups gm,
      merge_groups R (seq 0 (length (ms g))) = Some groups /\
      fold_left mm_step (groupsN_of g groups) (Some (g, [])) = Some (gm, reps) /\
      opt_all (map m_idx (ms gm)) (Some gm) = Some g'.
  Proof.
    rewrite merge_models_eq, map_length.
    destruct (merge_groups R (seq 0 (length (ms g)))) as [groups|] eqn:E1; [| discriminate].
    destruct (fold_left mm_step (groupsN_of g groups) (Some (g, []))) as [[gm reps0]|] eqn:E2; [| discriminate].
    destruct (opt_all (map m_idx (ms gm)) (Some gm)) as [g''|] eqn:E3; [| discriminate].
    intros H. injection H as <- <-. exists groups, gm. auto.
  Qed.

  (* (K5) *)
  Theorem merge_models_closed R g g' reps :
    closed g -> merge_models registry replaces R g = Some (g', reps) -> closed g'.
  Proof.
    intros C H. apply merge_models_run in H as [groups [gm [_ [F O]]]].
    destruct (fold_mm_step_inv _ _ _ _ _ C F) as [Cm _].
    apply (opt_all_inv _ _ _ Cm O).
  Qed.

  (* (K6) *)
  Theorem untouched_unchanged R g g' reps i :
    closed g -> registered g i ->
    (forall groups grp, merge_groups R (seq 0 (length (ms g))) = Some groups -> In grp groups ->
                        ~ In i (map (fun p => nth p (map m_idx (ms g)) 0%N) grp)) ->
    merge_models registry replaces R g = Some (g', reps) ->
    registered g' i /\
    exists m m', find_model g i = Some m /\ find_model g' i = Some m' /\
                 m_name m' = m_name m /\ m_gen m' = m_gen m /\
                 map fst (m_fields m') = map fst (m_fields m).
  Proof.
    intros C Hi Hng H. apply merge_models_run in H as [groups [gm [MGs [F O]]]].
    destruct (fold_mm_step_inv _ _ _ _ _ C F) as [Cm [_ [_ [A _]]]].
    destruct (opt_all_inv _ _ _ Cm O) as [_ [R' [S' _]]].
    assert (Hno : forall grp, In grp (groupsN_of g groups) -> ~ In i grp).
    { intros grp Hg. unfold groupsN_of in Hg. apply in_map_iff in Hg as [grp0 [<- Hg0]].
      apply (Hng groups grp0 MGs Hg0). }
    destruct (A i Hi Hno) as [A1 A2].
    split; [apply R', A1 |].
    destruct (registered_find g i Hi) as [m Fm].
    specialize (S' i). rewrite A2 in S'. unfold shape in S'. rewrite Fm in S'.
    destruct (find_model g' i) as [m'|]; [| discriminate].
    exists m, m'. cbn [option_map] in S'. unfold shape_of in S'. injection S' as E1 E2 E3. auto.
  Qed.

  (* group members are indices registered before the merge *)
  Lemma group_members_registered R g groups :
    merge_groups R (seq 0 (length (ms g))) = Some groups ->
    forall grp x, In grp (groupsN_of g groups) -> In x grp -> registered g x.
  Proof.
    intros MGs grp x Hg Hx. unfold groupsN_of in Hg. apply in_map_iff in Hg as [grp0 [<- Hg0]].
    apply in_map_iff in Hx as [p [<- Hp]].
    destruct (Closure.C05_components R (seq 0 (length (ms g))) groups (seq_NoDup _ _) MGs) as [_ [H2 _]].
    destruct (H2 grp0 Hg0) as [_ [_ Hincl]]. apply Hincl in Hp. apply in_seq in Hp.
    unfold registered. apply nth_In. rewrite map_length. lia.
  Qed.

  (* (K7) *)
  Theorem replaces_match R g g' reps groups :
    closed g -> merge_groups R (seq 0 (length (ms g))) = Some groups ->
    merge_models registry replaces R g = Some (g', reps) ->
    let groupsN := groupsN_of g groups in
    length reps = length groups /\
    map snd reps = groupsN /\
    map fst reps = map (fun k => (nxt g + N.of_nat k)%N) (seq 0 (length groups)) /\
    (forall k grp, nth_error groupsN k = Some grp ->
                   nth_error reps k = Some ((nxt g + N.of_nat k)%N, grp)) /\
    (forall r, In r reps -> registered g' (fst r) /\ (forall i, In i (snd r) -> ~ registered g' i)) /\
    nxt g' = (nxt g + N.of_nat (length groups))%N.
  Proof.
    intros C MGs H groupsN. apply merge_models_run in H as [groups0 [gm [MGs0 [F O]]]].
    rewrite MGs in MGs0. injection MGs0 as <-. fold groupsN in F.
    destruct (fold_mm_step_inv _ _ _ _ _ C F) as [Cm [Nm [RP [_ [_ [CC D]]]]]].
    destruct (opt_all_inv _ _ _ Cm O) as [_ [R' [_ N']]].
    cbn [app] in RP. subst reps.
    assert (Hlen : length groupsN = length groups) by (unfold groupsN, groupsN_of; apply map_length).
    pose proof C as [_ [_ [_ C4]]].
    assert (Hlt : forall grp x, In grp groupsN -> In x grp -> (x < nxt g)%N).
    { intros grp x Hg Hx. apply C4. apply (group_members_registered R g groups MGs grp x Hg Hx). }
    split; [| split; [| split; [| split; [| split]]]].
    - rewrite <- Hlen, <- (map_length snd), fresh_list_snd. reflexivity.
    - apply fresh_list_snd.
    - rewrite fresh_list_fst, Hlen. reflexivity.
    - intros k grp Hk. apply fresh_list_nth, Hk.
    - intros r Hr. apply fresh_list_in in Hr as [Hr1 Hr2]. split.
      + apply R'. apply (CC Hlt). lia.
      + intros i Hi Hreg. apply R' in Hreg. apply (D (snd r) i Hr1 Hi (Hlt _ _ Hr1 Hi) Hreg).
    - rewrite N', Nm, Hlen. reflexivity.
  Qed.

  (* ---------------------------------------------------------------- *)
  (* (K8) end-to-end: the merged model of the k-th group has the       *)
  (* first-occurrence union of its members' key lists (taken in the    *)
  (* graph BEFORE merge_models, members in registry order)             *)
  (* ---------------------------------------------------------------- *)
  Fixpoint all_disjoint (l : list (list N)) : Prop :=
    match l with
    | [] => True
    | grp :: r => (forall grp', In grp' r -> forall x, In x grp -> ~ In x grp') /\ all_disjoint r
    end.

  Lemma all_disjoint_of_positions (L : list (list N)) :
    (forall i j gi gj, i <> j -> nth_error L i = Some gi -> nth_error L j = Some gj ->
                       forall x, In x gi -> ~ In x gj) -> all_disjoint L.
  Proof.
    induction L as [|grp r IH]; intros H; [exact I |]. split.
    - intros grp' Hg' x Hx. apply In_nth_error in Hg' as [j Hj].
      apply (H 0 (S j) grp grp'); auto.
    - apply IH. intros i j gi gj Hij Hi Hj. apply (H (S i) (S j) gi gj); auto.
  Qed.

  Lemma groupsN_disjoint R g groups : closed g ->
    merge_groups R (seq 0 (length (ms g))) = Some groups -> all_disjoint (groupsN_of g groups).
  Proof.
    intros C MGs. apply all_disjoint_of_positions.
    intros i j gi gj Hij Hi Hj x Hxi Hxj.
    unfold groupsN_of in Hi, Hj. rewrite nth_error_map in Hi, Hj.
    destruct (nth_error groups i) as [gi0|] eqn:Ei; [| discriminate].
    destruct (nth_error groups j) as [gj0|] eqn:Ej; [| discriminate].
    cbn [option_map] in Hi, Hj. injection Hi as <-. injection Hj as <-.
    apply in_map_iff in Hxi as [p [Ep Hp]]. apply in_map_iff in Hxj as [q [Eq Hq]].
    destruct (Closure.C05_components R (seq 0 (length (ms g))) groups (seq_NoDup _ _) MGs) as [_ [H2 _]].
    destruct (H2 gi0 (nth_error_In _ _ Ei)) as [_ [_ Ii]].
    destruct (H2 gj0 (nth_error_In _ _ Ej)) as [_ [_ Ij]].
    pose proof (Ii p Hp) as Lp. pose proof (Ij q Hq) as Lq. apply in_seq in Lp, Lq.
    destruct C as [_ [_ [C3 _]]].
    assert (Epq : p = q).
    { apply (proj1 (NoDup_nth (map m_idx (ms g)) 0%N) C3); rewrite ?map_length; lia. }
    subst q. unfold merge_groups in MGs.
    apply (Closure.loop_result_disjoint _ _ _ MGs i j gi0 gj0 Hij Ei Ej).
    exists p. auto.
  Qed.

  Lemma shape_eq_find g g' j m : shape g' j = shape g j -> find_model g j = Some m ->
    exists m', find_model g' j = Some m' /\ m_name m' = m_name m /\ m_gen m' = m_gen m /\
               map fst (m_fields m') = map fst (m_fields m).
  Proof.
    unfold shape. intros S F. rewrite F in S. destruct (find_model g' j) as [m'|]; [| discriminate].
    cbn [option_map] in S. unfold shape_of in S. injection S as E1 E2 E3. exists m'. auto.
  Qed.
  Lemma shape_eq_fields_of_d g g' j : shape g' j = shape g j ->
    map fst (fields_of_d g' j) = map fst (fields_of_d g j).
  Proof.
    unfold shape, fields_of_d, fields_of. intros S.
    destruct (find_model g j) as [m|], (find_model g' j) as [m'|]; try discriminate; [| reflexivity].
    cbn [option_map] in S |- *. unfold shape_of in S. injection S as _ _ E. exact E.
  Qed.

  Lemma filter_map_comm {A B} (f : A -> B) (p : B -> bool) l :
    map f (filter (fun x => p (f x)) l) = filter p (map f l).
  Proof. induction l as [|x r IH]; simpl; [reflexivity |]. destruct (p (f x)); simpl; now rewrite IH. Qed.
  Lemma filter_filter_absorb {A} (p q : A -> bool) l :
    (forall x, In x l -> p x = true -> q x = true) -> filter p (filter q l) = filter p l.
  Proof.
    induction l as [|x r IH]; intros H; simpl; [reflexivity |].
    assert (IH' : filter p (filter q r) = filter p r) by (apply IH; intros y Hy; apply H; right; exact Hy).
    destruct (q x) eqn:Eq; simpl; [now rewrite IH' |].
    destruct (p x) eqn:Ep; [| exact IH'].
    rewrite (H x (or_introl eq_refl) Ep) in Eq. discriminate.
  Qed.
  Lemma flat_map_ext_in' {A B} (f h : A -> list B) l :
    (forall x, In x l -> f x = h x) -> flat_map f l = flat_map h l.
  Proof.
    induction l as [|x r IH]; intros H; simpl; [reflexivity |].
    rewrite (H x (or_introl eq_refl)), IH; [reflexivity |]. intros y Hy. apply H. right. exact Hy.
  Qed.

  Lemma merge_group_idx g mbs g' : merge_group registry replaces g mbs = Some g' ->
    map m_idx (ms g') = filter (fun i => negb (memN i mbs)) (map m_idx (ms g)) ++ [nxt g].
  Proof.
    rewrite merge_group_eq. intros H. apply opt_model_spec in H as [m [fs' [_ [_ ->]]]].
    rewrite set_fields_idx, mg_mid_idx. f_equal.
    apply (filter_map_comm m_idx (fun i => negb (memN i mbs))).
  Qed.

  Definition members_in_order (g : graph) (grp : list N) : list N :=
    filter (fun i => memN i grp) (map m_idx (ms g)).
  Definition member_keys (g : graph) (grp : list N) : list str :=
    dedup_keys (flat_map (fun i => map fst (fields_of_d g i)) (members_in_order g grp)).

  Lemma fold_mm_step_keys l : forall g reps g' reps',
    closed g -> fold_left mm_step l (Some (g, reps)) = Some (g', reps') ->
    (forall grp x, In grp l -> In x grp -> (x < nxt g)%N) -> all_disjoint l ->
    forall k grp, nth_error l k = Some grp ->
      exists m, find_model g' (nxt g + N.of_nat k)%N = Some m /\
                map fst (m_fields m) = member_keys g grp.
  Proof.
    induction l as [|grp0 rest IH]; intros g reps g' reps' C H Hlt Hdd k grp Hk.
    - destruct k; discriminate.
    - destruct Hdd as [Hd0 Hd]. cbn [fold_left] in H.
      destruct (mm_step (Some (g, reps)) grp0) as [[g1 reps1]|] eqn:E;
        [| rewrite fold_mm_step_none in H; discriminate].
      cbn [mm_step] in E. fold (members_in_order g grp0) in E.
      destruct (merge_group registry replaces g (members_in_order g grp0)) as [g1'|] eqn:MG; [| discriminate].
      injection E as -> <-.
      destruct (merge_group_inv g _ g1 C MG) as [C1 [R1 [N1 [S1 K1]]]].
      assert (Hlt1 : forall grp' x, In grp' rest -> In x grp' -> (x < nxt g1)%N).
      { intros grp' x Hg' Hx. specialize (Hlt grp' x (or_intror Hg') Hx). lia. }
      destruct k as [|k].
      + simpl in Hk. injection Hk as <-. replace (nxt g + N.of_nat 0)%N with (nxt g) by lia.
        destruct (fold_mm_step_inv _ _ _ _ _ C1 H) as [_ [_ [_ [A _]]]].
        assert (Hr : registered g1 (nxt g)) by (apply R1; right; reflexivity).
        assert (Hn : forall grp', In grp' rest -> ~ In (nxt g) grp').
        { intros grp' Hg' Hin. specialize (Hlt grp' _ (or_intror Hg') Hin). lia. }
        destruct (A (nxt g) Hr Hn) as [_ A2].
        destruct K1 as [m [Fm Km]].
        destruct (shape_eq_find g1 g' (nxt g) m A2 Fm) as [m' [Fm' [_ [_ Km']]]].
        exists m'. split; [exact Fm' |]. rewrite Km', Km. reflexivity.
      + cbn [nth_error] in Hk.
        destruct (IH g1 _ g' reps' C1 H Hlt1 Hd k grp Hk) as [m [Fm Km]].
        exists m. split; [rewrite <- Fm; f_equal; lia |].
        rewrite Km. unfold member_keys. f_equal.
        assert (Hg : In grp rest) by (apply (nth_error_In _ _ Hk)).
        assert (Hmo : members_in_order g1 grp = members_in_order g grp).
        { unfold members_in_order. rewrite (merge_group_idx _ _ _ MG), filter_app.
          cbn [filter]. replace (memN (nxt g) grp) with false.
          2:{ symmetry. apply memN_false. intros Hin. specialize (Hlt grp _ (or_intror Hg) Hin). lia. }
          rewrite app_nil_r. apply filter_filter_absorb.
          intros x _ Hx. apply negb_true_iff. apply memN_false. intros Ho.
          apply memN_In in Hx. apply filter_In in Ho as [_ Ho]. apply memN_In in Ho.
          apply (Hd0 grp Hg x Ho Hx). }
        rewrite Hmo. apply flat_map_ext_in'. intros x Hx.
        apply shape_eq_fields_of_d. apply filter_In in Hx as [_ Hx]. apply memN_In in Hx. apply S1.
        * intros Ho. apply filter_In in Ho as [_ Ho]. apply memN_In in Ho. apply (Hd0 grp Hg x Ho Hx).
        * specialize (Hlt grp x (or_intror Hg) Hx). lia.
  Qed.

  Theorem merged_fields_union R g g' reps groups :
    closed g -> merge_groups R (seq 0 (length (ms g))) = Some groups ->
    merge_models registry replaces R g = Some (g', reps) ->
    forall k grp, nth_error (groupsN_of g groups) k = Some grp ->
      exists m, find_model g' (nxt g + N.of_nat k)%N = Some m /\
        (* exact order: first occurrence, members in registry order *)
        map fst (m_fields m) = member_keys g grp /\
        (* as a set: the union of the members' keys *)
        (forall key, has_key key (m_fields m) = existsb (fun i => has_key key (fields_of_d g i)) grp).
  Proof.
    intros C MGs H k grp Hk. apply merge_models_run in H as [groups0 [gm [MGs0 [F O]]]].
    rewrite MGs in MGs0. injection MGs0 as <-.
    pose proof C as [_ [_ [_ C4]]].
    assert (Hreg : forall grp' x, In grp' (groupsN_of g groups) -> In x grp' -> registered g x)
      by (apply (group_members_registered R g groups MGs)).
    assert (Hlt : forall grp' x, In grp' (groupsN_of g groups) -> In x grp' -> (x < nxt g)%N).
    { intros grp' x Hg Hx. apply C4. apply (Hreg grp' x Hg Hx). }
    destruct (fold_mm_step_inv _ _ _ _ _ C F) as [Cm _].
    destruct (fold_mm_step_keys _ _ _ _ _ C F Hlt (groupsN_disjoint R g groups C MGs) k grp Hk) as [m [Fm Km]].
    destruct (opt_all_inv _ _ _ Cm O) as [_ [_ [S' _]]].
    destruct (shape_eq_find gm g' _ m (S' _) Fm) as [m' [Fm' [_ [_ Km']]]].
    exists m'. split; [exact Fm' | split; [congruence |]].
    intros key. apply eq_true_iff_eq. rewrite has_key_In, Km', Km. unfold member_keys.
    rewrite dedup_keys_In, in_flat_map, existsb_exists. unfold members_in_order.
    assert (Hg : In grp (groupsN_of g groups)) by (apply (nth_error_In _ _ Hk)).
    split; intros [x [Hx Hkey]]; exists x.
    - apply filter_In in Hx as [_ Hx]. apply memN_In in Hx. split; [exact Hx | apply has_key_In, Hkey].
    - split; [| apply has_key_In, Hkey]. apply filter_In. split; [apply (Hreg grp x Hg Hx) | apply memN_In, Hx].
  Qed.
End MM.

(* ------------------------------------------------------------------ *)
(* non-vacuity: a concrete run (two roots, each with one nested dict;   *)
(* the comparator pairs the two nested models, positions 1 and 3)       *)
(* ------------------------------------------------------------------ *)
Definition ex_roots : list (fields * option str) :=
  [ ([([97%N], TInt);   ([98%N], TObj [([120%N], TStr)])], Some [65%N]);
    ([([97%N], TFloat); ([99%N], TList (TObj [([121%N], TInt); ([120%N], TStr)]))], Some [66%N]) ].
Definition ex_g : graph := process_roots ex_roots empty_graph.
Definition ex_R (a b : nat) : bool := Nat.eqb a 1 && Nat.eqb b 3.

Example ex_g_closed : closed ex_g.
Proof. apply process_root_closed. intros r [<- | [<- | []]]; reflexivity. Qed.
Example ex_groups : merge_groups ex_R (seq 0 (length (ms ex_g))) = Some [[1; 3]].
Proof. vm_compute. reflexivity. Qed.
Example ex_merge :
  option_map (fun gr => (map m_idx (ms (fst gr)), map (fun m => map fst (m_fields m)) (ms (fst gr)),
                         map p_tgt (ps (fst gr)), snd gr)) (merge_models [] [] ex_R ex_g)
  = Some ([0; 2; 4]%N, [[[97]; [98]]; [[97]; [99]]; [[120]; [121]]]%N, [0; 4; 2; 4]%N, [(4, [1; 3])]%N).
Proof. vm_compute. reflexivity. Qed.

Print Assumptions proc_closed.
Print Assumptions process_root_closed.
Print Assumptions merge_group_inv.
Print Assumptions merge_group_closed.
Print Assumptions merge_models_closed.
Print Assumptions untouched_unchanged.
Print Assumptions replaces_match.
Print Assumptions merged_fields_union.

(* NOT PROVED: nothing.  (K1)-(K7) are proved (K1/K2 in RegistryInvAux.v), plus the end-to-end
   statement merged_fields_union (K8).  No statement had to be weakened; three are STRONGER than asked:
   - merge_field_sets_keys / merge_field_sets_has_key need no "duplicate-free keys" hypothesis;
   - proc_closed asks only that the TPtr's of t are registered (proc_closed_ptrfree is the asked form);
   - merge_group_inv needs none of members <> [], members registered, NoDup members
     (merge_group_closed is the asked form and simply ignores the unused hypotheses). *)
