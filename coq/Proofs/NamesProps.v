(* Proofs/NamesProps.v -- class names (Model/Names.v): the repaired fix_name_duplicates gives pairwise distinct names,
   changes nothing but names, keeps the first holder of every name, agrees with the old code wherever the old code
   was right; the old code is refuted; generate_names; resolvability of references in the flat layout.
   No axioms; stdlib only. *)
From Coq Require Import List Bool Arith NArith Lia.
From Coq Require FinFun.
From J2M.Model Require Import Base Label Registry Emit Layout Names.
From J2M.Proofs Require RegistryInvAux RegistryInv LayoutProps.
Import ListNotations.
Local Open Scope list_scope.

(* ------------------------------------------------------------------ *)
(* (0) strings, association lists, lists                               *)
(* ------------------------------------------------------------------ *)
Lemma str_eqb_true_iff a b : str_eqb a b = true <-> a = b.
Proof. unfold str_eqb. destruct (list_eq_dec N.eq_dec a b); split; congruence. Qed.
Lemma str_eqb_refl a : str_eqb a a = true.
Proof. apply str_eqb_true_iff. reflexivity. Qed.
Lemma str_eqb_neq a b : a <> b -> str_eqb a b = false.
Proof. intros H. destruct (str_eqb a b) eqn:E; [apply str_eqb_true_iff in E; contradiction | reflexivity]. Qed.

Lemma name_mem_In n l : name_mem n l = true <-> In n l.
Proof.
  unfold name_mem. rewrite existsb_exists. split.
  - intros [x [Hx E]]. apply str_eqb_true_iff in E. subst. exact Hx.
  - intros H. exists n. split; [exact H | apply str_eqb_refl].
Qed.
Lemma name_mem_false n l : name_mem n l = false <-> ~ In n l.
Proof. rewrite <- name_mem_In. destruct (name_mem n l); split; congruence. Qed.

Lemma str_dec (a b : str) : {a = b} + {a <> b}.
Proof. apply list_eq_dec, N.eq_dec. Qed.
Lemma oname_dec (a b : option str) : {a = b} + {a <> b}.
Proof. decide equality. apply str_dec. Qed.

Lemma lookup_update_same {A} k (v : A) fs : lookup k (update k v fs) = Some v.
Proof.
  induction fs as [|[k' t'] r IH]; simpl.
  - rewrite str_eqb_refl. reflexivity.
  - destruct (str_eqb k k') eqn:E; simpl; rewrite E; [reflexivity | exact IH].
Qed.
Lemma lookup_update_other {A} k k2 (v : A) fs : k2 <> k -> lookup k2 (update k v fs) = lookup k2 fs.
Proof.
  intros H. induction fs as [|[k' t'] r IH]; simpl.
  - rewrite (str_eqb_neq _ _ H). reflexivity.
  - destruct (str_eqb k k') eqn:E; simpl.
    + apply str_eqb_true_iff in E. subst k'. rewrite (str_eqb_neq _ _ H). reflexivity.
    + rewrite IH. reflexivity.
Qed.

Lemma fold_left_prefix_inv {A S} (step : S -> A -> S) (P : list A -> S -> Prop) (l : list A) (s0 : S) :
  P [] s0 ->
  (forall pre m rest st, l = pre ++ m :: rest -> P pre st -> P (pre ++ [m]) (step st m)) ->
  P l (fold_left step l s0).
Proof.
  intros H0 Hs.
  assert (G : forall rest pre st, l = pre ++ rest -> P pre st -> P l (fold_left step rest st)).
  { induction rest as [|m rest IH]; intros pre st E Hp; simpl.
    - rewrite app_nil_r in E. subst. exact Hp.
    - apply (IH (pre ++ [m])).
      + rewrite <- app_assoc. exact E.
      + eapply Hs; eauto. }
  apply (G l [] s0); auto.
Qed.

Lemma nth_error_ext' {A} (l l' : list A) : (forall i, nth_error l i = nth_error l' i) -> l = l'.
Proof.
  revert l'. induction l as [|a l IH]; intros [|b l'] H.
  - reflexivity.
  - specialize (H 0). discriminate.
  - specialize (H 0). discriminate.
  - pose proof (H 0) as H0. simpl in H0. injection H0 as ->. f_equal. apply IH. intros i. exact (H (S i)).
Qed.

Lemma nth_error_split_firstn {A} (l : list A) i a :
  nth_error l i = Some a -> l = firstn i l ++ a :: skipn (S i) l.
Proof.
  revert i. induction l as [|b l IH]; intros [|i] H; simpl in *; try discriminate.
  - injection H as ->. reflexivity.
  - f_equal. apply IH. exact H.
Qed.
Lemma firstn_S_snoc {A} (l : list A) i a : nth_error l i = Some a -> firstn (S i) l = firstn i l ++ [a].
Proof.
  revert i. induction l as [|b l IH]; intros [|i] H; simpl in *; try discriminate.
  - injection H as ->. reflexivity.
  - f_equal. apply IH. exact H.
Qed.
Lemma nth_error_middle {A} (pre : list A) m rest : nth_error (pre ++ m :: rest) (length pre) = Some m.
Proof. rewrite nth_error_app2 by lia. rewrite Nat.sub_diag. reflexivity. Qed.
Lemma firstn_middle {A} (pre : list A) rest : firstn (length pre) (pre ++ rest) = pre.
Proof. rewrite firstn_app, Nat.sub_diag, firstn_all. simpl. apply app_nil_r. Qed.

Lemma NoDup_map_inj {A B} (f : A -> B) l a b : NoDup (map f l) -> In a l -> In b l -> f a = f b -> a = b.
Proof.
  induction l as [|x l IH]; simpl; intros ND Ha Hb E; [contradiction|].
  apply NoDup_cons_iff in ND as [Hx ND].
  destruct Ha as [->|Ha], Hb as [->|Hb]; auto.
  - exfalso. apply Hx. rewrite E. apply in_map. exact Hb.
  - exfalso. apply Hx. rewrite <- E. apply in_map. exact Ha.
Qed.

(* ------------------------------------------------------------------ *)
(* (N1) fresh: the fuel is enough                                      *)
(* ------------------------------------------------------------------ *)
(* the k-th candidate: n followed by k copies of "_<idx>" *)
Definition cand (idx n : str) (k : nat) : str := n ++ concat (repeat (UNDERSCORE ++ idx) k).

Lemma cand_0 idx n : cand idx n 0 = n.
Proof. unfold cand. simpl. apply app_nil_r. Qed.
Lemma cand_S idx n k : cand idx n (S k) = cand idx (n ++ UNDERSCORE ++ idx) k.
Proof.
  unfold cand.
  change (concat (repeat (UNDERSCORE ++ idx) (S k)))
    with ((UNDERSCORE ++ idx) ++ concat (repeat (UNDERSCORE ++ idx) k)).
  rewrite <- !app_assoc. reflexivity.
Qed.
Lemma length_cand idx n k : length (cand idx n k) = length n + k * S (length idx).
Proof.
  unfold cand. rewrite app_length. f_equal.
  induction k as [|k IH]; [reflexivity|].
  change (repeat (UNDERSCORE ++ idx) (S k)) with ((UNDERSCORE ++ idx) :: repeat (UNDERSCORE ++ idx) k).
  change (concat ((UNDERSCORE ++ idx) :: repeat (UNDERSCORE ++ idx) k))
    with ((UNDERSCORE ++ idx) ++ concat (repeat (UNDERSCORE ++ idx) k)).
  rewrite !app_length, IH. simpl. lia.
Qed.
Lemma cand_inj idx n : FinFun.Injective (cand idx n).
Proof. intros a b E. apply (f_equal (@length _)) in E. rewrite !length_cand in E. nia. Qed.
Lemma cand_nonempty idx n k : n <> [] -> cand idx n k <> [].
Proof. unfold cand. destruct n; [congruence | discriminate]. Qed.

Lemma fresh_S f taken idx n :
  fresh (S f) taken idx n = if name_mem n taken then fresh f taken idx (n ++ UNDERSCORE ++ idx) else n.
Proof. reflexivity. Qed.

Theorem fresh_shape : forall f taken idx n,
  exists k, fresh f taken idx n = n ++ concat (repeat (UNDERSCORE ++ idx) k).
Proof.
  induction f as [|f IH]; intros taken idx n.
  - exists 0. simpl. symmetry. apply app_nil_r.
  - rewrite fresh_S. destruct (name_mem n taken).
    + destruct (IH taken idx (n ++ UNDERSCORE ++ idx)) as [k Hk]. exists (S k). rewrite Hk.
      exact (eq_sym (cand_S idx n k)).
    + exists 0. simpl. symmetry. apply app_nil_r.
Qed.
Theorem fresh_id : forall f taken idx n, ~ In n taken -> fresh (S f) taken idx n = n.
Proof. intros f taken idx n H. rewrite fresh_S. apply name_mem_false in H. rewrite H. reflexivity. Qed.

(* either the result is free, or all the candidates tried (as many as the fuel) are taken *)
Lemma fresh_spec : forall f taken idx n,
  ~ In (fresh f taken idx n) taken \/ (forall j, j < f -> In (cand idx n j) taken).
Proof.
  induction f as [|f IH]; intros taken idx n.
  - right. intros j Hj. lia.
  - rewrite fresh_S. destruct (name_mem n taken) eqn:E.
    + destruct (IH taken idx (n ++ UNDERSCORE ++ idx)) as [H|H]; [left; exact H|].
      right. intros [|j] Hj.
      * rewrite cand_0. apply name_mem_In. exact E.
      * rewrite cand_S. apply H. lia.
    + left. apply name_mem_false. exact E.
Qed.

Theorem fresh_not_taken : forall taken idx n, ~ In (fresh (S (length taken)) taken idx n) taken.
Proof.
  intros taken idx n.
  destruct (fresh_spec (S (length taken)) taken idx n) as [H|H]; [exact H|]. exfalso.
  assert (ND : NoDup (map (cand idx n) (seq 0 (S (length taken))))).
  { apply FinFun.Injective_map_NoDup; [apply cand_inj | apply seq_NoDup]. }
  assert (I : incl (map (cand idx n) (seq 0 (S (length taken)))) taken).
  { intros x Hx. apply in_map_iff in Hx as [j [<- Hj]]. apply in_seq in Hj. apply H. lia. }
  pose proof (NoDup_incl_length ND I) as L. rewrite map_length, seq_length in L. lia.
Qed.

(* ------------------------------------------------------------------ *)
(* (N2) fix_dups: distinct names, nothing else changes                 *)
(* ------------------------------------------------------------------ *)
Lemma names_of_app l1 l2 : names_of (l1 ++ l2) = names_of l1 ++ names_of l2.
Proof. unfold names_of. apply flat_map_app. Qed.
Lemma names_of_one m n : m_name m = Some n -> names_of [m] = [n].
Proof. intros H. unfold names_of. simpl. rewrite H. reflexivity. Qed.
Lemma in_names_of n l : In n (names_of l) <-> In (Some n) (map m_name l).
Proof.
  unfold names_of. rewrite in_flat_map, in_map_iff. split.
  - intros [m [Hm Hn]]. exists m. split; [|exact Hm].
    destruct (m_name m); simpl in Hn; [destruct Hn as [->|[]]; reflexivity | contradiction].
  - intros [m [E Hm]]. exists m. split; [exact Hm|]. rewrite E. left. reflexivity.
Qed.
Lemma in_names_of_intro m n l : In m l -> m_name m = Some n -> In n (names_of l).
Proof. intros Hm E. apply in_names_of. rewrite <- E. apply in_map. exact Hm. Qed.
Lemma NoDup_snoc' {A} (l : list A) x : NoDup l -> ~ In x l -> NoDup (l ++ [x]).
Proof.
  intros Hl Hx. induction Hl as [|y r Hy Hr IH]; simpl.
  - constructor; [intros [] | constructor].
  - constructor.
    + intros H. apply in_app_or in H as [H | [H | []]]; [contradiction |]. subst. apply Hx. left. reflexivity.
    + apply IH. intros H. apply Hx. right. exact H.
Qed.

(* the premise: every model has a non-empty name (true after name_model, see N3) *)
Definition named (l : list model) : Prop := forall m, In m l -> exists n, m_name m = Some n /\ n <> [].

Definition nm (m : model) : str := match m_name m with Some n => n | None => [] end.
Definition renamed (m : model) (n1 : str) : model :=
  {| m_idx := m_idx m; m_fields := m_fields m; m_name := Some n1; m_gen := Some true |}.
Definition oldname (m : model) : str := nm m ++ UNDERSCORE ++ index_str (m_idx m).
Definition newname (taken : list str) (m : model) : str :=
  fresh (S (length taken)) taken (index_str (m_idx m)) (oldname m).

(* a position-wise relation between the input and the output, which may look at the input before the position *)
Definition PW (Q : list model -> model -> model -> Prop) (pre acc : list model) : Prop :=
  length acc = length pre /\
  forall i m m', nth_error pre i = Some m -> nth_error acc i = Some m' -> Q (firstn i pre) m m'.
Lemma PW_nil Q : PW Q [] [].
Proof. split; [reflexivity|]. intros [|i] m m' H; discriminate. Qed.
Lemma PW_snoc Q pre acc m m' : PW Q pre acc -> Q pre m m' -> PW Q (pre ++ [m]) (acc ++ [m']).
Proof.
  intros [L H] HQ. split; [rewrite !app_length; simpl; lia|].
  intros i a a' Ha Ha'. destruct (lt_dec i (length pre)) as [Hi|Hi].
  - rewrite nth_error_app1 in Ha by lia. rewrite nth_error_app1 in Ha' by lia.
    rewrite firstn_app. replace (i - length pre) with 0 by lia. simpl. rewrite app_nil_r. eauto.
  - assert (Hlt : i < length (pre ++ [m])) by (apply nth_error_Some; congruence).
    rewrite app_length in Hlt. simpl in Hlt. assert (i = length pre) by lia. subst i.
    rewrite nth_error_middle in Ha. injection Ha as <-.
    rewrite <- L in Ha'. rewrite nth_error_middle in Ha'. injection Ha' as <-.
    rewrite firstn_middle. exact HQ.
Qed.
Lemma PW_eq Q l l' :
  PW Q l l' -> (forall i m m', nth_error l i = Some m -> Q (firstn i l) m m' -> m' = m) -> l' = l.
Proof.
  intros [L H] HQ. apply nth_error_ext'. intros i.
  destruct (nth_error l i) eqn:E1, (nth_error l' i) eqn:E2.
  - f_equal. eapply HQ; eauto.
  - apply nth_error_None in E2. assert (i < length l) by (apply nth_error_Some; congruence). lia.
  - apply nth_error_None in E1. assert (i < length l') by (apply nth_error_Some; congruence). lia.
  - reflexivity.
Qed.
Lemma PW_in Q l l' m' : PW Q l l' -> In m' l' -> exists i m, nth_error l i = Some m /\ nth_error l' i = Some m' /\ Q (firstn i l) m m'.
Proof.
  intros [L H] Hin. apply In_nth_error in Hin as [i Hi].
  assert (Hlt : i < length l) by (rewrite <- L; apply nth_error_Some; congruence).
  apply nth_error_Some in Hlt. destruct (nth_error l i) as [m|] eqn:E; [|congruence].
  exists i, m. repeat split; auto.
Qed.

(* cnt maps a name to the number of its holders seen so far *)
Definition cnt_inv (pre : list model) (cnt : list (str * nat)) : Prop :=
  forall n, (In n (names_of pre) -> exists c, lookup n cnt = Some c /\ 1 <= c)
         /\ (~ In n (names_of pre) -> lookup n cnt = None).
Lemma cnt_inv_nil : cnt_inv [] [].
Proof. intros n. split; [intros [] | reflexivity]. Qed.
Lemma cnt_inv_step pre cnt m n c :
  cnt_inv pre cnt -> m_name m = Some n -> 1 <= c -> cnt_inv (pre ++ [m]) (update n c cnt).
Proof.
  intros H Hn Hc x. rewrite names_of_app, (names_of_one _ _ Hn). destruct (str_dec x n) as [->|Hx].
  - rewrite lookup_update_same. split.
    + intros _. exists c. auto.
    + intros Hc'. exfalso. apply Hc'. apply in_or_app. right. left. reflexivity.
  - rewrite (lookup_update_other n x c cnt Hx). destruct (H x) as [H1 H2]. split.
    + intros Hi. apply H1. apply in_app_or in Hi as [Hi|[Hi|[]]]; [exact Hi | congruence].
    + intros Hi. apply H2. intros Hi'. apply Hi. apply in_or_app. left. exact Hi'.
Qed.

Lemma dup_step_first cnt taken acc m n :
  m_name m = Some n -> n <> [] -> lookup n cnt = None ->
  dup_step (cnt, taken, acc) m = (update n 1 cnt, taken, acc ++ [m]).
Proof.
  intros Hn Hne Hl. unfold dup_step. cbv beta iota zeta. rewrite Hn. cbv beta iota.
  destruct n as [|a n']; [congruence|]. cbv beta iota. rewrite Hl. rewrite lookup_update_same.
  change (1 <? 1) with false. cbv beta iota. reflexivity.
Qed.
Lemma dup_step_again cnt taken acc m n c :
  m_name m = Some n -> n <> [] -> lookup n cnt = Some c -> 1 <= c ->
  dup_step (cnt, taken, acc) m
  = (update n (S c) cnt, newname taken m :: taken, acc ++ [renamed m (newname taken m)]).
Proof.
  intros Hn Hne Hl Hc. unfold dup_step, newname, renamed, oldname, nm. cbv beta iota zeta. rewrite Hn. cbv beta iota.
  destruct n as [|a n']; [congruence|]. cbv beta iota. rewrite Hl. rewrite lookup_update_same.
  destruct c as [|c']; [lia|]. change (1 <? S (S c')) with true. cbv beta iota. reflexivity.
Qed.
Lemma dup_step_cases pre cnt taken acc m n :
  cnt_inv pre cnt -> m_name m = Some n -> n <> [] ->
  (~ In n (names_of pre) /\ dup_step (cnt, taken, acc) m = (update n 1 cnt, taken, acc ++ [m]))
  \/ (In n (names_of pre) /\ exists c, 1 <= c /\
      dup_step (cnt, taken, acc) m
      = (update n (S c) cnt, newname taken m :: taken, acc ++ [renamed m (newname taken m)])).
Proof.
  intros Hc Hn Hne. destruct (in_dec str_dec n (names_of pre)) as [Hi|Hi].
  - right. split; [exact Hi|]. destruct (proj1 (Hc n) Hi) as [c [Hl Hc1]]. exists c. split; [exact Hc1|].
    apply dup_step_again; assumption.
  - left. split; [exact Hi|]. apply dup_step_first; auto. apply (proj2 (Hc n) Hi).
Qed.

Lemma newname_free taken m : ~ In (newname taken m) taken.
Proof. apply fresh_not_taken. Qed.
Lemma newname_shape taken m : exists k, newname taken m = cand (index_str (m_idx m)) (nm m) (S k).
Proof.
  unfold newname. destruct (fresh_shape (S (length taken)) taken (index_str (m_idx m)) (oldname m)) as [k Hk].
  exists k. rewrite Hk. rewrite cand_S. reflexivity.
Qed.

Definition Qnew (p : list model) (m m' : model) : Prop :=
  m_idx m' = m_idx m /\ m_fields m' = m_fields m /\
  (exists n', m_name m' = Some n' /\ n' <> []) /\
  (~ In (m_name m) (map m_name p) -> m' = m) /\
  (In (m_name m) (map m_name p) ->
   m_gen m' = Some true /\ exists k, m_name m' = Some (cand (index_str (m_idx m)) (nm m) (S k))).

Definition Inv (l pre : list model) (st : list (str * nat) * list str * list model) : Prop :=
  cnt_inv pre (fst (fst st)) /\ incl (names_of l) (snd (fst st)) /\ incl (names_of (snd st)) (snd (fst st)) /\
  NoDup (names_of (snd st)) /\
  (forall x, In x (names_of (snd st)) -> In x (names_of pre) \/ ~ In x (names_of l)) /\
  map m_idx (snd st) = map m_idx pre /\ map m_fields (snd st) = map m_fields pre /\ PW Qnew pre (snd st).

Lemma Inv_fold l : named l -> Inv l l (fold_left dup_step l ([], names_of l, [])).
Proof.
  intros Hl. apply (fold_left_prefix_inv dup_step (Inv l) l).
  - unfold Inv. simpl.
    refine (conj cnt_inv_nil (conj (incl_refl _) (conj _ (conj (NoDup_nil _) (conj _ (conj eq_refl (conj eq_refl (PW_nil _)))))))).
    + intros x [].
    + intros x [].
  - intros pre m rest [[cnt taken] acc] E (Hc & Hl1 & Ha & ND & Hor & Hi & Hf & Hpw). unfold Inv. cbn [fst snd] in *.
    assert (Hm : In m l) by (rewrite E; apply in_or_app; right; left; reflexivity).
    destruct (Hl m Hm) as [n [Hn Hne]].
    assert (Hnl : In n (names_of l)) by (eapply in_names_of_intro; eauto).
    destruct (dup_step_cases pre cnt taken acc m n Hc Hn Hne) as [[Hnot E1]|[Hin [c [Hc1 E1]]]];
      rewrite E1; cbn [fst snd].
    + (* first holder *)
      rewrite !names_of_app, (names_of_one _ _ Hn), !map_app. simpl map.
      refine (conj (cnt_inv_step _ _ _ _ _ Hc Hn (le_n 1)) (conj Hl1 (conj _ (conj _ (conj _ (conj _ (conj _ _))))))).
      * apply incl_app; [exact Ha|]. intros x [<-|[]]. apply Hl1. exact Hnl.
      * apply NoDup_snoc'; [exact ND|]. intros Hx. destruct (Hor n Hx) as [H|H]; contradiction.
      * intros x Hx. apply in_app_or in Hx as [Hx|[<-|[]]].
        -- destruct (Hor x Hx) as [H|H]; [left; apply in_or_app; left; exact H | right; exact H].
        -- left. apply in_or_app. right. left. reflexivity.
      * rewrite Hi. reflexivity.
      * rewrite Hf. reflexivity.
      * apply PW_snoc; [exact Hpw|]. unfold Qnew.
        refine (conj eq_refl (conj eq_refl (conj _ (conj _ _)))).
        -- exists n. auto.
        -- intros _. reflexivity.
        -- intros Hx. exfalso. apply Hnot. apply in_names_of. rewrite <- Hn. exact Hx.
    + (* a later holder: renamed *)
      pose proof (newname_free taken m) as Hfree. destruct (newname_shape taken m) as [k Hk].
      set (n1 := newname taken m) in *.
      rewrite !names_of_app, (names_of_one (renamed m n1) n1 eq_refl), !map_app. simpl map.
      refine (conj (cnt_inv_step _ _ _ _ _ Hc Hn (le_S _ _ Hc1)) (conj _ (conj _ (conj _ (conj _ (conj _ (conj _ _))))))).
      * apply incl_tl. exact Hl1.
      * apply incl_app; [apply incl_tl; exact Ha|]. intros x [<-|[]]. left. reflexivity.
      * apply NoDup_snoc'; [exact ND|]. intros Hx. apply Hfree. apply Ha. exact Hx.
      * intros x Hx. apply in_app_or in Hx as [Hx|[<-|[]]].
        -- destruct (Hor x Hx) as [H|H]; [left; apply in_or_app; left; exact H | right; exact H].
        -- right. intros Hx. apply Hfree. apply Hl1. exact Hx.
      * rewrite Hi. reflexivity.
      * rewrite Hf. reflexivity.
      * apply PW_snoc; [exact Hpw|]. unfold Qnew.
        refine (conj eq_refl (conj eq_refl (conj _ (conj _ _)))).
        -- exists n1. split; [reflexivity|]. rewrite Hk. apply cand_nonempty. unfold nm. rewrite Hn. exact Hne.
        -- intros Hx. exfalso. apply Hx. rewrite Hn. apply in_names_of. exact Hin.
        -- intros _. split; [reflexivity|]. exists k. unfold renamed. cbn [m_name]. rewrite Hk. reflexivity.
Qed.

(* without any premise: indices, fields and the length never change; an output model is the input model or a renamed one *)
Lemma dup_step_out st m :
  exists m', snd (dup_step st m) = snd st ++ [m'] /\ m_idx m' = m_idx m /\ m_fields m' = m_fields m /\
             (m' = m \/ exists n1, m' = renamed m n1).
Proof.
  destruct st as [[cnt taken] acc]. unfold dup_step. cbv beta iota zeta.
  match goal with |- context [if ?b then _ else _] => destruct b end; cbn [snd].
  - eexists. split; [reflexivity|]. cbn [m_idx m_fields]. repeat split. right. eexists. reflexivity.
  - exists m. repeat split. left. reflexivity.
Qed.
Lemma fix_dups_struct l :
  map m_idx (fix_dups l) = map m_idx l /\ map m_fields (fix_dups l) = map m_fields l /\
  (forall m', In m' (fix_dups l) -> In m' l \/ exists n1, m_name m' = Some n1).
Proof.
  unfold fix_dups.
  apply (fold_left_prefix_inv dup_step
           (fun pre st => map m_idx (snd st) = map m_idx pre /\ map m_fields (snd st) = map m_fields pre /\
                          (forall m', In m' (snd st) -> In m' pre \/ exists n1, m_name m' = Some n1)) l).
  - cbn [snd]. repeat split. intros m' [].
  - intros pre m rest st E (Hi & Hf & Hn).
    destruct (dup_step_out st m) as [m' [E1 [Hi' [Hf' Hm']]]]. rewrite E1, !map_app. cbn [map]. rewrite Hi, Hf, Hi', Hf'.
    repeat split. intros x Hx. apply in_app_or in Hx as [Hx|[<-|[]]].
    + destruct (Hn x Hx) as [H|H]; [left; apply in_or_app; left; exact H | right; exact H].
    + destruct Hm' as [->|[n1 ->]]; [left; apply in_or_app; right; left; reflexivity | right; exists n1; reflexivity].
Qed.

Theorem fix_dups_idx : forall l, map m_idx (fix_dups l) = map m_idx l.
Proof. intros l. apply fix_dups_struct. Qed.
Theorem fix_dups_fields : forall l, map m_fields (fix_dups l) = map m_fields l.
Proof. intros l. apply fix_dups_struct. Qed.
Theorem fix_dups_length : forall l, length (fix_dups l) = length l.
Proof. intros l. rewrite <- (map_length m_idx (fix_dups l)), fix_dups_idx. apply map_length. Qed.

(* the main theorem: with non-empty names everywhere, the names after fix_dups are pairwise distinct *)
Theorem fix_dups_distinct : forall l,
  (forall m, In m l -> exists n, m_name m = Some n /\ n <> []) -> NoDup (names_of (fix_dups l)).
Proof. intros l H. destruct (Inv_fold l H) as (_ & _ & _ & ND & _). exact ND. Qed.

(* position by position: index and fields are kept, the result has a non-empty name, the FIRST holder of a name is
   unchanged, a later holder gets name ++ (S k) copies of "_<index>" and is marked generated *)
Theorem fix_dups_pointwise : forall l, named l -> forall i m m',
  nth_error l i = Some m -> nth_error (fix_dups l) i = Some m' ->
  m_idx m' = m_idx m /\ m_fields m' = m_fields m /\
  (exists n', m_name m' = Some n' /\ n' <> []) /\
  (~ In (m_name m) (map m_name (firstn i l)) -> m' = m) /\
  (In (m_name m) (map m_name (firstn i l)) ->
   m_gen m' = Some true /\
   exists k, m_name m' = Some (nm m ++ concat (repeat (UNDERSCORE ++ index_str (m_idx m)) (S k)))).
Proof.
  intros l H i m m' Hi Hi'. destruct (Inv_fold l H) as (_ & _ & _ & _ & _ & _ & _ & [_ Hpw]).
  exact (Hpw i m m' Hi Hi').
Qed.
Theorem fix_dups_named : forall l, named l -> named (fix_dups l).
Proof.
  intros l H m' Hm'. destruct (Inv_fold l H) as (_ & _ & _ & _ & _ & _ & _ & Hpw).
  destruct (PW_in _ _ _ _ Hpw Hm') as [i [m [_ [_ HQ]]]]. apply HQ.
Qed.

Lemma first_holder_of_nodup l i m n :
  NoDup (names_of l) -> nth_error l i = Some m -> m_name m = Some n -> ~ In (Some n) (map m_name (firstn i l)).
Proof.
  intros ND Hi Hn Hin. apply in_names_of in Hin.
  pose proof (nth_error_split_firstn l i m Hi) as E.
  assert (ND2 : NoDup (names_of (firstn i l ++ [m] ++ skipn (S i) l)))     by (change ([m] ++ skipn (S i) l) with (m :: skipn (S i) l); rewrite <- E; exact ND).
  rewrite !names_of_app, (names_of_one _ _ Hn) in ND2. simpl in ND2. apply NoDup_remove_2 in ND2.
  apply ND2. apply in_or_app. left. exact Hin.
Qed.
(* in particular: where the names are already distinct nothing is touched *)
Theorem fix_dups_unique_id : forall l, named l -> NoDup (names_of l) -> fix_dups l = l.
Proof.
  intros l H ND. destruct (Inv_fold l H) as (_ & _ & _ & _ & _ & _ & _ & Hpw).
  apply (PW_eq _ _ _ Hpw). intros i m m' Hi HQ. apply HQ.
  assert (Hm : In m l) by (eapply nth_error_In; eauto). destruct (H m Hm) as [n [Hn _]]. rewrite Hn.
  eapply first_holder_of_nodup; eauto.
Qed.

(* the first holder of a name keeps its place and everything else; so does a model whose name occurs once *)
Corollary fix_dups_first_holder_kept : forall l, named l -> forall i m,
  nth_error l i = Some m -> ~ In (m_name m) (map m_name (firstn i l)) -> nth_error (fix_dups l) i = Some m.
Proof.
  intros l H i m Hi Hf. destruct (nth_error (fix_dups l) i) as [m'|] eqn:E.
  - f_equal. apply (fix_dups_pointwise l H i m m' Hi E). exact Hf.
  - apply nth_error_None in E. rewrite fix_dups_length in E.
    assert (i < length l) by (apply nth_error_Some; congruence). lia.
Qed.
Corollary fix_dups_once_unchanged : forall l, named l -> forall i m,
  nth_error l i = Some m -> count_occ oname_dec (map m_name l) (m_name m) = 1 -> nth_error (fix_dups l) i = Some m.
Proof.
  intros l H i m Hi Hc. apply fix_dups_first_holder_kept; auto.
  pose proof (nth_error_split_firstn l i m Hi) as E.
  assert (Hc2 : count_occ oname_dec (map m_name (firstn i l ++ m :: skipn (S i) l)) (m_name m) = 1)
    by (rewrite <- E; exact Hc).
  rewrite map_app, count_occ_app in Hc2. cbn [map] in Hc2. rewrite count_occ_cons_eq in Hc2 by reflexivity.
  apply (count_occ_not_In oname_dec). lia.
Qed.

(* the premise n <> [] is necessary: with an empty name the code counts under the index key, tests under the name
   key, and never renames; two models with the empty name stay duplicates *)
Definition mk (i : N) (n : option str) : model := {| m_idx := i; m_fields := []; m_name := n; m_gen := Some false |}.
Example fix_dups_empty_names_stay :
  names_of (fix_dups [mk 0 (Some []); mk 1 (Some [])]) = [[]; []]
  /\ ~ NoDup (names_of (fix_dups [mk 0 (Some []); mk 1 (Some [])])).
Proof.
  assert (E : names_of (fix_dups [mk 0 (Some []); mk 1 (Some [])]) = [[]; []]) by (vm_compute; reflexivity).
  split; [exact E|]. rewrite E. intros H. apply NoDup_cons_iff in H as [H _]. apply H. left. reflexivity.
Qed.
(* and an empty name makes the first holder of the name "1A" lose it: the count sits under the key index_str 0 *)
Example fix_dups_empty_name_spurious_rename :
  names_of (fix_dups [mk 0 (Some []); mk 1 (Some (index_str 0))])
  = [[]; index_str 0 ++ UNDERSCORE ++ index_str 1].
Proof. vm_compute. reflexivity. Qed.

(* ------------------------------------------------------------------ *)
(* (N4) the code before the repair is wrong                            *)
(* ------------------------------------------------------------------ *)
Definition A_ : str := [65%N].
Definition ex3 : list model :=
  [mk 0 (Some A_); mk 1 (Some A_); mk 2 (Some (A_ ++ UNDERSCORE ++ index_str 1))].
Example fix_dups_old_refuted :
  names_of (fix_dups_old ex3) = [A_; A_ ++ UNDERSCORE ++ index_str 1; A_ ++ UNDERSCORE ++ index_str 1]
  /\ ~ NoDup (names_of (fix_dups_old ex3))
  /\ names_of (fix_dups ex3)
     = [A_; A_ ++ UNDERSCORE ++ index_str 1 ++ UNDERSCORE ++ index_str 1; A_ ++ UNDERSCORE ++ index_str 1]
  /\ NoDup (names_of (fix_dups ex3)).
Proof.
  assert (E : names_of (fix_dups_old ex3)
              = [A_; A_ ++ UNDERSCORE ++ index_str 1; A_ ++ UNDERSCORE ++ index_str 1]) by (vm_compute; reflexivity).
  split; [exact E|]. split.
  - rewrite E. intros H. apply NoDup_cons_iff in H as [_ H]. apply NoDup_cons_iff in H as [H _]. apply H. left. reflexivity.
  - split; [vm_compute; reflexivity|]. apply fix_dups_distinct. intros m [<-|[<-|[<-|[]]]]; eexists; (split; [reflexivity | discriminate]).
Qed.

(* ------------------------------------------------------------------ *)
(* (N5) the repair is conservative                                     *)
(* ------------------------------------------------------------------ *)
Lemma dup_step_old_first cnt acc m n :
  m_name m = Some n -> n <> [] -> lookup n cnt = None ->
  dup_step_old (cnt, acc) m = (update n 1 cnt, acc ++ [m]).
Proof.
  intros Hn Hne Hl. unfold dup_step_old. cbv beta iota zeta. rewrite Hn. cbv beta iota.
  destruct n as [|a n']; [congruence|]. cbv beta iota. rewrite Hl. rewrite lookup_update_same.
  change (1 <? 1) with false. cbv beta iota. reflexivity.
Qed.
Lemma dup_step_old_again cnt acc m n c :
  m_name m = Some n -> n <> [] -> lookup n cnt = Some c -> 1 <= c ->
  dup_step_old (cnt, acc) m = (update n (S c) cnt, acc ++ [renamed m (oldname m)]).
Proof.
  intros Hn Hne Hl Hc. unfold dup_step_old, renamed, oldname, nm. cbv beta iota zeta. rewrite Hn. cbv beta iota.
  destruct n as [|a n']; [congruence|]. cbv beta iota. rewrite Hl. rewrite lookup_update_same.
  destruct c as [|c']; [lia|]. change (1 <? S (S c')) with true. cbv beta iota. reflexivity.
Qed.

(* the old code, position by position: the first holder is kept, a later holder gets ONE suffix *)
Definition Qold (p : list model) (m m' : model) : Prop :=
  (~ In (m_name m) (map m_name p) /\ m' = m) \/ (In (m_name m) (map m_name p) /\ m' = renamed m (oldname m)).

Lemma Old_fold l : named l -> PW Qold l (fix_dups_old l).
Proof.
  intros Hl. unfold fix_dups_old.
  assert (G : cnt_inv l (fst (fold_left dup_step_old l ([], []))) /\ PW Qold l (snd (fold_left dup_step_old l ([], [])))).
  { apply (fold_left_prefix_inv dup_step_old (fun pre st => cnt_inv pre (fst st) /\ PW Qold pre (snd st)) l).
    - split; [apply cnt_inv_nil | apply PW_nil].
    - intros pre m rest [cnt acc] E [Hc Hpw]. cbn [fst snd] in *.
      assert (Hm : In m l) by (rewrite E; apply in_or_app; right; left; reflexivity).
      destruct (Hl m Hm) as [n [Hn Hne]].
      destruct (in_dec str_dec n (names_of pre)) as [Hi|Hi].
      + destruct (proj1 (Hc n) Hi) as [c [Hlk Hc1]].
        rewrite (dup_step_old_again cnt acc m n c Hn Hne Hlk Hc1). cbn [fst snd].
        split; [apply cnt_inv_step; auto|]. apply PW_snoc; [exact Hpw|]. right. split; [|reflexivity].
        rewrite Hn. apply in_names_of. exact Hi.
      + rewrite (dup_step_old_first cnt acc m n Hn Hne (proj2 (Hc n) Hi)). cbn [fst snd].
        split; [apply cnt_inv_step; auto|]. apply PW_snoc; [exact Hpw|]. left. split; [|reflexivity].
        rewrite Hn. intros Hx. apply Hi. apply in_names_of. exact Hx. }
  exact (proj2 G).
Qed.

Lemma NoDup_app_r' {A} (l l' : list A) : NoDup (l ++ l') -> NoDup l'.
Proof. induction l as [|a l IH]; simpl; intros H; [exact H|]. apply NoDup_cons_iff in H as [_ H]. auto. Qed.
Lemma names_pos_inj F : NoDup (names_of F) -> forall i j a b x,
  nth_error F i = Some a -> nth_error F j = Some b -> m_name a = Some x -> m_name b = Some x -> i = j.
Proof.
  induction F as [|f F IH]; intros ND i j a b x Hi Hj Ha Hb.
  - destruct i; discriminate.
  - change (f :: F) with ([f] ++ F) in ND. rewrite names_of_app in ND.
    destruct i as [|i], j as [|j]; simpl in Hi, Hj.
    + reflexivity.
    + exfalso. injection Hi as ->. rewrite (names_of_one _ _ Ha) in ND. simpl in ND.
      apply NoDup_cons_iff in ND as [Hx _]. apply Hx.
      eapply in_names_of_intro; [eapply nth_error_In; eauto | exact Hb].
    + exfalso. injection Hj as ->. rewrite (names_of_one _ _ Hb) in ND. simpl in ND.
      apply NoDup_cons_iff in ND as [Hx _]. apply Hx.
      eapply in_names_of_intro; [eapply nth_error_In; eauto | exact Ha].
    + f_equal. eapply IH; eauto. eapply NoDup_app_r'; eauto.
Qed.
Lemma first_holder l x :
  In x (names_of l) ->
  exists j m, nth_error l j = Some m /\ m_name m = Some x /\ ~ In (Some x) (map m_name (firstn j l)).
Proof.
  induction l as [|a l IH]; intros H; [destruct H|].
  destruct (oname_dec (m_name a) (Some x)) as [E|E].
  - exists 0, a. simpl. split; [reflexivity|]. split; [exact E|]. intros [].
  - assert (H' : In x (names_of l)).
    { apply in_names_of in H. simpl in H. destruct H as [H|H]; [contradiction|]. apply in_names_of. exact H. }
    destruct (IH H') as [j [m [Hj [Hm Hf]]]]. exists (S j), m. simpl.
    split; [exact Hj|]. split; [exact Hm|]. intros [H1|H1]; [contradiction | exact (Hf H1)].
Qed.

Definition InvC (l F pre : list model) (st : list (str * nat) * list str * list model) : Prop :=
  cnt_inv pre (fst (fst st)) /\ snd st = firstn (length pre) F /\
  (forall x, In x (snd (fst st)) -> In x (names_of l) \/ In x (names_of (snd st))).

Theorem fix_dups_conservative : forall l,
  (forall m, In m l -> exists n, m_name m = Some n /\ n <> []) ->
  NoDup (names_of (fix_dups_old l)) -> fix_dups l = fix_dups_old l.
Proof.
  intros l Hl ND. pose proof (Old_fold l Hl) as HF. remember (fix_dups_old l) as F eqn:HeqF.
  destruct HF as [LF HF].
  assert (G : InvC l F l (fold_left dup_step l ([], names_of l, []))).
  { apply (fold_left_prefix_inv dup_step (InvC l F) l).
    - unfold InvC. cbn [fst snd]. refine (conj cnt_inv_nil (conj eq_refl _)). intros x Hx. left. exact Hx.
    - intros pre m rest [[cnt taken] acc] E (Hc & Hacc & Hcov). unfold InvC. cbn [fst snd] in *.
      assert (Hm : In m l) by (rewrite E; apply in_or_app; right; left; reflexivity).
      destruct (Hl m Hm) as [n [Hn Hne]].
      assert (Hi : nth_error l (length pre) = Some m) by (rewrite E; apply nth_error_middle).
      assert (Hpre : firstn (length pre) l = pre) by (rewrite E; apply firstn_middle).
      destruct (nth_error F (length pre)) as [m'|] eqn:Hi'.
      2:{ apply nth_error_None in Hi'. assert (length pre < length l) by (apply nth_error_Some; congruence). lia. }
      pose proof (HF _ _ _ Hi Hi') as HQ. rewrite Hpre in HQ.
      rewrite app_length. simpl length. rewrite Nat.add_1_r. rewrite (firstn_S_snoc _ _ _ Hi'). rewrite <- Hacc.
      destruct (dup_step_cases pre cnt taken acc m n Hc Hn Hne) as [[Hnot E1]|[Hin [c [Hc1 E1]]]];
        rewrite E1; cbn [fst snd].
      + destruct HQ as [[_ ->]|[HQ _]]; [| exfalso; apply Hnot; apply in_names_of; rewrite <- Hn; exact HQ].
        refine (conj (cnt_inv_step _ _ _ _ _ Hc Hn (le_n 1)) (conj eq_refl _)).
        intros x Hx. destruct (Hcov x Hx) as [H|H]; [left; exact H|].
        right. rewrite names_of_app. apply in_or_app. left. exact H.
      + destruct HQ as [[HQ _]|[_ ->]]; [exfalso; apply HQ; rewrite Hn; apply in_names_of; exact Hin |].
        assert (Hfree : ~ In (oldname m) taken).
        { intros Hx. destruct (Hcov _ Hx) as [H|H].
          - (* the old name is an original name: its first holder keeps it in the old result *)
            destruct (first_holder l _ H) as [j [mj [Hj [Hmj Hfj]]]].
            destruct (nth_error F j) as [mj'|] eqn:Hj'.
            2:{ apply nth_error_None in Hj'. assert (j < length l) by (apply nth_error_Some; congruence). lia. }
            assert (mj' = mj).
            { destruct (HF _ _ _ Hj Hj') as [[_ ->]|[HQ _]]; [reflexivity|]. exfalso. apply Hfj. rewrite <- Hmj. exact HQ. }
            subst mj'.
            assert (j = length pre).
            { eapply (names_pos_inj F ND j (length pre) mj (renamed m (oldname m)) (oldname m)); eauto. }
            subst j. rewrite Hi in Hj. injection Hj as <-. rewrite Hn in Hmj. injection Hmj as Hmj.
            apply (f_equal (@length _)) in Hmj. unfold oldname, nm in Hmj. rewrite Hn in Hmj.
            rewrite !app_length in Hmj. simpl in Hmj. lia.
          - (* the old name was given to an earlier model *)
            rewrite Hacc in H. pose proof (nth_error_split_firstn F _ _ Hi') as EF.
            assert (ND2 : NoDup (names_of (firstn (length pre) F ++ [renamed m (oldname m)] ++ skipn (S (length pre)) F))).
            { change ([renamed m (oldname m)] ++ skipn (S (length pre)) F)
                with (renamed m (oldname m) :: skipn (S (length pre)) F). rewrite <- EF. exact ND. }
            rewrite !names_of_app, (names_of_one (renamed m (oldname m)) (oldname m) eq_refl) in ND2.
            simpl in ND2. apply NoDup_remove_2 in ND2. apply ND2. apply in_or_app. left. exact H. }
        assert (En : newname taken m = oldname m) by (apply fresh_id; exact Hfree).
        rewrite En. refine (conj (cnt_inv_step _ _ _ _ _ Hc Hn (le_S _ _ Hc1)) (conj eq_refl _)).
        rewrite names_of_app, (names_of_one (renamed m (oldname m)) (oldname m) eq_refl).
        intros x [<-|Hx].
        * right. apply in_or_app. right. left. reflexivity.
        * destruct (Hcov x Hx) as [H|H]; [left; exact H|]. right. apply in_or_app. left. exact H. }
  destruct G as (_ & G & _). unfold fix_dups. rewrite G. rewrite <- LF. apply firstn_all.
Qed.

(* so, for non-empty names: the old code was right exactly where the repair changes nothing *)
Corollary fix_dups_old_right_iff : forall l, named l ->
  (NoDup (names_of (fix_dups_old l)) <-> fix_dups l = fix_dups_old l).
Proof.
  intros l H. split; [apply fix_dups_conservative; exact H|]. intros <-. apply fix_dups_distinct. exact H.
Qed.

(* ------------------------------------------------------------------ *)
(* (N3) generate_names                                                 *)
(* ------------------------------------------------------------------ *)
Lemma app_len_nonempty (a b : str) : 0 < length a -> a ++ b <> [].
Proof. intros H E. apply (f_equal (@length _)) in E. rewrite app_length in E. simpl in E. lia. Qed.

Lemma name_model_idx d lo up sg g m : m_idx (name_model d lo up sg g m) = m_idx m.
Proof.
  unfold name_model. destruct (m_gen m) as [b|]; [|destruct (generated_name d lo up sg g (m_idx m))];
    cbv beta iota zeta; cbn [m_name m_idx]; try destruct (m_name m); reflexivity.
Qed.
Lemma name_model_fields d lo up sg g m : m_fields (name_model d lo up sg g m) = m_fields m.
Proof.
  unfold name_model. destruct (m_gen m) as [b|]; [|destruct (generated_name d lo up sg g (m_idx m))];
    cbv beta iota zeta; cbn [m_name m_fields]; try destruct (m_name m); reflexivity.
Qed.
(* name_model always gives a name; it is non-empty unless the model had the empty name explicitly *)
Lemma name_model_named d lo up sg g m :
  exists n, m_name (name_model d lo up sg g m) = Some n /\ ((forall n0, m_name m = Some n0 -> n0 <> []) -> n <> []).
Proof.
  unfold name_model. destruct (m_gen m) as [b|]; [|destruct (generated_name d lo up sg g (m_idx m)) as [|c w]];
    cbv beta iota zeta; cbn [m_name m_idx].
  - destruct (m_name m) as [n|] eqn:E; cbn [m_name].
    + exists n. split; [exact E|]. intros H. apply H. reflexivity.
    + eexists. split; [reflexivity|]. intros _. apply app_len_nonempty. vm_compute. lia.
  - destruct (m_name m) as [n|] eqn:E; cbn [m_name].
    + exists n. split; [exact E|]. intros H. apply H. reflexivity.
    + eexists. split; [reflexivity|]. intros _. apply app_len_nonempty. vm_compute. lia.
  - exists (c :: w). split; [reflexivity|]. intros _. discriminate.
Qed.

Theorem generate_names_distinct : forall d lo up sg g,
  let g' := generate_names d lo up sg g in
  (forall m, In m (ms g') -> exists n, m_name m = Some n)
  /\ ((forall m n, In m (ms g) -> m_name m = Some n -> n <> []) ->
      NoDup (names_of (ms g')) /\ (forall m, In m (ms g') -> exists n, m_name m = Some n /\ n <> []))
  /\ map m_idx (ms g') = map m_idx (ms g) /\ map m_fields (ms g') = map m_fields (ms g)
  /\ ps g' = ps g /\ nxt g' = nxt g.
Proof.
  intros d lo up sg g g'. subst g'. unfold generate_names. cbn [ms ps nxt].
  split; [|split; [|split; [|split; [|split; reflexivity]]]].
  - intros m Hm. destruct (fix_dups_struct (map (name_model d lo up sg g) (ms g))) as (_ & _ & H).
    destruct (H m Hm) as [Hin|Hn]; [|exact Hn]. apply in_map_iff in Hin as [m0 [<- _]].
    destruct (name_model_named d lo up sg g m0) as [n [Hn _]]. exists n. exact Hn.
  - intros Hne.
    assert (Hnamed : named (map (name_model d lo up sg g) (ms g))).
    { intros m Hm. apply in_map_iff in Hm as [m0 [<- Hm0]].
      destruct (name_model_named d lo up sg g m0) as [n [Hn Hn']]. exists n. split; [exact Hn|].
      apply Hn'. intros n0. apply Hne. exact Hm0. }
    split; [apply fix_dups_distinct; exact Hnamed | apply fix_dups_named; exact Hnamed].
  - rewrite fix_dups_idx, map_map. apply map_ext. intros m. apply name_model_idx.
  - rewrite fix_dups_fields, map_map. apply map_ext. intros m. apply name_model_fields.
Qed.

(* ------------------------------------------------------------------ *)
(* (N6) references resolve in the flat layout                          *)
(* ------------------------------------------------------------------ *)
Import RegistryInvAux RegistryInv LayoutProps.

(* for a closed graph (Proofs/RegistryInv.v, Props/C05) whose flat layout exists (Props/C12): every model is placed, and
   every TPtr i in a field of a model has exactly one placed node i, which is the index of exactly one model *)
Theorem flat_refs_resolvable : forall g l,
  closed g -> compose_flat g = Some l ->
  forall m i, In m (ms g) -> In i (fptrs (m_fields m)) ->
    In (m_idx m) (flat_map flatten l)
    /\ count_occ N.eq_dec (flat_map flatten l) i = 1
    /\ exists m', In m' (ms g) /\ m_idx m' = i /\ forall m'', In m'' (ms g) -> m_idx m'' = i -> m'' = m'.
Proof.
  intros g l (Hcl & _ & ND & _) Hl m i Hm Hi.
  destruct (flat_exactly_once g l ND Hl) as [NDl Hiff].
  assert (Hreg : registered g i) by (eapply Hcl; eauto).
  split; [apply Hiff; apply in_map; exact Hm|]. split.
  - apply (proj1 (NoDup_count_occ' N.eq_dec (flat_map flatten l)) NDl). apply Hiff. exact Hreg.
  - unfold registered in Hreg. apply in_map_iff in Hreg as [m' [E Hm']]. exists m'. split; [exact Hm'|]. split; [exact E|].
    intros m'' Hm'' E''. eapply (NoDup_map_inj m_idx); eauto. congruence.
Qed.

(* generate_names keeps the graph closed, so the two results combine: after naming, names are distinct and every
   reference in a placed model resolves to exactly one placed, named model *)
Theorem generate_names_closed : forall d lo up sg g, closed g -> closed (generate_names d lo up sg g).
Proof.
  intros d lo up sg g (H1 & H2 & H3 & H4).
  destruct (generate_names_distinct d lo up sg g) as (_ & _ & Ei & Ef & Ep & En). cbv zeta in *.
  set (g' := generate_names d lo up sg g) in *.
  assert (R : forall i, registered g' i <-> registered g i) by (intros i; unfold registered; rewrite Ei; reflexivity).
  unfold closed. rewrite Ep, En, Ei. repeat split.
  - intros m' i Hm' Hi. apply R.
    assert (Hf : In (m_fields m') (map m_fields (ms g))) by (rewrite <- Ef; apply in_map; exact Hm').
    apply in_map_iff in Hf as [m [Ef' Hm]]. apply (H1 m i Hm). rewrite Ef'. exact Hi.
  - apply R. apply H2. exact H.
  - intros q Hq. apply R. eapply H2; eauto.
  - exact H3.
  - intros i Hi. apply H4. apply R. exact Hi.
Qed.

Corollary named_flat_refs_resolvable : forall d lo up sg g l,
  closed g -> (forall m n, In m (ms g) -> m_name m = Some n -> n <> []) ->
  let g' := generate_names d lo up sg g in
  compose_flat g' = Some l ->
  NoDup (names_of (ms g'))
  /\ forall m i, In m (ms g') -> In i (fptrs (m_fields m)) ->
       count_occ N.eq_dec (flat_map flatten l) i = 1
       /\ exists m' n', In m' (ms g') /\ m_idx m' = i /\ m_name m' = Some n' /\ n' <> []
                        /\ forall m'', In m'' (ms g') -> m_idx m'' = i -> m'' = m'.
Proof.
  intros d lo up sg g l Hc Hne g' Hl.
  destruct (generate_names_distinct d lo up sg g) as (_ & Hd & _). cbv zeta in Hd. fold g' in Hd.
  destruct (Hd Hne) as [ND Hnamed]. split; [exact ND|].
  intros m i Hm Hi.
  destruct (flat_refs_resolvable g' l (generate_names_closed d lo up sg g Hc) Hl m i Hm Hi) as (_ & Hcount & m' & Hm' & E & Hu).
  split; [exact Hcount|]. destruct (Hnamed m' Hm') as [n' [Hn' Hne']]. exists m', n'. auto.
Qed.

Print Assumptions fresh_not_taken.
Print Assumptions fresh_shape.
Print Assumptions fresh_id.
Print Assumptions fix_dups_distinct.
Print Assumptions fix_dups_idx.
Print Assumptions fix_dups_fields.
Print Assumptions fix_dups_length.
Print Assumptions fix_dups_pointwise.
Print Assumptions fix_dups_named.
Print Assumptions fix_dups_unique_id.
Print Assumptions fix_dups_first_holder_kept.
Print Assumptions fix_dups_once_unchanged.
Print Assumptions fix_dups_empty_names_stay.
Print Assumptions fix_dups_old_refuted.
Print Assumptions fix_dups_conservative.
Print Assumptions fix_dups_old_right_iff.
Print Assumptions generate_names_distinct.
Print Assumptions flat_refs_resolvable.
Print Assumptions generate_names_closed.
Print Assumptions named_flat_refs_resolvable.

(* NOT PROVED: nothing is left open in this file.  Remarks on scope:
   - validity of the names as Python identifiers is not treated here (labels: Proofs/LabelProps.v, Props/C03.v);
   - index_str need not be injective for any of the above: fresh only needs that the suffix is non-empty;
   - the premise of N2 (no empty name) cannot be dropped, see fix_dups_empty_names_stay and
     fix_dups_empty_name_spurious_rename; after name_model it holds whenever no explicit name is empty. *)
