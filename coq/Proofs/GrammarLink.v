(* Proofs/GrammarLink.v — discharges the premise `sound replaces accepts` of the C09 theorems for the replacement table that
   the translator regenerates from the source (Gen/StrReg.default_replaces) and the acceptance function given by the
   grammars of Model/Grammar.v (int() / float() / the boolean rule), whatever the other pseudo-types accept. *)
From Coq Require Import List Bool Arith NArith.
From J2M.Model Require Import Base Grammar Optimize.
From J2M.Gen Require Import StrReg.
From J2M.Proofs Require Import StrTypes GrammarProps.
Import ListNotations.

Section Link.
  Variable is_space_c : N -> bool.
  Variable digit_val_c : N -> option N.
  Variable lower_c : N -> str.
  Variable other : pseudo -> str -> bool.     (* date / time / datetime: any acceptance function *)
  Definition grammar_accepts (p : pseudo) (s : str) : bool :=
    match p with
    | PInt => int_ok is_space_c digit_val_c s
    | PFloat => float_ok is_space_c digit_val_c s
    | PBool => bool_ok lower_c s
    | _ => other p s
    end.
  Theorem default_replaces_sound : sound default_replaces grammar_accepts.
  Proof.
    unfold sound. intros a b H s Ha. cbn in H. destruct H as [H|[]]. inversion H; subst a b. cbn in *.
    apply int_ok_float_ok. exact Ha.
  Qed.
  (* the C09 resolution theorem with both premises discharged for the shipped table *)
  Theorem resolve_sound_default : forall fuel ps p, In p ps ->
    exists q, In q (Optimize.resolve default_replaces fuel ps) /\ forall s, grammar_accepts p s = true -> grammar_accepts q s = true.
  Proof. intros. eapply resolve_sound; eauto using default_replaces_sound, default_replaces_acyclic. Qed.
End Link.
Print Assumptions default_replaces_sound.
Print Assumptions resolve_sound_default.
