(* Proofs/ConvProps.v — property C18 (string converters of generated attrs / dataclass models), on Model/Converters.v.

   V1  path_of_shape / shape_path_of / path_of_shape_iff : path_of t = Some (Some p)  <->  shape p t
       shape_tokens                                       : such a p is (tokens over {O,L,D}) ++ "S"
   V2  run_path_correct_gen (any `optional`) / run_path_correct (optional = false, as post_init calls it)
   V3  run_path_never_raises
   V4  post_init_correct (+ post_init_keys, post_init_lookup_path, post_init_lookup_nopath, post_init_never_raises)
   V5  run_path_old (the code before the D13 repair) raises on Optional[List[IntString]] = null, the repaired one does not

   Assumption-free: every main theorem is "Closed under the global context" (Print Assumptions at the end). *)
From Coq Require Import List Bool Arith NArith ZArith Lia String.
From J2M.Model Require Import Base Emit Converters.
From J2M.Sem Require Import HasType.
Import ListNotations.
Local Open Scope list_scope.

(* ------------------------------------------------------------------------------------------------------------------ *)
(* small facts                                                                                                        *)
(* ------------------------------------------------------------------------------------------------------------------ *)
Lemma s_S : s_ "S"%string = [83%N].
Proof. reflexivity. Qed.

Lemma str_eqb_true : forall a b : str, str_eqb a b = true <-> a = b.
Proof. intros a b; unfold str_eqb; destruct (list_eq_dec N.eq_dec a b); split; intros; congruence. Qed.

Lemma str_eqb_false : forall a b : str, str_eqb a b = false <-> a <> b.
Proof. intros a b; unfold str_eqb; destruct (list_eq_dec N.eq_dec a b); split; intros; congruence. Qed.

Lemma str_eqb_refl : forall a : str, str_eqb a a = true.
Proof. intros a; apply str_eqb_true; reflexivity. Qed.

Lemma lookup_In_fst : forall A (k : str) (l : list (str * A)) x, lookup k l = Some x -> In k (map fst l).
Proof.
  intros A k l; induction l as [|[k' y] r IH]; simpl; intros x H; [discriminate|].
  destruct (str_eqb k k') eqn:E.
  - left; symmetry; apply str_eqb_true; exact E.
  - right; eapply IH; eauto.
Qed.

Lemma opt_all_map : forall A B (F : A -> option B) (G : A -> B) l,
  Forall (fun x => F x = Some (G x)) l -> opt_all (map F l) = Some (map G l).
Proof.
  intros A B F G l H; induction H as [|x r Hx Hr IH]; simpl; [reflexivity|].
  rewrite Hx, IH; reflexivity.
Qed.

(* ------------------------------------------------------------------------------------------------------------------ *)
(* V1: the path of a type and the shape of the type                                                                   *)
(* ------------------------------------------------------------------------------------------------------------------ *)
Inductive shape : str -> ty -> Prop :=
| ShS q : shape [83%N] (TPseudo q)
| ShO p x : shape p x -> shape (79%N :: p) (TOpt x)
| ShL p x : shape p x -> shape (76%N :: p) (TList x)
| ShD p x : shape p x -> shape (68%N :: p) (TDict x).

Theorem path_of_shape : forall t p, path_of t = Some (Some p) -> shape p t.
Proof.
  intros t; induction t using ty_ind2; intros p0 Hp; simpl in Hp; try discriminate.
  - rewrite s_S in Hp; inversion Hp; constructor.
  - destruct (path_of t) as [[q|]|]; inversion Hp; subst; constructor; apply IHt; reflexivity.
  - destruct (path_of t) as [[q|]|]; inversion Hp; subst; constructor; apply IHt; reflexivity.
  - destruct (path_of t) as [[q|]|]; inversion Hp; subst; constructor; apply IHt; reflexivity.
Qed.

Theorem shape_path_of : forall p t, shape p t -> path_of t = Some (Some p).
Proof. induction 1; simpl; [rewrite s_S; reflexivity| rewrite IHshape; reflexivity ..]. Qed.

Theorem path_of_shape_iff : forall t p, path_of t = Some (Some p) <-> shape p t.
Proof. intros; split; [apply path_of_shape | apply shape_path_of]. Qed.

(* a path is a word over {O, L, D} followed by one final S *)
Theorem shape_tokens : forall p t, shape p t ->
  exists q, p = q ++ [83%N] /\ Forall (fun c => c = 79%N \/ c = 76%N \/ c = 68%N) q.
Proof.
  induction 1 as [q|p x _ [q [E F]]|p x _ [q [E F]]|p x _ [q [E F]]].
  - exists []; split; [reflexivity|constructor].
  - exists (79%N :: q); subst; split; [reflexivity|constructor; auto].
  - exists (76%N :: q); subst; split; [reflexivity|constructor; auto].
  - exists (68%N :: q); subst; split; [reflexivity|constructor; auto].
Qed.

Corollary path_of_tokens : forall t p, path_of t = Some (Some p) ->
  exists q, p = q ++ [83%N] /\ Forall (fun c => c = 79%N \/ c = 76%N \/ c = 68%N) q.
Proof. intros t p H; eapply shape_tokens, path_of_shape; eauto. Qed.

Lemma shape_nonempty : forall p t, shape p t -> exists c r, p = c :: r.
Proof. destruct 1; eauto. Qed.

(* the path determines nothing but the spine: a type has at most one path (path_of is a function), and the length of
   the path is the depth of the pseudo-typed leaf + 1 *)

(* ------------------------------------------------------------------------------------------------------------------ *)
(* V2 / V3: run_path computes convert_spec and never raises on the values the type allows                             *)
(* ------------------------------------------------------------------------------------------------------------------ *)
Definition is_jnull (v : json) : bool := match v with JNull => true | _ => false end.

Section Conv.
  Variable accepts : pseudo -> str -> bool.
  Variable mf : N -> option fields.

  (* the two local loops of run_path, named *)
  Definition go_list (f : json -> option cval) : list json -> option (list cval) :=
    fix go (l : list json) : option (list cval) :=
      match l with
      | [] => Some []
      | e :: r => match f e, go r with Some a, Some b => Some (a :: b) | _, _ => None end
      end.
  Definition go_dict (f : json -> option cval) : list (str * json) -> option (list (str * cval)) :=
    fix go (l : list (str * json)) : option (list (str * cval)) :=
      match l with
      | [] => Some []
      | (k, e) :: r => match f e, go r with Some a, Some b => Some ((k, a) :: b) | _, _ => None end
      end.

  Lemma go_list_map : forall f g l, Forall (fun e => f e = Some (g e)) l -> go_list f l = Some (map g l).
  Proof. intros f g l H; induction H as [|e r He Hr IH]; simpl; [reflexivity|]. rewrite He, IH; reflexivity. Qed.

  Lemma go_dict_map : forall f g l, Forall (fun kv => f (snd kv) = Some (g (snd kv))) l ->
    go_dict f l = Some (map (fun kv => (fst kv, g (snd kv))) l).
  Proof.
    intros f g l H; induction H as [|[k e] r He Hr IH]; simpl; [reflexivity|].
    simpl in He; rewrite He, IH; reflexivity.
  Qed.

  (* unfolding equations of run_path, one per token, at the type the token expects *)
  Lemma run_path_S : forall q v opt,
    run_path accepts [83%N] v (TPseudo q) opt =
    if opt && is_jnull v then Some (VRaw v)
    else match v with
         | JStr s => if accepts q s then Some (VParsed q s) else if opt then Some (VRaw v) else None
         | _ => if opt then Some (VRaw v) else None
         end.
  Proof. reflexivity. Qed.

  Lemma run_path_O : forall rest v x opt,
    run_path accepts (79%N :: rest) v (TOpt x) opt =
    if opt && is_jnull v then Some (VRaw v) else run_path accepts rest v x true.
  Proof. reflexivity. Qed.

  Lemma run_path_L : forall rest v x opt,
    run_path accepts (76%N :: rest) v (TList x) opt =
    if opt && is_jnull v then Some (VRaw v)
    else match v with
         | JArr l => option_map VList (go_list (fun e => run_path accepts rest e x opt) l)
         | _ => None
         end.
  Proof. reflexivity. Qed.

  Lemma run_path_D : forall rest v x opt,
    run_path accepts (68%N :: rest) v (TDict x) opt =
    if opt && is_jnull v then Some (VRaw v)
    else match v with
         | JObj l => option_map VDict (go_dict (fun e => run_path accepts rest e x opt) l)
         | _ => None
         end.
  Proof. reflexivity. Qed.

  (* on a non-empty path, null under optional = true is kept *)
  Lemma run_path_null_opt : forall c rest t, run_path accepts (c :: rest) JNull t true = Some (VRaw JNull).
  Proof. reflexivity. Qed.

  (* the generalised statement: any value of `optional`, any fuel >= the length of the path *)
  Theorem run_path_correct_shape : forall p t, shape p t ->
    forall v opt fuel, ht accepts mf v t -> List.length p <= fuel ->
    run_path accepts p v t opt = Some (convert_spec fuel t v).
  Proof.
    induction 1 as [q|p x Hs IH|p x Hs IH|p x Hs IH]; intros v opt fuel Hv Hf;
      (destruct fuel as [|f]; [simpl in Hf; lia|]); simpl in Hf; apply le_S_n in Hf.
    - (* S *)
      inversion Hv; subst. rewrite run_path_S; simpl. rewrite andb_false_r.
      match goal with H : accepts _ _ = true |- _ => rewrite H end. reflexivity.
    - (* O *)
      rewrite run_path_O.
      destruct (is_jnull v) eqn:En.
      + destruct v; try discriminate. destruct opt; simpl; [reflexivity|].
        destruct (shape_nonempty _ _ Hs) as [c [r E]]; subst p. reflexivity.
      + rewrite andb_false_r.
        assert (Hx : ht accepts mf v x) by (inversion Hv; subst; [discriminate|assumption]).
        rewrite (IH v true f Hx Hf).
        destruct v; try discriminate; reflexivity.
    - (* L *)
      inversion Hv; subst. rewrite run_path_L; simpl. rewrite andb_false_r.
      erewrite go_list_map with (g := convert_spec f x); [reflexivity|].
      match goal with H : Forall _ _ |- _ => revert H end.
      apply Forall_impl; intros e He; apply IH; assumption.
    - (* D *)
      inversion Hv; subst. rewrite run_path_D; simpl. rewrite andb_false_r.
      erewrite go_dict_map with (g := convert_spec f x); [reflexivity|].
      match goal with H : Forall _ _ |- _ => revert H end.
      apply Forall_impl; intros e He; apply IH; assumption.
  Qed.

  Theorem run_path_correct_gen : forall t p v opt, ht accepts mf v t -> path_of t = Some (Some p) ->
    forall fuel, List.length p <= fuel -> run_path accepts p v t opt = Some (convert_spec fuel t v).
  Proof. intros t p v opt Hv Hp fuel Hf; eapply run_path_correct_shape; eauto using path_of_shape. Qed.

  (* V2 *)
  Theorem run_path_correct : forall t p v, ht accepts mf v t -> path_of t = Some (Some p) ->
    exists n, n = List.length p /\
      forall fuel, n <= fuel -> run_path accepts p v t false = Some (convert_spec fuel t v).
  Proof. intros t p v Hv Hp; exists (List.length p); split; [reflexivity|]. intros; eapply run_path_correct_gen; eauto. Qed.

  (* V3 *)
  Theorem run_path_never_raises : forall t p v, ht accepts mf v t -> path_of t = Some (Some p) ->
    run_path accepts p v t false <> None.
  Proof. intros t p v Hv Hp; rewrite (run_path_correct_gen t p v false Hv Hp _ (le_n _)); discriminate. Qed.

  (* above the length of the path the fuel of convert_spec is irrelevant (on well-typed values) *)
  Corollary convert_spec_fuel : forall t p v f1 f2, ht accepts mf v t -> path_of t = Some (Some p) ->
    List.length p <= f1 -> List.length p <= f2 -> convert_spec f1 t v = convert_spec f2 t v.
  Proof.
    intros t p v f1 f2 Hv Hp H1 H2.
    pose proof (run_path_correct_gen t p v false Hv Hp f1 H1) as E1.
    pose proof (run_path_correct_gen t p v false Hv Hp f2 H2) as E2.
    congruence.
  Qed.

  (* the fuel bound is tight: with less fuel the specification stops above the leaf *)
  Example convert_spec_needs_fuel :
    convert_spec 2 (TOpt (TList (TPseudo PInt))) (JArr [JStr [49%N]]) = VList [VRaw (JStr [49%N])] /\
    convert_spec 3 (TOpt (TList (TPseudo PInt))) (JArr [JStr [49%N]]) = VList [VParsed PInt [49%N]].
  Proof. split; vm_compute; reflexivity. Qed.

  (* ---------------------------------------------------------------------------------------------------------------- *)
  (* V4: post_init                                                                                                    *)
  (* ---------------------------------------------------------------------------------------------------------------- *)
  Lemma sfp_keys : forall fs paths, string_field_paths fs = Some paths ->
    forall k p, lookup k paths = Some p -> In k (map fst fs).
  Proof.
    induction fs as [|[k0 t0] r IH]; simpl; intros paths H k p Hl.
    - inversion H; subst; discriminate.
    - destruct (path_of t0) as [[p0|]|]; try discriminate;
        destruct (string_field_paths r) as [rr|]; try discriminate; inversion H; subst; clear H.
      + simpl in Hl. destruct (str_eqb k k0) eqn:E.
        * left; symmetry; apply str_eqb_true; exact E.
        * right; eapply IH; eauto.
      + right; eapply IH; eauto.
  Qed.

  (* the entry of `paths` for a field, for duplicate-free field names *)
  Lemma sfp_lookup : forall fs paths, string_field_paths fs = Some paths -> NoDup (map fst fs) ->
    forall k t, lookup k fs = Some t ->
    match path_of t with
    | Some (Some p) => lookup k paths = Some (if str_eqb p [83%N] then [] else p)
    | Some None => lookup k paths = None
    | None => False
    end.
  Proof.
    induction fs as [|[k0 t0] r IH]; simpl; intros paths H ND k t Hl; [discriminate|].
    inversion ND as [|a b Hnin ND']; subst.
    destruct (str_eqb k k0) eqn:E.
    - inversion Hl; subst t0; clear Hl. apply str_eqb_true in E; subst k0.
      destruct (path_of t) as [[p0|]|]; try discriminate;
        destruct (string_field_paths r) as [rr|] eqn:Er; try discriminate; inversion H; subst; clear H.
      + simpl. rewrite str_eqb_refl, s_S. reflexivity.
      + destruct (lookup k paths) as [p|] eqn:El; [|reflexivity].
        exfalso; apply Hnin; eapply sfp_keys; eauto.
    - destruct (path_of t0) as [[p0|]|]; try discriminate;
        destruct (string_field_paths r) as [rr|] eqn:Er; try discriminate; inversion H; subst; clear H.
      + specialize (IH rr eq_refl ND' k t Hl).
        destruct (path_of t) as [[p|]|]; simpl; rewrite ?E; exact IH.
      + exact (IH paths eq_refl ND' k t Hl).
  Qed.

  (* what C18 asks of one field: converted along its path if it has one, untouched otherwise
     ("S" is stored as the empty path by string_field_paths and restored by post_init) *)
  Definition conv_field (fs : fields) (kv : str * json) : cval :=
    match lookup (fst kv) fs with
    | Some t => match path_of t with
                | Some (Some p) => convert_spec (List.length p) t (snd kv)
                | _ => VRaw (snd kv)
                end
    | None => VRaw (snd kv)
    end.

  (* V4, positional form: the result is the object with conv_field applied to every item, in order.
     NoDup (map fst fs) is necessary: see post_init_dup_fields_raises below. *)
  Theorem post_init_correct : forall fs paths obj,
    NoDup (map fst fs) ->
    string_field_paths fs = Some paths ->
    obj_ok accepts mf fs obj ->
    post_init accepts fs obj = Some (map (fun kv => (fst kv, conv_field fs kv)) obj).
  Proof.
    intros fs paths obj ND Hp [Hok _]. unfold post_init. rewrite Hp.
    apply opt_all_map. revert Hok. apply Forall_impl.
    intros [k v] [t [Hl Hv]]; simpl in *.
    unfold conv_field; simpl. rewrite Hl.
    pose proof (sfp_lookup fs paths Hp ND k t Hl) as Hk.
    destruct (path_of t) as [[p|]|] eqn:Ep; [| |contradiction].
    - rewrite Hk.
      pose proof (run_path_correct_gen t p v false Hv Ep _ (le_n _)) as Hr.
      destruct (str_eqb p [83%N]) eqn:E.
      + apply str_eqb_true in E; subst p. rewrite Hr; reflexivity.
      + destruct (shape_nonempty _ _ (path_of_shape _ _ Ep)) as [c [r Epp]]; subst p.
        rewrite Hr; reflexivity.
    - rewrite Hk. reflexivity.
  Qed.

  Corollary post_init_never_raises : forall fs paths obj,
    NoDup (map fst fs) -> string_field_paths fs = Some paths -> obj_ok accepts mf fs obj ->
    post_init accepts fs obj <> None.
  Proof. intros fs paths obj ND Hp Hok; rewrite (post_init_correct fs paths obj ND Hp Hok); discriminate. Qed.

  Corollary post_init_keys : forall fs paths obj,
    NoDup (map fst fs) -> string_field_paths fs = Some paths -> obj_ok accepts mf fs obj ->
    exists res, post_init accepts fs obj = Some res /\ map fst res = map fst obj.
  Proof.
    intros fs paths obj ND Hp Hok; eexists; split; [eapply post_init_correct; eauto|].
    rewrite map_map; simpl; reflexivity.
  Qed.

  Lemma lookup_map_nodup : forall (G : str * json -> cval) obj k v,
    NoDup (map fst obj) -> In (k, v) obj ->
    lookup k (map (fun kv => (fst kv, G kv)) obj) = Some (G (k, v)).
  Proof.
    intros G obj k v; induction obj as [|[k0 v0] r IH]; simpl; intros ND Hin; [contradiction|].
    inversion ND as [|a b Hnin ND']; subst.
    destruct Hin as [E|Hin].
    - inversion E; subst; rewrite str_eqb_refl; reflexivity.
    - destruct (str_eqb k k0) eqn:E.
      + apply str_eqb_true in E; subst k0. exfalso; apply Hnin.
        change k with (fst (k, v)); apply in_map; exact Hin.
      + apply IH; assumption.
  Qed.

  (* V4, by key (needs duplicate-free keys of the object as well): a field with a path holds the converted value,
     for every fuel >= the length of the path ... *)
  Theorem post_init_lookup_path : forall fs paths obj,
    NoDup (map fst fs) -> string_field_paths fs = Some paths -> obj_ok accepts mf fs obj -> NoDup (map fst obj) ->
    exists res, post_init accepts fs obj = Some res /\ map fst res = map fst obj /\
      forall k v t p, In (k, v) obj -> lookup k fs = Some t -> path_of t = Some (Some p) ->
        forall fuel, List.length p <= fuel -> lookup k res = Some (convert_spec fuel t v).
  Proof.
    intros fs paths obj ND Hp Hok NDo.
    eexists; split; [eapply post_init_correct; eauto|]. split; [rewrite map_map; reflexivity|].
    intros k v t p Hin Hl Ep fuel Hf.
    rewrite (lookup_map_nodup (conv_field fs) obj k v NDo Hin).
    unfold conv_field; simpl. rewrite Hl, Ep. f_equal.
    destruct Hok as [Hok _]. rewrite Forall_forall in Hok.
    destruct (Hok _ Hin) as [t' [Hl' Hv]]; simpl in *.
    assert (t' = t) by congruence; subst t'.
    eapply convert_spec_fuel; eauto.
  Qed.

  (* ... and every other field is left untouched *)
  Theorem post_init_lookup_nopath : forall fs paths obj,
    NoDup (map fst fs) -> string_field_paths fs = Some paths -> obj_ok accepts mf fs obj -> NoDup (map fst obj) ->
    exists res, post_init accepts fs obj = Some res /\
      forall k v t, In (k, v) obj -> lookup k fs = Some t -> path_of t = Some None -> lookup k res = Some (VRaw v).
  Proof.
    intros fs paths obj ND Hp Hok NDo.
    eexists; split; [eapply post_init_correct; eauto|].
    intros k v t Hin Hl Ep.
    rewrite (lookup_map_nodup (conv_field fs) obj k v NDo Hin).
    unfold conv_field; simpl. rewrite Hl, Ep. reflexivity.
  Qed.
End Conv.

(* V4 is false for a field list with a repeated name (not a Python dict): lookup finds the first declaration (int),
   string_field_paths the path of the second one, and the converter raises on a well-typed value.  Hence the
   hypothesis NoDup (map fst fs). *)
Example post_init_dup_fields_raises :
  let acc := fun (_ : pseudo) (_ : str) => true in
  let mf := fun _ : N => @None fields in
  let fs := [([97%N], TInt); ([97%N], TPseudo PInt)] in
  let obj := [([97%N], JInt 0%Z)] in
  string_field_paths fs = Some [([97%N], [])] /\ obj_ok acc mf fs obj /\ post_init acc fs obj = None.
Proof.
  cbv zeta. split; [vm_compute; reflexivity|]. split; [|vm_compute; reflexivity].
  split.
  - constructor; [|constructor]. exists TInt; split; [reflexivity|constructor].
  - intros k t H _. simpl in H. simpl.
    destruct (str_eqb k [97%N]) eqn:E; [|discriminate].
    left; symmetry; apply str_eqb_true; exact E.
Qed.

(* ------------------------------------------------------------------------------------------------------------------ *)
(* V5: the code before the D13 repair (no "if optional and value is None: return value")                              *)
(* ------------------------------------------------------------------------------------------------------------------ *)
Section Old.
  Variable accepts : pseudo -> str -> bool.
  Fixpoint run_path_old (path : str) (v : json) (t : ty) (optional : bool) {struct path} : option cval :=
    match path with
    | [] => None
    | tok :: rest =>
      if N.eqb tok 83 then
        match t with
        | TPseudo p =>
            match v with
            | JStr s => if accepts p s then Some (VParsed p s) else if optional then Some (VRaw v) else None
            | _ => if optional then Some (VRaw v) else None     (* to_internal_value(None): TypeError, swallowed *)
            end
        | _ => None
        end
      else if N.eqb tok 79 then
        match t with TOpt x => run_path_old rest v x true | _ => None end
      else if N.eqb tok 76 then
        match t, v with
        | TList x, JArr l =>
            option_map VList
              ((fix go (l : list json) : option (list cval) :=
                  match l with
                  | [] => Some []
                  | e :: r => match run_path_old rest e x optional, go r with Some a, Some b => Some (a :: b) | _, _ => None end
                  end) l)
        | _, _ => None                                           (* "for item in None": TypeError *)
        end
      else if N.eqb tok 68 then
        match t, v with
        | TDict x, JObj kvs =>
            option_map VDict
              ((fix go (l : list (str * json)) : option (list (str * cval)) :=
                  match l with
                  | [] => Some []
                  | (k, e) :: r => match run_path_old rest e x optional, go r with Some a, Some b => Some ((k, a) :: b) | _, _ => None end
                  end) kvs)
        | _, _ => None                                           (* None.items(): AttributeError *)
        end
      else None
    end.
End Old.

Definition OLS : str := [79%N; 76%N; 83%N].

Example path_OLS : path_of (TOpt (TList (TPseudo PInt))) = Some (Some OLS).
Proof. vm_compute; reflexivity. Qed.

(* Optional[List[IntString]] = None: allowed by the type, the old code raises, the repaired code keeps None *)
Example old_raises_on_null : forall accepts mf,
  ht accepts mf JNull (TOpt (TList (TPseudo PInt))) /\
  run_path_old accepts OLS JNull (TOpt (TList (TPseudo PInt))) false = None /\
  run_path accepts OLS JNull (TOpt (TList (TPseudo PInt))) false = Some (VRaw JNull) /\
  convert_spec 3 (TOpt (TList (TPseudo PInt))) JNull = VRaw JNull.
Proof. intros accepts mf; split; [apply HOptN|]. repeat split; vm_compute; reflexivity. Qed.

(* hence run_path_never_raises is false of run_path_old *)
Theorem run_path_old_not_safe : forall accepts mf,
  ~ (forall t p v, ht accepts mf v t -> path_of t = Some (Some p) -> run_path_old accepts p v t false <> None).
Proof.
  intros accepts mf H.
  apply (H (TOpt (TList (TPseudo PInt))) OLS JNull (HOptN accepts mf _) path_OLS).
  vm_compute; reflexivity.
Qed.

(* the same for Optional[Dict[str, IntString]] (path "ODS") *)
Example old_raises_on_null_dict : forall accepts,
  run_path_old accepts [79%N; 68%N; 83%N] JNull (TOpt (TDict (TPseudo PInt))) false = None /\
  run_path accepts [79%N; 68%N; 83%N] JNull (TOpt (TDict (TPseudo PInt))) false = Some (VRaw JNull).
Proof. intros; split; vm_compute; reflexivity. Qed.

(* on the non-null value both agree (the D13 sample [{"a": null}, {"a": ["1"]}], second item) *)
Example old_ok_on_list :
  let acc := fun (_ : pseudo) (_ : str) => true in
  run_path_old acc OLS (JArr [JStr [49%N]]) (TOpt (TList (TPseudo PInt))) false = Some (VList [VParsed PInt [49%N]]) /\
  run_path acc OLS (JArr [JStr [49%N]]) (TOpt (TList (TPseudo PInt))) false = Some (VList [VParsed PInt [49%N]]).
Proof. split; vm_compute; reflexivity. Qed.

Print Assumptions path_of_shape.
Print Assumptions shape_path_of.
Print Assumptions shape_tokens.
Print Assumptions run_path_correct_shape.
Print Assumptions run_path_correct_gen.
Print Assumptions run_path_correct.
Print Assumptions run_path_never_raises.
Print Assumptions convert_spec_fuel.
Print Assumptions post_init_correct.
Print Assumptions post_init_never_raises.
Print Assumptions post_init_keys.
Print Assumptions post_init_lookup_path.
Print Assumptions post_init_lookup_nopath.
Print Assumptions post_init_dup_fields_raises.
Print Assumptions old_raises_on_null.
Print Assumptions run_path_old_not_safe.

(* NOT PROVED: nothing — V1 .. V5 are all proved.
   Weakening w.r.t. the informal statement: V4 needs NoDup (map fst fs) (counterexample post_init_dup_fields_raises);
   the by-key forms additionally need NoDup (map fst obj) so that `lookup k res` names the item of (k, v). *)
