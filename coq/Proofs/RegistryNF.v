(* Proofs/RegistryNF.v -- C08 (simplification reaches a stable normal form) lifted to the registry stage of
   Model/Registry.v: opt_model, merge_group, merge_models, and the whole pipeline generate / process_root /
   merge_models.  No axioms; every statement in the file is proved (Print Assumptions at the end).

   FINDING.  The statement (N1) as first planned -- one opt_model pass puts a model into ordered normal form -- is
   FALSE for the model a group merge creates: Module Cex is an end to end run (one JSON sample, three nested models
   merged) where the optimisation inside merge_group leaves x : Optional[Union[bool, int, float]] (int beside float).
   _merge builds Union[int, Optional[Union[bool, int]], float]; the Optional member hides a second int and the
   optimiser removes only one (list.remove).  The same happens with a second Any, and with str produced by an
   overflowing literal merge beside another string type.  The final pass of merge_models repairs all of this:
   it is load bearing for the merged models, not only for the pointers that a merge renamed.

   What is proved instead.
   (B)  sn, the SEMI-normal form (a decidable predicate): flat unions without Optional / null members, at most one
        list, dict, literal, Any and int per union, well formed literals, no nested Optional, no List / Dict of
        Optional[None]; int beside float, Any beside a concrete member, str beside a string type and a repeated
        pointer are allowed.  optimize_sn_nfo / optimize_fields_sn: ONE pass over a semi-normal term ends in ordered
        normal form nfo, with the side condition wf3 of optimize_nfo_id.
   (B2) sn_rename: renaming pointers keeps sn.   (B3) nfo_sn: nfo + wf3 + object-free implies sn.
   (B4) mm t: every item of the deep work-list of t is semi-normal (what _merge builds from semi-normal fields:
        merge_field_sets_mfs).  optimize_mm_sn / optimize_fields_mm: one pass over such a term ends in sn.
   (A)  opt_model_frame: opt_model rewrites model i with optimize_fields for ANY pointer comparison and leaves every
        other model alone; opt_all_fields: the final pass as a function on field sets; opt_model_stable,
        opt_all_stable: on a graph of normal forms a pass returns the graph itself.
   (C)  (N1) opt_model_nfo: semi-normal fields -> opt_model leaves model i in nfo + wf3, other models unchanged.
        merge_group_gsn: a group merge keeps every model semi-normal.
        (N2) merge_models_nfo: closed, gwf, semi-normal input graph -> EVERY model of the result is nfo + wf3.
        (N3) merge_models_stable: a further opt_model on any model / opt_all over any list returns the same graph.
   (D)  psn_all, process_root_gsn: cutting the nested objects of a normal form into models gives semi-normal models.
        (N4) pipeline_nfo: generate, process_root from the empty graph, merge_models: the result is gnf and stable.
   (N5) ExNF, Cex, ExApply (the theorems applied to concrete runs), OldRegroup (record of defect D32).
   The order of the final pass is irrelevant: on object-free terms optimize never consults the pointer comparison
   (GraphSound.optimize_gok), so optimising model j cannot change what model i simplifies to. *)
From Coq Require Import List Bool Arith NArith ZArith Lia.
From J2M.Model Require Import Base Union Merge Optimize Detect Groups Registry.
From J2M.Sem Require Import NF.
From J2M.Proofs Require Import RegistryInvAux RegistryInv GraphSound NormalForm.
Import ListNotations.

(* ------------------------------------------------------------------ *)
(* (A) graph plumbing                                                   *)
(* ------------------------------------------------------------------ *)
Lemma find_idx_unique (l : list model) m m' :
  NoDup (map m_idx l) -> find (fun a => N.eqb (m_idx a) (m_idx m')) l = Some m -> In m' l -> m' = m.
Proof.
  induction l as [|a r IH]; intros ND F Hi; [destruct Hi|].
  simpl in ND. inversion ND as [|? ? Hn ND']; subst. simpl in F.
  destruct (N.eqb (m_idx a) (m_idx m')) eqn:Ea.
  - inversion F; subst a. destruct Hi as [->|Hi]; [reflexivity|]. exfalso. apply Hn.
    apply N.eqb_eq in Ea. rewrite Ea. apply in_map. exact Hi.
  - destruct Hi as [->|Hi]; [rewrite N.eqb_refl in Ea; discriminate|]. apply IH; auto.
Qed.

Lemma in_fields_of g m : NoDup (map m_idx (ms g)) -> In m (ms g) -> fields_of g (m_idx m) = Some (m_fields m).
Proof.
  intros ND Hm. destruct (registered_find g (m_idx m) (registered_model g m Hm)) as [m0 F].
  unfold fields_of. rewrite F. simpl. f_equal. f_equal. symmetry.
  apply (find_idx_unique (ms g) m0 m ND F Hm).
Qed.

Lemma fields_of_in g i fs : fields_of g i = Some fs -> exists m, In m (ms g) /\ m_idx m = i /\ m_fields m = fs.
Proof.
  intros H. apply fields_of_find in H as [m [F E]]. apply find_model_some in F as [F1 F2]. exists m. auto.
Qed.

Lemma set_fields_id g i fs : NoDup (map m_idx (ms g)) -> fields_of g i = Some fs -> set_fields i fs g = g.
Proof.
  intros ND H. apply fields_of_find in H as [m0 [F E]].
  destruct g as [l p n]. unfold set_fields. cbn [Registry.ms Registry.ps Registry.nxt] in *. f_equal.
  apply map_id_In. intros m Hm. destruct (N.eqb (m_idx m) i) eqn:Ei; [|reflexivity].
  apply N.eqb_eq in Ei. subst i. unfold find_model in F. cbn [Registry.ms] in F.
  pose proof (find_idx_unique l m0 m ND F Hm) as ->. subst fs. destruct m0; reflexivity.
Qed.

Lemma find_model_set_fields_other i fs g j : i <> j -> find_model (set_fields i fs g) j = find_model g j.
Proof.
  intros Hn. unfold find_model. cbn [ms set_fields].
  rewrite find_map_idx by (intros; apply set_fields_keeps_idx).
  destruct (find (fun m => N.eqb (m_idx m) j) (ms g)) as [m|] eqn:F; [|reflexivity]. simpl.
  apply find_some in F as [_ F]. apply N.eqb_eq in F.
  destruct (N.eqb (m_idx m) i) eqn:E; [|reflexivity]. apply N.eqb_eq in E. congruence.
Qed.

Section RNF.
  Variable registry : list pseudo.
  Variable replaces : list (pseudo * pseudo).
  Notation nfo := (nfo registry).
  Notation opt_model := (opt_model registry replaces).
  Notation opt_all := (opt_all registry replaces).
  Notation merge_models := (merge_models registry replaces).
  Notation optf := (optimize_fields registry replaces N.eqb OPT_FUEL).

  (* the target: ordered normal form, and the side condition wf3 under which it is a fixpoint *)
  Definition nfw (fs : fields) : bool := nfo (TObj fs) && wf3 (TObj fs).
  Definition gnf (g : graph) : Prop := forall m, In m (ms g) -> nfw (m_fields m) = true.

  (* opt_model: what it does to model i, and the frame.  The pointer comparison of the graph is irrelevant
     (optimize_gok): the new fields are optimize_fields with ANY comparison, for instance N.eqb. *)
  Theorem opt_model_frame g i g' : gwf g -> opt_model g i = Some g' ->
    exists fs fs', fields_of g i = Some fs /\ optf fs = Some fs' /\
      (forall peq, optimize_fields registry replaces peq OPT_FUEL fs = Some fs') /\
      gokf fs' = true /\ g' = set_fields i fs' g /\
      fields_of g' i = Some fs' /\
      (forall j, j <> i -> find_model g' j = find_model g j) /\
      (forall j, j <> i -> fields_of g' j = fields_of g j) /\
      map m_idx (ms g') = map m_idx (ms g).
  Proof.
    intros W H. apply opt_model_spec in H as [m [fs' [F [O ->]]]].
    assert (Fi : fields_of g i = Some (m_fields m)) by (unfold fields_of; rewrite F; reflexivity).
    pose proof (fields_of_gokf _ _ _ W Fi) as G.
    exists (m_fields m), fs'. split; [exact Fi|].
    split; [apply (optimize_fields_gok registry replaces _ N.eqb _ _ _ G O)|].
    split; [intros peq; apply (optimize_fields_gok registry replaces _ peq _ _ _ G O)|].
    split; [apply (optimize_fields_gok registry replaces _ N.eqb _ _ _ G O)|].
    split; [reflexivity|].
    split; [apply (fields_of_set_fields_same _ _ _ _ Fi)|].
    split; [intros j Hj; apply find_model_set_fields_other; congruence|].
    split; [intros j Hj; apply fields_of_set_fields_other; congruence|].
    apply set_fields_idx.
  Qed.

  (* the final pass of merge_models, as a function on the field sets *)
  Lemma opt_all_fields l : forall g g', gwf g -> NoDup l -> opt_all l (Some g) = Some g' ->
    gwf g' /\ map m_idx (ms g') = map m_idx (ms g) /\
    (forall i, In i l -> exists fs fs', fields_of g i = Some fs /\ optf fs = Some fs' /\ fields_of g' i = Some fs') /\
    (forall j, ~ In j l -> fields_of g' j = fields_of g j).
  Proof.
    induction l as [|i r IH]; intros g g' W ND H.
    - simpl in H. injection H as <-. split; [exact W|]. split; [reflexivity|]. split; [intros i []|reflexivity].
    - change (opt_all r (opt_model g i) = Some g') in H.
      destruct (opt_model g i) as [g1|] eqn:E; [| rewrite opt_all_none in H; discriminate].
      destruct (opt_model_frame g i g1 W E) as [fs [fs' [F [O [_ [G [-> [F1 [_ [Fo I1]]]]]]]]]].
      inversion ND as [|? ? Hni ND']; subst.
      destruct (IH _ g' (gwf_set_fields _ _ _ W G) ND' H) as [W' [I' [A B]]].
      split; [exact W'|]. split; [congruence|]. split.
      + intros j [<-|Hj].
        * exists fs, fs'. split; [exact F|]. split; [exact O|]. rewrite (B i Hni). exact F1.
        * destruct (A j Hj) as [a [b [A1 [A2 A3]]]]. exists a, b.
          rewrite Fo in A1 by (intros ->; contradiction). auto.
      + intros j Hj. rewrite B by (intros Hr; apply Hj; right; exact Hr).
        apply Fo. intros ->. apply Hj. left. reflexivity.
  Qed.

  (* (N3), conditional form: on a graph whose models are all in ordered normal form (and wf3) an optimisation pass
     of any model returns the graph itself *)
  Lemma optimize_fields_nfw_id peq fuel fs fs' : nfw fs = true ->
    optimize_fields registry replaces peq fuel fs = Some fs' -> fs' = fs.
  Proof.
    intros Hn O. unfold nfw in Hn. apply andb_true_iff in Hn as [N1 N2]. unfold optimize_fields in O.
    destruct (optimize registry replaces peq fuel (TObj fs)) as [t|] eqn:E; [|discriminate].
    pose proof (optimize_nfo_id registry replaces _ _ _ _ N1 N2 E) as ->. congruence.
  Qed.
  Theorem opt_model_stable g i g' : NoDup (map m_idx (ms g)) -> gnf g -> opt_model g i = Some g' -> g' = g.
  Proof.
    intros ND Hn H. apply opt_model_spec in H as [m [fs' [F [O ->]]]].
    assert (Fi : fields_of g i = Some (m_fields m)) by (unfold fields_of; rewrite F; reflexivity).
    apply find_model_some in F as [Hm _]. specialize (Hn m Hm).
    pose proof (optimize_fields_nfw_id _ _ _ _ Hn O) as ->.
    apply set_fields_id; assumption.
  Qed.
  (* with enough fuel the pass does not fail either: every field set of a gnf graph is a fixpoint of optimize_fields *)
  Theorem gnf_fields_fix g m peq : gnf g -> In m (ms g) ->
    exists n, forall fuel, n <= fuel -> optimize_fields registry replaces peq fuel (m_fields m) = Some (m_fields m).
  Proof.
    intros Hn Hm. specialize (Hn m Hm). unfold nfw in Hn. apply andb_true_iff in Hn as [N1 N2].
    destruct (optimize_nfo_stable registry replaces peq _ N1 N2) as [n Hq]. exists n. intros fuel Hf.
    unfold optimize_fields. rewrite (Hq fuel Hf). reflexivity.
  Qed.
  Theorem opt_all_stable l : forall g g', NoDup (map m_idx (ms g)) -> gnf g -> opt_all l (Some g) = Some g' -> g' = g.
  Proof.
    induction l as [|i r IH]; intros g g' ND Hn H.
    - simpl in H. injection H as <-. reflexivity.
    - change (opt_all r (opt_model g i) = Some g') in H.
      destruct (opt_model g i) as [g1|] eqn:E; [| rewrite opt_all_none in H; discriminate].
      pose proof (opt_model_stable g i g1 ND Hn E) as ->. apply IH; assumption.
  Qed.
End RNF.

(* ------------------------------------------------------------------ *)
(* (B) the semi-normal form sn: what ONE pass of optimize leaves, closed under renaming of pointers.
   A union is flat, has no Optional / null member, at most one list, one dict, one literal, one Any and one int;
   it MAY still hold int beside float, Any beside a concrete member, str beside another string type, and the same
   pointer twice.  Literals are well formed, Optional is not nested, List / Dict never hold Optional[None].
   Theorem optimize_sn_nfo: one pass over a semi-normal term ends in ordered normal form, and wf3.           *)
(* ------------------------------------------------------------------ *)
Definition lit_ok (ls : list str) : bool :=
  match ls with [] => false | _ => true end && strs_eqb (ins_all ls []) ls && negb (lit_overflow ls).
Definition sn_union_ok (ts : list ty) : bool :=
  forallb (fun m => negb (is_union m) && negb (is_opt m) && negb (is_null m)) ts
  && (count is_list ts <=? 1) && (count is_dict ts <=? 1) && (count is_lit ts <=? 1)
  && (count is_unknown ts <=? 1) && (count (ty_eqb TInt) ts <=? 1).
Fixpoint sn (t : ty) : bool :=
  match t with
  | TLit o ls => negb o && lit_ok ls
  | TOpt x => negb (is_opt x) && sn x
  | TList x | TDict x => negb (ty_eqb x (TOpt TNull)) && sn x
  | TUnion ts => sn_union_ok ts && forallb sn ts
  | TObj _ => false
  | _ => true
  end.
Definition snf (fs : fields) : bool := keys_nodup fs && forallb (fun kv => sn (snd kv)) fs.

Lemma lit_ok_wf ls : lit_ok ls = true -> lit_wf ls.
Proof.
  unfold lit_ok, lit_wf. rewrite !andb_true_iff, negb_true_iff, strs_eqb_eq. intros [[A B] C].
  split; [destruct ls; congruence|]. auto.
Qed.
Lemma sn_union_parts ts : sn_union_ok ts = true ->
  (forall x, In x ts -> is_union x = false /\ is_opt x = false /\ is_null x = false) /\
  count is_list ts <= 1 /\ count is_dict ts <= 1 /\ count is_lit ts <= 1 /\ count is_unknown ts <= 1 /\
  count (ty_eqb TInt) ts <= 1.
Proof.
  unfold sn_union_ok. rewrite !andb_true_iff, !Nat.leb_le. intros [[[[[H1 H2] H3] H4] H5] H6].
  repeat split; try assumption; rewrite forallb_forall in H1; specialize (H1 x H);
    rewrite !andb_true_iff, !negb_true_iff in H1; tauto.
Qed.

(* work-lists: what regroup splits *)
Record WL (ms : list ty) : Prop := {
  wl_sn : forall x, In x ms -> sn x = true /\ is_opt x = false /\ is_union x = false;
  wl_null : count is_null ms <= 1;
  wl_list : count is_list ms <= 1;
  wl_dict : count is_dict ms <= 1;
  wl_lit : count is_lit ms <= 1;
  wl_unk : count is_unknown ms <= 1;
  wl_int : count (ty_eqb TInt) ms <= 1 }.

Lemma sn_basic x : sn x = true -> is_opt x = false -> is_union x = false -> basic x = true.
Proof.
  intros Hs O U. unfold basic. rewrite O, U. simpl. destruct x; try reflexivity.
  simpl in Hs. apply andb_true_iff in Hs as [A B]. apply negb_true_iff in A. subst overflow.
  destruct (lit_ok_wf _ B) as [N [_ V]]. destruct ls; [congruence|]. rewrite V. reflexivity.
Qed.

Lemma count_mk_union (f : ty -> bool) ys : (forall x, In x ys -> is_union x = false) ->
  f TStr = false -> (forall o l, f (TLit o l) = false) -> count f (mk_union ys) <= count f ys.
Proof.
  intros FL F1 F2. pose proof (flatten_flat ys FL) as E.
  assert (Su : count f (mk_u ys) <= count f ys).
  { unfold mk_u. rewrite E. pose proof (sub_count f _ _ (sub_ded (filter nonlit ys) [])) as A. simpl in A.
    pose proof (sub_count f _ _ (sub_filter nonlit ys)). lia. }
  destruct (mk_union_cases ys) as [[-> _]|[[-> _]|[-> _]]].
  - exact Su.
  - rewrite count_app, count_cons, F2. unfold count at 2. simpl. lia.
  - unfold add_unique. destruct (existsb (ty_eqb TStr) (mk_u ys)); [exact Su|].
    rewrite count_app, count_cons, F1. unfold count at 2. simpl. lia.
Qed.

Lemma mk_union_WL ys : sn_union_ok ys = true -> forallb sn ys = true ->
  WL (mk_union ys) /\ count is_null (mk_union ys) = 0.
Proof.
  intros U Hs. destruct (sn_union_parts ys U) as [P1 [P2 [P3 [P4 [P5 P6]]]]]. rewrite forallb_forall in Hs.
  assert (FL : forall x, In x ys -> is_union x = false) by (intros x Hx; apply P1; exact Hx).
  pose proof (flatten_flat ys FL) as E.
  assert (M : forall x, In x (mk_union ys) -> sn x = true /\ is_opt x = false /\ is_union x = false /\ is_null x = false).
  { intros x Hx. apply mk_union_In in Hx. rewrite E in Hx. destruct Hx as [[Hx _]|[->|[-> [_ [N [O _]]]]]].
    - destruct (P1 x Hx) as [A [B C]]. auto.
    - auto.
    - repeat split; try reflexivity. simpl. unfold lit_ok. rewrite O, mk_ls_fix. simpl.
      destruct (mk_ls ys); [congruence|]. simpl. rewrite andb_true_r. apply strs_eqb_eq. reflexivity. }
  assert (Z : count is_null (mk_union ys) = 0) by (apply count_zero; intros x Hx; apply M; exact Hx).
  split; [|exact Z]. constructor.
  - intros x Hx. destruct (M x Hx) as [A [B [C _]]]. auto.
  - lia.
  - eapply Nat.le_trans; [apply count_mk_union; auto|exact P2].
  - eapply Nat.le_trans; [apply count_mk_union; auto|exact P3].
  - apply mk_union_count_lit.
  - eapply Nat.le_trans; [apply count_mk_union; auto|exact P5].
  - eapply Nat.le_trans; [apply count_mk_union; auto|exact P6].
Qed.

Section Pass.
  Variable registry : list pseudo.
  Variable replaces : list (pseudo * pseudo).
  Variable peq : N -> N -> bool.
  Notation optimize := (optimize registry replaces peq).
  Notation regroup := (regroup registry replaces peq).
  Notation nfo := (nfo registry).
  Notation rank := (cat_rank registry).
  Notation sorted := (sorted_by_rank registry).

  Lemma wl_no_obj ms : WL ms -> objs_of ms = [].
  Proof.
    intros W. destruct (objs_of ms) as [|f r] eqn:EO; [reflexivity|]. exfalso.
    assert (Hi : In f (objs_of ms)) by (rewrite EO; left; reflexivity).
    apply In_objs_of in Hi. apply (wl_sn _ W) in Hi. destruct Hi as [Hi _]. discriminate Hi.
  Qed.

  (* regroup_PL of NormalForm.v with the hypotheses a work-list gives (duplicate pointers, str beside other string
     types, int beside float are all allowed) *)
  Lemma wl_regroup_PL ms ts : WL ms -> flat_map members_deep ts = ms -> PL registry (regroup ts).
  Proof.
    intros W E. pose proof (wl_no_obj ms W) as NO. destruct W as [Hs Hnull Hlist Hdict Hlit Hunk Hint].
    rewrite (regroup_deep registry replaces peq ts ms E).
    assert (OB : objp peq ms = []) by (unfold objp; rewrite NO; reflexivity). rewrite OB, app_nil_r.
    set (A := oth_of registry ms).
    assert (FA : forall x, In x A -> In x ms /\ is_other registry x = true) by (apply oth_of_In).
    assert (SA : sub A ms) by (eapply sub_trans; [apply oth_of_sub | apply sub_filter]).
    assert (A1 : count is_list A = 0).
    { apply count_zero. intros x Hx. apply FA in Hx. destruct Hx as [_ Hx]. destruct x; try reflexivity. discriminate. }
    assert (A2 : count is_dict A = 0).
    { apply count_zero. intros x Hx. apply FA in Hx. destruct Hx as [_ Hx]. destruct x; try reflexivity. discriminate. }
    assert (A3 : count is_obj A = 0).
    { apply count_zero. intros x Hx. apply FA in Hx. destruct Hx as [_ Hx]. destruct x; try reflexivity. discriminate. }
    assert (A4 : count is_lit A <= 1) by (pose proof (sub_count is_lit _ _ SA); lia).
    assert (A5 : count (str_like registry) A = 0).
    { apply count_zero. intros x Hx. apply FA in Hx. destruct Hx as [_ Hx]. unfold is_other in Hx.
      rewrite !andb_true_iff, !negb_true_iff in Hx. apply Hx. }
    assert (A6 : count is_null A <= 1) by (pose proof (sub_count is_null _ _ SA); lia).
    assert (A7 : count is_unknown A <= 1) by (pose proof (sub_count is_unknown _ _ SA); lia).
    assert (A8 : existsb (ty_eqb TInt) A && existsb (ty_eqb TFloat) A = false).
    { unfold A, oth_of.
      destruct (existsb (ty_eqb TInt) (filter (is_other registry) ms) && existsb (ty_eqb TFloat) (filter (is_other registry) ms)) eqn:C; [|exact C].
      apply andb_false_iff. left. apply existsb_ty_eqb_false. intros Hi.
      assert (ty_eqb TInt TInt = false) as F; [|discriminate F].
      apply (remove_first_none (ty_eqb TInt) (filter (is_other registry) ms)); [|exact Hi].
      pose proof (sub_count (ty_eqb TInt) _ _ (sub_filter (is_other registry) ms)). lia. }
    assert (A9 : forall x, In x A -> basic x = true).
    { intros x Hx. apply FA in Hx. destruct Hx as [Hx _]. destruct (Hs x Hx) as [S1 [S2 S3]]. apply sn_basic; assumption. }
    assert (A10 : sorted (filter nonlit A) = true /\ forall x, In x (filter nonlit A) -> rank x <= 0).
    { assert (forall x, In x (filter nonlit A) -> rank x = 0) as Z.
      { intros x Hx. apply In_filter_nonlit in Hx. destruct Hx as [Hx L]. apply rank_other; [apply FA; exact Hx | exact L]. }
      split; [apply sorted_const; exact Z | intros x Hx; rewrite (Z x Hx); lia]. }
    clearbody A.
    destruct (listp_cases ms) as [-> | [fc ->]];
    destruct (dictp_cases ms) as [-> | [fd ->]];
    (destruct (str_result_cases registry replaces (filter (in_reg registry) ms)) as [-> | [-> | [p [-> Hp]]]];
      [intros y Hy; apply filter_In in Hy; apply Hy | | |]);
    (constructor;
     [ rewrite !forallb_app; cbn [forallb]; rewrite ?andb_true_r; apply forallb_forall; exact A9
     | rewrite !count_app; unfold count at 2 3 4; simpl; lia
     | rewrite !count_app; unfold count at 2 3 4; simpl; lia
     | rewrite !count_app; unfold count at 2 3 4; simpl; lia
     | rewrite !count_app; unfold count at 2 3 4; simpl; lia
     | rewrite !count_app; unfold count at 2 3 4; simpl; rewrite ?Hp; simpl; lia
     | rewrite !count_app; unfold count at 2 3 4; simpl; lia
     | rewrite !count_app; unfold count at 2 3 4; simpl; lia
     | rewrite !existsb_app; simpl; rewrite ?orb_false_r; exact A8
     | rewrite !filter_app; simpl; rewrite ?app_nil_r, <- ?app_assoc; simpl;
       destruct A10 as [S0 B0];
       first [exact S0 | apply (sorted_app_bound registry 0); [exact S0 | exact B0 | simpl; rewrite ?Hp; reflexivity | intros; lia]] ]).
  Qed.

  Lemma wrap_other x : is_other registry x = true -> wrap peq x = x.
  Proof. destruct x; try reflexivity; discriminate. Qed.

  (* every member of the regrouped list is the wrap of a work-list item, or a string type *)
  Lemma regroup_members ms ts : WL ms -> flat_map members_deep ts = ms ->
    forall x, In x (regroup ts) ->
      (exists y, In y ms /\ x = wrap peq y) \/ x = TStr \/ (exists p, x = TPseudo p).
  Proof.
    intros W E x. pose proof (wl_no_obj ms W) as NO.
    rewrite (regroup_deep registry replaces peq ts ms E).
    assert (OB : objp peq ms = []) by (unfold objp; rewrite NO; reflexivity). rewrite OB, app_nil_r.
    rewrite (listp_eq peq ms (wl_list _ W)), (dictp_eq peq ms (wl_dict _ W)).
    rewrite !in_app_iff. intros [[[H|H]|H]|H].
    - left. apply oth_of_In in H. destruct H as [H1 H2]. exists x. split; [exact H1|]. symmetry. apply wrap_other. exact H2.
    - left. apply in_map_iff in H. destruct H as [y [<- Hy]]. apply filter_In in Hy. exists y. split; [apply Hy | reflexivity].
    - left. apply in_map_iff in H. destruct H as [y [<- Hy]]. apply filter_In in Hy. exists y. split; [apply Hy | reflexivity].
    - right. destruct (str_result_cases registry replaces (filter (in_reg registry) ms)) as [E1|[E1|[p [E1 _]]]];
        [intros y Hy; apply filter_In in Hy; apply Hy | | |]; rewrite E1 in H; [destruct H | |]; destruct H as [<-|[]].
      + left. reflexivity.
      + right. exists p. reflexivity.
  Qed.

  Lemma finish_nonnull T t' : PL registry T -> (forall x, In x T -> is_null x = false) -> finish T = Some t' ->
    is_null t' = false /\ is_opt t' = false.
  Proof.
    intros P Hn H. destruct (le_lt_dec 2 (length T)) as [Hlen|Hlen].
    2:{ destruct T as [|a [|b r]]; [discriminate| | simpl in Hlen; lia]. simpl in H. inversion H; subst.
        split; [apply Hn; left; reflexivity|]. apply (basic_parts t' (PL_basic_In registry _ _ P (or_introl eq_refl))). }
    rewrite (finish_2 T Hlen) in H.
    destruct (fin_T2_props registry T Hlen P) as [S2 _].
    assert (S1 : sub (fin_T1 T) T) by (unfold fin_T1; destruct (_ && _); [apply sub_remove_first | apply sub_refl]).
    assert (E : existsb is_null (fin_T1 T) = false).
    { apply existsb_false. intros x Hx. apply Hn. apply (sub_In _ _ _ S1 Hx). }
    rewrite E in H. inversion H; subst t'. clear H.
    assert (B : forall x, In x (fin_T2 T) -> basic x = true) by (intros x Hx; apply (PL_basic_In registry _ _ P); apply (sub_In _ _ _ S2 Hx)).
    pose proof (basic_flatten (fin_T2 T) B) as FL.
    unfold union1. destruct (mk_union (fin_T2 T)) as [|a [|b r]] eqn:EM; [split; reflexivity| |split; reflexivity].
    assert (Ha : In a (mk_union (fin_T2 T))) by (rewrite EM; left; reflexivity).
    apply mk_union_In in Ha. rewrite FL in Ha. destruct Ha as [[Ha _]|[->|[-> _]]]; [|split; reflexivity|split; reflexivity].
    split; [apply Hn; apply (sub_In _ _ _ S2 Ha)|]. apply (basic_parts a (B a Ha)).
  Qed.

  (* the union case of one pass, over any union whose deep work-list is a WL *)
  Lemma union_lemma f ms ts t' :
    (forall x x', In x ms -> optimize f (wrap peq x) = Some x' ->
        nfo x' = true /\ wf3 x' = true /\ (is_null x = false -> is_null x' = false)) ->
    WL ms -> flat_map members_deep ts = ms ->
    optimize (Datatypes.S f) (TUnion ts) = Some t' ->
    nfo t' = true /\ wf3 t' = true /\ t' <> TOpt TNull /\
    (count is_null ms = 0 -> is_null t' = false /\ is_opt t' = false).
  Proof.
    intros HG W E H. rewrite optimize_S in H.
    destruct (opt_list (optimize f) (regroup ts)) as [T|] eqn:EL; [|discriminate].
    apply opt_list_Forall2 in EL.
    pose proof (wl_regroup_PL ms ts W E) as PLL.
    assert (PLT : PL registry T).
    { apply (PL_skel registry (regroup ts)); [exact PLL|]. apply (Forall2_skel registry replaces peq f _ _ EL).
      intros x Hx. apply (PL_basic_In registry _ _ PLL Hx). }
    assert (M : forall x', In x' T -> nfo x' = true /\ wf3 x' = true /\ (count is_null ms = 0 -> is_null x' = false)).
    { intros x' Hx'. destruct (Forall2_In_r _ _ _ _ EL Hx') as [x [Hx Ox]].
      destruct (regroup_members ms ts W E x Hx) as [[y [Hy ->]]|[->|[p ->]]].
      - destruct (HG y x' Hy Ox) as [A [B C]]. split; [exact A|]. split; [exact B|]. intros Z. apply C.
        destruct (is_null y) eqn:Ny; [|reflexivity]. pose proof (count_pos is_null ms y Hy Ny). lia.
      - destruct f; [discriminate|]. inversion Ox; subst. auto.
      - destruct f; [discriminate|]. inversion Ox; subst. auto. }
    split; [apply (finish_nfo registry T t' PLT); [intros x Hx; apply M; exact Hx | exact H]|].
    split; [apply (finish_wf3 registry T t' PLT); [intros x Hx; apply M; exact Hx | exact H]|].
    split; [apply (finish_not_optnull registry T t' PLT H)|].
    intros Z. apply (finish_nonnull T t' PLT); [|exact H]. intros x Hx. apply M; assumption.
  Qed.

  Lemma WL_single y : sn y = true -> is_opt y = false -> is_union y = false -> WL [y].
  Proof.
    intros A B C. constructor; try apply (count_le_length _ [y]). intros x [<-|[]]. auto.
  Qed.
  Lemma WL_cons_null ms : WL ms -> count is_null ms = 0 -> WL (TNull :: ms).
  Proof.
    intros W Z. constructor; try (rewrite count_cons; simpl; apply W).
    - intros x [<-|Hx]; [auto | apply (wl_sn _ W x Hx)].
    - rewrite count_cons, Z. simpl. lia.
  Qed.
  Lemma sn_WL_union ts : sn (TUnion ts) = true -> WL ts /\ count is_null ts = 0 /\ flat_map members_deep ts = ts.
  Proof.
    intros Hs. cbn [sn] in Hs. apply andb_true_iff in Hs as [A B]. rewrite forallb_forall in B.
    destruct (sn_union_parts ts A) as [P1 [P2 [P3 [P4 [P5 P6]]]]].
    assert (Z : count is_null ts = 0) by (apply count_zero; intros x Hx; apply P1; exact Hx).
    split; [|split; [exact Z|]].
    - constructor; try assumption; [|lia]. intros x Hx. destruct (P1 x Hx) as [U [O _]]. auto.
    - apply flat_map_members_deep_id; intros x Hx; apply P1; exact Hx.
  Qed.

  Definition G1 (f : nat) : Prop := forall x x', sn x = true -> optimize f x = Some x' ->
    nfo x' = true /\ wf3 x' = true /\ (x <> TOpt TNull -> x' <> TOpt TNull) /\
    (is_null x = false -> is_opt x = false -> is_null x' = false /\ is_opt x' = false).
  Definition G2 (f : nat) : Prop := forall x x', sn x = true -> is_opt x = false -> is_union x = false ->
    optimize f (wrap peq x) = Some x' ->
    nfo x' = true /\ wf3 x' = true /\ (is_null x = false -> is_null x' = false).
  Definition G3 (f : nat) : Prop := forall x x', sn x = true -> x <> TOpt TNull ->
    optimize f (dunion [x]) = Some x' -> nfo x' = true /\ wf3 x' = true /\ x' <> TOpt TNull.

  Lemma HG_of f ms : G2 f -> WL ms -> forall x x', In x ms -> optimize f (wrap peq x) = Some x' ->
    nfo x' = true /\ wf3 x' = true /\ (is_null x = false -> is_null x' = false).
  Proof. intros G W x x' Hx H. destruct (wl_sn _ W x Hx) as [A [B C]]. apply (G x x' A B C H). Qed.

  Lemma wf3_list_like y : wf3 y = true -> y <> TOpt TNull -> negb (ty_eqb y (TOpt TNull)) && wf3 y = true.
  Proof.
    intros A B. rewrite A, andb_true_r. apply negb_true_iff. destruct (ty_eqb y (TOpt TNull)) eqn:Q; [|reflexivity].
    apply ty_eqb_eq in Q. contradiction.
  Qed.
  Lemma sn_list_like z : negb (ty_eqb z (TOpt TNull)) && sn z = true -> z <> TOpt TNull /\ sn z = true.
  Proof.
    intros H. apply andb_true_iff in H as [A B]. split; [|exact B]. intros ->. vm_compute in A. discriminate A.
  Qed.

  Ltac atom_case H :=
    inversion H; subst; split; [reflexivity|]; split; [reflexivity|]; split; [intros _; discriminate|];
    let N0 := fresh in let O0 := fresh in intros N0 O0; first [discriminate N0 | split; reflexivity].

  Lemma G_step f : G1 f -> G2 f -> G3 f -> G1 (Datatypes.S f) /\ G2 (Datatypes.S f) /\ G3 (Datatypes.S f).
  Proof.
    intros G1f G2f G3f.
    assert (H1 : G1 (Datatypes.S f)).
    { intros x x' Hs H. destruct x as [ | | | | | | p | o ls | z | z | z | ts | fs | i];
        try (rewrite optimize_S in H; atom_case H).
      - (* TLit *) rewrite optimize_S in H. cbn [sn] in Hs. apply andb_true_iff in Hs as [A B]. apply negb_true_iff in A. subst o.
        destruct (lit_ok_wf _ B) as [N [F V]]. destruct ls as [|s0 l0]; [congruence|]. simpl in H. inversion H; subst x'.
        split; [reflexivity|]. split; [cbn [wf3]; apply andb_true_iff; split; [apply strs_eqb_eq; exact F | rewrite V; reflexivity]|].
        split; [intros _; discriminate | intros _ _; split; reflexivity].
      - (* TOpt *) rewrite optimize_S in H. cbn [sn] in Hs. apply andb_true_iff in Hs as [A B]. apply negb_true_iff in A.
        destruct (optimize f z) as [y|] eqn:E; [|discriminate]. destruct (G1f _ _ B E) as [Y1 [Y2 [Y3 Y4]]].
        assert (X : x' = if is_opt y then y else TOpt y) by (destruct y; inversion H; reflexivity).
        destruct (is_opt y) eqn:Oy; subst x'.
        + split; [exact Y1|]. split; [exact Y2|]. split.
          * intros _. apply Y3. intros ->. discriminate A.
          * intros _ O. discriminate O.
        + split; [apply nfo_opt; assumption|]. split; [exact Y2|]. split.
          * intros Hne Heq. inversion Heq; subst y.
            destruct (is_null z) eqn:Nz; [destruct z; try discriminate Nz; apply Hne; reflexivity|].
            destruct (Y4 eq_refl A) as [C _]. discriminate C.
          * intros _ O. discriminate O.
      - (* TList *) rewrite optimize_S in H. cbn [sn] in Hs. destruct (sn_list_like z Hs) as [A B].
        destruct (optimize f z) as [y|] eqn:E; [|discriminate]. simpl in H. inversion H; subst x'.
        destruct (G1f _ _ B E) as [Y1 [Y2 [Y3 _]]].
        split; [exact Y1|]. split; [cbn [wf3]; apply wf3_list_like; auto|].
        split; [intros _; discriminate | intros _ _; split; reflexivity].
      - (* TDict *) rewrite optimize_S in H. cbn [sn] in Hs. destruct (sn_list_like z Hs) as [A B].
        destruct (optimize f z) as [y|] eqn:E; [|discriminate]. simpl in H. inversion H; subst x'.
        destruct (G1f _ _ B E) as [Y1 [Y2 [Y3 _]]].
        split; [exact Y1|]. split; [cbn [wf3]; apply wf3_list_like; auto|].
        split; [intros _; discriminate | intros _ _; split; reflexivity].
      - (* TUnion *) destruct (sn_WL_union ts Hs) as [W [Z FM]].
        destruct (union_lemma f ts ts x' (HG_of f ts G2f W) W FM H) as [U1 [U2 [U3 U4]]].
        split; [exact U1|]. split; [exact U2|]. split; [intros _; exact U3|]. intros _ _. apply U4. exact Z.
      - (* TObj *) discriminate Hs. }
    assert (H2 : G2 (Datatypes.S f)).
    { intros x x' Hs O U H. destruct x as [ | | | | | | p | o ls | z | z | z | ts | fs | i];
        try discriminate O; try discriminate U; try discriminate Hs;
        try (cbn [wrap] in H; destruct (H1 _ _ Hs H) as [A [B [_ D]]]; split; [exact A|]; split; [exact B|];
             intros Nn; apply (D Nn O)).
      - cbn [wrap] in H. rewrite optimize_S in H. cbn [sn] in Hs. destruct (sn_list_like z Hs) as [A B].
        destruct (optimize f (dunion [z])) as [y|] eqn:E; [|discriminate]. simpl in H. inversion H; subst x'.
        destruct (G3f z y B A E) as [Y1 [Y2 Y3]].
        split; [exact Y1|]. split; [cbn [wf3]; apply wf3_list_like; auto|]. intros _. reflexivity.
      - cbn [wrap] in H. rewrite optimize_S in H. cbn [sn] in Hs. destruct (sn_list_like z Hs) as [A B].
        destruct (optimize f (dunion [z])) as [y|] eqn:E; [|discriminate]. simpl in H. inversion H; subst x'.
        destruct (G3f z y B A E) as [Y1 [Y2 Y3]].
        split; [exact Y1|]. split; [cbn [wf3]; apply wf3_list_like; auto|]. intros _. reflexivity. }
    split; [exact H1|]. split; [exact H2|].
    intros x x' Hs Hne H. unfold dunion in H.
    destruct (is_union x) eqn:U.
    - destruct x as [ | | | | | | p | o ls | z | z | z | ts | fs | i]; try discriminate U.
      rewrite mk_union_wrapU in H. cbn [sn] in Hs. apply andb_true_iff in Hs as [A B].
      destruct (mk_union_WL ts A B) as [W Z].
      assert (FM : flat_map members_deep (mk_union ts) = mk_union ts).
      { apply flat_map_members_deep_id; intros y Hy; apply (wl_sn _ W y Hy). }
      destruct (union_lemma f _ _ x' (HG_of f _ G2f W) W FM H) as [U1 [U2 [U3 _]]]. auto.
    - destruct (is_opt x) eqn:O.
      + destruct x as [ | | | | | | p | o ls | y | z | z | ts | fs | i]; try discriminate O.
        assert (M : mk_union [TOpt y] = [TOpt y]) by reflexivity. rewrite M in H.
        cbn [sn] in Hs. apply andb_true_iff in Hs as [A B]. apply negb_true_iff in A.
        assert (FM : flat_map members_deep [TOpt y] = TNull :: members_deep y).
        { cbn [flat_map]. rewrite app_nil_r. reflexivity. }
        assert (W : WL (TNull :: members_deep y)).
        { destruct (is_union y) eqn:Uy.
          - destruct y as [ | | | | | | p | o ls | z | z | z | ts | fs | i]; try discriminate Uy.
            destruct (sn_WL_union ts B) as [W [Z FM']]. rewrite members_deep_union, FM'. apply WL_cons_null; assumption.
          - rewrite (members_deep_id y A Uy). apply WL_cons_null; [apply WL_single; assumption|].
            rewrite count_cons. destruct (is_null y) eqn:Ny; [|reflexivity].
            exfalso. apply Hne. destruct y; try discriminate Ny. reflexivity. }
        destruct (union_lemma f _ _ x' (HG_of f _ G2f W) W FM H) as [U1 [U2 [U3 _]]]. auto.
      + assert (M : mk_union [x] = [x]).
        { apply mk_union_single; [exact U|]. intros o l ->. cbn [sn] in Hs. apply andb_true_iff in Hs as [A B].
          apply negb_true_iff in A. split; [exact A | apply lit_ok_wf; exact B]. }
        rewrite M in H.
        assert (FM : flat_map members_deep [x] = [x]).
        { apply flat_map_members_deep_id; intros y [<-|[]]; assumption. }
        pose proof (WL_single x Hs O U) as W.
        destruct (union_lemma f _ _ x' (HG_of f _ G2f W) W FM H) as [U1 [U2 [U3 _]]]. auto.
  Qed.

  Lemma G_all : forall f, G1 f /\ G2 f /\ G3 f.
  Proof.
    induction f as [|f [A [B C]]].
    - split; [|split]; intros x x'; intros; discriminate.
    - apply G_step; assumption.
  Qed.

  (* (B1) one pass over a semi-normal term ends in ordered normal form, with wf3 *)
  Theorem optimize_sn_nfo fuel t t' : sn t = true -> optimize fuel t = Some t' -> nfo t' = true /\ wf3 t' = true.
  Proof. intros Hs H. destruct (G_all fuel) as [G _]. destruct (G t t' Hs H) as [A [B _]]. auto. Qed.

  Theorem optimize_fields_sn fuel fs fs' : snf fs = true -> optimize_fields registry replaces peq fuel fs = Some fs' ->
    nfo (TObj fs') = true /\ wf3 (TObj fs') = true.
  Proof.
    intros Hs H. unfold snf in Hs. apply andb_true_iff in Hs as [K Hs]. rewrite forallb_forall in Hs.
    unfold optimize_fields in H. destruct fuel as [|fuel]; [discriminate|]. rewrite optimize_S in H.
    destruct (opt_fields (optimize fuel) fs) as [fs2|] eqn:E; [|discriminate]. simpl in H. inversion H; subst fs2. clear H.
    apply opt_fields_Forall2 in E.
    assert (M : forall kv', In kv' fs' -> nfo (snd kv') = true /\ wf3 (snd kv') = true).
    { intros kv' Hkv'. destruct (Forall2_In_r _ _ _ _ E Hkv') as [kv [Hkv [_ Okv]]].
      apply (optimize_sn_nfo fuel (snd kv)); [apply Hs; exact Hkv | exact Okv]. }
    split; [apply nfo_obj; intros kv Hkv; apply M; exact Hkv|].
    cbn [wf3]. rewrite (keys_nodup_fst fs' fs (Forall2_fst _ _ _ E)), K. cbn [andb].
    apply forallb_forall. intros kv Hkv. apply M. exact Hkv.
  Qed.
End Pass.

(* ------------------------------------------------------------------ *)
(* (B2) renaming of pointers keeps sn (it may identify two pointers of a union: sn allows that)          *)
(* ------------------------------------------------------------------ *)
Lemma count_map_ext {A} (f : A -> bool) (g : A -> A) l : (forall x, f (g x) = f x) -> count f (map g l) = count f l.
Proof.
  intros H. unfold count. induction l as [|x r IH]; [reflexivity|]. simpl. rewrite H. destruct (f x); simpl; rewrite IH; reflexivity.
Qed.
Lemma forallb_map_ext {A} (f : A -> bool) (g : A -> A) l : Forall (fun x => f (g x) = f x) l -> forallb f (map g l) = forallb f l.
Proof. induction 1 as [|x r Hx Hr IH]; [reflexivity|]. simpl. rewrite Hx, IH. reflexivity. Qed.
Lemma rename_optnull mbs new z : ty_eqb (rename mbs new z) (TOpt TNull) = ty_eqb z (TOpt TNull).
Proof.
  destruct z; simpl; try reflexivity; [|destruct (memN i mbs); reflexivity].
  destruct z; simpl; try reflexivity. destruct (memN i mbs); reflexivity.
Qed.
Lemma rename_head mbs new (f : ty -> bool) :
  (forall i j, f (TPtr i) = f (TPtr j)) ->
  (forall a b, f (TOpt a) = f (TOpt b)) -> (forall a b, f (TList a) = f (TList b)) -> (forall a b, f (TDict a) = f (TDict b)) ->
  (forall a b, f (TUnion a) = f (TUnion b)) -> (forall a b, f (TObj a) = f (TObj b)) ->
  forall x, f (rename mbs new x) = f x.
Proof.
  intros H1 H2 H3 H4 H5 H6 x. destruct x; simpl; auto. destruct (memN i mbs); auto.
Qed.
Lemma sn_union_ok_rename mbs new ts : sn_union_ok (map (rename mbs new) ts) = sn_union_ok ts.
Proof.
  unfold sn_union_ok.
  rewrite !count_map_ext by (apply rename_head; reflexivity).
  rewrite forallb_map_ext; [reflexivity|]. apply Forall_forall. intros x _.
  rewrite !(rename_head mbs new is_union), !(rename_head mbs new is_opt), !(rename_head mbs new is_null); reflexivity.
Qed.
Lemma sn_rename mbs new : forall t, sn (rename mbs new t) = sn t.
Proof.
  induction t using ty_ind2; try reflexivity.
  - cbn [rename sn]. rewrite rename_is_opt, IHt. reflexivity.
  - cbn [rename sn]. rewrite rename_optnull, IHt. reflexivity.
  - cbn [rename sn]. rewrite rename_optnull, IHt. reflexivity.
  - cbn [rename sn]. rewrite sn_union_ok_rename, forallb_map_ext; [reflexivity | exact H].
  - simpl. destruct (memN i mbs); reflexivity.
Qed.
Lemma keys_nodup_nodup_keys (fs : fields) : keys_nodup fs = Sound.nodup_keys fs.
Proof. induction fs as [|[k x] r IH]; [reflexivity|]. simpl. rewrite IH. reflexivity. Qed.
Lemma snf_ren_fields mbs new fs : snf (ren_fields mbs new fs) = snf fs.
Proof.
  unfold snf. f_equal.
  - apply keys_nodup_fst. unfold ren_fields. apply rename_fields_keys.
  - unfold ren_fields. induction fs as [|[k x] r IH]; [reflexivity|]. simpl. rewrite sn_rename, IH. reflexivity.
Qed.

(* ------------------------------------------------------------------ *)
(* (B3) an object-free ordered normal form with wf3 is semi-normal                                          *)
(* ------------------------------------------------------------------ *)
Section B3.
  Variable registry : list pseudo.
  Notation nfo := (nfo registry).
  Lemma nfo_sn : forall t, nfo t = true -> wf3 t = true -> gok t = true -> sn t = true.
  Proof.
    induction t using ty_ind2; intros Hn Hw Hg; try reflexivity.
    - destruct (lit_facts registry _ _ Hn Hw) as [-> [L1 [L2 L3]]]. cbn [sn]. unfold lit_ok.
      rewrite L3, L2. destruct ls; [congruence|]. simpl. rewrite andb_true_r. apply strs_eqb_eq. reflexivity.
    - assert (Hy : nfo t = true /\ is_opt t = false).
      { apply nfo_iff in Hn. destruct Hn as [A B]. simpl in A, B. apply andb_true_iff in A. destruct A as [A1 A2].
        apply negb_true_iff in A2. split; [apply nfo_iff; auto | exact A2]. }
      destruct Hy as [Hy O]. cbn [sn]. rewrite O. simpl. apply IHt; auto.
    - cbn [wf3] in Hw. apply andb_true_iff in Hw as [A B]. cbn [sn]. rewrite A. simpl. apply IHt; auto.
    - cbn [wf3] in Hw. apply andb_true_iff in Hw as [A B]. cbn [sn]. rewrite A. simpl. apply IHt; auto.
    - destruct (nfo_union_parts registry ts Hn Hw) as [A [B [C D]]].
      destruct (union_ok_parts registry ts A) as [P1 [P2 [P3 [P4 [P5 [P6 [P7 [P8 [P9 [P10 P11]]]]]]]]]].
      apply gok_union_Forall in Hg. rewrite Forall_forall in H, Hg.
      cbn [sn]. apply andb_true_iff. split.
      + unfold sn_union_ok. rewrite !andb_true_iff, !Nat.leb_le. repeat split; try assumption.
        * apply forallb_forall. intros x Hx. destruct (P2 x Hx) as [U [Nn O]]. rewrite U, Nn, O. reflexivity.
        * rewrite count_zero; [lia|]. exact P11.
        * apply NoDup_count_le1; [exact P3|]. intros x y Hx Hy. apply ty_eqb_eq in Hx, Hy. congruence.
      + apply forallb_forall. intros x Hx. destruct (D x Hx) as [D1 D2]. apply H; auto.
    - rewrite tok_obj in Hg. discriminate Hg.
  Qed.
  Lemma nfw_snf fs : nfw registry fs = true -> gokf fs = true -> snf fs = true.
  Proof.
    unfold nfw, snf. intros H G. apply andb_true_iff in H as [Hn Hw]. apply gokf_iff in G as [_ G]. rewrite Forall_forall in G.
    apply nfo_iff in Hn. destruct Hn as [N O]. rewrite nf_obj in N. rewrite ordered_obj in O. cbn [wf3] in Hw.
    apply andb_true_iff in Hw as [K Hw]. rewrite K. simpl. rewrite forallb_forall in *.
    intros kv Hkv. apply nfo_sn; auto. apply nfo_iff. split; auto.
  Qed.
End B3.

(* ------------------------------------------------------------------ *)
(* (B4) the FIRST pass over a merged field.  _merge hands optimize_type unions whose members are members of
   semi-normal fields, possibly under an Optional: mm t says that every item of the deep work-list of t is
   semi-normal.  Theorem optimize_mm_sn: one pass over such a term ends in SEMI-normal form (not in normal form:
   Module Cex below).                                                                                        *)
(* ------------------------------------------------------------------ *)
Definition mm (t : ty) : bool := forallb sn (members_deep t).

Lemma sn_gok : forall t, sn t = true -> gok t = true.
Proof.
  induction t using ty_ind2; intros Hs; try reflexivity; try discriminate Hs.
  - cbn [sn] in Hs. apply andb_true_iff in Hs as [A B]. apply negb_true_iff in A. subst o.
    destruct (lit_ok_wf _ B) as [N _]. destruct ls; [congruence|reflexivity].
  - cbn [sn] in Hs. apply andb_true_iff in Hs as [_ B]. apply IHt. exact B.
  - cbn [sn] in Hs. apply andb_true_iff in Hs as [_ B]. apply IHt. exact B.
  - cbn [sn] in Hs. apply andb_true_iff in Hs as [_ B]. apply IHt. exact B.
  - cbn [sn] in Hs. apply andb_true_iff in Hs as [_ B]. rewrite forallb_forall in B.
    apply gok_union_Forall. rewrite Forall_forall in *. auto.
Qed.
Lemma mm_item t : is_opt t = false -> is_union t = false -> mm t = sn t.
Proof. intros O U. unfold mm. rewrite (members_deep_id t O U). simpl. apply andb_true_r. Qed.
Lemma mm_opt x : mm (TOpt x) = mm x.
Proof. reflexivity. Qed.
Lemma mm_union l : mm (TUnion l) = true <-> forall x, In x l -> mm x = true.
Proof.
  unfold mm. rewrite members_deep_union, forallb_forall. split.
  - intros H x Hx. apply forallb_forall. intros y Hy. apply H. apply in_flat_map. exists x. auto.
  - intros H y Hy. apply in_flat_map in Hy as [x [Hx Hy]]. specialize (H x Hx). rewrite forallb_forall in H. auto.
Qed.
Lemma sn_union_mm ts : sn (TUnion ts) = true -> mm (TUnion ts) = true.
Proof.
  intros Hs. unfold mm. rewrite members_deep_union. cbn [sn] in Hs. apply andb_true_iff in Hs as [A B].
  destruct (sn_union_parts ts A) as [P1 _].
  rewrite flat_map_members_deep_id; [exact B | |]; intros x Hx; apply P1; exact Hx.
Qed.
Lemma sn_mm t : sn t = true -> mm t = true.
Proof.
  intros Hs. destruct (is_union t) eqn:U.
  - destruct t; try discriminate U. apply sn_union_mm. exact Hs.
  - destruct (is_opt t) eqn:O; [|rewrite mm_item; assumption].
    destruct t; try discriminate O. rewrite mm_opt. cbn [sn] in Hs. apply andb_true_iff in Hs as [A B].
    apply negb_true_iff in A. destruct (is_union t) eqn:U2.
    + destruct t; try discriminate U2. apply sn_union_mm. exact B.
    + rewrite mm_item; assumption.
Qed.
Lemma flat_members_deep : forall a x, In x (flat a) -> incl (members_deep x) (members_deep a).
Proof.
  induction a using ty_ind2; intros x Hx; try (destruct Hx as [<-|[]]; apply incl_refl).
  rewrite members_deep_union. rewrite flat_union in Hx. apply in_flat_map in Hx as [y [Hy Hx]].
  rewrite Forall_forall in H. intros z Hz. apply in_flat_map. exists y. split; [exact Hy|]. apply (H y Hy x Hx z Hz).
Qed.
Lemma mm_flat a x : mm a = true -> In x (flat a) -> mm x = true.
Proof.
  unfold mm. rewrite !forallb_forall. intros H Hx y Hy. apply H. apply (flat_members_deep a x Hx y Hy).
Qed.
Lemma mm_mk_union ts : (forall x, In x ts -> mm x = true) -> forall x, In x (mk_union ts) -> mm x = true.
Proof.
  intros H x Hx. apply mk_union_In in Hx. destruct Hx as [[Hx _]|[->|[-> [_ [N [O _]]]]]].
  - unfold flatten_union in Hx. rewrite flat_union in Hx. apply in_flat_map in Hx as [a [Ha Hx]].
    apply (mm_flat a x (H a Ha) Hx).
  - reflexivity.
  - apply sn_mm. simpl. unfold lit_ok. rewrite O, mk_ls_fix. simpl.
    destruct (mk_ls ts); [congruence|]. simpl. rewrite andb_true_r. apply strs_eqb_eq. reflexivity.
Qed.
Lemma mm_union1 ts : (forall x, In x ts -> mm x = true) -> mm (union1 ts) = true.
Proof.
  intros H. pose proof (mm_mk_union ts H) as M. unfold union1. destruct (mk_union ts) as [|a [|b r]].
  - reflexivity.
  - apply M. left. reflexivity.
  - apply mm_union. exact M.
Qed.
Lemma mm_members t : mm t = true -> forall x, In x (members t) -> mm x = true.
Proof.
  intros H x Hx. destruct t; try (destruct Hx as [<-|[]]; exact H). simpl in Hx. apply (proj1 (mm_union ts) H x Hx).
Qed.
Lemma wrap_opt_mm t : mm (wrap_opt t) = mm t.
Proof. unfold wrap_opt. destruct (is_opt t); reflexivity. Qed.
Lemma rename_mm mbs new t : mm (rename mbs new t) = mm t.
Proof.
  unfold mm. rewrite rename_members_deep. apply forallb_map_ext. apply Forall_forall. intros x _. apply sn_rename.
Qed.

(* mm through merge_field_sets (the shape of GraphSound.merge_field_tfs) *)
Notation mfs := (Forall (fun kv : str * ty => mm (snd kv) = true)).
Lemma update_mfs k t (fs : fields) : mfs fs -> mm t = true -> mfs (update k t fs).
Proof.
  induction fs as [|[k' t'] r IH]; simpl; intros H G.
  - constructor; auto.
  - inversion H; subst. destruct (str_eqb k k'); constructor; auto.
Qed.
Lemma lookup_mfs k t (fs : fields) : mfs fs -> lookup k fs = Some t -> mm t = true.
Proof. intros H L. apply NormalForm.lookup_In in L as [k' L]. rewrite Forall_forall in H. apply (H _ L). Qed.
Lemma union1_members_mm a b : mm a = true -> mm b = true -> mm (union1 (members a ++ members b)) = true.
Proof.
  intros A B. apply mm_union1. intros x Hx. apply in_app_or in Hx as [Hx|Hx]; [apply (mm_members a A x Hx) | apply (mm_members b B x Hx)].
Qed.
Lemma merge_field_mfs peq first acc name field :
  mfs acc -> mm field = true -> mfs (merge_field peq first acc (name, field)).
Proof.
  intros A G. unfold merge_field. destruct (lookup name acc) as [fo|] eqn:E.
  - pose proof (lookup_mfs _ _ _ A E) as Gfo.
    assert (U : mm (union1 (members field ++ members fo)) = true) by (apply union1_members_mm; assumption).
    destruct fo;
      try (destruct (py_eq peq _ field); [assumption|];
           destruct field;
           try (apply update_mfs; auto; fail);
           match goal with |- context [py_eq peq ?a ?b] => destruct (py_eq peq a b) end;
           apply update_mfs; auto).
    destruct (py_eq peq (TOpt fo) field || py_eq peq fo field); [assumption|].
    apply update_mfs; auto. rewrite mm_opt. apply union1_members_mm; [exact G | rewrite mm_opt in Gfo; exact Gfo].
  - apply update_mfs; auto. destruct (first || is_opt field); auto.
Qed.
Lemma fold_merge_field_mfs peq first : forall model acc, mfs acc -> mfs model -> mfs (fold_left (merge_field peq first) model acc).
Proof.
  induction model as [|[k t] r IH]; simpl; intros acc A M; auto.
  inversion M; subst. apply IH; auto. apply merge_field_mfs; auto.
Qed.
Lemma merge_step_mfs peq first acc model : mfs acc -> mfs model -> mfs (snd (merge_step peq (first, acc) model)).
Proof.
  intros A M. unfold merge_step. simpl.
  pose proof (fold_merge_field_mfs peq first model acc A M) as H.
  apply Forall_map. eapply Forall_impl; [|exact H]. intros kt Hkt.
  destruct (_ && _); simpl; auto. now rewrite wrap_opt_mm.
Qed.
Lemma fold_merge_step_mfs peq : forall sets st, mfs (snd st) -> Forall (fun fs : fields => mfs fs) sets ->
  mfs (snd (fold_left (merge_step peq) sets st)).
Proof.
  induction sets as [|s r IH]; intros [first acc] A S; cbn [fold_left]; auto.
  inversion S; subst. apply IH; auto.
  apply (merge_step_mfs peq first acc s A). assumption.
Qed.
Lemma merge_field_sets_mfs peq sets : Forall (fun fs : fields => mfs fs) sets -> mfs (merge_field_sets peq sets).
Proof. intros S. unfold merge_field_sets. apply fold_merge_step_mfs; auto. constructor. Qed.

Section Pass1.
  Variable registry : list pseudo.
  Variable replaces : list (pseudo * pseudo).
  Variable peq : N -> N -> bool.
  Notation optimize := (optimize registry replaces peq).
  Notation regroup := (regroup registry replaces peq).
  Notation nfo := (nfo registry).

  (* a semi-normal input: the pass theorem of (B) gives a normal form, which is semi-normal *)
  Lemma sn_pass_sn f t t' : sn t = true -> optimize f t = Some t' ->
    sn t' = true /\ (t <> TOpt TNull -> t' <> TOpt TNull).
  Proof.
    intros Hs H. destruct (G_all registry replaces peq f) as [G _]. destruct (G t t' Hs H) as [A [B [C _]]].
    split; [|exact C]. apply (nfo_sn registry); [exact A | exact B |].
    apply (optimize_tok false registry replaces peq f t t' (sn_gok t Hs) H).
  Qed.

  Definition items (ms : list ty) : Prop := forall x, In x ms -> sn x = true /\ is_opt x = false /\ is_union x = false.

  Lemma items_no_obj ms : items ms -> objs_of ms = [].
  Proof.
    intros W. destruct (objs_of ms) as [|f r] eqn:EO; [reflexivity|]. exfalso.
    assert (Hi : In f (objs_of ms)) by (rewrite EO; left; reflexivity).
    apply In_objs_of in Hi. apply W in Hi. destruct Hi as [Hi _]. discriminate Hi.
  Qed.
  Lemma items_deep ts : mm (TUnion ts) = true -> items (flat_map members_deep ts).
  Proof.
    unfold mm. rewrite members_deep_union, forallb_forall. intros H x Hx. split; [apply H; exact Hx|].
    apply (flat_map_members_deep_noopt ts x Hx).
  Qed.

  (* the regrouped list of any union whose deep work-list consists of semi-normal items *)
  Lemma regroup_items ms ts : items ms -> flat_map members_deep ts = ms ->
    (forall x, In x (regroup ts) ->
       (In x ms /\ is_list x = false /\ is_dict x = false) \/
       (x = TList (dunion (lists_of ms)) /\ lists_of ms <> []) \/
       (x = TDict (dunion (dicts_of ms)) /\ dicts_of ms <> []) \/ x = TStr \/ (exists p, x = TPseudo p)) /\
    count is_list (regroup ts) <= 1 /\ count is_dict (regroup ts) <= 1.
  Proof.
    intros W E. pose proof (items_no_obj ms W) as NO.
    rewrite (regroup_deep registry replaces peq ts ms E).
    assert (OB : objp peq ms = []) by (unfold objp; rewrite NO; reflexivity). rewrite OB, app_nil_r.
    assert (FA : forall x, In x (oth_of registry ms) -> In x ms /\ is_other registry x = true) by (apply oth_of_In).
    assert (A1 : count is_list (oth_of registry ms) = 0).
    { apply count_zero. intros x Hx. apply FA in Hx. destruct Hx as [_ Hx]. destruct x; try reflexivity. discriminate. }
    assert (A2 : count is_dict (oth_of registry ms) = 0).
    { apply count_zero. intros x Hx. apply FA in Hx. destruct Hx as [_ Hx]. destruct x; try reflexivity. discriminate. }
    assert (SR : forall x, In x (str_result replaces (filter (in_reg registry) ms)) -> x = TStr \/ exists p, x = TPseudo p).
    { intros x H. destruct (str_result_cases registry replaces (filter (in_reg registry) ms)) as [E1|[E1|[p [E1 _]]]];
        [intros y Hy; apply filter_In in Hy; apply Hy | | |]; rewrite E1 in H; [destruct H | |]; destruct H as [<-|[]]; eauto. }
    assert (S1 : count is_list (str_result replaces (filter (in_reg registry) ms)) = 0).
    { apply count_zero. intros x Hx. destruct (SR x Hx) as [->|[p ->]]; reflexivity. }
    assert (S2 : count is_dict (str_result replaces (filter (in_reg registry) ms)) = 0).
    { apply count_zero. intros x Hx. destruct (SR x Hx) as [->|[p ->]]; reflexivity. }
    split; [|split].
    - intros x. rewrite !in_app_iff. intros [[[H|H]|H]|H].
      + left. apply FA in H. destruct H as [H1 H2]. split; [exact H1|]. destruct x; try discriminate H2; split; reflexivity.
      + right. left. unfold listp in H. destruct (lists_of ms) eqn:EL; [destruct H|]. destruct H as [<-|[]]. split; [reflexivity|discriminate].
      + right. right. left. unfold dictp in H. destruct (dicts_of ms) eqn:EL; [destruct H|]. destruct H as [<-|[]]. split; [reflexivity|discriminate].
      + right. right. right. apply SR. exact H.
    - rewrite !count_app, A1, S1. destruct (listp_cases ms) as [-> | [fc ->]]; destruct (dictp_cases ms) as [-> | [fd ->]];
        unfold count; simpl; lia.
    - rewrite !count_app, A2, S2. destruct (listp_cases ms) as [-> | [fc ->]]; destruct (dictp_cases ms) as [-> | [fd ->]];
        unfold count; simpl; lia.
  Qed.

  (* the tail of _optimize_union over any list of semi-normal basic members with at most one list and one dict *)
  Lemma finish_sn T t' : (forall x, In x T -> sn x = true /\ basic x = true) ->
    count is_list T <= 1 -> count is_dict T <= 1 -> finish T = Some t' -> sn t' = true /\ t' <> TOpt TNull.
  Proof.
    intros HT CL CD H. destruct (le_lt_dec 2 (length T)) as [Hlen|Hlen].
    2:{ destruct T as [|a [|b r]]; [discriminate| | simpl in Hlen; lia]. simpl in H. inversion H; subst.
        destruct (HT t' (or_introl eq_refl)) as [A B]. split; [exact A|]. intros ->. discriminate B. }
    rewrite (finish_2 T Hlen) in H.
    assert (S1 : sub (fin_T1 T) T) by (unfold fin_T1; destruct (_ && _); [apply sub_remove_first | apply sub_refl]).
    assert (S2 : sub (fin_T2 T) T) by (eapply sub_trans; [apply sub_filter | exact S1]).
    set (T2 := fin_T2 T) in *.
    assert (B : forall x, In x T2 -> basic x = true) by (intros x Hx; apply HT; apply (sub_In _ _ _ S2 Hx)).
    assert (NN : forall x, In x T2 -> is_null x = false).
    { intros x Hx. unfold T2, fin_T2 in Hx. apply filter_In in Hx. apply negb_true_iff. apply Hx. }
    pose proof (basic_flatten T2 B) as FL.
    assert (FU : forall x, In x T2 -> is_union x = false) by (intros x Hx; apply (basic_parts x (B x Hx))).
    assert (M : forall x, In x (mk_union T2) -> sn x = true /\ is_opt x = false /\ is_union x = false /\ is_null x = false).
    { intros x Hx. apply mk_union_In in Hx. rewrite FL in Hx. destruct Hx as [[Hx _]|[->|[-> [_ [N [O _]]]]]].
      - destruct (basic_parts x (B x Hx)) as [U [O _]]. split; [apply HT; apply (sub_In _ _ _ S2 Hx)|]. auto.
      - auto.
      - repeat split; try reflexivity. simpl. unfold lit_ok. rewrite O, mk_ls_fix. simpl.
        destruct (mk_ls T2); [congruence|]. simpl. rewrite andb_true_r. apply strs_eqb_eq. reflexivity. }
    assert (Y : sn (union1 T2) = true /\ is_opt (union1 T2) = false /\ is_null (union1 T2) = false).
    { unfold union1. pose proof (mk_union_NoDup T2) as ND. pose proof (mk_union_count_lit T2) as CLit.
      pose proof (count_mk_union is_list T2 FU eq_refl (fun _ _ => eq_refl)) as C1.
      pose proof (count_mk_union is_dict T2 FU eq_refl (fun _ _ => eq_refl)) as C2.
      pose proof (sub_count is_list _ _ S2) as C3. pose proof (sub_count is_dict _ _ S2) as C4.
      destruct (mk_union T2) as [|a [|b r]] eqn:EM.
      - repeat split; reflexivity.
      - destruct (M a (or_introl eq_refl)) as [A1 [A2 [_ A4]]]. auto.
      - split; [|split; reflexivity]. cbn [sn]. apply andb_true_iff. split; [|apply forallb_forall; intros x Hx; apply M; exact Hx].
        unfold sn_union_ok. rewrite !andb_true_iff, !Nat.leb_le. repeat split; try lia.
        + apply forallb_forall. intros x Hx. destruct (M x Hx) as [_ [A2 [A3 A4]]]. rewrite A2, A3, A4. reflexivity.
        + apply NoDup_count_le1; [exact ND|]. intros x y Hx Hy. destruct x; try discriminate. destruct y; try discriminate. reflexivity.
        + apply NoDup_count_le1; [exact ND|]. intros x y Hx Hy. apply ty_eqb_eq in Hx, Hy. congruence. }
    destruct Y as [Y1 [Y2 Y3]].
    destruct (existsb is_null (fin_T1 T)); inversion H; subst t'.
    - split; [cbn [sn]; rewrite Y2; exact Y1|]. intros E. inversion E as [E']. rewrite E' in Y3. discriminate Y3.
    - split; [exact Y1|]. intros E. rewrite E in Y2. discriminate Y2.
  Qed.

  Definition Q1 (f : nat) : Prop := forall t t', mm t = true -> optimize f t = Some t' ->
    sn t' = true /\ (is_union t = true -> t' <> TOpt TNull).
  Definition Q2 (f : nat) : Prop := forall zs x', zs <> [] -> (forall z, In z zs -> sn z = true /\ z <> TOpt TNull) ->
    (optimize f (TList (dunion zs)) = Some x' -> sn x' = true) /\
    (optimize f (TDict (dunion zs)) = Some x' -> sn x' = true).

  Lemma sn_list_payloads ms : items ms ->
    (forall z, In z (lists_of ms) -> sn z = true /\ z <> TOpt TNull) /\
    (forall z, In z (dicts_of ms) -> sn z = true /\ z <> TOpt TNull).
  Proof.
    intros W. split; intros z Hz; [apply In_lists_of in Hz | apply In_dicts_of in Hz];
      apply W in Hz; destruct Hz as [Hz _]; cbn [sn] in Hz; destruct (sn_list_like z Hz); auto.
  Qed.

  Lemma Q_step f : Q1 f -> Q2 f -> Q1 (Datatypes.S f) /\ Q2 (Datatypes.S f).
  Proof.
    intros Q1f Q2f. split.
    - intros t t' Hm H. destruct (is_union t) eqn:U.
      + destruct t as [ | | | | | | p | o ls | z | z | z | ts | fs | i]; try discriminate U.
        pose proof (items_deep ts Hm) as W.
        destruct (regroup_items _ ts W eq_refl) as [RM [RL RD]].
        destruct (sn_list_payloads _ W) as [PL1 PL2].
        rewrite optimize_S in H.
        destruct (opt_list (optimize f) (regroup ts)) as [T|] eqn:EL; [|discriminate].
        apply opt_list_Forall2 in EL.
        assert (BL : forall x, In x (regroup ts) -> basic x = true).
        { intros x Hx. destruct (RM x Hx) as [[Hi _]|[[-> _]|[[-> _]|[->|[p ->]]]]]; try reflexivity.
          destruct (W x Hi) as [A [B C]]. apply sn_basic; assumption. }
        pose proof (Forall2_skel registry replaces peq f _ _ EL BL) as SK.
        assert (CT : forall g, (forall x, g (skel x) = g x) -> count g T = count g (regroup ts)).
        { intros g Hg. rewrite <- (count_skel g T Hg), <- (count_skel g (regroup ts) Hg), SK. reflexivity. }
        assert (BT : forall x, In x T -> basic x = true).
        { apply forallb_forall. rewrite <- (forallb_skel basic T), SK, forallb_skel;
            [apply forallb_forall; exact BL| |]; intros x; destruct x; reflexivity. }
        assert (ST : forall x', In x' T -> sn x' = true).
        { intros x' Hx'. destruct (Forall2_In_r _ _ _ _ EL Hx') as [x [Hx Ox]].
          destruct (RM x Hx) as [[Hi _]|[[-> NE]|[[-> NE]|[->|[p ->]]]]].
          - destruct (W x Hi) as [A _]. apply (sn_pass_sn f x x' A Ox).
          - apply (proj1 (Q2f _ x' NE PL1) Ox).
          - apply (proj2 (Q2f _ x' NE PL2) Ox).
          - destruct f; [discriminate|]. inversion Ox. reflexivity.
          - destruct f; [discriminate|]. inversion Ox. reflexivity. }
        destruct (finish_sn T t') as [A B]; auto.
        * rewrite CT; [exact RL | intros x; destruct x; reflexivity].
        * rewrite CT; [exact RD | intros x; destruct x; reflexivity].
      + split; [|discriminate]. destruct (is_opt t) eqn:O.
        * destruct t as [ | | | | | | p | o ls | z | z | z | ts | fs | i]; try discriminate O.
          rewrite mm_opt in Hm. rewrite optimize_S in H.
          destruct (optimize f z) as [y|] eqn:E; [|discriminate]. destruct (Q1f z y Hm E) as [Y _].
          assert (X : t' = if is_opt y then y else TOpt y) by (destruct y; inversion H; reflexivity).
          destruct (is_opt y) eqn:Oy; subst t'; [exact Y|]. cbn [sn]. rewrite Oy. exact Y.
        * rewrite (mm_item t O U) in Hm. apply (sn_pass_sn _ t t' Hm H).
    - intros zs x' NE HZ.
      assert (Mz : mm (dunion zs) = true).
      { unfold dunion. apply mm_union. apply mm_mk_union. intros z Hz. apply sn_mm. apply HZ. exact Hz. }
      split; intros H; rewrite optimize_S in H;
        (destruct (optimize f (dunion zs)) as [y|] eqn:E; [|discriminate]); simpl in H; inversion H; subst x';
        destruct (Q1f _ y Mz E) as [Y1 Y2]; cbn [sn]; rewrite Y1, andb_true_r; apply negb_true_iff;
        (destruct (ty_eqb y (TOpt TNull)) eqn:Q; [|reflexivity]); apply ty_eqb_eq in Q; exfalso; apply (Y2 eq_refl Q).
  Qed.

  Lemma Q_all : forall f, Q1 f /\ Q2 f.
  Proof.
    induction f as [|f [A B]].
    - split; [intros t t' _ H; discriminate H|]. intros zs x' _ _. split; intros H; discriminate H.
    - apply Q_step; assumption.
  Qed.

  (* (B4) one pass over a merged term ends in semi-normal form *)
  Theorem optimize_mm_sn fuel t t' : mm t = true -> optimize fuel t = Some t' -> sn t' = true.
  Proof. intros Hm H. destruct (Q_all fuel) as [Q _]. apply (Q t t' Hm H). Qed.

  Theorem optimize_fields_mm fuel fs fs' : keys_nodup fs = true -> Forall (fun kv : str * ty => mm (snd kv) = true) fs ->
    optimize_fields registry replaces peq fuel fs = Some fs' -> snf fs' = true.
  Proof.
    intros K Hs H. rewrite Forall_forall in Hs.
    unfold optimize_fields in H. destruct fuel as [|fuel]; [discriminate|]. rewrite optimize_S in H.
    destruct (opt_fields (optimize fuel) fs) as [fs2|] eqn:E; [|discriminate]. simpl in H. inversion H; subst fs2. clear H.
    apply opt_fields_Forall2 in E. unfold snf.
    rewrite (keys_nodup_fst fs' fs (Forall2_fst _ _ _ E)), K. cbn [andb].
    apply forallb_forall. intros kv' Hkv'. destruct (Forall2_In_r _ _ _ _ E Hkv') as [kv [Hkv [_ Okv]]].
    apply (optimize_mm_sn fuel (snd kv)); [apply Hs; exact Hkv | exact Okv].
  Qed.
End Pass1.

(* ------------------------------------------------------------------ *)
(* (C) the registry stage                                                                                  *)
(* ------------------------------------------------------------------ *)
Section Reg.
  Variable registry : list pseudo.
  Variable replaces : list (pseudo * pseudo).
  Notation nfo := (nfo registry).
  Notation opt_model := (opt_model registry replaces).
  Notation opt_all := (opt_all registry replaces).
  Notation merge_group := (merge_group registry replaces).
  Notation merge_models := (merge_models registry replaces).
  Notation mm_step := (mm_step registry replaces).
  Notation optf := (optimize_fields registry replaces N.eqb OPT_FUEL).
  Notation gnf := (gnf registry).

  Definition gsn (g : graph) : Prop := forall m, In m (ms g) -> snf (m_fields m) = true.

  Lemma gnf_gsn g : gwf g -> gnf g -> gsn g.
  Proof. intros W Hn m Hm. apply (nfw_snf registry); [apply Hn | apply W]; exact Hm. Qed.

  (* gwf through the group merges, without the rank certificate GraphSound.v needs for its semantic statement *)
  Lemma mg_mid_gwf g mbs : gwf g -> gwf (mg_mid g mbs).
  Proof.
    intros W m Hm. cbn [mg_mid ms] in Hm. apply in_map_iff in Hm as [m0 [<- Hm0]].
    cbn [ren_model m_fields]. apply (ren_fields_gokf mbs (nxt g)).
    apply in_app_or in Hm0 as [Hm0|[<-|[]]].
    - apply filter_In in Hm0 as [Hm0 _]. now apply W.
    - cbn [mg_new m_fields]. apply gokf_iff. split.
      + rewrite merge_field_sets_keys. apply dedup_keys_NoDup.
      + apply merge_field_sets_gfs. apply Forall_map. apply Forall_forall. intros m Hm.
        apply (proj2 (proj1 (gokf_iff _) (W m (mg_mods_in g mbs m Hm)))).
  Qed.
  Lemma merge_group_gwf g mbs g1 : gwf g -> merge_group g mbs = Some g1 -> gwf g1.
  Proof.
    intros W H. rewrite merge_group_eq in H.
    destruct (opt_model_frame registry replaces _ _ _ (mg_mid_gwf g mbs W) H) as [fs [fs' [_ [_ [_ [G [-> _]]]]]]].
    apply gwf_set_fields; [apply mg_mid_gwf; exact W | exact G].
  Qed.

  (* (N1), true part: the frame of opt_model is opt_model_frame above.  (N1) itself -- one opt_model pass puts model i
     into ordered normal form -- holds for semi-normal fields: *)
  Theorem opt_model_nfo g i g' : gwf g -> (forall fs, fields_of g i = Some fs -> snf fs = true) ->
    opt_model g i = Some g' ->
    exists fs', fields_of g' i = Some fs' /\ nfw registry fs' = true /\
      (forall j, j <> i -> find_model g' j = find_model g j).
  Proof.
    intros W Hs H. destruct (opt_model_frame registry replaces g i g' W H) as [fs [fs' [F [O [_ [_ [_ [F' [Fo _]]]]]]]]].
    exists fs'. split; [exact F'|]. split; [|exact Fo].
    destruct (optimize_fields_sn registry replaces N.eqb _ _ _ (Hs fs F) O) as [A B]. unfold nfw. rewrite A, B. reflexivity.
  Qed.

  (* one group merge keeps every model semi-normal: the members are semi-normal, so the merged fields are mm, so the
     optimisation at the end of merge_group leaves them semi-normal (optimize_fields_mm); all other models are renamed *)
  Theorem merge_group_gsn g mbs g1 : closed g -> gwf g -> gsn g -> merge_group g mbs = Some g1 -> gsn g1.
  Proof.
    intros C W Hs H. rewrite merge_group_eq in H.
    pose proof (mg_mid_gwf g mbs W) as Wm.
    destruct (opt_model_frame registry replaces _ _ _ Wm H) as [fs [fs' [F [O [_ [_ [-> _]]]]]]].
    assert (Fnew : fields_of (mg_mid g mbs) (nxt g) = Some (ren_fields mbs (nxt g) (m_fields (mg_new g mbs)))).
    { unfold fields_of. rewrite (mg_mid_find_new g mbs C). reflexivity. }
    rewrite Fnew in F. inversion F; subst fs. clear F.
    assert (Sfs' : snf fs' = true).
    { apply (optimize_fields_mm registry replaces N.eqb _ _ _) with (3 := O).
      - rewrite keys_nodup_nodup_keys. pose proof (fields_of_gokf _ _ _ Wm Fnew) as G. unfold tokf in G.
        apply andb_true_iff in G. apply G.
      - unfold ren_fields. apply Forall_map. cbn [snd]. cbn [mg_new m_fields].
        eapply Forall_impl; [|apply (merge_field_sets_mfs (ptr_eq_g g PTR_FUEL))].
        + intros kv Hkv. rewrite rename_mm. exact Hkv.
        + apply Forall_map. apply Forall_forall. intros m Hm. apply Forall_forall. intros kv Hkv.
          apply sn_mm. pose proof (Hs m (mg_mods_in g mbs m Hm)) as Sm. unfold snf in Sm.
          apply andb_true_iff in Sm as [_ Sm]. rewrite forallb_forall in Sm. apply Sm. exact Hkv. }
    intros m Hm. cbn [set_fields ms] in Hm. apply in_map_iff in Hm as [m0 [E Hm0]].
    destruct (N.eqb (m_idx m0) (nxt g)) eqn:Ei.
    - subst m. exact Sfs'.
    - subst m0. cbn [mg_mid ms] in Hm0. apply in_map_iff in Hm0 as [m1 [<- Hm1]].
      cbn [ren_model m_fields m_idx] in *. change (snf (ren_fields mbs (nxt g) (m_fields m1)) = true).
      rewrite snf_ren_fields. apply in_app_or in Hm1 as [Hm1|[<-|[]]].
      + apply filter_In in Hm1 as [Hm1 _]. apply Hs; assumption.
      + cbn [mg_new m_idx] in Ei. rewrite N.eqb_refl in Ei. discriminate Ei.
  Qed.

  Lemma fold_mm_step_gsn l : forall g reps gm reps',
    closed g -> gwf g -> gsn g ->
    fold_left mm_step l (Some (g, reps)) = Some (gm, reps') ->
    closed gm /\ gwf gm /\ gsn gm.
  Proof.
    induction l as [|grp rest IH]; intros g reps gm reps' C W Hb H.
    - simpl in H. injection H as <- <-. auto.
    - cbn [fold_left] in H.
      destruct (mm_step (Some (g, reps)) grp) as [[g1 reps1]|] eqn:E;
        [| rewrite fold_mm_step_none in H; discriminate].
      cbn [RegistryInv.mm_step] in E.
      set (ordered := filter (fun i => memN i grp) (map m_idx (ms g))) in E.
      destruct (merge_group g ordered) as [g1'|] eqn:MG; [| discriminate].
      injection E as -> <-.
      destruct (merge_group_inv registry replaces g ordered g1 C MG) as [C1 _].
      apply (IH g1 (reps ++ [(nxt g, grp)]) gm reps' C1 (merge_group_gwf _ _ _ W MG)); [|exact H].
      apply (merge_group_gsn g ordered g1 C W Hb MG).
  Qed.

  (* the final pass: semi-normal in, ordered normal form out, for every model *)
  Theorem final_pass_nfo gm g' : closed gm -> gwf gm -> gsn gm ->
    opt_all (map m_idx (ms gm)) (Some gm) = Some g' -> gnf g'.
  Proof.
    intros C W Hs H. pose proof C as [_ [_ [ND _]]].
    destruct (opt_all_fields registry replaces _ _ _ W ND H) as [W' [I' [A _]]].
    intros m' Hm'. assert (ND' : NoDup (map m_idx (ms g'))) by (rewrite I'; exact ND).
    pose proof (in_fields_of g' m' ND' Hm') as F'.
    assert (Hi : In (m_idx m') (map m_idx (ms gm))) by (rewrite <- I'; apply in_map; exact Hm').
    destruct (A _ Hi) as [fs [fs' [F [O F2]]]]. rewrite F2 in F'. inversion F'; subst fs'.
    apply fields_of_in in F as [m [Hm [_ <-]]].
    destruct (optimize_fields_sn registry replaces N.eqb _ _ _ (Hs m Hm) O) as [X Y]. unfold nfw. rewrite X, Y. reflexivity.
  Qed.

  (* the graph after the group merges, before the final pass *)
  Definition mm_mid (R : nat -> nat -> bool) (g : graph) : option (graph * list (N * list N)) :=
    match merge_groups R (seq 0 (length (ms g))) with
    | None => None
    | Some groups => fold_left mm_step (groupsN_of g groups) (Some (g, []))
    end.
  Lemma merge_models_mid R g g' reps : merge_models R g = Some (g', reps) ->
    exists gm, mm_mid R g = Some (gm, reps) /\ opt_all (map m_idx (ms gm)) (Some gm) = Some g'.
  Proof.
    intros H. apply merge_models_run in H as [groups [gm [E [F O]]]]. exists gm. unfold mm_mid. rewrite E. auto.
  Qed.

  (* (N2) every model of the result of merge_models is in ordered normal form (and wf3).  The hypothesis on the input
     graph is only that its models are semi-normal; graphs of normal forms (gnf) are a special case. *)
  Theorem merge_models_nfo R g g' reps :
    closed g -> gwf g -> gsn g -> merge_models R g = Some (g', reps) -> gnf g'.
  Proof.
    intros C W Hs H. destruct (merge_models_mid R g g' reps H) as [gm [M O]]. unfold mm_mid in M.
    destruct (merge_groups R (seq 0 (length (ms g)))) as [groups|]; [|discriminate].
    destruct (fold_mm_step_gsn _ _ _ _ _ C W Hs M) as [Cm [Wm Sm]].
    apply (final_pass_nfo gm g' Cm Wm Sm O).
  Qed.
  Corollary merge_models_nfo_gnf R g g' reps :
    closed g -> gwf g -> gnf g -> merge_models R g = Some (g', reps) -> gnf g'.
  Proof. intros C W Hn. apply merge_models_nfo; auto. apply gnf_gsn; assumption. Qed.

  (* (N3) after merge_models a further optimisation pass changes nothing, whatever the model and whatever the order *)
  Theorem merge_models_stable R g g' reps :
    closed g -> gwf g -> gsn g -> merge_models R g = Some (g', reps) ->
    (forall i g2, opt_model g' i = Some g2 -> g2 = g') /\
    (forall l g2, opt_all l (Some g') = Some g2 -> g2 = g').
  Proof.
    intros C W Hs H. pose proof (merge_models_nfo R g g' reps C W Hs H) as Hn'.
    pose proof (merge_models_closed registry replaces R g g' reps C H) as [_ [_ [ND _]]].
    split.
    - intros i g2. apply (opt_model_stable registry replaces); assumption.
    - intros l g2. apply (opt_all_stable registry replaces); assumption.
  Qed.
End Reg.

(* ------------------------------------------------------------------ *)
(* (D) registering a root model (proc / process_root) keeps the invariant: the models cut out of a normal form are
   semi-normal.  sn1 = sn with raw objects allowed (the shape of the output of generate); kind = head constructor,
   a raw object and a pointer having the same kind.                                                          *)
(* ------------------------------------------------------------------ *)
Definition kind (t : ty) : nat :=
  match t with
  | TInt => 0 | TFloat => 1 | TBool => 2 | TStr => 3 | TNull => 4 | TUnknown => 5 | TPseudo _ => 6 | TLit _ _ => 7
  | TOpt _ => 8 | TList _ => 9 | TDict _ => 10 | TUnion _ => 11 | TObj _ => 12 | TPtr _ => 12
  end.
Fixpoint sn1 (t : ty) : bool :=
  match t with
  | TLit o ls => negb o && lit_ok ls
  | TOpt x => negb (is_opt x) && sn1 x
  | TList x | TDict x => negb (ty_eqb x (TOpt TNull)) && sn1 x
  | TUnion ts => sn_union_ok ts && forallb sn1 ts
  | TObj fs => keys_nodup fs && forallb (fun kv => sn1 (snd kv)) fs
  | _ => true
  end.

Lemma nfo_sn1 registry : forall t, nfo registry t = true -> wf3 t = true -> sn1 t = true.
Proof.
  induction t using ty_ind2; intros Hn Hw; try reflexivity.
  - destruct (lit_facts registry _ _ Hn Hw) as [-> [L1 [L2 L3]]]. cbn [sn1]. unfold lit_ok.
    rewrite L3, L2. destruct ls; [congruence|]. simpl. rewrite andb_true_r. apply strs_eqb_eq. reflexivity.
  - assert (Hy : nfo registry t = true /\ is_opt t = false).
    { apply nfo_iff in Hn. destruct Hn as [A B]. simpl in A, B. apply andb_true_iff in A. destruct A as [A1 A2].
      apply negb_true_iff in A2. split; [apply nfo_iff; auto | exact A2]. }
    destruct Hy as [Hy O]. cbn [sn1]. rewrite O. simpl. apply IHt; auto.
  - cbn [wf3] in Hw. apply andb_true_iff in Hw as [A B]. cbn [sn1]. rewrite A. simpl. apply IHt; auto.
  - cbn [wf3] in Hw. apply andb_true_iff in Hw as [A B]. cbn [sn1]. rewrite A. simpl. apply IHt; auto.
  - destruct (nfo_union_parts registry ts Hn Hw) as [A [B [C D]]].
    destruct (union_ok_parts registry ts A) as [P1 [P2 [P3 [P4 [P5 [P6 [P7 [P8 [P9 [P10 P11]]]]]]]]]].
    rewrite Forall_forall in H.
    cbn [sn1]. apply andb_true_iff. split.
    + unfold sn_union_ok. rewrite !andb_true_iff, !Nat.leb_le. repeat split; try assumption.
      * apply forallb_forall. intros x Hx. destruct (P2 x Hx) as [U [Nn O]]. rewrite U, Nn, O. reflexivity.
      * rewrite count_zero; [lia|]. exact P11.
      * apply NoDup_count_le1; [exact P3|]. intros x y Hx Hy. apply ty_eqb_eq in Hx, Hy. congruence.
    + apply forallb_forall. intros x Hx. destruct (D x Hx) as [D1 D2]. apply H; auto.
  - apply nfo_iff in Hn. destruct Hn as [N O]. rewrite nf_obj in N. rewrite ordered_obj in O. cbn [wf3] in Hw.
    apply andb_true_iff in Hw as [K Hw]. cbn [sn1]. rewrite K. simpl. rewrite forallb_forall in *. rewrite Forall_forall in H.
    intros kv Hkv. apply H; auto. apply nfo_iff. split; auto.
Qed.

Definition keq (a b : ty) : Prop := kind a = kind b.
Lemma count_keq (f : ty -> bool) : (forall a b, kind a = kind b -> f a = f b) ->
  forall l l', Forall2 keq l l' -> count f l = count f l'.
Proof.
  intros Hf l l'. induction 1 as [|a b l l' K HF IH]; [reflexivity|]. rewrite !count_cons, IH, (Hf a b K). reflexivity.
Qed.
Lemma forallb_keq (f : ty -> bool) : (forall a b, kind a = kind b -> f a = f b) ->
  forall l l', Forall2 keq l l' -> forallb f l = forallb f l'.
Proof.
  intros Hf l l'. induction 1 as [|a b l l' K HF IH]; [reflexivity|]. simpl. rewrite IH, (Hf a b K). reflexivity.
Qed.
Ltac kind_tac := let a := fresh in let b := fresh in let K := fresh in
  intros a b K; destruct a; destruct b; try discriminate K; reflexivity.
Lemma sn_union_ok_keq l l' : Forall2 keq l l' -> sn_union_ok l = sn_union_ok l'.
Proof.
  intros H. unfold sn_union_ok.
  rewrite (count_keq is_list ltac:(kind_tac) l l' H), (count_keq is_dict ltac:(kind_tac) l l' H),
          (count_keq is_lit ltac:(kind_tac) l l' H), (count_keq is_unknown ltac:(kind_tac) l l' H),
          (count_keq (ty_eqb TInt) ltac:(kind_tac) l l' H).
  rewrite (forallb_keq (fun m => negb (is_union m) && negb (is_opt m) && negb (is_null m)) ltac:(kind_tac) l l' H).
  reflexivity.
Qed.

Definition gsn0 (g : graph) : Prop := forall m, In m (ms g) -> snf (m_fields m) = true.
Definition psn (t : ty) : Prop := forall par g t' g',
  proc t par g = (t', g') -> sn1 t = true -> gsn0 g ->
  gsn0 g' /\ sn t' = true /\ kind t' = kind t /\ (t' = TOpt TNull -> t = TOpt TNull).

Lemma psn_id t : (forall par g, proc t par g = (t, g)) -> sn t = sn1 t -> psn t.
Proof. intros E S par g t' g' H Hs G. rewrite E in H. inversion H; subst. rewrite S. auto. Qed.

Lemma psn_list par : forall ts, Forall psn ts -> forall g ts' g',
  proc_list par ts g = (ts', g') -> forallb sn1 ts = true -> gsn0 g ->
  gsn0 g' /\ forallb sn ts' = true /\ Forall2 keq ts' ts.
Proof.
  induction 1 as [|x r Hx Hr IH]; intros g ts' g' E S G.
  - simpl in E. inversion E; subst. split; [exact G|]. split; [reflexivity|constructor].
  - cbn [proc_list] in E. destruct (proc x par g) as [x' g1] eqn:E1.
    destruct (proc_list par r g1) as [r' g2] eqn:E2. inversion E; subst ts' g'. clear E.
    simpl in S. apply andb_true_iff in S as [S1 S2].
    destruct (Hx par g x' g1 E1 S1 G) as [G1 [A1 [K1 _]]].
    destruct (IH g1 r' g2 E2 S2 G1) as [G2 [A2 K2]].
    split; [exact G2|]. split; [simpl; rewrite A1, A2; reflexivity|]. constructor; assumption.
Qed.
Lemma psn_flds idx : forall fs : fields, Forall (fun kv => psn (snd kv)) fs -> forall g fs' g',
  proc_flds idx fs g = (fs', g') -> forallb (fun kv => sn1 (snd kv)) fs = true -> gsn0 g ->
  gsn0 g' /\ forallb (fun kv => sn (snd kv)) fs' = true /\ map fst fs' = map fst fs.
Proof.
  induction 1 as [|[k0 x] r Hx Hr IH]; intros g fs' g' E S G.
  - simpl in E. inversion E; subst. auto.
  - cbn [proc_flds] in E. destruct (proc x (Some (idx, k0)) g) as [x' g1] eqn:E1.
    destruct (proc_flds idx r g1) as [r' g2] eqn:E2. inversion E; subst fs' g'. clear E.
    simpl in S, Hx. apply andb_true_iff in S as [S1 S2].
    destruct (Hx _ g x' g1 E1 S1 G) as [G1 [A1 _]].
    destruct (IH g1 r' g2 E2 S2 G1) as [G2 [A2 K2]].
    split; [exact G2|]. split; [simpl; rewrite A1, A2; reflexivity|]. simpl. rewrite K2. reflexivity.
Qed.

Lemma kind_null x : kind x = kind TNull -> x = TNull.
Proof. destruct x; simpl; intros H; try discriminate H. reflexivity. Qed.

Theorem psn_all : forall t, psn t.
Proof.
  induction t using ty_ind2; try (apply psn_id; [reflexivity|reflexivity]).
  - (* TOpt *) intros par g t' g' E S G. cbn [proc] in E. destruct (proc t par g) as [x' g1] eqn:E1.
    inversion E; subst t' g'. cbn [sn1] in S. apply andb_true_iff in S as [S1 S2].
    destruct (IHt par g x' g1 E1 S2 G) as [G1 [A1 [K1 _]]].
    split; [exact G1|]. split.
    { cbn [sn]. rewrite A1, andb_true_r. rewrite <- S1. f_equal. revert K1. clear. destruct x', t; simpl; intros K; try discriminate K; reflexivity. }
    split; [reflexivity|]. intros Q. inversion Q as [Q']. subst x'. f_equal. apply kind_null. symmetry. exact K1.
  - (* TList *) intros par g t' g' E S G. cbn [proc] in E. destruct (proc t par g) as [x' g1] eqn:E1.
    inversion E; subst t' g'. cbn [sn1] in S. apply andb_true_iff in S as [S1 S2].
    destruct (IHt par g x' g1 E1 S2 G) as [G1 [A1 [K1 N1]]].
    split; [exact G1|]. split; [|split; [reflexivity|discriminate]].
    cbn [sn]. rewrite A1, andb_true_r. apply negb_true_iff. destruct (ty_eqb x' (TOpt TNull)) eqn:Q; [|reflexivity].
    apply ty_eqb_eq in Q. rewrite (N1 Q) in S1. vm_compute in S1. discriminate S1.
  - (* TDict *) intros par g t' g' E S G. cbn [proc] in E. destruct (proc t par g) as [x' g1] eqn:E1.
    inversion E; subst t' g'. cbn [sn1] in S. apply andb_true_iff in S as [S1 S2].
    destruct (IHt par g x' g1 E1 S2 G) as [G1 [A1 [K1 N1]]].
    split; [exact G1|]. split; [|split; [reflexivity|discriminate]].
    cbn [sn]. rewrite A1, andb_true_r. apply negb_true_iff. destruct (ty_eqb x' (TOpt TNull)) eqn:Q; [|reflexivity].
    apply ty_eqb_eq in Q. rewrite (N1 Q) in S1. vm_compute in S1. discriminate S1.
  - (* TUnion *) intros par g t' g' E S G. rewrite proc_union in E.
    destruct (proc_list par ts g) as [ts' g1] eqn:E1. inversion E; subst t' g'.
    cbn [sn1] in S. apply andb_true_iff in S as [S1 S2].
    destruct (psn_list par ts H g ts' g1 E1 S2 G) as [G1 [A1 K1]].
    split; [exact G1|]. split; [|split; [reflexivity|discriminate]].
    cbn [sn]. rewrite (sn_union_ok_keq ts' ts K1), S1, A1. reflexivity.
  - (* TObj *) intros par g t' g' E S G. rewrite proc_obj in E.
    destruct (proc_flds (nxt g) fs (obj_start par g)) as [fs' g2] eqn:E1. inversion E; subst t' g'. clear E.
    cbn [sn1] in S. apply andb_true_iff in S as [S1 S2].
    assert (G0 : gsn0 (obj_start par g)).
    { intros m Hm. cbn [obj_start ms] in Hm. apply in_app_or in Hm as [Hm|[<-|[]]]; [apply G; exact Hm | reflexivity]. }
    destruct (psn_flds (nxt g) fs H (obj_start par g) fs' g2 E1 S2 G0) as [G2 [A2 K2]].
    split; [|split; [reflexivity|split; [reflexivity|discriminate]]].
    intros m Hm. cbn [set_fields ms] in Hm. apply in_map_iff in Hm as [m0 [<- Hm0]].
    destruct (N.eqb (m_idx m0) (nxt g)); [|apply G2; exact Hm0].
    cbn [m_fields]. unfold snf. rewrite (keys_nodup_fst fs' fs K2), S1, A2. reflexivity.
Qed.

Theorem process_root_gsn registry fs name g idx g1 :
  process_root fs name g = (idx, g1) -> nfo registry (TObj fs) = true -> wf3 (TObj fs) = true -> gsn0 g -> gsn0 g1.
Proof.
  intros E Hn Hw G. unfold process_root in E. destruct (proc (TObj fs) None g) as [t' g'] eqn:E1.
  destruct (psn_all (TObj fs) None g t' g' E1 (nfo_sn1 registry _ Hn Hw) G) as [G' _].
  inversion E; subst. destruct name as [n|]; [|exact G'].
  intros m Hm. cbn [set_name ms] in Hm. apply in_map_iff in Hm as [m0 [<- Hm0]].
  destruct (N.eqb (m_idx m0) (nxt g)); [|apply G'; exact Hm0]. cbn [m_fields]. apply G'. exact Hm0.
Qed.

(* ------------------------------------------------------------------ *)
(* (N4) end to end                                                                                           *)
(* ------------------------------------------------------------------ *)
Section Pipeline.
  Variable registry : list pseudo.
  Variable replaces : list (pseudo * pseudo).
  Variable accepts : pseudo -> str -> bool.
  Variable n_regex : nat.
  Variable key_matches : nat -> str -> bool.
  Variable dict_fields : list str.

  Theorem pipeline_nfo R fuel samples fs name idx g1 g2 reps :
    samples_wf samples = true ->
    generate registry replaces accepts n_regex key_matches dict_fields fuel samples = Some fs ->
    process_root fs name empty_graph = (idx, g1) ->
    merge_models registry replaces R g1 = Some (g2, reps) ->
    gnf registry g2 /\
    (forall i g3, opt_model registry replaces g2 i = Some g3 -> g3 = g2) /\
    (forall l g3, opt_all registry replaces l (Some g2) = Some g3 -> g3 = g2).
  Proof.
    intros Wf G P M.
    assert (Wf' : Forall (fun s => wf_json (JObj s) = true) samples).
    { apply Forall_forall. unfold samples_wf in Wf. rewrite forallb_forall in Wf. exact Wf. }
    destruct (generate_shape registry replaces accepts n_regex key_matches dict_fields fuel samples fs Wf' G) as [O Pt].
    pose proof (generate_nfo registry replaces accepts n_regex key_matches dict_fields fuel samples fs G) as Hn.
    pose proof (generate_wf3 registry replaces accepts n_regex key_matches dict_fields fuel samples fs Wf G) as Hw.
    assert (W0 : gwf empty_graph) by (intros m []).
    destruct (process_root_sound accepts fs name empty_graph idx g1 P O Pt closed_empty W0) as [C1 [W1 _]].
    assert (S1 : gsn g1).
    { apply (process_root_gsn registry fs name empty_graph idx g1 P Hn Hw). intros m []. }
    split; [apply (merge_models_nfo registry replaces R g1 g2 reps C1 W1 S1 M)|].
    apply (merge_models_stable registry replaces R g1 g2 reps C1 W1 S1 M).
  Qed.
End Pipeline.

(* ------------------------------------------------------------------ *)
(* (N5) examples                                                                                           *)
(* ------------------------------------------------------------------ *)
Definition all_nfw (registry : list pseudo) (g : graph) : bool := forallb (fun m => nfw registry (m_fields m)) (ms g).
Definition all_snf (g : graph) : bool := forallb (fun m => snf (m_fields m)) (ms g).
Definition pass_all (registry : list pseudo) (replaces : list (pseudo * pseudo)) (g : graph) : option graph :=
  opt_all registry replaces (map m_idx (ms g)) (Some g).
Lemma all_nfw_gnf registry g : all_nfw registry g = true -> gnf registry g.
Proof. unfold all_nfw. rewrite forallb_forall. intros H m Hm. apply H. exact Hm. Qed.

(* the two runs of GraphSound.Ex: every model of the result is in ordered normal form (and wf3), the graph before the
   final pass is semi-normal (the hypothesis of merge_models_nfo_if holds), and a further pass is the identity *)
Module ExNF.
  Import GraphSound.Ex.
  Example sib_nf : all_nfw [] g_sib = true /\ pass_all [] [] g_sib = Some g_sib.
  Proof. vm_compute. auto. Qed.
  Example root_nf : all_nfw [] g_root = true /\ pass_all [] [] g_root = Some g_root.
  Proof. vm_compute. auto. Qed.
  Example sib_mid : match mm_mid [] [] Rsib g1 with Some (gm, _) => all_snf gm | None => false end = true.
  Proof. vm_compute. reflexivity. Qed.
  Example root_mid : match mm_mid [] [] Rroot g1 with Some (gm, _) => all_snf gm | None => false end = true.
  Proof. vm_compute. reflexivity. Qed.
  Example g1_nf : all_nfw [] g1 = true.
  Proof. vm_compute. reflexivity. Qed.
End ExNF.

(* COUNTEREXAMPLE to (N1) as first stated (one opt_model pass puts the model into ordered normal form), end to end:
   {a: {x: 1.5}, b: [{x: 1}, {x: true}, {y: 0}], c: {x: 2}}; the three nested models 1, 2, 3 are merged (in registry
   order) into model 4.  _merge builds x : Union[int, Optional[Union[bool, int]], float]: the Optional member hides
   a second int.  The optimisation inside merge_group removes ONE int (list.remove), and leaves
   x : Optional[Union[bool, int, float]], which is NOT a normal form (int beside float).  Only the final pass of
   merge_models repairs it: x : Optional[Union[bool, float]].  So the final pass is load bearing for merged models,
   not only for the renamed pointers. *)
Module Cex.
  Definition ka : str := [97%N]. Definition kb : str := [98%N]. Definition kc : str := [99%N].
  Definition kx : str := [120%N]. Definition ky : str := [121%N].
  Definition s1 : list (str * json) :=
    [(ka, JObj [(kx, JFloat 7%N)]);
     (kb, JArr [JObj [(kx, JInt 1%Z)]; JObj [(kx, JBool true)]; JObj [(ky, JInt 0%Z)]]);
     (kc, JObj [(kx, JInt 2%Z)])].
  Definition acc0 : pseudo -> str -> bool := fun _ _ => false.
  Definition km0 : nat -> str -> bool := fun _ _ => false.
  Definition fs0 : fields :=
    [(ka, TObj [(kx, TFloat)]);
     (kb, TList (TObj [(kx, TOpt (TUnion [TBool; TInt])); (ky, TOpt TInt)]));
     (kc, TObj [(kx, TInt)])].
  Example gen_run : generate [] [] acc0 0 km0 [] 10 [s1] = Some fs0.
  Proof. vm_compute. reflexivity. Qed.
  Definition g1 : graph := snd (process_root fs0 (Some [82%N]) empty_graph).
  Definition R3 (a b : nat) := (Nat.eqb a 1 && Nat.eqb b 2) || (Nat.eqb a 2 && Nat.eqb b 3).
  Example g1_ok : all_nfw [] g1 = true /\ merge_groups R3 (seq 0 (List.length (ms g1))) = Some [[1; 2; 3]].
  Proof. vm_compute. auto. Qed.
  Definition g_mid : graph := match merge_group [] [] g1 [1%N; 2%N; 3%N] with Some g => g | None => empty_graph end.
  (* after merge_group (which ends with opt_model on the merged model 4): not a normal form *)
  Example merge_group_not_nfo :
    merge_group [] [] g1 [1%N; 2%N; 3%N] = Some g_mid /\
    fields_of g_mid 4%N = Some [(kx, TOpt (TUnion [TBool; TInt; TFloat])); (ky, TOpt TInt)] /\
    nfw [] (fields_of_d g_mid 4%N) = false /\ snf (fields_of_d g_mid 4%N) = true.
  Proof. vm_compute. auto. Qed.
  (* the whole merge_models run: the final pass repairs it, and a third pass is the identity *)
  Definition g2 : graph := match merge_models [] [] R3 g1 with Some (g, _) => g | None => empty_graph end.
  Example merge_models_nfo_run :
    merge_models [] [] R3 g1 = Some (g2, [(4%N, [1%N; 2%N; 3%N])]) /\
    mm_mid [] [] R3 g1 = Some (g_mid, [(4%N, [1%N; 2%N; 3%N])]) /\
    fields_of g2 4%N = Some [(kx, TOpt (TUnion [TBool; TFloat])); (ky, TOpt TInt)] /\
    all_nfw [] g2 = true /\ pass_all [] [] g2 = Some g2.
  Proof. vm_compute. auto. Qed.
End Cex.

(* the theorems apply to these runs (non-vacuity of the hypotheses of pipeline_nfo) *)
Module ExApply.
  Import Cex.
  Example root_run : process_root fs0 (Some [82%N]) empty_graph = (0%N, g1).
  Proof. vm_compute. reflexivity. Qed.
  Example cex_pipeline : gnf [] g2 /\ (forall l g3, opt_all [] [] l (Some g2) = Some g3 -> g3 = g2).
  Proof.
    destruct merge_models_nfo_run as [E _].
    destruct (pipeline_nfo [] [] acc0 0 km0 [] R3 10 [s1] fs0 (Some [82%N]) 0%N g1 g2 _ eq_refl gen_run root_run E) as [A [_ B]].
    split; assumption.
  Qed.
  Example sib_pipeline : gnf [] GraphSound.Ex.g_sib.
  Proof.
    destruct GraphSound.Ex.sib_run as [E _].
    exact (proj1 (pipeline_nfo [] [] GraphSound.Ex.acc0 0 GraphSound.Ex.km0 [] GraphSound.Ex.Rsib 10 GraphSound.Ex.samples
                    GraphSound.Ex.fs0 (Some [82%N]) 0%N GraphSound.Ex.g1 GraphSound.Ex.g_sib _ eq_refl
                    GraphSound.Ex.gen_run GraphSound.Ex.root_run E)).
  Qed.
End ExApply.

(* Formal record of a repaired defect (D32): regroup_old is regroup with the shallow work-list (ts itself instead of
   flat_map members_deep ts), optimize_old the same optimize over it.  On t0 two passes of the old code still leave a
   union with TWO list members; the repaired code needs one pass. *)
Module OldRegroup.
  Section Old.
    Variable registry : list pseudo.
    Variable replaces : list (pseudo * pseudo).
    Variable ptr_eq : N -> N -> bool.
    Definition regroup_old (ts : list ty) : list ty :=
      let '(strs, objs, lists, dicts, other) := fold_left (split_step registry) ts ([], [], [], [], []) in
      let other := if existsb (ty_eqb TInt) other && existsb (ty_eqb TFloat) other
                   then remove_first (ty_eqb TInt) other else other in
      let other := other ++ (match objs with [] => [] | _ => [TObj (merge_field_sets ptr_eq objs)] end) in
      let other := other ++ (match lists with [] => [] | _ => [TList (dunion lists)] end) in
      let other := other ++ (match dicts with [] => [] | _ => [TDict (dunion dicts)] end) in
      other ++ str_result replaces strs.
    Fixpoint optimize_old (fuel : nat) (t : ty) {struct fuel} : option ty :=
      match fuel with O => None | Datatypes.S fuel =>
      let opt_list := fix go (l : list ty) : option (list ty) :=
          match l with
          | [] => Some []
          | x :: r => match optimize_old fuel x, go r with Some x', Some r' => Some (x' :: r') | _, _ => None end
          end in
      let opt_fields := fix go (l : fields) : option fields :=
          match l with
          | [] => Some []
          | (k, x) :: r => match optimize_old fuel x, go r with Some x', Some r' => Some ((k, x') :: r') | _, _ => None end
          end in
      match t with
      | TObj fs => option_map TObj (opt_fields fs)
      | TOpt x => match optimize_old fuel x with Some (TOpt y) => Some (TOpt y) | Some y => Some (TOpt y) | None => None end
      | TList x => option_map TList (optimize_old fuel x)
      | TDict x => option_map TDict (optimize_old fuel x)
      | TLit o ls => Some (if o || match ls with [] => true | _ => false end then TStr else t)
      | TUnion ts => match opt_list (regroup_old ts) with None => None | Some types => finish types end
      | _ => Some t
      end end.
  End Old.
  Definition t0 : ty := TUnion [TOpt (TUnion [TOpt (TUnion [TList TInt; TBool]); TFloat]); TList TStr].
  Definition twice (f : ty -> option ty) (t : ty) : option ty := match f t with Some x => f x | None => None end.
  Example old_two_passes_two_lists :
    twice (optimize_old [] [] N.eqb 20) t0 = Some (TOpt (TUnion [TBool; TFloat; TList TInt; TList TStr])) /\
    nfo [] (TOpt (TUnion [TBool; TFloat; TList TInt; TList TStr])) = false.
  Proof. vm_compute. auto. Qed.
  Example new_one_pass :
    optimize [] [] N.eqb 20 t0 = Some (TOpt (TUnion [TBool; TFloat; TList (TUnion [TInt; TStr])])) /\
    mm t0 = true /\ nfo [] (TOpt (TUnion [TBool; TFloat; TList (TUnion [TInt; TStr])])) = true.
  Proof. vm_compute. auto. Qed.
End OldRegroup.

(* NOT PROVED:
   - Totality at the fixed fuel: merge_models_stable and opt_model_stable say that IF a further pass returns Some g2
     THEN g2 is the graph itself; that opt_model g' i is never None (the fuel OPT_FUEL = 60 suffices, no IndexError on
     an empty union) is not proved here.  NormalForm.optimize_total_nfo gives some sufficient fuel for each normal
     form (gnf_fields_fix: every field set of the result is a fixpoint of optimize_fields for all large enough fuel),
     not a bound by 60; on the concrete runs of ExNF / Cex the further pass is computed and equals Some g.
   - The old (shallow) regroup is recorded on a hand written term (OldRegroup.t0), not on a registry run.
   Nothing else is left open: (N1) in its true form, (N2), (N3), (N4) carry no hypothesis beyond closed / gwf / gsn of the
   input graph, all of which the pipeline establishes (pipeline_nfo needs only samples_wf). *)

Print Assumptions opt_model_frame.
Print Assumptions opt_model_nfo.
Print Assumptions optimize_sn_nfo.
Print Assumptions optimize_mm_sn.
Print Assumptions merge_group_gsn.
Print Assumptions merge_models_nfo.
Print Assumptions merge_models_stable.
Print Assumptions gnf_fields_fix.
Print Assumptions process_root_gsn.
Print Assumptions pipeline_nfo.
Print Assumptions Cex.merge_group_not_nfo.
Print Assumptions Cex.merge_models_nfo_run.
Print Assumptions ExApply.cex_pipeline.
Print Assumptions OldRegroup.old_two_passes_two_lists.
