(* Proofs/GraphSound.v -- C01 lifted to the graph stage (Model/Registry.v): registering nested objects as models
   (proc / process_root), structural pointer equality (ptr_eq_g), merging a group of models (merge_group) and the
   whole merge_models run never lose a value.  Semantics: the strict reading htg accepts (fields_of g) false of
   Proofs/Sound.v relative to the model table of the graph; the official ht follows by htg_ht.

   Map (G1-G7 = the obligations of the task):
   (0) jsize.  (1) tok b: well-formed terms; gok = tok false (no raw object: the shape of registered model fields),
       tok true = okt0 (the shape of the output of generate); tok is kept by mk_union, merge_field_sets, regroup,
       finish, optimize (optimize_tok); on gok terms optimize never consults the pointer comparison (optimize_gok).
   (4) transport: htg mf1 v t -> htg mf2 v (rename mbs new t), by induction on the SIZE OF THE VALUE; the pointer
       case is a hypothesis that may use the statement for strictly smaller values (merged graphs are cyclic).
   (5) gwf g: every model of g has gokf fields.  With closed (RegistryInv.v) this is the graph invariant.
   (G3) ptr_eq_g_sound.  opt_model_sound.  (G4) merge_group_sound.  (G5) merge_models_sound, renaming rho reps.
   (G1) proc_all_spec / proc_sound (+ proc_closed_gwf).  (G2) process_root_sound; htg_frame, process_root_frame.
   generate_shape: the output of generate is okt0 and pointer-free.  generate_sound_strict.
   (G6) pipeline_sound_strict, pipeline_sound: no side condition beyond wf_json of the samples and the rank
       certificate of Sound.v.  (G7) Module Ex: a sibling merge and a root-with-child merge (cyclic result).
   No axioms; every statement in the file is proved. *)
From Coq Require Import List Bool Arith NArith ZArith Lia.
From J2M.Model Require Import Base Union Merge Optimize Detect Groups Registry.
From J2M.Sem Require Import HasType NF.
From J2M.Proofs Require Import Sound RegistryInvAux RegistryInv.
Import ListNotations.

(* ------------------------------------------------------------------ *)
(* (0) size of a value                                                  *)
(* ------------------------------------------------------------------ *)
Fixpoint jsize (v : json) : nat :=
  match v with
  | JArr l => S ((fix go (l : list json) : nat := match l with [] => 0 | x :: r => jsize x + go r end) l)
  | JObj l => S ((fix go (l : list (str * json)) : nat := match l with [] => 0 | kv :: r => jsize (snd kv) + go r end) l)
  | _ => 1
  end.
Lemma jsize_arr e l : In e l -> jsize e < jsize (JArr l).
Proof.
  simpl. induction l as [|x r IH]; intros H; [destruct H|]. destruct H as [->|H]; [lia|].
  specialize (IH H). lia.
Qed.
Lemma jsize_obj kv l : In kv l -> jsize (snd kv) < jsize (JObj l).
Proof.
  simpl. induction l as [|x r IH]; intros H; [destruct H|]. destruct H as [->|H]; [lia|].
  specialize (IH H). lia.
Qed.

(* ------------------------------------------------------------------ *)
(* (1) well-formed terms.  tok b: literals are well formed (as in okt0) and raw objects have unique keys;
   with b = false raw objects are moreover forbidden: gok = tok false is the shape of the fields of a
   registered model, tok true = okt0 is the shape of the output of generate.                          *)
(* ------------------------------------------------------------------ *)
Fixpoint tok (b : bool) (t : ty) : bool :=
  match t with
  | TLit o ls => if o then match ls with [] => true | _ => false end else match ls with [] => false | _ => true end
  | TOpt x | TList x | TDict x => tok b x
  | TUnion ts => (fix all l := match l with [] => true | x :: r => tok b x && all r end) ts
  | TObj fs => b && nodup_keys fs &&
               (fix all (l : fields) := match l with [] => true | (_, x) :: r => tok b x && all r end) fs
  | _ => true
  end.
Definition tokf (b : bool) (fs : fields) : bool := nodup_keys fs && forallb (fun kv => tok b (snd kv)) fs.
Notation gok := (tok false).
Notation gokf := (tokf false).
Notation toks b := (Forall (fun x => tok b x = true)).
Notation goks := (toks false).
Lemma tok_union b ts : tok b (TUnion ts) = forallb (tok b) ts.
Proof. simpl. induction ts as [|x r IH]; simpl; auto; try (now rewrite IH). Qed.
Lemma tok_obj b fs : tok b (TObj fs) = b && tokf b fs.
Proof.
  unfold tokf. simpl. rewrite <- andb_assoc. f_equal. f_equal.
  induction fs as [|[k x] r IH]; simpl; auto; try (now rewrite IH).
Qed.
Lemma tok_union_Forall b ts : tok b (TUnion ts) = true <-> toks b ts.
Proof. rewrite tok_union, forallb_forall, Forall_forall. tauto. Qed.
Notation gok_union_Forall := (tok_union_Forall false).
Lemma tok_true_okt0 : forall t, tok true t = okt0 t.
Proof.
  induction t using ty_ind2; auto.
  - rewrite tok_union, okt0_union. induction H as [|x r Hx Hr IH]; simpl; auto. now rewrite Hx, IH.
  - rewrite tok_obj, okt0_obj. unfold tokf, okf0. simpl. f_equal.
    induction H as [|x r Hx Hr IH]; simpl; auto. now rewrite Hx, IH.
Qed.
Lemma gok_okt : forall t, gok t = true -> okt t = true.
Proof.
  induction t using ty_ind2; intros O; auto; try (simpl in O; discriminate).
  rewrite tok_union in O. rewrite okt_union. rewrite forallb_forall in *. rewrite Forall_forall in H. auto.
Qed.
Lemma gokf_okf fs : gokf fs = true -> okf fs = true.
Proof.
  unfold tokf, okf. intros H. apply andb_prop in H as [H1 H2]. rewrite H1. simpl.
  rewrite forallb_forall in *. intros x Hx. apply gok_okt. auto.
Qed.
Lemma tokf_iff b fs : tokf b fs = true <-> NoDup (map fst fs) /\ Forall (fun kv => tok b (snd kv) = true) fs.
Proof.
  unfold tokf. rewrite andb_true_iff, forallb_forall, Forall_forall. split; intros [A B]; split; auto.
  - now apply nodup_keys_NoDup.
  - now apply NoDup_nodup_keys.
Qed.
Notation gokf_iff := (tokf_iff false).
Lemma gokf_okf0 fs : gokf fs = true -> okt0 (TObj fs) = true.
Proof.
  intros H. rewrite okt0_obj. unfold okf0. unfold tokf in H. apply andb_prop in H as [H1 H2]. rewrite H1. simpl.
  rewrite forallb_forall in *. intros x Hx. apply okt_okt0, gok_okt. auto.
Qed.

Lemma flat_tok b : forall t, tok b t = true -> toks b (flat t).
Proof.
  induction t using ty_ind2; intros O; try (constructor; [exact O|constructor]).
  apply tok_union_Forall in O. simpl.
  induction H as [|x r Hx Hr IH]; [constructor|].
  inversion O; subst. apply Forall_app. split; auto.
Qed.
Lemma add_unique_tok b u t : toks b u -> tok b t = true -> toks b (add_unique u t).
Proof.
  unfold add_unique. intros Hu Ht. destruct (existsb (ty_eqb t) u); auto.
  apply Forall_app. split; auto.
Qed.
Lemma union_step_tok b st t : toks b (fst (fst st)) -> tok b t = true -> toks b (fst (fst (union_step st t))).
Proof.
  destruct st as [[u ul] ls]. simpl. intros Hu Ht.
  destruct t; simpl; try (apply add_unique_tok; auto).
  destruct (negb ul); simpl; auto. destruct overflow; simpl; auto.
Qed.
Lemma union_fold_tok b : forall l st, toks b (fst (fst st)) -> toks b l -> toks b (fst (fst (fold_left union_step l st))).
Proof.
  induction l as [|t r IH]; simpl; intros st Hu Hl; auto.
  inversion Hl; subst. apply IH; auto. apply union_step_tok; auto.
Qed.
Lemma mk_union_tok b ts : toks b ts -> toks b (mk_union ts).
Proof.
  intros H. unfold mk_union.
  assert (F : toks b (flatten_union ts)) by (apply flat_tok, tok_union_Forall, H).
  pose proof (union_fold_tok b (flatten_union ts) ([], true, []) (Forall_nil _) F) as U.
  destruct (fold_left union_step (flatten_union ts) ([], true, [])) as [[u ul] ls]. simpl in U.
  assert (S : forall u', toks b u' -> toks b (add_unique u' TStr)) by (intros; apply add_unique_tok; auto).
  destruct ls as [|l0 lr].
  - destruct ul; auto.
  - destruct ul; auto. destruct (lit_overflow (l0 :: lr)); auto.
    apply Forall_app. split; auto.
Qed.
Lemma union1_tok b ts : toks b ts -> tok b (union1 ts) = true.
Proof.
  intros H. apply mk_union_tok in H. unfold union1.
  destruct (mk_union ts) as [|x [|y r]] eqn:E.
  - reflexivity.
  - now inversion H.
  - now apply tok_union_Forall.
Qed.
Lemma dunion_tok b ts : toks b ts -> tok b (dunion ts) = true.
Proof. intros H. apply tok_union_Forall, mk_union_tok, H. Qed.
Lemma members_tok b t : tok b t = true -> toks b (members t).
Proof. destruct t; simpl members; intros H; try (constructor; [exact H|constructor]). now apply tok_union_Forall. Qed.
Lemma wrap_opt_tok b t : tok b (wrap_opt t) = tok b t.
Proof. unfold wrap_opt. destruct (is_opt t); reflexivity. Qed.
Lemma members_deep_tok b : forall t, tok b t = true -> toks b (members_deep t).
Proof.
  induction t using ty_ind2; intros O; try (constructor; [exact O|constructor]).
  - simpl. constructor; [reflexivity|]. apply IHt. exact O.
  - apply tok_union_Forall in O. rewrite Sound.members_deep_union.
    induction H as [|x r Hx Hr IH]; [constructor|].
    inversion O; subst. simpl. apply Forall_app. split; auto.
Qed.
Lemma flat_map_members_deep_tok b ts : toks b ts -> toks b (flat_map members_deep ts).
Proof.
  induction 1 as [|x r Hx Hr IH]; simpl; [constructor|]. apply Forall_app. split; auto.
  now apply members_deep_tok.
Qed.

(* ------------------------------------------------------------------ *)
(* (2) tok through merge_field_sets                                                                     *)
(* ------------------------------------------------------------------ *)
Notation tfs b := (Forall (fun kv : str * ty => tok b (snd kv) = true)).
Notation gfs := (tfs false).
Lemma update_tfs b k t (fs : fields) : tfs b fs -> tok b t = true -> tfs b (update k t fs).
Proof.
  induction fs as [|[k' t'] r IH]; simpl; intros H G.
  - constructor; auto.
  - inversion H; subst. destruct (str_eqb k k'); constructor; auto.
Qed.
Lemma lookup_tfs b k t (fs : fields) : tfs b fs -> lookup k fs = Some t -> tok b t = true.
Proof. intros H L. apply lookup_In in L. rewrite Forall_forall in H. apply (H _ L). Qed.
Lemma merge_field_tfs b peq first acc name field :
  tfs b acc -> tok b field = true -> tfs b (merge_field peq first acc (name, field)).
Proof.
  intros A G. unfold merge_field. destruct (lookup name acc) as [fo|] eqn:E.
  - pose proof (lookup_tfs _ _ _ _ A E) as Gfo.
    assert (U : tok b (union1 (members field ++ members fo)) = true).
    { apply union1_tok. apply Forall_app. split; apply members_tok; auto. }
    destruct fo;
      try (destruct (py_eq peq _ field); [assumption|];
           destruct field;
           try (apply update_tfs; auto; fail);
           match goal with |- context [py_eq peq ?a ?b] => destruct (py_eq peq a b) end;
           apply update_tfs; auto).
    destruct (py_eq peq (TOpt fo) field || py_eq peq fo field); [assumption|].
    apply update_tfs; auto. simpl. apply union1_tok. apply Forall_app. split; apply members_tok; auto.
  - apply update_tfs; auto. destruct (first || is_opt field); auto.
Qed.
Lemma fold_merge_field_tfs b peq first : forall model acc, tfs b acc -> tfs b model -> tfs b (fold_left (merge_field peq first) model acc).
Proof.
  induction model as [|[k t] r IH]; simpl; intros acc A M; auto.
  inversion M; subst. apply IH; auto. apply merge_field_tfs; auto.
Qed.
Lemma merge_step_tfs b peq first acc model : tfs b acc -> tfs b model -> tfs b (snd (merge_step peq (first, acc) model)).
Proof.
  intros A M. unfold merge_step. simpl.
  pose proof (fold_merge_field_tfs b peq first model acc A M) as H.
  apply Forall_map. eapply Forall_impl; [|exact H]. intros kt Hkt.
  destruct (_ && _); simpl; auto. now rewrite wrap_opt_tok.
Qed.
Lemma fold_merge_step_tfs b peq : forall sets st, tfs b (snd st) -> Forall (fun fs : fields => tfs b fs) sets ->
  tfs b (snd (fold_left (merge_step peq) sets st)).
Proof.
  induction sets as [|s r IH]; intros [first acc] A S; cbn [fold_left]; auto.
  inversion S; subst. apply IH; auto.
  apply (merge_step_tfs b peq first acc s A). assumption.
Qed.
Lemma merge_field_sets_tfs b peq sets : Forall (fun fs : fields => tfs b fs) sets -> tfs b (merge_field_sets peq sets).
Proof. intros S. unfold merge_field_sets. apply fold_merge_step_tfs; auto. constructor. Qed.
Lemma merge_field_sets_tokf b peq sets : Forall (fun fs => tokf b fs = true) sets -> tokf b (merge_field_sets peq sets) = true.
Proof.
  intros S. apply tokf_iff. split.
  - rewrite merge_field_sets_keys. apply dedup_keys_NoDup.
  - apply merge_field_sets_tfs. eapply Forall_impl; [|exact S]. intros a Ha. now apply tokf_iff in Ha.
Qed.

(* ------------------------------------------------------------------ *)
(* (3) tok through optimisation; on object-free terms the pointer comparison is never consulted         *)
(* ------------------------------------------------------------------ *)
Definition catg (b : bool) (st : cats) : Prop :=
  let '(strs, objs, lists, dicts, other) := st in
  toks b strs /\ Forall (fun f => b = true /\ tokf b f = true) objs /\ toks b lists /\ toks b dicts /\ toks b other.
Lemma add_null_g b st : catg b st -> catg b (add_null st).
Proof.
  destruct st as [[[[strs objs] lists] dicts] other]. simpl. intros [A [B [C [D E]]]].
  repeat split; auto. apply Forall_app. split; auto.
Qed.
Lemma classify_g b registry st t : catg b st -> tok b t = true -> catg b (classify registry st t).
Proof.
  destruct st as [[[[strs objs] lists] dicts] other]. intros [A [B [C [D E]]]] O.
  assert (Def : catg b (if in_reg registry t then (strs ++ [t], objs, lists, dicts, other)
                        else (strs, objs, lists, dicts, other ++ [t]))).
  { destruct (in_reg registry t) eqn:R; simpl; repeat split; auto; apply Forall_app; split; auto. }
  destruct t; try exact Def; simpl; repeat split; auto; apply Forall_app; split; auto.
  rewrite tok_obj in O. apply andb_prop in O as [O1 O2]. constructor; auto.
Qed.
Lemma split_fold_g b registry : forall ts st, catg b st -> toks b ts -> catg b (fold_left (split_step registry) ts st).
Proof.
  induction ts as [|t r IH]; intros st I O; cbn [fold_left]; auto.
  inversion O as [|? ? Ot Or]; subst. apply IH; auto.
  rewrite split_step_eq. destruct t; try (apply classify_g; assumption).
  apply classify_g; [now apply add_null_g|exact Ot].
Qed.
Lemma regroup_tok b registry replaces peq ts : toks b ts -> toks b (regroup registry replaces peq ts).
Proof.
  intros O. unfold regroup.
  assert (I0 : catg b ([], [], [], [], [])) by (simpl; repeat split; constructor).
  pose proof (split_fold_g b registry (flat_map members_deep ts) _ I0 (flat_map_members_deep_tok b ts O)) as I.
  destruct (fold_left (split_step registry) (flat_map members_deep ts) ([], [], [], [], []))
    as [[[[strs objs] lists] dicts] other].
  destruct I as [Is [Io [Il [Id Ie]]]].
  set (other' := if existsb (ty_eqb TInt) other && existsb (ty_eqb TFloat) other
                 then remove_first (ty_eqb TInt) other else other).
  assert (Oo' : toks b other').
  { unfold other'. destruct (_ && _); auto. rewrite Forall_forall in *. intros x Hx.
    apply Ie. eapply remove_first_sub; eauto. }
  repeat (apply Forall_app; split); auto.
  - destruct objs as [|f0 fr] eqn:Eo; [constructor|]. rewrite <- Eo in *. constructor; [|constructor].
    assert (Eb : b = true) by (subst objs; inversion Io as [|? ? [X _] _]; exact X).
    rewrite tok_obj. apply andb_true_intro. split; [exact Eb|]. apply merge_field_sets_tokf.
    eapply Forall_impl; [|exact Io]. simpl. tauto.
  - destruct lists; [constructor|]. constructor; [|constructor]. simpl. now apply dunion_tok.
  - destruct dicts; [constructor|]. constructor; [|constructor]. simpl. now apply dunion_tok.
  - unfold str_result. destruct (existsb is_str strs); [repeat constructor|].
    destruct strs; [constructor|]. cbv zeta.
    destruct (resolve _ _ _) as [|q0 [|q1 qr]]; repeat constructor.
Qed.
Lemma regroup_peq registry replaces peq peq' ts : goks ts ->
  regroup registry replaces peq ts = regroup registry replaces peq' ts.
Proof.
  intros O. unfold regroup.
  assert (I0 : catg false ([], [], [], [], [])) by (simpl; repeat split; constructor).
  pose proof (split_fold_g false registry (flat_map members_deep ts) _ I0 (flat_map_members_deep_tok false ts O)) as I.
  destruct (fold_left (split_step registry) (flat_map members_deep ts) ([], [], [], [], []))
    as [[[[strs objs] lists] dicts] other].
  destruct I as [_ [Io _]]. destruct objs as [|f0 fr]; [reflexivity|].
  inversion Io as [|? ? [X _] _]. discriminate.
Qed.
Lemma finish_tok b types t' : toks b types -> finish types = Some t' -> tok b t' = true.
Proof.
  intros N F. destruct types as [|x [|y r]]; [discriminate| |].
  - inversion F; subst. now inversion N.
  - remember (x :: y :: r) as types eqn:ET.
    assert (F' : Some (let types1 := if existsb is_unknown types && existsb (fun t => negb (is_unknown t) && negb (is_null t)) types
                 then remove_first is_unknown types else types in
             if existsb is_null types1 then TOpt (union1 (filter (fun x => negb (is_null x)) types1))
             else union1 (filter (fun x => negb (is_null x)) types1)) = Some t').
    { rewrite <- F. subst types. reflexivity. }
    clear F. inversion F' as [F]. clear F'. cbv zeta.
    set (types1 := if existsb is_unknown types && existsb (fun t => negb (is_unknown t) && negb (is_null t)) types
                 then remove_first is_unknown types else types).
    assert (N1 : toks b (filter (fun x => negb (is_null x)) types1)).
    { rewrite Forall_forall in *. intros z Hz. apply filter_In in Hz as [Hz _]. apply N.
      unfold types1 in Hz. destruct (_ && _); auto. eapply remove_first_sub; eauto. }
    apply union1_tok in N1. destruct (existsb is_null types1); simpl; exact N1.
Qed.
Lemma olist_tok b (o o' : ty -> option ty) : forall l l',
  toks b l -> (forall x x', tok b x = true -> o x = Some x' -> tok b x' = true /\ o' x = Some x') ->
  olist o l = Some l' -> toks b l' /\ olist o' l = Some l'.
Proof.
  induction l as [|x r IH]; simpl; intros l' G HI H.
  - inversion H. split; auto.
  - inversion G; subst.
    destruct (o x) as [x'|] eqn:E; [|discriminate]. destruct (olist o r) as [r'|] eqn:E'; [|discriminate].
    inversion H; subst. destruct (HI x x') as [A B]; auto. destruct (IH r') as [C D]; auto.
    rewrite B. fold (olist o' r). rewrite D. split; auto.
Qed.
Lemma ofields_tok b (o o' : ty -> option ty) : forall (l l' : fields),
  tfs b l ->
  (forall x x', tok b x = true -> o x = Some x' -> tok b x' = true /\ o' x = Some x') ->
  ofields o l = Some l' ->
  tfs b l' /\ map fst l' = map fst l /\ ofields o' l = Some l'.
Proof.
  induction l as [|[k x] r IH]; simpl; intros l' G HI H.
  - inversion H. split; auto.
  - inversion G; subst.
    destruct (o x) as [x'|] eqn:E; [|discriminate]. destruct (ofields o r) as [r'|] eqn:E'; [|discriminate].
    inversion H; subst. destruct (HI x x') as [A B]; auto. destruct (IH r') as [C [D1 D]]; auto.
    rewrite B. fold (ofields o' r). rewrite D. simpl. rewrite D1. split; auto.
Qed.
(* preservation, for both readings of the flag *)
Lemma optimize_tok b registry replaces peq : forall fuel t t',
  tok b t = true -> optimize registry replaces peq fuel t = Some t' -> tok b t' = true.
Proof.
  induction fuel as [|fuel IH]; intros t t' G E; [discriminate|].
  rewrite Sound.optimize_S in *. destruct t; try (inversion E; subst; exact G).
  - inversion E; subst. destruct overflow; simpl; auto. destruct ls; auto.
  - simpl in G. destruct (optimize registry replaces peq fuel t) as [y|] eqn:Ey; [|discriminate].
    pose proof (IH _ _ G Ey) as A. destruct y; inversion E; subst; exact A.
  - simpl in G. destruct (optimize registry replaces peq fuel t) as [y|] eqn:Ey; [|discriminate].
    pose proof (IH _ _ G Ey) as A. inversion E; subst. exact A.
  - simpl in G. destruct (optimize registry replaces peq fuel t) as [y|] eqn:Ey; [|discriminate].
    pose proof (IH _ _ G Ey) as A. inversion E; subst. exact A.
  - apply tok_union_Forall in G. pose proof (regroup_tok b registry replaces peq ts G) as R1.
    destruct (olist (optimize registry replaces peq fuel) (regroup registry replaces peq ts)) as [types|] eqn:EL; [|discriminate].
    destruct (olist_tok b (optimize registry replaces peq fuel) (optimize registry replaces peq fuel) _ types R1) as [A _]; auto.
    { intros x x' Gx Ex. split; [eapply IH; eauto|exact Ex]. }
    eapply finish_tok; eauto.
  - rewrite tok_obj in G. apply andb_prop in G as [Eb G]. apply tokf_iff in G as [G1 G2].
    destruct (ofields (optimize registry replaces peq fuel) fs) as [fs2|] eqn:EF; [|discriminate].
    simpl in E. inversion E; subst t'.
    destruct (ofields_tok b (optimize registry replaces peq fuel) (optimize registry replaces peq fuel) _ fs2 G2) as [A [B _]]; auto.
    { intros x x' Gx Ex. split; [eapply IH; eauto|exact Ex]. }
    rewrite tok_obj. apply andb_true_intro. split; [exact Eb|]. apply tokf_iff. rewrite B. split; auto.
Qed.
(* object-free terms: moreover the result does not depend on the pointer comparison *)
Lemma optimize_gok registry replaces peq peq' : forall fuel t t',
  gok t = true -> optimize registry replaces peq fuel t = Some t' ->
  gok t' = true /\ optimize registry replaces peq' fuel t = Some t'.
Proof.
  intros fuel t t' G E. split; [eapply optimize_tok; eauto|]. revert t t' G E.
  induction fuel as [|fuel IH]; intros t t' G E; [discriminate|].
  rewrite Sound.optimize_S in *. destruct t; try exact E; try (simpl in G; discriminate).
  - simpl in G. destruct (optimize registry replaces peq fuel t) as [y|] eqn:Ey; [|discriminate].
    rewrite (IH _ _ G Ey). exact E.
  - simpl in G. destruct (optimize registry replaces peq fuel t) as [y|] eqn:Ey; [|discriminate].
    rewrite (IH _ _ G Ey). exact E.
  - simpl in G. destruct (optimize registry replaces peq fuel t) as [y|] eqn:Ey; [|discriminate].
    rewrite (IH _ _ G Ey). exact E.
  - apply tok_union_Forall in G. pose proof (regroup_tok false registry replaces peq ts G) as R1.
    rewrite <- (regroup_peq registry replaces peq peq' ts G).
    destruct (olist (optimize registry replaces peq fuel) (regroup registry replaces peq ts)) as [types|] eqn:EL; [|discriminate].
    destruct (olist_tok false (optimize registry replaces peq fuel) (optimize registry replaces peq' fuel) _ types R1) as [_ B]; auto.
    { intros x x' Gx Ex. split; [eapply optimize_tok; eauto|eapply IH; eauto]. }
    rewrite B. exact E.
Qed.
Lemma optimize_fields_gok registry replaces peq peq' fuel fs fs' :
  gokf fs = true -> optimize_fields registry replaces peq fuel fs = Some fs' ->
  gokf fs' = true /\ optimize_fields registry replaces peq' fuel fs = Some fs'.
Proof.
  intros G E. unfold optimize_fields in *.
  destruct fuel; [discriminate|]. rewrite Sound.optimize_S in *.
  destruct (ofields (optimize registry replaces peq fuel) fs) as [fs2|] eqn:EF; [|discriminate].
  simpl in E. inversion E; subst fs2. clear E.
  apply gokf_iff in G as [G1 G2].
  destruct (ofields_tok false _ (optimize registry replaces peq' fuel) _ _ G2 (optimize_gok registry replaces peq peq' fuel) EF)
    as [A [B C]].
  rewrite C. simpl. split; auto. apply gokf_iff. rewrite B. split; auto.
Qed.

Lemma merge_field_sets_gfs peq sets : Forall (fun fs : fields => gfs fs) sets -> gfs (merge_field_sets peq sets).
Proof. apply merge_field_sets_tfs. Qed.

Lemma rename_nil new : forall t, rename [] new t = t.
Proof.
  induction t using ty_ind2; simpl; auto; try (now rewrite IHt).
  - f_equal. induction H as [|x r Hx Hr IH]; simpl; auto. now rewrite Hx, IH.
  - f_equal. induction H as [|[k x] r Hx Hr IH]; simpl; auto. simpl in Hx. now rewrite Hx, IH.
Qed.
Lemma rename_is_opt mbs new t : is_opt (rename mbs new t) = is_opt t.
Proof. destruct t; simpl; auto. destruct (memN i mbs); reflexivity. Qed.
Lemma rename_gok mbs new : forall t, gok t = true -> gok (rename mbs new t) = true.
Proof.
  induction t using ty_ind2; simpl; auto.
  - intros G. change (gok (TUnion (map (rename mbs new) ts)) = true). change (gok (TUnion ts) = true) in G.
    apply tok_union_Forall in G. apply tok_union_Forall. apply Forall_map.
    rewrite Forall_forall in *. auto.
  - intros _. destruct (memN i mbs); reflexivity.
Qed.
Lemma rename_members_deep mbs new : forall t,
  members_deep (rename mbs new t) = map (rename mbs new) (members_deep t).
Proof.
  induction t using ty_ind2; try reflexivity.
  - simpl. now rewrite IHt.
  - cbn [rename]. rewrite !Sound.members_deep_union.
    induction H as [|x r Hx Hr IH]; simpl; auto. now rewrite map_app, Hx, IH.
  - simpl. destruct (memN i mbs); reflexivity.
Qed.
Lemma rename_hopt mbs new t : hopt (rename mbs new t) = hopt t.
Proof.
  unfold hopt. rewrite rename_is_opt. destruct t; try reflexivity.
  - cbn [rename]. f_equal. f_equal.
    + induction ts as [|x r IH]; simpl; auto. now rewrite rename_is_opt, IH.
    + f_equal. induction ts as [|x r IH]; simpl; auto.
      now rewrite !app_length, rename_members_deep, map_length, IH.
  - simpl. destruct (memN i mbs); reflexivity.
Qed.
Definition ren_fields (mbs : list N) (new : N) (fs : fields) : fields :=
  map (fun kv => (fst kv, rename mbs new (snd kv))) fs.
Lemma ren_fields_lookup mbs new k fs :
  lookup k (ren_fields mbs new fs) = option_map (rename mbs new) (lookup k fs).
Proof. unfold ren_fields. apply (lookup_map_vals (fun _ t => rename mbs new t)). Qed.
Lemma ren_fields_gokf mbs new fs : gokf fs = true -> gokf (ren_fields mbs new fs) = true.
Proof.
  rewrite !gokf_iff. intros [A B]. unfold ren_fields. rewrite rename_fields_keys. split; auto.
  apply Forall_map. simpl. eapply Forall_impl; [|exact B]. intros kv. apply rename_gok.
Qed.
Lemma ren_fields_nil new fs : ren_fields [] new fs = fs.
Proof.
  unfold ren_fields. induction fs as [|[k x] r IH]; simpl; auto. now rewrite rename_nil, IH.
Qed.

(* ------------------------------------------------------------------ *)
(* (4) transport of the value semantics along a renaming of pointers, by induction on the size of the value.
   The pointer case is a hypothesis that may use the statement for all strictly smaller values: this is what
   makes the argument go through on cyclic graphs.                                                     *)
(* ------------------------------------------------------------------ *)
Section Transport.
  Variable accepts : pseudo -> str -> bool.
  Variable mf1 mf2 : N -> option fields.
  Variable uk : bool.
  Variable mbs : list N.
  Variable new : N.
  Notation T := (rename mbs new).

  Lemma obj_okg_transport l fs :
    (forall kv, In kv l -> forall t, htg accepts mf1 uk (snd kv) t -> htg accepts mf2 uk (snd kv) (T t)) ->
    obj_okg accepts mf1 uk fs l -> obj_okg accepts mf2 uk (ren_fields mbs new fs) l.
  Proof.
    intros IH [H1 H2]. split.
    - rewrite Forall_forall in *. intros kv Hkv. destruct (H1 kv Hkv) as [t [L Ht]].
      exists (T t). rewrite ren_fields_lookup, L. split; auto.
    - intros k t' L O. rewrite ren_fields_lookup in L. destruct (lookup k fs) as [t|] eqn:Lk; [|discriminate].
      simpl in L. inversion L; subst t'. rewrite rename_is_opt in O. eapply H2; eauto.
  Qed.
  Lemma obj_okh_transport l fs :
    (forall kv, In kv l -> forall t, htg accepts mf1 uk (snd kv) t -> htg accepts mf2 uk (snd kv) (T t)) ->
    obj_okh accepts mf1 uk fs l -> obj_okh accepts mf2 uk (ren_fields mbs new fs) l.
  Proof.
    intros IH [H1 H2]. split.
    - rewrite Forall_forall in *. intros kv Hkv. destruct (H1 kv Hkv) as [t [L Ht]].
      exists (T t). rewrite ren_fields_lookup, L. split; auto.
    - intros k t' L O. rewrite ren_fields_lookup in L. destruct (lookup k fs) as [t|] eqn:Lk; [|discriminate].
      simpl in L. inversion L; subst t'. rewrite rename_hopt in O. eapply H2; eauto.
  Qed.

  Hypothesis Hptr : forall k fs l, mf1 k = Some fs -> obj_okg accepts mf1 uk fs l ->
    (forall w, jsize w < jsize (JObj l) -> forall t, htg accepts mf1 uk w t -> htg accepts mf2 uk w (T t)) ->
    htg accepts mf2 uk (JObj l) (TPtr (ren_idx mbs new k)).

  Theorem transport : forall v t, htg accepts mf1 uk v t -> htg accepts mf2 uk v (T t).
  Proof.
    assert (K : forall n v, jsize v < n -> forall t, htg accepts mf1 uk v t -> htg accepts mf2 uk v (T t)).
    { induction n as [|n IHn]; intros v Hn; [lia|].
      induction t using ty_ind2; intros Hv; inversion Hv; subst; cbn [rename];
        try (now constructor).
      - apply GOptS. auto.
      - constructor. rewrite Forall_forall in *. intros e He. apply IHn; auto.
        pose proof (jsize_arr e l He). lia.
      - constructor. rewrite Forall_forall in *. intros e He. apply IHn; auto.
        pose proof (jsize_obj e l He). lia.
      - rewrite Forall_forall in H. eapply GUnion; [apply in_map; eassumption|]. auto.
      - match goal with V1 : Forall _ l, V2 : forall k t, lookup k fs = Some t -> _ |- _ =>
          destruct (obj_okg_transport l fs) as [A B]; [|split; [exact V1|exact V2]|] end.
        + intros kv Hkv t Ht. apply IHn; auto. pose proof (jsize_obj kv l Hkv). lia.
        + apply GObj; auto.
      - match goal with V : htg _ _ _ (JObj l) (TObj _) |- _ => inversion V; subst end.
        assert (E : (if memN i mbs then TPtr new else TPtr i) = TPtr (ren_idx mbs new i))
          by (unfold ren_idx; destruct (memN i mbs); reflexivity).
        rewrite E. eapply Hptr; eauto.
        + split; assumption.
        + intros w Hw t Ht. apply IHn; auto. lia. }
    intros v t. apply (K (S (jsize v))). lia.
  Qed.
End Transport.

(* ------------------------------------------------------------------ *)
(* (5) graphs: the table of a graph, well-formed graphs                                                  *)
(* ------------------------------------------------------------------ *)
(* every model's fields: unique keys, no raw object, well-formed literals *)
Definition gwf (g : graph) : Prop := forall m, In m (ms g) -> gokf (m_fields m) = true.

Lemma fields_of_find g i fs : fields_of g i = Some fs -> exists m, find_model g i = Some m /\ m_fields m = fs.
Proof.
  unfold fields_of. destruct (find_model g i) as [m|]; [|discriminate]. simpl. intros H. inversion H. eauto.
Qed.
Lemma fields_of_gokf g i fs : gwf g -> fields_of g i = Some fs -> gokf fs = true.
Proof.
  intros W H. apply fields_of_find in H as [m [F <-]]. apply W. apply (find_model_some _ _ _ F).
Qed.
Lemma fields_of_registered g i fs : fields_of g i = Some fs -> registered g i.
Proof. intros H. apply fields_of_find in H as [m [F _]]. eapply find_registered; eauto. Qed.
Lemma set_fields_keeps_idx i fs m :
  m_idx (if N.eqb (m_idx m) i then {| m_idx := i; m_fields := fs; m_name := m_name m; m_gen := m_gen m |} else m) = m_idx m.
Proof. destruct (N.eqb (m_idx m) i) eqn:E; [|reflexivity]. simpl. apply N.eqb_eq in E. congruence. Qed.
Lemma fields_of_set_fields_same i fs g fs0 :
  fields_of g i = Some fs0 -> fields_of (set_fields i fs g) i = Some fs.
Proof.
  intros H. apply fields_of_find in H as [m [F _]]. unfold fields_of, find_model in *. cbn [ms set_fields].
  rewrite find_map_idx by (intros; apply set_fields_keeps_idx). rewrite F. simpl.
  apply find_some in F as [_ F]. rewrite F. reflexivity.
Qed.
Lemma fields_of_set_fields_other i fs g j : i <> j -> fields_of (set_fields i fs g) j = fields_of g j.
Proof.
  intros Hn. unfold fields_of, find_model. cbn [ms set_fields].
  rewrite find_map_idx by (intros; apply set_fields_keeps_idx).
  destruct (find (fun m => N.eqb (m_idx m) j) (ms g)) as [m|] eqn:F; [|reflexivity]. simpl.
  apply find_some in F as [_ F]. apply N.eqb_eq in F.
  destruct (N.eqb (m_idx m) i) eqn:E; [|reflexivity]. apply N.eqb_eq in E. congruence.
Qed.
Lemma gwf_set_fields i fs g : gwf g -> gokf fs = true -> gwf (set_fields i fs g).
Proof.
  intros W G m Hm. cbn [ms set_fields] in Hm. apply in_map_iff in Hm as [m0 [<- Hm0]].
  destruct (N.eqb (m_idx m0) i); simpl; auto.
Qed.
Lemma fields_of_set_name i n b g j : fields_of (set_name i n b g) j = fields_of g j.
Proof.
  unfold fields_of, find_model. cbn [ms set_name].
  rewrite find_map_idx.
  2:{ intros m. destruct (N.eqb (m_idx m) i) eqn:E; [|reflexivity]. simpl. apply N.eqb_eq in E. congruence. }
  destruct (find (fun m => N.eqb (m_idx m) j) (ms g)) as [m|]; [|reflexivity]. simpl.
  destruct (N.eqb (m_idx m) i); reflexivity.
Qed.
Lemma gwf_set_name i n b g : gwf g -> gwf (set_name i n b g).
Proof.
  intros W m Hm. cbn [ms set_name] in Hm. apply in_map_iff in Hm as [m0 [<- Hm0]].
  destruct (N.eqb (m_idx m0) i); simpl; auto.
Qed.
Lemma obj_okg_GObj accepts mf uk fs l : obj_okg accepts mf uk fs l -> htg accepts mf uk (JObj l) (TObj fs).
Proof. intros [A B]. now apply GObj. Qed.
Lemma GObj_obj_okg accepts mf uk fs l : htg accepts mf uk (JObj l) (TObj fs) -> obj_okg accepts mf uk fs l.
Proof. intros H. inversion H; subst. split; assumption. Qed.
Lemma htg_ptr_inv accepts mf uk v i : htg accepts mf uk v (TPtr i) ->
  exists l fs, v = JObj l /\ mf i = Some fs /\ obj_okg accepts mf uk fs l.
Proof. intros H. inversion H; subst. eexists _, _. split; [reflexivity|]. split; eauto. now apply GObj_obj_okg. Qed.
Lemma eqb_peq accepts mf uk : forall i j, N.eqb i j = true ->
  forall v, htg accepts mf uk v (TPtr i) <-> htg accepts mf uk v (TPtr j).
Proof. intros i j E v. apply N.eqb_eq in E. subst. reflexivity. Qed.

(* ------------------------------------------------------------------ *)
(* (G3) structural pointer equality is sound                                                             *)
(* ------------------------------------------------------------------ *)
Theorem ptr_eq_g_sound accepts uk g : gwf g -> forall fuel i j, ptr_eq_g g fuel i j = true ->
  forall v, htg accepts (fields_of g) uk v (TPtr i) <-> htg accepts (fields_of g) uk v (TPtr j).
Proof.
  intros W. induction fuel as [|fuel IH]; intros i j E v; cbn [ptr_eq_g] in E.
  - destruct (N.eqb i j) eqn:Eij; [|discriminate]. apply N.eqb_eq in Eij. subst. reflexivity.
  - destruct (N.eqb i j) eqn:Eij; [apply N.eqb_eq in Eij; subst; reflexivity|].
    destruct (fields_of g i) as [a|] eqn:Fa; [|discriminate].
    destruct (fields_of g j) as [b|] eqn:Fb; [|discriminate].
    pose proof (py_eq_sound accepts (fields_of g) uk (ptr_eq_g g fuel) IH (TObj a) (TObj b)
                  (gokf_okf0 _ (fields_of_gokf _ _ _ W Fa)) (gokf_okf0 _ (fields_of_gokf _ _ _ W Fb)) E) as P.
    split; intros X; apply htg_ptr_inv in X as [l [fs [-> [F O]]]].
    + rewrite Fa in F. inversion F; subst fs. eapply GPtr; [exact Fb|]. apply P. now apply obj_okg_GObj.
    + rewrite Fb in F. inversion F; subst fs. eapply GPtr; [exact Fa|]. apply P. now apply obj_okg_GObj.
Qed.

(* the renaming reported by merge_models: an index that is a member of a merged group goes to the group's new
   index, one reported group after the other *)
Definition rho (reps : list (N * list N)) (i : N) : N :=
  fold_left (fun i r => if memN i (snd r) then fst r else i) reps i.

Section GS.
  Variable accepts : pseudo -> str -> bool.
  Variable registry : list pseudo.
  Variable replaces : list (pseudo * pseudo).
  Hypothesis Hrep : forall a b, In (a, b) replaces -> forall s, accepts a s = true -> accepts b s = true.
  Variable rank : pseudo -> nat.
  Hypothesis Hrank : forallb (fun pq => pseudo_eqb (fst pq) (snd pq) || (rank (fst pq) <? rank (snd pq))) replaces = true.
  Notation hs g := (htg accepts (fields_of g) false).
  Notation oks g := (obj_okg accepts (fields_of g) false).

  (* optimisation of an object-free field set is sound in every table *)
  Lemma optimize_fields_any_table mf peq fs fs' l :
    gokf fs = true -> optimize_fields registry replaces peq OPT_FUEL fs = Some fs' ->
    obj_okh accepts mf false fs l -> obj_okg accepts mf false fs' l.
  Proof.
    intros G O H. destruct (optimize_fields_gok registry replaces peq N.eqb _ _ _ G O) as [_ O'].
    eapply (optimize_fields_okh accepts mf registry replaces N.eqb (eqb_peq accepts mf false) Hrep rank Hrank);
      eauto. now apply gokf_okf.
  Qed.

  (* (c) one optimisation step of one model *)
  Theorem opt_model_sound g i g' : gwf g -> opt_model registry replaces g i = Some g' ->
    gwf g' /\ forall v t, hs g v t -> hs g' v t.
  Proof.
    intros W H. apply opt_model_spec in H as [m [fs' [F [O ->]]]].
    assert (Gm : gokf (m_fields m) = true) by (apply W; apply (find_model_some _ _ _ F)).
    assert (Fi : fields_of g i = Some (m_fields m)) by (unfold fields_of; rewrite F; reflexivity).
    destruct (optimize_fields_gok registry replaces _ N.eqb _ _ _ Gm O) as [G' _].
    split; [now apply gwf_set_fields|].
    intros v t Hv. rewrite <- (rename_nil 0%N t).
    apply (transport accepts (fields_of g) (fields_of (set_fields i fs' g)) false [] 0%N); auto.
    intros k fs l Fk Ok IHs. unfold ren_idx. simpl.
    assert (Ok' : obj_okg accepts (fields_of (set_fields i fs' g)) false fs l).
    { rewrite <- (ren_fields_nil 0%N fs). apply (obj_okg_transport accepts (fields_of g)); auto.
      intros kv Hkv t0 Ht0. apply IHs; auto. apply jsize_obj; auto. }
    destruct (N.eq_dec i k) as [<-|Hn].
    - rewrite Fi in Fk. inversion Fk; subst fs.
      eapply GPtr; [eapply fields_of_set_fields_same; eauto|]. apply obj_okg_GObj.
      eapply (optimize_fields_any_table _ _ (m_fields m)); [exact Gm|exact O|now apply obj_ok_okh].
    - eapply GPtr; [rewrite fields_of_set_fields_other; eauto|]. now apply obj_okg_GObj.
  Qed.

  (* ---------------------------------------------------------------- *)
  (* (G4) merging one group of models                                  *)
  (* ---------------------------------------------------------------- *)
  Lemma mg_mid_fields_other g mbs k fs : memN k mbs = false -> k <> nxt g ->
    fields_of g k = Some fs -> fields_of (mg_mid g mbs) k = Some (ren_fields mbs (nxt g) fs).
  Proof.
    intros Ek Hn Fk. apply fields_of_find in Fk as [m0 [F0 <-]].
    unfold fields_of, find_model in *. cbn [mg_mid ms].
    rewrite find_map_idx by reflexivity. rewrite find_snoc. rewrite find_filter_idx.
    2:{ intros m <-. now rewrite Ek. }
    rewrite F0. reflexivity.
  Qed.

  Theorem merge_group_sound g mbs g' :
    closed g -> gwf g -> merge_group registry replaces g mbs = Some g' ->
    gwf g' /\ forall v t, hs g v t -> hs g' v (rename mbs (nxt g) t).
  Proof.
    intros C W H. rewrite merge_group_eq in H.
    apply opt_model_spec in H as [m [fs' [F [O ->]]]].
    rewrite (mg_mid_find_new g mbs C) in F. inversion F; subst m. clear F.
    set (sets := map m_fields (mg_mods g mbs)) in *.
    set (merged := merge_field_sets (ptr_eq_g g PTR_FUEL) sets) in *.
    change (m_fields (ren_model mbs (nxt g) (mg_new g mbs))) with (ren_fields mbs (nxt g) merged) in O.
    assert (Gs : Forall (fun fs => gokf fs = true) sets).
    { apply Forall_map. apply Forall_forall. intros m Hm. apply W. eapply mg_mods_in; eauto. }
    assert (Os : Forall (fun fs => okf fs = true) sets).
    { eapply Forall_impl; [|exact Gs]. intros a. apply gokf_okf. }
    pose proof (ptr_eq_g_sound accepts false g W PTR_FUEL) as Hpeq.
    destruct (merge_member_sound_h accepts (fields_of g) false _ Hpeq sets Os) as [M1 M2]. fold merged in M1, M2.
    assert (Gm : gokf merged = true).
    { apply gokf_iff. apply okf_iff in M2 as [ND _]. split; auto.
      apply merge_field_sets_gfs. eapply Forall_impl; [|exact Gs]. intros a Ha. now apply gokf_iff in Ha. }
    pose proof (ren_fields_gokf mbs (nxt g) _ Gm) as Grm.
    assert (Wmid : gwf (mg_mid g mbs)).
    { intros m Hm. cbn [mg_mid ms] in Hm. apply in_map_iff in Hm as [m0 [<- Hm0]].
      cbn [ren_model m_fields]. apply (ren_fields_gokf mbs (nxt g)).
      apply in_app_or in Hm0 as [Hm0|[<-|[]]].
      - apply filter_In in Hm0 as [Hm0 _]. now apply W.
      - exact Gm. }
    destruct (optimize_fields_gok registry replaces _ N.eqb _ _ _ Grm O) as [G' _].
    split; [now apply gwf_set_fields|].
    assert (Fnew : fields_of (mg_mid g mbs) (nxt g) = Some (ren_fields mbs (nxt g) merged)).
    { unfold fields_of. rewrite (mg_mid_find_new g mbs C). reflexivity. }
    apply (transport accepts (fields_of g) (fields_of (set_fields (nxt g) fs' (mg_mid g mbs))) false mbs (nxt g)).
    intros k fs l Fk Ok IHs.
    assert (IH' : forall kv, In kv l -> forall t, hs g (snd kv) t ->
              hs (set_fields (nxt g) fs' (mg_mid g mbs)) (snd kv) (rename mbs (nxt g) t)).
    { intros kv Hkv t0 Ht0. apply IHs; auto. apply jsize_obj; auto. }
    unfold ren_idx. destruct (memN k mbs) eqn:Ek.
    - eapply GPtr; [eapply fields_of_set_fields_same; eauto|]. apply obj_okg_GObj.
      eapply (optimize_fields_any_table _ _ (ren_fields mbs (nxt g) merged)); [exact Grm|exact O|].
      apply (obj_okh_transport accepts (fields_of g)); auto.
      apply fields_of_find in Fk as [m0 [F0 <-]].
      apply (M1 (m_fields m0) l); auto. unfold sets. apply in_map. unfold mg_mods. apply in_flat_map.
      exists k. split; [now apply memN_In|]. rewrite F0. left. reflexivity.
    - assert (Hn : k <> nxt g).
      { destruct C as [_ [_ [_ C4]]]. specialize (C4 k (fields_of_registered _ _ _ Fk)). lia. }
      eapply GPtr.
      + rewrite fields_of_set_fields_other by congruence. apply mg_mid_fields_other; eauto.
      + apply obj_okg_GObj. apply (obj_okg_transport accepts (fields_of g)); auto.
  Qed.

  (* ---------------------------------------------------------------- *)
  (* (G5) the whole merge_models run                                   *)
  (* ---------------------------------------------------------------- *)
  Lemma fold_mm_step_sound l : forall g reps g' reps',
    closed g -> gwf g -> fold_left (mm_step registry replaces) l (Some (g, reps)) = Some (g', reps') ->
    closed g' /\ gwf g' /\ exists rn, reps' = reps ++ rn /\
      forall v i, hs g v (TPtr i) -> hs g' v (TPtr (rho rn i)).
  Proof.
    induction l as [|grp rest IH]; intros g reps g' reps' C W H.
    - simpl in H. injection H as <- <-. split; auto. split; auto. exists []. rewrite app_nil_r. split; auto.
    - cbn [fold_left] in H.
      destruct (mm_step registry replaces (Some (g, reps)) grp) as [[g1 reps1]|] eqn:E;
        [| rewrite fold_mm_step_none in H; discriminate].
      cbn [mm_step] in E.
      set (ordered := filter (fun i => memN i grp) (map m_idx (ms g))) in E.
      destruct (merge_group registry replaces g ordered) as [g1'|] eqn:MG; [| discriminate].
      injection E as -> <-.
      destruct (merge_group_inv registry replaces g ordered g1 C MG) as [C1 _].
      destruct (merge_group_sound g ordered g1 C W MG) as [W1 S1].
      destruct (IH g1 _ g' reps' C1 W1 H) as [C' [W' [rn [E' S']]]].
      split; auto. split; auto. exists ((nxt g, grp) :: rn). split.
      + rewrite E', <- app_assoc. reflexivity.
      + intros v i Hv. unfold rho. cbn [fold_left fst snd]. apply S'.
        specialize (S1 v (TPtr i) Hv). cbn [rename] in S1.
        assert (Em : memN i ordered = memN i grp).
        { apply htg_ptr_inv in Hv as [l0 [fs [_ [Fi _]]]]. apply fields_of_registered in Fi.
          apply eq_true_iff_eq. rewrite !memN_In. unfold ordered. rewrite in_ordered. tauto. }
        rewrite Em in S1. destruct (memN i grp); exact S1.
  Qed.

  Lemma opt_all_sound l : forall g g', gwf g -> opt_all registry replaces l (Some g) = Some g' ->
    gwf g' /\ forall v t, hs g v t -> hs g' v t.
  Proof.
    induction l as [|i r IH]; intros g g' W H.
    - simpl in H. injection H as <-. split; auto.
    - change (opt_all registry replaces r (opt_model registry replaces g i) = Some g') in H.
      destruct (opt_model registry replaces g i) as [g1|] eqn:E; [| rewrite opt_all_none in H; discriminate].
      destruct (opt_model_sound g i g1 W E) as [W1 S1].
      destruct (IH g1 g' W1 H) as [W' S'].
      split; auto.
  Qed.

  Theorem merge_models_sound R g g' reps :
    closed g -> gwf g -> merge_models registry replaces R g = Some (g', reps) ->
    closed g' /\ gwf g' /\ forall v i, hs g v (TPtr i) -> hs g' v (TPtr (rho reps i)).
  Proof.
    intros C W H. pose proof (merge_models_closed registry replaces R g g' reps C H) as C'.
    apply merge_models_run in H as [groups [gm [_ [F O]]]].
    destruct (fold_mm_step_sound _ _ _ _ _ C W F) as [Cm [Wm [rn [E S]]]]. simpl in E. subst rn.
    destruct (opt_all_sound _ _ _ Wm O) as [W' S'].
    split; auto.
  Qed.
End GS.

(* ------------------------------------------------------------------ *)
(* (G1) registering nested objects: proc                                                                 *)
(* ------------------------------------------------------------------ *)
Lemma flat_map_nil_inv {A B} (f : A -> list B) l : flat_map f l = [] -> forall x, In x l -> f x = [].
Proof.
  induction l as [|y r IH]; simpl; intros H x Hx; [destruct Hx|].
  apply app_eq_nil in H as [H1 H2]. destruct Hx as [<-|Hx]; auto.
Qed.
(* a pointer-free type means the same in every table *)
Lemma htg_noptr accepts mf0 mf uk : forall t v, ptrs_of t = [] -> htg accepts mf0 uk v t -> htg accepts mf uk v t.
Proof.
  induction t using ty_ind2; intros v NL Hv; inversion Hv; subst; try (now constructor).
  - apply GOptS. apply IHt; auto.
  - constructor. eapply Forall_impl; [|eassumption]. intros e He. apply IHt; auto.
  - constructor. eapply Forall_impl; [|eassumption]. intros e He. apply IHt; auto.
  - rewrite ptrs_of_union in NL. rewrite Forall_forall in H.
    eapply GUnion; eauto. apply H; auto. apply (flat_map_nil_inv _ _ NL); auto.
  - rewrite ptrs_of_obj in NL. rewrite Forall_forall in H. apply GObj; auto.
    eapply Forall_impl; [|eassumption]. intros kv [t [L Ht]]. exists t. split; auto.
    pose proof (lookup_In _ _ _ L) as Hin. apply (H _ Hin); auto. apply (flat_map_nil_inv _ _ NL _ Hin).
  - discriminate.
Qed.

Lemma fields_of_obj_start par g i : i <> nxt g -> fields_of (obj_start par g) i = fields_of g i.
Proof.
  intros Hn. unfold fields_of, find_model. cbn [obj_start ms]. rewrite find_snoc.
  destruct (find (fun m => N.eqb (m_idx m) i) (ms g)); [reflexivity|]. simpl.
  destruct (N.eqb (nxt g) i) eqn:E; [|reflexivity]. apply N.eqb_eq in E. congruence.
Qed.
Lemma fields_of_obj_start_new par g : exists fs0, fields_of (obj_start par g) (nxt g) = Some fs0.
Proof.
  unfold fields_of, find_model. cbn [obj_start ms]. rewrite find_snoc.
  destruct (find (fun m => N.eqb (m_idx m) (nxt g)) (ms g)); simpl; [eauto|].
  rewrite N.eqb_refl. simpl. eauto.
Qed.
Lemma gwf_obj_start par g : gwf g -> gwf (obj_start par g).
Proof.
  intros W m Hm. cbn [obj_start ms] in Hm. apply in_app_or in Hm as [Hm|[<-|[]]]; auto.
Qed.

Section Proc.
  Variable accepts : pseudo -> str -> bool.

  Definition agree (mf : N -> option fields) (g g' : graph) : Prop :=
    forall i, (nxt g <= i < nxt g')%N -> mf i = fields_of g' i.
  Definition frame (g g' : graph) : Prop := forall i, (i < nxt g)%N -> fields_of g' i = fields_of g i.

  Definition proc_spec (t : ty) : Prop := forall par g t' g',
    proc t par g = (t', g') -> okt0 t = true -> ptrs_of t = [] -> gwf g ->
    (nxt g <= nxt g')%N /\ gwf g' /\ gok t' = true /\ is_opt t' = is_opt t /\ frame g g' /\
    (forall mf0 mf uk, agree mf g g' -> forall v, htg accepts mf0 uk v t -> htg accepts mf uk v t').

  Lemma proc_spec_id t : (forall par g, proc t par g = (t, g)) -> gok t = okt0 t -> proc_spec t.
  Proof.
    intros E G par g t' g' H O P W. rewrite E in H. inversion H; subst t' g'.
    split; [lia|]. split; auto. split; [congruence|]. split; auto. split; [intros i _; reflexivity|].
    intros mf0 mf uk _ v Hv. eapply htg_noptr; eauto.
  Qed.

  Lemma proc_list_spec par : forall ts, Forall proc_spec ts -> forall g ts' g',
    proc_list par ts g = (ts', g') -> Forall (fun t => okt0 t = true) ts -> tptrs ts = [] -> gwf g ->
    (nxt g <= nxt g')%N /\ gwf g' /\ goks ts' /\ frame g g' /\
    (forall mf0 mf uk, agree mf g g' -> forall t, In t ts ->
       exists t', In t' ts' /\ forall v, htg accepts mf0 uk v t -> htg accepts mf uk v t').
  Proof.
    induction 1 as [|x r Hx Hr IH]; intros g ts' g' E O P W.
    - simpl in E. inversion E; subst. split; [lia|]. split; auto. split; [constructor|].
      split; [intros i _; reflexivity|]. intros mf0 mf uk _ t [].
    - cbn [proc_list] in E. destruct (proc x par g) as [x' g1] eqn:E1.
      destruct (proc_list par r g1) as [r' g2] eqn:E2. inversion E; subst ts' g'. clear E.
      inversion O as [|? ? Ox Or]; subst. unfold tptrs in P. simpl in P. apply app_eq_nil in P as [Px Pr].
      destruct (Hx par g x' g1 E1 Ox Px W) as [N1 [W1 [G1 [_ [F1 S1]]]]].
      destruct (IH g1 r' g2 E2 Or Pr W1) as [N2 [W2 [G2 [F2 S2]]]].
      split; [lia|]. split; auto. split; [constructor; auto|]. split.
      + intros i Hi. rewrite F2 by lia. apply F1. exact Hi.
      + intros mf0 mf uk A t [<-|Hin].
        * exists x'. split; [left; reflexivity|]. apply S1. intros i Hi. rewrite A by lia. apply F2. lia.
        * destruct (S2 mf0 mf uk) with (t := t) as [t' [Hin' St]]; auto.
          { intros i Hi. apply A. lia. }
          exists t'. split; [right; exact Hin'|exact St].
  Qed.

  Lemma proc_flds_spec idx : forall fs : fields, Forall (fun kv => proc_spec (snd kv)) fs -> forall g fs' g',
    proc_flds idx fs g = (fs', g') -> Forall (fun kv => okt0 (snd kv) = true) fs -> fptrs fs = [] -> gwf g ->
    (nxt g <= nxt g')%N /\ gwf g' /\ gfs fs' /\ map fst fs' = map fst fs /\ frame g g' /\
    (forall mf0 mf uk, agree mf g g' -> forall k t, lookup k fs = Some t ->
       exists t', lookup k fs' = Some t' /\ is_opt t' = is_opt t /\
                  forall v, htg accepts mf0 uk v t -> htg accepts mf uk v t').
  Proof.
    induction 1 as [|[k0 x] r Hx Hr IH]; intros g fs' g' E O P W.
    - simpl in E. inversion E; subst. split; [lia|]. split; auto. split; [constructor|]. split; auto.
      split; [intros i _; reflexivity|]. intros mf0 mf uk _ k t L. discriminate.
    - cbn [proc_flds] in E. destruct (proc x (Some (idx, k0)) g) as [x' g1] eqn:E1.
      destruct (proc_flds idx r g1) as [r' g2] eqn:E2. inversion E; subst fs' g'. clear E.
      inversion O as [|? ? Ox Or]; subst. unfold fptrs in P. simpl in P, Ox, Hx. apply app_eq_nil in P as [Px Pr].
      destruct (Hx _ g x' g1 E1 Ox Px W) as [N1 [W1 [G1 [I1 [F1 S1]]]]].
      destruct (IH g1 r' g2 E2 Or Pr W1) as [N2 [W2 [G2 [K2 [F2 S2]]]]].
      split; [lia|]. split; auto. split; [constructor; auto|]. split; [simpl; now rewrite K2|]. split.
      + intros i Hi. rewrite F2 by lia. apply F1. exact Hi.
      + intros mf0 mf uk A k t L. simpl in L |- *. destruct (str_eqb k k0).
        * inversion L; subst t. exists x'. split; auto. split; auto.
          apply S1. intros i Hi. rewrite A by lia. apply F2. lia.
        * apply (S2 mf0 mf uk); auto. intros i Hi. apply A. lia.
  Qed.

  Theorem proc_all_spec : forall t, proc_spec t.
  Proof.
    induction t using ty_ind2; try (apply proc_spec_id; [reflexivity|reflexivity]).
    - (* TOpt *) intros par g t' g' E O P W. cbn [proc] in E. destruct (proc t par g) as [x' g1] eqn:E1.
      inversion E; subst t' g'. destruct (IHt par g x' g1 E1 O P W) as [N1 [W1 [G1 [_ [F1 S1]]]]].
      repeat (split; auto). intros mf0 mf uk A v Hv. inversion Hv; subst; [constructor|].
      apply GOptS. eapply S1; eauto.
    - (* TList *) intros par g t' g' E O P W. cbn [proc] in E. destruct (proc t par g) as [x' g1] eqn:E1.
      inversion E; subst t' g'. destruct (IHt par g x' g1 E1 O P W) as [N1 [W1 [G1 [_ [F1 S1]]]]].
      repeat (split; auto). intros mf0 mf uk A v Hv. inversion Hv; subst.
      constructor. eapply Forall_impl; [|eassumption]. intros e He. exact (S1 mf0 mf uk A e He).
    - (* TDict *) intros par g t' g' E O P W. cbn [proc] in E. destruct (proc t par g) as [x' g1] eqn:E1.
      inversion E; subst t' g'. destruct (IHt par g x' g1 E1 O P W) as [N1 [W1 [G1 [_ [F1 S1]]]]].
      repeat (split; auto). intros mf0 mf uk A v Hv. inversion Hv; subst.
      constructor. eapply Forall_impl; [|eassumption]. intros e He. exact (S1 mf0 mf uk A _ He).
    - (* TUnion *) intros par g t' g' E O P W. rewrite proc_union in E.
      destruct (proc_list par ts g) as [ts' g1] eqn:E1. inversion E; subst t' g'.
      rewrite okt0_union in O. rewrite ptrs_of_union in P.
      assert (O' : Forall (fun t => okt0 t = true) ts) by (apply Forall_forall; rewrite forallb_forall in O; auto).
      destruct (proc_list_spec par ts H g ts' g1 E1 O' P W) as [N1 [W1 [G1 [F1 S1]]]].
      split; auto. split; auto. split; [now apply gok_union_Forall|]. split; auto. split; auto.
      intros mf0 mf uk A v Hv. inversion Hv; subst.
      destruct (S1 mf0 mf uk A t) as [t' [Hin St]]; auto. eapply GUnion; eauto.
    - (* TObj *) intros par g t' g' E O P W. rewrite proc_obj in E.
      destruct (proc_flds (nxt g) fs (obj_start par g)) as [fs' g2] eqn:E1. inversion E; subst t' g'. clear E.
      rewrite okt0_obj in O. unfold okf0 in O. apply andb_prop in O as [ND O]. rewrite ptrs_of_obj in P.
      assert (O' : Forall (fun kv => okt0 (snd kv) = true) fs) by (apply Forall_forall; rewrite forallb_forall in O; auto).
      destruct (proc_flds_spec (nxt g) fs H (obj_start par g) fs' g2 E1 O' P (gwf_obj_start par g W))
        as [N1 [W1 [G1 [K1 [F1 S1]]]]].
      cbn [obj_start nxt] in N1.
      assert (Fnew : fields_of (set_fields (nxt g) fs' g2) (nxt g) = Some fs').
      { destruct (fields_of_obj_start_new par g) as [fs0 F0].
        apply fields_of_set_fields_same with (fs0 := fs0). rewrite F1; auto. cbn [obj_start nxt]. lia. }
      split; [cbn [set_fields nxt]; lia|]. split.
      { apply gwf_set_fields; auto. apply gokf_iff. rewrite K1. split; auto. now apply nodup_keys_NoDup. }
      split; [reflexivity|]. split; [reflexivity|]. split.
      { intros i Hi. rewrite fields_of_set_fields_other by lia. rewrite F1 by (cbn [obj_start nxt]; lia).
        apply fields_of_obj_start. lia. }
      intros mf0 mf uk A v Hv. inversion Hv; subst.
      match goal with V1 : Forall _ l, V2 : forall k t, lookup k fs = Some t -> _ |- _ => rename V1 into V1'; rename V2 into V2' end.
      assert (A2 : agree mf (obj_start par g) g2).
      { intros i Hi. cbn [obj_start nxt] in Hi. rewrite A by (cbn [set_fields nxt]; lia).
        apply fields_of_set_fields_other. lia. }
      eapply GPtr.
      + rewrite A by (cbn [set_fields nxt]; lia). exact Fnew.
      + apply GObj.
        * eapply Forall_impl; [|exact V1']. intros kv [t [L Ht]].
          destruct (S1 mf0 mf uk A2 _ _ L) as [t' [L' [_ St]]]. exists t'. split; auto.
        * intros k t' L' NO. destruct (lookup k fs) as [t|] eqn:L.
          -- destruct (S1 mf0 mf uk A2 _ _ L) as [t2 [L2 [I2 _]]]. rewrite L' in L2. inversion L2; subst t2.
             apply (V2' k t); auto. congruence.
          -- apply lookup_None_notin in L. rewrite <- K1 in L. apply lookup_notin_None in L. congruence.
  Qed.
End Proc.

(* (G1) as a statement about the table of the resulting graph *)
Theorem proc_sound accepts t par g t' g' :
  proc t par g = (t', g') -> okt0 t = true -> ptrs_of t = [] -> gwf g ->
  (nxt g <= nxt g')%N /\ gwf g' /\ gok t' = true /\
  (forall i, (i < nxt g)%N -> fields_of g' i = fields_of g i) /\
  (forall mf0 uk v, htg accepts mf0 uk v t -> htg accepts (fields_of g') uk v t') /\
  (forall mf0 v, ht accepts mf0 v t -> ht accepts (fields_of g') v t').
Proof.
  intros E O P W. destruct (proc_all_spec accepts t par g t' g' E O P W) as [N1 [W1 [G1 [_ [F1 S1]]]]].
  split; auto. split; auto. split; auto. split; auto.
  assert (S : forall mf0 uk v, htg accepts mf0 uk v t -> htg accepts (fields_of g') uk v t').
  { intros mf0 uk v Hv. apply (S1 mf0 (fields_of g') uk); auto. intros i _. reflexivity. }
  split; auto.
  intros mf0 v Hv. apply htg_true_iff. apply (S mf0). now apply htg_true_iff.
Qed.
(* indices stay below nxt: the structural invariant of RegistryInv.v *)
Corollary proc_closed_gwf t par g t' g' :
  proc t par g = (t', g') -> ptrs_of t = [] -> closed g ->
  (forall q k, par = Some (q, k) -> registered g q) -> closed g'.
Proof.
  intros E P C Hp. pose proof (proc_closed_ptrfree t par g C P Hp) as H. rewrite E in H. apply H.
Qed.

(* (G2) registering a root model *)
Theorem process_root_sound accepts fs name g idx g1 :
  process_root fs name g = (idx, g1) -> okt0 (TObj fs) = true -> fptrs fs = [] -> closed g -> gwf g ->
  closed g1 /\ gwf g1 /\ idx = nxt g /\
  (forall i, (i < nxt g)%N -> fields_of g1 i = fields_of g i) /\
  (forall mf0 uk l, htg accepts mf0 uk (JObj l) (TObj fs) -> htg accepts (fields_of g1) uk (JObj l) (TPtr idx)).
Proof.
  intros E O P C W.
  assert (Cl : closed g1).
  { pose proof (process_root_step fs name g C) as H. rewrite E in H. apply H. rewrite P. intros i []. }
  unfold process_root in E. destruct (proc (TObj fs) None g) as [t' g'] eqn:E1.
  assert (Et : t' = TPtr (nxt g)).
  { rewrite proc_obj in E1. destruct (proc_flds _ _ _). now inversion E1. }
  rewrite <- ptrs_of_obj in P.
  destruct (proc_all_spec accepts _ _ _ _ _ E1 O P W) as [N1 [W1 [_ [_ [F1 S1]]]]].
  inversion E; subst idx g1 t'. clear E.
  assert (EF : forall i, fields_of (match name with Some n => set_name (nxt g) (Some n) (Some false) g' | None => g' end) i
                         = fields_of g' i).
  { intros i. destruct name; [apply fields_of_set_name|reflexivity]. }
  split; auto. split; [destruct name; [apply gwf_set_name|]; auto|]. split; auto. split.
  - intros i Hi. rewrite EF. apply F1, Hi.
  - intros mf0 uk l Hv. apply (S1 mf0 _ uk); auto. intros i _. apply EF.
Qed.

(* later registrations never disturb what earlier models accept: several roots can be registered one after
   the other and each keeps its samples *)
Lemma htg_frame accepts uk g g' :
  (forall i, registered g i -> (i < nxt g)%N) -> (forall i, (i < nxt g)%N -> fields_of g' i = fields_of g i) ->
  forall v t, htg accepts (fields_of g) uk v t -> htg accepts (fields_of g') uk v t.
Proof.
  intros B F v t Hv. rewrite <- (rename_nil 0%N t).
  apply (transport accepts (fields_of g) (fields_of g') uk [] 0%N); auto.
  intros k fs l Fk Ok IHs. unfold ren_idx. simpl. eapply GPtr.
  - rewrite F; [exact Fk|]. apply B. eapply fields_of_registered; eauto.
  - apply obj_okg_GObj. rewrite <- (ren_fields_nil 0%N fs). apply (obj_okg_transport accepts (fields_of g)); auto.
    intros kv Hkv t0 Ht0. apply IHs; auto. apply jsize_obj; auto.
Qed.
Corollary process_root_frame accepts uk fs name g idx g1 :
  process_root fs name g = (idx, g1) -> okt0 (TObj fs) = true -> fptrs fs = [] -> closed g -> gwf g ->
  forall v t, htg accepts (fields_of g) uk v t -> htg accepts (fields_of g1) uk v t.
Proof.
  intros E O P C W. destruct (process_root_sound accepts fs name g idx g1 E O P C W) as [_ [_ [_ [F _]]]].
  apply htg_frame; auto. apply C.
Qed.

(* ------------------------------------------------------------------ *)
(* the output of generate: pointer-free, okt0                                                            *)
(* ------------------------------------------------------------------ *)
Lemma incl_nil_eq {A} (l : list A) : incl l [] -> l = [].
Proof. destruct l as [|x r]; auto. intros H. destruct (H x (or_introl eq_refl)). Qed.
Lemma elem_type_ptrs types : tptrs types = [] -> ptrs_of (Detect.elem_type types) = [].
Proof.
  intros H. destruct types as [|t [|t2 r]]; [reflexivity| |].
  - unfold tptrs in H. simpl in H. now rewrite app_nil_r in H.
  - simpl Detect.elem_type. apply incl_nil_eq. rewrite <- H. apply (union1_ptrs (t :: t2 :: r)).
Qed.
Lemma detect_ptrs registry accepts n_regex key_matches dict_fields : forall v cd,
  ptrs_of (detect registry accepts n_regex key_matches dict_fields cd v) = [].
Proof.
  induction v using json_ind2; intros cd; try reflexivity.
  - simpl. unfold detect_str. destruct (find _ _); [reflexivity|]. unfold mk_lit. destruct (lit_overflow _); reflexivity.
  - change (detect registry accepts n_regex key_matches dict_fields cd (JArr l))
      with (detect registry accepts n_regex key_matches dict_fields true (JArr l)).
    rewrite detect_arr. cbn [ptrs_of]. apply elem_type_ptrs. unfold tptrs.
    induction H as [|x r Hx Hr IH]; simpl; auto. now rewrite Hx, IH.
  - rewrite detect_obj. destruct l as [|kv0 r] eqn:El; [reflexivity|]. rewrite <- El in *. clear El.
    destruct (cd && _).
    + rewrite ptrs_of_obj. unfold fptrs, convert.
      induction H as [|x r' Hx Hr IH]; simpl; auto. now rewrite Hx, IH.
    + cbn [ptrs_of]. apply elem_type_ptrs. unfold tptrs.
      induction H as [|x r' Hx Hr IH]; simpl; auto. now rewrite Hx, IH.
Qed.
Lemma convert_ptrs registry accepts n_regex key_matches dict_fields kvs :
  fptrs (convert registry accepts n_regex key_matches dict_fields kvs) = [].
Proof.
  unfold fptrs, convert. induction kvs as [|x r IH]; simpl; auto. now rewrite detect_ptrs, IH.
Qed.

Theorem generate_shape registry replaces accepts n_regex key_matches dict_fields fuel samples fs :
  Forall (fun s => wf_json (JObj s) = true) samples ->
  generate registry replaces accepts n_regex key_matches dict_fields fuel samples = Some fs ->
  okt0 (TObj fs) = true /\ fptrs fs = [].
Proof.
  intros Wf G. unfold generate in G.
  set (conv := convert registry accepts n_regex key_matches dict_fields) in *.
  set (merged := merge_field_sets N.eqb (map conv samples)) in *.
  split.
  - assert (S : Forall (fun fs => tokf true fs = true) (map conv samples)).
    { apply Forall_map. rewrite Forall_forall in *. intros s Hs.
      destruct (convert_sound_g accepts (fun _ => None) false registry n_regex key_matches dict_fields s (Wf s Hs))
        as [_ [O _]]. apply okf_iff in O as [ND O]. apply tokf_iff. split; auto.
      eapply Forall_impl; [|exact O]. intros kv Hk. simpl in Hk. rewrite tok_true_okt0. now apply okt_okt0. }
    pose proof (merge_field_sets_tokf true N.eqb _ S) as M. fold merged in M.
    unfold optimize_fields in G.
    destruct (optimize registry replaces N.eqb fuel (TObj merged)) as [t'|] eqn:EO; [|discriminate].
    destruct t'; try discriminate. inversion G; subst fs0.
    rewrite <- tok_true_okt0. eapply optimize_tok; [|exact EO]. rewrite tok_obj. exact M.
  - apply incl_nil_eq. eapply incl_tran; [eapply optimize_fields_ptrs; exact G|].
    eapply incl_tran; [apply merge_field_sets_ptrs|].
    intros i Hi. apply in_flat_map in Hi as [f [Hf Hi]]. apply in_map_iff in Hf as [s [<- _]].
    unfold conv in Hi. rewrite convert_ptrs in Hi. exact Hi.
Qed.

(* ------------------------------------------------------------------ *)
(* (G6) the pipeline: generate, register the root, merge                                                 *)
(* ------------------------------------------------------------------ *)
Section Pipeline.
  Variable accepts : pseudo -> str -> bool.
  Variable registry : list pseudo.
  Variable replaces : list (pseudo * pseudo).
  Variable n_regex : nat.
  Variable key_matches : nat -> str -> bool.
  Variable dict_fields : list str.
  Hypothesis Hrep : forall a b, In (a, b) replaces -> forall s, accepts a s = true -> accepts b s = true.
  Variable rank : pseudo -> nat.
  Hypothesis Hrank : forallb (fun pq => pseudo_eqb (fst pq) (snd pq) || (rank (fst pq) <? rank (snd pq))) replaces = true.

  (* generate_sound of Sound.v, with the strict reading kept in the conclusion *)
  Theorem generate_sound_strict mf fuel samples fs :
    Forall (fun s => wf_json (JObj s) = true) samples ->
    generate registry replaces accepts n_regex key_matches dict_fields fuel samples = Some fs ->
    Forall (fun s => htg accepts mf false (JObj s) (TObj fs)) samples.
  Proof.
    intros Wf G. unfold generate, optimize_fields in G.
    set (conv := convert registry accepts n_regex key_matches dict_fields) in *.
    set (merged := merge_field_sets N.eqb (map conv samples)) in *.
    destruct (optimize registry replaces N.eqb fuel (TObj merged)) as [t'|] eqn:EO; [|discriminate].
    destruct t'; try discriminate. inversion G; subst fs0. clear G.
    pose proof (eqb_peq accepts mf false) as Hpeq.
    assert (CS : forall s, In s samples ->
              obj_okg accepts mf false (conv s) s /\ okf (conv s) = true /\ no_opt (conv s) = true).
    { intros s Hs. rewrite Forall_forall in Wf. apply convert_sound_g. apply Wf, Hs. }
    assert (O1 : Forall (fun fs => okf fs = true) (map conv samples)).
    { apply Forall_map. apply Forall_forall. intros s Hs. apply (CS s Hs). }
    assert (O2 : Forall (fun fs => no_opt fs = true) (tl (map conv samples))).
    { assert (A : Forall (fun fs => no_opt fs = true) (map conv samples)).
      { apply Forall_map. apply Forall_forall. intros s Hs. apply (CS s Hs). }
      destruct (map conv samples); simpl; [constructor|]. now inversion A. }
    destruct (merge_member_sound accepts mf false N.eqb Hpeq (map conv samples) O1 O2) as [M1 M2].
    fold merged in M1, M2.
    apply Forall_forall. intros s Hs.
    apply (optimize_sound_strict accepts mf registry replaces N.eqb Hpeq Hrep rank Hrank fuel (TObj merged)); auto.
    destruct (M1 (conv s) s) as [A B]; [apply in_map, Hs|apply (CS s Hs)|]. now apply GObj.
  Qed.

  Lemma gwf_empty : gwf empty_graph.
  Proof. intros m []. Qed.

  Theorem pipeline_sound_strict R fuel samples fs name idx g1 g2 reps :
    Forall (fun s => wf_json (JObj s) = true) samples ->
    generate registry replaces accepts n_regex key_matches dict_fields fuel samples = Some fs ->
    process_root fs name empty_graph = (idx, g1) ->
    merge_models registry replaces R g1 = Some (g2, reps) ->
    closed g2 /\ gwf g2 /\
    Forall (fun s => htg accepts (fields_of g2) false (JObj s) (TPtr (rho reps idx))) samples.
  Proof.
    intros Wf G PR MM.
    destruct (generate_shape _ _ _ _ _ _ _ _ _ Wf G) as [O P].
    destruct (process_root_sound accepts fs name empty_graph idx g1 PR O P closed_empty gwf_empty)
      as [C1 [W1 [_ [_ S1]]]].
    destruct (merge_models_sound accepts registry replaces Hrep rank Hrank R g1 g2 reps C1 W1 MM) as [C2 [W2 S2]].
    split; auto. split; auto.
    pose proof (generate_sound_strict (fun _ => None) fuel samples fs Wf G) as GS.
    eapply Forall_impl; [|exact GS]. intros s Hs. apply S2. exact (S1 (fun _ => None) false s Hs).
  Qed.

  Theorem pipeline_sound R fuel samples fs name idx g1 g2 reps :
    Forall (fun s => wf_json (JObj s) = true) samples ->
    generate registry replaces accepts n_regex key_matches dict_fields fuel samples = Some fs ->
    process_root fs name empty_graph = (idx, g1) ->
    merge_models registry replaces R g1 = Some (g2, reps) ->
    Forall (fun s => ht accepts (fields_of g2) (JObj s) (TPtr (rho reps idx))) samples.
  Proof.
    intros Wf G PR MM.
    destruct (pipeline_sound_strict R fuel samples fs name idx g1 g2 reps Wf G PR MM) as [_ [_ H]].
    eapply Forall_impl; [|exact H]. intros s. apply htg_ht.
  Qed.
End Pipeline.

(* ------------------------------------------------------------------ *)
(* (G7) non-vacuity: two concrete pipeline runs                                                          *)
(* ------------------------------------------------------------------ *)
Module Ex.
  Definition ka : str := [97%N]. Definition kb : str := [98%N].
  Definition kx : str := [120%N]. Definition ky : str := [121%N].
  (* {a: {x: 1}, b: {x: 2, y: s}} and {a: {x: 1.5}, b: {x: 3}} *)
  Definition s1 : list (str * json) := [(ka, JObj [(kx, JInt 1%Z)]); (kb, JObj [(kx, JInt 2%Z); (ky, JStr [115%N])])].
  Definition s2 : list (str * json) := [(ka, JObj [(kx, JFloat 7%N)]); (kb, JObj [(kx, JInt 3%Z)])].
  Definition samples := [s1; s2].
  Definition acc0 : pseudo -> str -> bool := fun _ _ => false.
  Definition km0 : nat -> str -> bool := fun _ _ => false.
  Definition fs0 : fields :=
    [(ka, TObj [(kx, TFloat)]); (kb, TObj [(kx, TInt); (ky, TOpt (TLit false [[115%N]]))])].
  Definition g1 : graph := snd (process_root fs0 (Some [82%N]) empty_graph).
  (* the two nested models are similar: they are merged into model 3; the root keeps its index *)
  Definition Rsib (a b : nat) := Nat.eqb a 1 && Nat.eqb b 2.
  (* the root and its first child are similar: the merged model 3 refers to itself (a cyclic graph) *)
  Definition Rroot (a b : nat) := Nat.eqb a 0 && Nat.eqb b 1.

  Example gen_run : generate [] [] acc0 0 km0 [] 10 samples = Some fs0.
  Proof. vm_compute. reflexivity. Qed.
  Example wf_samples : Forall (fun s => wf_json (JObj s) = true) samples.
  Proof. repeat constructor. Qed.
  Example root_run : process_root fs0 (Some [82%N]) empty_graph = (0%N, g1).
  Proof. vm_compute. reflexivity. Qed.

  Definition run_sib := merge_models [] [] Rsib g1.
  Definition run_root := merge_models [] [] Rroot g1.
  Definition g_sib : graph := match run_sib with Some (g, _) => g | None => empty_graph end.
  Definition g_root : graph := match run_root with Some (g, _) => g | None => empty_graph end.
  Example sib_run : run_sib = Some (g_sib, [(3%N, [1%N; 2%N])]) /\ rho [(3%N, [1%N; 2%N])] 0%N = 0%N /\
    fields_of g_sib 0%N = Some [(ka, TPtr 3); (kb, TPtr 3)] /\
    fields_of g_sib 3%N = Some [(kx, TFloat); (ky, TOpt (TLit false [[115%N]]))].
  Proof. vm_compute. auto. Qed.
  Example root_merge_run : run_root = Some (g_root, [(3%N, [0%N; 1%N])]) /\ rho [(3%N, [0%N; 1%N])] 0%N = 3%N /\
    fields_of g_root 3%N = Some [(ka, TOpt (TPtr 3)); (kb, TOpt (TPtr 2)); (kx, TOpt TFloat)].
  Proof. vm_compute. auto. Qed.

  Lemma hrep0 : forall a b, In (a, b) (@nil (pseudo * pseudo)) -> forall s, acc0 a s = true -> acc0 b s = true.
  Proof. intros a b []. Qed.

  (* the theorem applies: all its hypotheses hold on these runs *)
  Example sib_sound : Forall (fun s => ht acc0 (fields_of g_sib) (JObj s) (TPtr 0)) samples.
  Proof.
    destruct sib_run as [E _].
    exact (pipeline_sound acc0 [] [] 0 km0 [] hrep0 (fun _ => 0) eq_refl Rsib 10 samples fs0 (Some [82%N]) 0%N g1 g_sib _
             wf_samples gen_run root_run E).
  Qed.
  Example root_merge_sound : Forall (fun s => ht acc0 (fields_of g_root) (JObj s) (TPtr 3)) samples.
  Proof.
    destruct root_merge_run as [E _].
    exact (pipeline_sound acc0 [] [] 0 km0 [] hrep0 (fun _ => 0) eq_refl Rroot 10 samples fs0 (Some [82%N]) 0%N g1 g_root _
             wf_samples gen_run root_run E).
  Qed.
  (* and the decidable twin agrees *)
  Example sib_htb : forallb (fun s => htb acc0 (fields_of g_sib) 20 (JObj s) (TPtr 0)) samples = true.
  Proof. vm_compute. reflexivity. Qed.
  Example root_merge_htb : forallb (fun s => htb acc0 (fields_of g_root) 20 (JObj s) (TPtr 3)) samples = true.
  Proof. vm_compute. reflexivity. Qed.
End Ex.

(* the strict reading is needed at the graph stage as well: under the official ht, merge_group loses a value when
   Any occurs (same phenomenon as Sound.optimize_any_refuted_raw, now inside a well-formed graph) *)
Module ExAny.
  Definition kf : str := [102%N].
  Definition g0 : graph :=
    {| ms := [ {| m_idx := 0; m_fields := [(kf, TList TUnknown)]; m_name := None; m_gen := None |};
               {| m_idx := 1; m_fields := [(kf, TList TInt)]; m_name := None; m_gen := None |} ];
       ps := []; nxt := 2 |}.
  Definition g0' : graph :=
    {| ms := [ {| m_idx := 2; m_fields := [(kf, TList TInt)]; m_name := None; m_gen := None |} ];
       ps := []; nxt := 3 |}.
  Definition v0 : json := JObj [(kf, JArr [JStr []])].
  Example merge_group_any_refuted :
    closed g0 /\ gwf g0 /\ merge_group [] [] g0 [0%N; 1%N] = Some g0' /\
    ht (fun _ _ => false) (fields_of g0) v0 (TPtr 0) /\
    ~ ht (fun _ _ => false) (fields_of g0') v0 (rename [0%N; 1%N] 2%N (TPtr 0)).
  Proof.
    split; [|split; [|split; [|split]]].
    - unfold closed. simpl. repeat split; try (intros; contradiction).
      + intros m i [<-|[<-|[]]]; simpl; intros [].
      + repeat constructor; simpl; intuition discriminate.
      + intros i [<-|[<-|[]]]; reflexivity.
    - intros m [<-|[<-|[]]]; reflexivity.
    - vm_compute. reflexivity.
    - eapply HPtr; [reflexivity|]. apply HObj.
      + constructor; [|constructor]. exists (TList TUnknown). split; [reflexivity|].
        constructor. constructor; constructor.
      + intros k t L _. simpl in L. destruct (str_eqb k kf) eqn:E; [|discriminate].
        apply str_eqb_true in E. subst. simpl. auto.
    - simpl. intros H. inversion H; subst.
      match goal with F : fields_of g0' 2%N = Some _ |- _ => vm_compute in F; inversion F; subst end.
      match goal with V : ht _ _ (JObj _) (TObj _) |- _ => inversion V; subst end.
      match goal with HF : Forall _ [(kf, JArr [JStr []])] |- _ => inversion HF as [|? ? [t [L Ht]] _]; subst end.
      vm_compute in L. inversion L; subst t. inversion Ht; subst.
      match goal with HF : Forall _ [JStr []] |- _ => inversion HF as [|? ? H1 _]; subst; inversion H1 end.
  Qed.
End ExAny.

Print Assumptions transport.
Print Assumptions proc_sound.
Print Assumptions process_root_sound.
Print Assumptions ptr_eq_g_sound.
Print Assumptions opt_model_sound.
Print Assumptions merge_group_sound.
Print Assumptions merge_models_sound.
Print Assumptions process_root_frame.
Print Assumptions generate_shape.
Print Assumptions pipeline_sound_strict.
Print Assumptions pipeline_sound.
Print Assumptions ExAny.merge_group_any_refuted.
Print Assumptions Ex.sib_sound.
Print Assumptions Ex.root_merge_sound.

(* NOT PROVED: nothing in this file is left open.  Remarks on the statements:
   - merge_group_sound / merge_models_sound / opt_model_sound are stated for the strict reading (uk = false) only;
     for the official ht they are false when Any occurs, for the reason already recorded in Sound.v
     (optimize_any_refuted_raw, merge_optimize_any_refuted): optimize drops List[Any] beside List[int].
   - the graph invariant is closed g (RegistryInv.v) together with gwf g (unique keys, no raw object, well-formed
     literals in every model); both hold for empty_graph and are kept by process_root, merge_group, opt_model and
     merge_models, so they are not premises of pipeline_sound.
   - no counterexample was found: no stage of the registry loses a value under the strict reading. *)
