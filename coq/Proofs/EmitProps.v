(* Proofs/EmitProps.v — the field order of an emitted class (structure.sort_fields): every field appears exactly once, all
   required fields come before all optional ones (so no field without a default follows a field with one: the rule
   dataclasses and attrs enforce at class creation), and the relative order inside each group is the model's order up to
   the documented move of pointer-holding required fields to the end of the required group when transliteration is off. *)
From Coq Require Import List Bool Arith NArith Permutation.
From J2M.Model Require Import Base Emit.
Import ListNotations.

Lemma filter_partition_perm {A} (f : A -> bool) (l : list A) :
  Permutation (filter f l ++ filter (fun x => negb (f x)) l) l.
Proof.
  induction l as [|x r IH]; cbn; [constructor|].
  destruct (f x); cbn.
  - constructor. exact IH.
  - apply Permutation_sym. apply Permutation_cons_app. apply Permutation_sym. exact IH.
Qed.

Theorem sort_fields_perm : forall uf fs,
  Permutation (fst (sort_fields uf fs) ++ snd (sort_fields uf fs)) (map fst fs).
Proof.
  intros uf fs. unfold sort_fields. cbn [fst snd].
  rewrite <- map_app. apply Permutation_map.
  set (req := filter (fun kt => negb (is_opt (snd kt))) fs).
  set (g := fun kt : str * ty => uf && has_ptr (snd kt)).
  assert (P1 : Permutation (filter (fun kt => negb (g kt)) req ++ filter g req) req).
  { eapply Permutation_trans; [apply Permutation_app_comm|].
    apply (filter_partition_perm g req). }
  eapply Permutation_trans; [apply Permutation_app_tail; exact P1|].
  unfold req. eapply Permutation_trans; [apply Permutation_app_comm|].
  apply (filter_partition_perm (fun kt => is_opt (snd kt)) fs).
Qed.

Theorem sort_fields_required : forall uf fs k,
  In k (fst (sort_fields uf fs)) -> exists t, In (k, t) fs /\ is_opt t = false.
Proof.
  intros uf fs k H. unfold sort_fields in H. cbn [fst] in H.
  apply in_map_iff in H. destruct H as [[k' t] [E H]]. cbn in E. subst k'.
  exists t. apply in_app_or in H. destruct H as [H|H]; apply filter_In in H; destruct H as [H _];
    apply filter_In in H; destruct H as [H1 H2]; cbn in H2; split; auto; now apply negb_true_iff in H2.
Qed.

Theorem sort_fields_optional : forall uf fs k,
  In k (snd (sort_fields uf fs)) -> exists t, In (k, t) fs /\ is_opt t = true.
Proof.
  intros uf fs k H. unfold sort_fields in H. cbn [snd] in H.
  apply in_map_iff in H. destruct H as [[k' t] [E H]]. cbn in E. subst k'.
  exists t. apply filter_In in H. destruct H as [H1 H2]. cbn in H2. auto.
Qed.

(* with transliteration on (unicode_fix = false) the required group keeps the model's order exactly *)
Theorem sort_fields_stable : forall fs,
  fst (sort_fields false fs) = map fst (filter (fun kt => negb (is_opt (snd kt))) fs) /\
  snd (sort_fields false fs) = map fst (filter (fun kt => is_opt (snd kt)) fs).
Proof.
  intros fs. unfold sort_fields. cbn [fst snd andb negb]. split; [|reflexivity].
  set (req := filter _ fs). clearbody req.
  assert (E1 : forall l : list (str * ty), filter (fun _ => true) l = l) by (induction l as [|x r IH]; cbn; congruence).
  assert (E2 : forall l : list (str * ty), filter (fun _ => false) l = []) by (induction l as [|x r IH]; cbn; congruence).
  rewrite E1, E2, app_nil_r. reflexivity.
Qed.

Print Assumptions sort_fields_perm.
Print Assumptions sort_fields_required.
Print Assumptions sort_fields_optional.
Print Assumptions sort_fields_stable.
