(* Proofs/GrammarProps.v — theorems about Model/Grammar.v (the strings accepted by CPython int(), float() and the
   boolean-string rule).  No axioms.

   (G1) int_ok_float_ok      every string int() accepts is accepted by float(), for ARBITRARY oracles
                             (property C09: generalising {integer strings, float strings} to the float type is sound).
   (G2) float_not_int        the inclusion is strict ("1.5", "1e3", "inf", "1.", ".5", "nan").
   (G3) bool_not_int         a boolean string is never an integer string (hypothesis: characters int() can read
                             do not lower-case to something containing 't' or 'f');
        bool_not_float       a boolean string is never a float string (hypothesis: characters float() can read
                             lower-case to one character, the ASCII lower-case letter or themselves);
        bool_not_float_ascii the same for ASCII strings from the weaker hypothesis "str.lower is Py_TOLOWER below 127";
        nan_inf_not_bool     "nan", "inf", "infinity" are not boolean strings.
   (G4) int_ok_strip, float_ok_strip   surrounding strippable whitespace does not matter (no side condition on s).
   The oracle hypotheses are Section hypotheses; tools/validate_grammar.py checks them on all 0x110000 code points. *)
From Coq Require Import List Bool Arith NArith Lia.
From J2M.Model Require Import Base Grammar.
Import ListNotations.
Local Open Scope N_scope.

(* ------------------------------------------------------------------ G1 on the ASCII text *)
Lemma int_after_digit_float_len : forall n t, (length t <= n)%nat ->
  int_after_digit t = true -> float_int_after_digit t = true.
Proof.
  induction n as [|n IH]; intros t Hl H.
  - destruct t; [reflexivity | simpl in Hl; lia].
  - destruct t as [|c r]; [reflexivity|].
    simpl in *. destruct (g_digit c).
    + apply IH; [lia | exact H].
    + destruct (c =? G_USCORE); [|discriminate].
      destruct r as [|d r']; [discriminate|].
      destruct (g_digit d); simpl in *; [|discriminate].
      apply IH; [lia | exact H].
Qed.

Lemma int_after_digit_float : forall t, int_after_digit t = true -> float_int_after_digit t = true.
Proof. intros t; apply (int_after_digit_float_len (length t)); apply Nat.le_refl. Qed.

Lemma int_digits_float_number : forall t, int_digits t = true -> float_number t = true.
Proof.
  intros [|c r] H; [discriminate|].
  simpl in *. destruct (g_digit c); simpl in *; [|discriminate].
  apply int_after_digit_float; exact H.
Qed.

Theorem int_ascii_float_ascii : forall t, int_ascii t = true -> float_ascii t = true.
Proof.
  intros t H. unfold int_ascii in H. unfold float_ascii, float_unsigned.
  rewrite (int_digits_float_number _ H). apply orb_true_r.
Qed.

(* ------------------------------------------------------------------ stripping *)
Lemma lstrip_ws_app : forall w t, Forall (fun c => g_cspace c = true) w -> g_lstrip (w ++ t) = g_lstrip t.
Proof.
  induction w as [|c w IH]; intros t H; [reflexivity|].
  inversion H as [|? ? Hc Hw]; subst. simpl. rewrite Hc. apply IH; exact Hw.
Qed.

Lemma lstrip_ws : forall w, Forall (fun c => g_cspace c = true) w -> g_lstrip w = [].
Proof. intros w H. rewrite <- (app_nil_r w). rewrite lstrip_ws_app by exact H. reflexivity. Qed.

Lemma lstrip_app_nonnil : forall t w, g_lstrip t <> [] -> g_lstrip (t ++ w) = g_lstrip t ++ w.
Proof.
  induction t as [|c t IH]; intros w H; [elim H; reflexivity|].
  simpl in *. destruct (g_cspace c); [apply IH; exact H | reflexivity].
Qed.

Lemma lstrip_app_nil : forall t w, g_lstrip t = [] -> g_lstrip (t ++ w) = g_lstrip w.
Proof.
  induction t as [|c t IH]; intros w H; [reflexivity|].
  simpl in *. destruct (g_cspace c); [apply IH; exact H | discriminate].
Qed.

Lemma rstrip_app_ws : forall t w, Forall (fun c => g_cspace c = true) w -> g_rstrip (t ++ w) = g_rstrip t.
Proof.
  intros t w H. unfold g_rstrip. rewrite rev_app_distr.
  rewrite lstrip_ws_app; [reflexivity|]. apply Forall_rev; exact H.
Qed.

Theorem strip_ws : forall w1 t w2,
  Forall (fun c => g_cspace c = true) w1 -> Forall (fun c => g_cspace c = true) w2 ->
  g_strip (w1 ++ t ++ w2) = g_strip t.
Proof.
  intros w1 t w2 H1 H2. unfold g_strip. rewrite lstrip_ws_app by exact H1.
  destruct (g_lstrip t) as [|c u] eqn:E.
  - rewrite lstrip_app_nil by exact E. rewrite lstrip_ws by exact H2. reflexivity.
  - rewrite lstrip_app_nonnil by (rewrite E; discriminate). rewrite E.
    apply rstrip_app_ws; exact H2.
Qed.

(* every character of t is strippable whitespace or survives in g_strip t *)
Lemma in_lstrip : forall x t, In x t -> g_cspace x = true \/ In x (g_lstrip t).
Proof.
  induction t as [|c t IH]; intros H; [elim H|].
  simpl. destruct (g_cspace c) eqn:E.
  - destruct H as [->|H]; [left; exact E | apply IH; exact H].
  - right; exact H.
Qed.

Lemma in_rstrip : forall x t, In x t -> g_cspace x = true \/ In x (g_rstrip t).
Proof.
  intros x t H. unfold g_rstrip. apply in_rev in H.
  destruct (in_lstrip x _ H) as [E|I]; [left; exact E | right].
  apply in_rev in I. exact I.
Qed.

Lemma in_strip : forall x t, In x t -> g_cspace x = true \/ In x (g_strip t).
Proof.
  intros x t H. unfold g_strip.
  destruct (in_lstrip x t H) as [E|I]; [left; exact E|]. apply in_rstrip; exact I.
Qed.

(* ------------------------------------------------------------------ alphabets *)
Definition int_alpha (a : N) : bool := g_cspace a || g_digit a || g_sign a || (a =? G_USCORE).
Definition float_letter (a : N) : bool :=
  existsb (N.eqb (g_lower a)) [101; 105; 110; 102; 97; 116; 121].              (* e i n f a t y *)
Definition float_alpha (a : N) : bool := int_alpha a || (a =? G_DOT) || float_letter a.

Lemma int_alpha_float_alpha : forall a, int_alpha a = true -> float_alpha a = true.
Proof. intros a H. unfold float_alpha. rewrite H. reflexivity. Qed.

Lemma digit_int_alpha : forall a, g_digit a = true -> int_alpha a = true.
Proof. intros a H. unfold int_alpha. rewrite H. rewrite orb_true_r. reflexivity. Qed.
Lemma uscore_int_alpha : forall a, (a =? G_USCORE) = true -> int_alpha a = true.
Proof. intros a H. unfold int_alpha. rewrite H. apply orb_true_r. Qed.
Lemma sign_int_alpha : forall a, g_sign a = true -> int_alpha a = true.
Proof. intros a H. unfold int_alpha. rewrite H. rewrite orb_true_r. reflexivity. Qed.
Lemma cspace_int_alpha : forall a, g_cspace a = true -> int_alpha a = true.
Proof. intros a H. unfold int_alpha. rewrite H. reflexivity. Qed.

Lemma int_after_digit_alpha_len : forall n t, (length t <= n)%nat ->
  int_after_digit t = true -> forall x, In x t -> int_alpha x = true.
Proof.
  induction n as [|n IH]; intros t Hl H x Hx.
  - destruct t; [elim Hx | simpl in Hl; lia].
  - destruct t as [|c r]; [elim Hx|].
    simpl in H, Hl. destruct (g_digit c) eqn:Ec.
    + destruct Hx as [<-|Hx]; [apply digit_int_alpha; exact Ec|].
      apply (IH r); [lia | exact H | exact Hx].
    + destruct (c =? G_USCORE) eqn:Eu; [|discriminate].
      destruct Hx as [<-|Hx]; [apply uscore_int_alpha; exact Eu|].
      destruct r as [|d r']; [discriminate|].
      destruct (g_digit d) eqn:Ed; simpl in H; [|discriminate].
      destruct Hx as [<-|Hx]; [apply digit_int_alpha; exact Ed|].
      simpl in Hl. apply (IH r'); [lia | exact H | exact Hx].
Qed.

Lemma int_digits_alpha : forall t, int_digits t = true -> forall x, In x t -> int_alpha x = true.
Proof.
  intros [|c r] H x Hx; [discriminate|].
  simpl in H. destruct (g_digit c) eqn:Ec; simpl in H; [|discriminate].
  destruct Hx as [<-|Hx]; [apply digit_int_alpha; exact Ec|].
  apply (int_after_digit_alpha_len (length r) r (Nat.le_refl _) H); exact Hx.
Qed.

Lemma in_unsign : forall x t, In x t -> g_sign x = true \/ In x (unsign t).
Proof.
  intros x [|c r] H; [elim H|].
  simpl. destruct (g_sign c) eqn:E; [|right; exact H].
  destruct H as [<-|H]; [left; exact E | right; exact H].
Qed.

Theorem int_ascii_alpha : forall t, int_ascii t = true -> forall x, In x t -> int_alpha x = true.
Proof.
  intros t H x Hx. unfold int_ascii in H.
  destruct (in_strip x t Hx) as [E|I]; [apply cspace_int_alpha; exact E|].
  destruct (in_unsign x _ I) as [E|I']; [apply sign_int_alpha; exact E|].
  apply (int_digits_alpha _ H); exact I'.
Qed.

(* the alphabet of float: used for the general form of G3 *)
Lemma exp_float_alpha : forall a, g_exp a = true -> float_alpha a = true.
Proof.
  intros a H. unfold g_exp in H. apply orb_true_iff in H.
  destruct H as [H|H]; apply N.eqb_eq in H; subst; reflexivity.
Qed.

Lemma float_exp_alpha : forall t, float_exp t = true -> forall x, In x t -> float_alpha x = true.
Proof.
  intros t H x Hx. unfold float_exp in H. apply int_alpha_float_alpha.
  destruct (in_unsign x _ Hx) as [E|I]; [apply sign_int_alpha; exact E|].
  apply (int_digits_alpha _ H); exact I.
Qed.

Lemma float_frac_alpha_len : forall n t, (length t <= n)%nat ->
  float_frac_after_digit t = true -> forall x, In x t -> float_alpha x = true.
Proof.
  induction n as [|n IH]; intros t Hl H x Hx.
  - destruct t; [elim Hx | simpl in Hl; lia].
  - destruct t as [|c r]; [elim Hx|].
    simpl in H, Hl. destruct (g_digit c) eqn:Ec.
    + destruct Hx as [<-|Hx]; [apply int_alpha_float_alpha, digit_int_alpha; exact Ec|].
      apply (IH r); [lia | exact H | exact Hx].
    + destruct (c =? G_USCORE) eqn:Eu.
      * destruct Hx as [<-|Hx]; [apply int_alpha_float_alpha, uscore_int_alpha; exact Eu|].
        destruct r as [|d r']; [discriminate|].
        destruct (g_digit d) eqn:Ed; simpl in H; [|discriminate].
        destruct Hx as [<-|Hx]; [apply int_alpha_float_alpha, digit_int_alpha; exact Ed|].
        simpl in Hl. apply (IH r'); [lia | exact H | exact Hx].
      * destruct (g_exp c) eqn:Ee; [|discriminate].
        destruct Hx as [<-|Hx]; [apply exp_float_alpha; exact Ee|].
        apply (float_exp_alpha _ H); exact Hx.
Qed.

Lemma float_after_point_alpha : forall b t, float_after_point b t = true ->
  forall x, In x t -> float_alpha x = true.
Proof.
  intros b [|c r] H x Hx; [elim Hx|].
  simpl in H. destruct (g_digit c) eqn:Ec.
  - destruct Hx as [<-|Hx]; [apply int_alpha_float_alpha, digit_int_alpha; exact Ec|].
    apply (float_frac_alpha_len (length r) r (Nat.le_refl _) H); exact Hx.
  - destruct (g_exp c) eqn:Ee; [|discriminate].
    apply andb_true_iff in H. destruct H as [_ H].
    destruct Hx as [<-|Hx]; [apply exp_float_alpha; exact Ee|].
    apply (float_exp_alpha _ H); exact Hx.
Qed.

Lemma dot_float_alpha : forall a, (a =? G_DOT) = true -> float_alpha a = true.
Proof. intros a H. unfold float_alpha. rewrite H. rewrite orb_true_r. reflexivity. Qed.

Lemma float_int_alpha_len : forall n t, (length t <= n)%nat ->
  float_int_after_digit t = true -> forall x, In x t -> float_alpha x = true.
Proof.
  induction n as [|n IH]; intros t Hl H x Hx.
  - destruct t; [elim Hx | simpl in Hl; lia].
  - destruct t as [|c r]; [elim Hx|].
    simpl in H, Hl. destruct (g_digit c) eqn:Ec.
    + destruct Hx as [<-|Hx]; [apply int_alpha_float_alpha, digit_int_alpha; exact Ec|].
      apply (IH r); [lia | exact H | exact Hx].
    + destruct (c =? G_USCORE) eqn:Eu.
      * destruct Hx as [<-|Hx]; [apply int_alpha_float_alpha, uscore_int_alpha; exact Eu|].
        destruct r as [|d r']; [discriminate|].
        destruct (g_digit d) eqn:Ed; simpl in H; [|discriminate].
        destruct Hx as [<-|Hx]; [apply int_alpha_float_alpha, digit_int_alpha; exact Ed|].
        simpl in Hl. apply (IH r'); [lia | exact H | exact Hx].
      * destruct (c =? G_DOT) eqn:Ep.
        -- destruct Hx as [<-|Hx]; [apply dot_float_alpha; exact Ep|].
           apply (float_after_point_alpha _ _ H); exact Hx.
        -- destruct (g_exp c) eqn:Ee; [|discriminate].
           destruct Hx as [<-|Hx]; [apply exp_float_alpha; exact Ee|].
           apply (float_exp_alpha _ H); exact Hx.
Qed.

Lemma float_number_alpha : forall t, float_number t = true -> forall x, In x t -> float_alpha x = true.
Proof.
  intros [|c r] H x Hx; [elim Hx|].
  simpl in H. destruct (g_digit c) eqn:Ec.
  - destruct Hx as [<-|Hx]; [apply int_alpha_float_alpha, digit_int_alpha; exact Ec|].
    apply (float_int_alpha_len (length r) r (Nat.le_refl _) H); exact Hx.
  - destruct (c =? G_DOT) eqn:Ep; [|discriminate].
    destruct Hx as [<-|Hx]; [apply dot_float_alpha; exact Ep|].
    apply (float_after_point_alpha _ _ H); exact Hx.
Qed.

Lemma str_eqb_eq : forall a b, str_eqb a b = true -> a = b.
Proof. intros a b. unfold str_eqb. destruct (list_eq_dec N.eq_dec a b); [trivial | discriminate]. Qed.

Lemma lower_word_alpha : forall w t, map g_lower t = w ->
  (forall y, In y w -> existsb (N.eqb y) [101; 105; 110; 102; 97; 116; 121] = true) ->
  forall x, In x t -> float_alpha x = true.
Proof.
  intros w t E Hw x Hx. unfold float_alpha, float_letter.
  rewrite (Hw (g_lower x)); [apply orb_true_r|].
  rewrite <- E. apply in_map; exact Hx.
Qed.

Lemma float_special_alpha : forall t, float_special t = true -> forall x, In x t -> float_alpha x = true.
Proof.
  intros t H. unfold float_special in H.
  apply orb_true_iff in H. destruct H as [H|H]; [apply orb_true_iff in H; destruct H as [H|H]|];
    apply str_eqb_eq in H; apply (lower_word_alpha _ _ H);
    intros y Hy; simpl in Hy;
    repeat (destruct Hy as [<-|Hy]; [reflexivity|]); elim Hy.
Qed.

Theorem float_ascii_alpha : forall t, float_ascii t = true -> forall x, In x t -> float_alpha x = true.
Proof.
  intros t H x Hx. unfold float_ascii, float_unsigned in H.
  destruct (in_strip x t Hx) as [E|I]; [apply int_alpha_float_alpha, cspace_int_alpha; exact E|].
  destruct (in_unsign x _ I) as [E|I']; [apply int_alpha_float_alpha, sign_int_alpha; exact E|].
  apply orb_true_iff in H. destruct H as [H|H].
  - apply (float_special_alpha _ H); exact I'.
  - apply (float_number_alpha _ H); exact I'.
Qed.

(* a float text that is not strippable starts with a sign, a digit, the point or i/I/n/N; so no text whose
   lower-casing is "true" or "false" is a float text *)
Lemma g_lower_cases : forall c x, g_lower c = x -> c = x \/ (c + 32 = x /\ 65 <= c /\ c <= 90).
Proof.
  intros c x H. unfold g_lower in H.
  destruct ((65 <=? c) && (c <=? 90)) eqn:E; [right | left; exact H].
  apply andb_true_iff in E. destruct E as [E1 E2].
  apply N.leb_le in E1. apply N.leb_le in E2. auto.
Qed.

Lemma lower_true_not_float : forall t, map g_lower t = s_true -> float_ascii t = false.
Proof.
  intros t H. destruct t as [|c1 [|c2 [|c3 [|c4 [|c5 t]]]]]; try discriminate.
  unfold s_true in H. injection H as H1 H2 H3 H4.
  apply g_lower_cases in H1, H2, H3, H4.
  assert (A1 : c1 = 116 \/ c1 = 84) by lia. assert (A2 : c2 = 114 \/ c2 = 82) by lia.
  assert (A3 : c3 = 117 \/ c3 = 85) by lia. assert (A4 : c4 = 101 \/ c4 = 69) by lia.
  clear H1 H2 H3 H4.
  destruct A1 as [-> | ->], A2 as [-> | ->], A3 as [-> | ->], A4 as [-> | ->]; reflexivity.
Qed.

Lemma lower_false_not_float : forall t, map g_lower t = s_false -> float_ascii t = false.
Proof.
  intros t H. destruct t as [|c1 [|c2 [|c3 [|c4 [|c5 [|c6 t]]]]]]; try discriminate.
  unfold s_false in H. injection H as H1 H2 H3 H4 H5.
  apply g_lower_cases in H1, H2, H3, H4, H5.
  assert (A1 : c1 = 102 \/ c1 = 70) by lia. assert (A2 : c2 = 97 \/ c2 = 65) by lia.
  assert (A3 : c3 = 108 \/ c3 = 76) by lia. assert (A4 : c4 = 115 \/ c4 = 83) by lia.
  assert (A5 : c5 = 101 \/ c5 = 69) by lia.
  clear H1 H2 H3 H4 H5.
  destruct A1 as [-> | ->], A2 as [-> | ->], A3 as [-> | ->], A4 as [-> | ->], A5 as [-> | ->]; reflexivity.
Qed.

(* ================================================================== theorems about int_ok / float_ok / bool_ok *)
Section GrammarProps.
  Variable is_space_c : N -> bool.
  Variable digit_val_c : N -> option N.
  Variable lower_c : N -> str.

  Notation norm_c := (norm_c is_space_c digit_val_c).
  Notation norm := (norm is_space_c digit_val_c).
  Notation strip_c := (strip_c is_space_c digit_val_c).
  Notation int_ok := (int_ok is_space_c digit_val_c).
  Notation float_ok := (float_ok is_space_c digit_val_c).
  Notation bool_ok := (bool_ok lower_c).

  (* ---------------- G1: no hypothesis on the oracles ---------------- *)
  Theorem int_ok_float_ok : forall s, int_ok s = true -> float_ok s = true.
  Proof. intros s. apply int_ascii_float_ascii. Qed.

  (* the form used by C09: the union of the two string classes is the float class *)
  Corollary int_or_float_is_float : forall s, int_ok s || float_ok s = float_ok s.
  Proof.
    intros s. destruct (int_ok s) eqn:E; [|reflexivity].
    rewrite (int_ok_float_ok s E). reflexivity.
  Qed.

  (* ---------------- G4: stripping ---------------- *)
  Lemma norm_ws : forall w, Forall (fun c => strip_c c = true) w -> Forall (fun c => g_cspace c = true) (norm w).
  Proof.
    intros w H. induction H as [|c w Hc Hw IH]; [constructor|].
    simpl. constructor; [exact Hc | exact IH].
  Qed.

  Lemma norm_strip : forall ws1 s ws2,
    Forall (fun c => strip_c c = true) ws1 -> Forall (fun c => strip_c c = true) ws2 ->
    g_strip (norm (ws1 ++ s ++ ws2)) = g_strip (norm s).
  Proof.
    intros ws1 s ws2 H1 H2. unfold Grammar.norm. rewrite !map_app.
    apply strip_ws; apply norm_ws; assumption.
  Qed.

  Theorem int_ok_strip : forall ws1 s ws2,
    Forall (fun c => strip_c c = true) ws1 -> Forall (fun c => strip_c c = true) ws2 ->
    int_ok (ws1 ++ s ++ ws2) = int_ok s.
  Proof.
    intros ws1 s ws2 H1 H2. unfold Grammar.int_ok, int_ascii. rewrite norm_strip by assumption. reflexivity.
  Qed.

  Theorem float_ok_strip : forall ws1 s ws2,
    Forall (fun c => strip_c c = true) ws1 -> Forall (fun c => strip_c c = true) ws2 ->
    float_ok (ws1 ++ s ++ ws2) = float_ok s.
  Proof.
    intros ws1 s ws2 H1 H2. unfold Grammar.float_ok, float_ascii. rewrite norm_strip by assumption. reflexivity.
  Qed.

  (* what is stripped: C whitespace below 127, str.isspace from 127 on (U+001C..U+001F are str.isspace, not stripped) *)
  Lemma strip_c_spec : forall c,
    strip_c c = if c <? 127 then g_cspace c
                else is_space_c c || match digit_val_c c with Some d => g_cspace (48 + d) | None => false end.
  Proof.
    intros c. unfold Grammar.strip_c, Grammar.norm_c.
    destruct (c <? 127); [reflexivity|].
    destruct (is_space_c c); [reflexivity|].
    destruct (digit_val_c c); reflexivity.
  Qed.

  (* ---------------- alphabets of accepted strings ---------------- *)
  Lemma int_ok_alpha : forall s, int_ok s = true -> forall c, In c s -> int_alpha (norm_c c) = true.
  Proof.
    intros s H c Hc. apply (int_ascii_alpha _ H). unfold Grammar.norm. apply in_map; exact Hc.
  Qed.

  Lemma float_ok_alpha : forall s, float_ok s = true -> forall c, In c s -> float_alpha (norm_c c) = true.
  Proof.
    intros s H c Hc. apply (float_ascii_alpha _ H). unfold Grammar.norm. apply in_map; exact Hc.
  Qed.

  (* ---------------- G3 ---------------- *)
  Lemma bool_ok_head : forall s, bool_ok s = true -> exists c, In c s /\ (In 116 (lower_c c) \/ In 102 (lower_c c)).
  Proof.
    intros s H. unfold Grammar.bool_ok in H. apply orb_true_iff in H.
    destruct H as [H|H]; apply str_eqb_eq in H.
    - assert (I : In 116 (flat_map lower_c s)) by (rewrite H; left; reflexivity).
      apply in_flat_map in I. destruct I as [c [Hc I]]. exists c; auto.
    - assert (I : In 102 (flat_map lower_c s)) by (rewrite H; left; reflexivity).
      apply in_flat_map in I. destruct I as [c [Hc I]]. exists c; auto.
  Qed.

  Section BoolNotInt.
    (* the characters int() can read (whitespace, signs, underscore, decimal digits of any script)
       do not lower-case to anything containing 't' or 'f' *)
    Hypothesis lower_int_chars : forall c, int_alpha (norm_c c) = true ->
      ~ In 116 (lower_c c) /\ ~ In 102 (lower_c c).

    Theorem bool_not_int : forall s, bool_ok s = true -> int_ok s = false.
    Proof.
      intros s Hb. destruct (int_ok s) eqn:Hi; [exfalso | reflexivity].
      destruct (bool_ok_head s Hb) as [c [Hc Hl]].
      destruct (lower_int_chars c (int_ok_alpha s Hi c Hc)) as [Nt Nf].
      destruct Hl as [Hl|Hl]; [apply Nt | apply Nf]; exact Hl.
    Qed.
  End BoolNotInt.

  Section BoolNotFloatAscii.
    (* below 127 str.lower is the C lower-casing *)
    Hypothesis lower_ascii : forall c, c < 127 -> lower_c c = [g_lower c].

    Lemma lower_ascii_str : forall s, Forall (fun c => c < 127) s -> flat_map lower_c s = map g_lower s.
    Proof.
      intros s H. induction H as [|c s Hc Hs IH]; [reflexivity|].
      simpl. rewrite (lower_ascii c Hc), IH. reflexivity.
    Qed.

    Lemma norm_ascii_str : forall s, Forall (fun c => c < 127) s -> norm s = s.
    Proof.
      intros s H. induction H as [|c s Hc Hs IH]; [reflexivity|].
      simpl. rewrite IH. unfold Grammar.norm_c. apply N.ltb_lt in Hc. rewrite Hc. reflexivity.
    Qed.

    Theorem bool_not_float_ascii : forall s, Forall (fun c => c < 127) s -> bool_ok s = true -> float_ok s = false.
    Proof.
      intros s Ha Hb. unfold Grammar.float_ok. rewrite (norm_ascii_str s Ha).
      unfold Grammar.bool_ok in Hb. rewrite (lower_ascii_str s Ha) in Hb.
      apply orb_true_iff in Hb. destruct Hb as [H|H]; apply str_eqb_eq in H.
      - apply lower_true_not_float; exact H.
      - apply lower_false_not_float; exact H.
    Qed.

    Theorem nan_inf_not_bool : bool_ok s_nan = false /\ bool_ok s_inf = false /\ bool_ok s_infinity = false.
    Proof.
      unfold Grammar.bool_ok.
      rewrite !lower_ascii_str by (repeat constructor).
      repeat split; reflexivity.
    Qed.
  End BoolNotFloatAscii.

  Section BoolNotFloat.
    (* the characters float() can read lower-case to exactly one character: the ASCII lower-case letter below 127,
       themselves from 127 on (non-ASCII whitespace and decimal digits are caseless) *)
    Hypothesis lower_float_chars : forall c, float_alpha (norm_c c) = true ->
      lower_c c = [if c <? 127 then g_lower c else c].

    Lemma float_ok_lower_ascii : forall s, (forall c, In c s -> float_alpha (norm_c c) = true) ->
      forall w, flat_map lower_c s = w -> Forall (fun y => y < 127) w -> map g_lower (norm s) = w.
    Proof.
      induction s as [|c s IH]; intros Hs w E Hw; [exact E|].
      simpl in E. rewrite (lower_float_chars c (Hs c (or_introl eq_refl))) in E. simpl in E.
      subst w. inversion Hw as [|? ? Hy Hw']; subst.
      simpl. rewrite (IH (fun c' Hc' => Hs c' (or_intror Hc')) _ eq_refl Hw').
      f_equal. unfold Grammar.norm_c.
      destruct (c <? 127) eqn:E; [reflexivity|].
      apply N.ltb_ge in E. lia.
    Qed.

    Theorem bool_not_float : forall s, bool_ok s = true -> float_ok s = false.
    Proof.
      intros s Hb. destruct (float_ok s) eqn:Hf; [exfalso | reflexivity].
      pose proof (float_ok_alpha s Hf) as Ha.
      unfold Grammar.float_ok in Hf. unfold Grammar.bool_ok in Hb.
      apply orb_true_iff in Hb. destruct Hb as [H|H]; apply str_eqb_eq in H.
      - assert (L : map g_lower (norm s) = s_true).
        { apply (float_ok_lower_ascii s Ha _ H). unfold s_true. repeat constructor. }
        rewrite (lower_true_not_float _ L) in Hf. discriminate.
      - assert (L : map g_lower (norm s) = s_false).
        { apply (float_ok_lower_ascii s Ha _ H). unfold s_false. repeat constructor. }
        rewrite (lower_false_not_float _ L) in Hf. discriminate.
    Qed.
  End BoolNotFloat.
End GrammarProps.

(* ------------------------------------------------------------------ G2: the inclusion is strict *)
Definition no_space (c : N) : bool := false.
Definition no_digit (c : N) : option N := None.

Example float_not_int :
  let i := int_ok no_space no_digit in
  let f := float_ok no_space no_digit in
  (f [49; 46; 53] = true /\ i [49; 46; 53] = false) /\                         (* "1.5" *)
  (f [49; 101; 51] = true /\ i [49; 101; 51] = false) /\                       (* "1e3" *)
  (f [105; 110; 102] = true /\ i [105; 110; 102] = false) /\                   (* "inf" *)
  (f [49; 46] = true /\ i [49; 46] = false) /\                                 (* "1."  *)
  (f [46; 53] = true /\ i [46; 53] = false) /\                                 (* ".5"  *)
  (f [45; 78; 97; 78] = true /\ i [45; 78; 97; 78] = false) /\                 (* "-NaN" *)
  (f [49; 95; 48; 46; 53; 95; 48] = true /\ i [49; 95; 48; 46; 53; 95; 48] = false). (* "1_0.5_0" *)
Proof. vm_compute. repeat split; reflexivity. Qed.

(* both accept, with non-ASCII digits and whitespace: " +١_２ " with a small oracle; and the U+001C case *)
Definition demo_space (c : N) : bool := (c =? 8195) || ((28 <=? c) && (c <=? 32)).
Definition demo_digit (c : N) : option N :=
  if (1632 <=? c) && (c <=? 1641) then Some (c - 1632)
  else if (65296 <=? c) && (c <=? 65305) then Some (c - 65296) else None.
Example int_float_unicode :
  int_ok demo_space demo_digit [32; 43; 1633; 95; 65298; 8195] = true /\
  float_ok demo_space demo_digit [32; 43; 1633; 95; 65298; 8195] = true /\
  float_ok demo_space demo_digit [1633; 46; 65298; 101; 45; 1635] = true /\     (* "١.２e-٣" *)
  int_ok demo_space demo_digit [28; 49] = false /\                             (* "\x1c1": isspace, not stripped *)
  float_ok demo_space demo_digit [28; 49] = false /\
  float_ok demo_space demo_digit [49; 95; 46; 53] = false /\                   (* "1_.5" *)
  float_ok demo_space demo_digit [49; 46; 95; 53] = false /\                   (* "1._5" *)
  float_ok demo_space demo_digit [46] = false.                                 (* "."    *)
Proof. vm_compute. repeat split; reflexivity. Qed.

Print Assumptions int_ok_float_ok.
Print Assumptions int_or_float_is_float.
Print Assumptions float_not_int.
Print Assumptions int_ok_strip.
Print Assumptions float_ok_strip.
Print Assumptions bool_not_int.
Print Assumptions bool_not_float_ascii.
Print Assumptions bool_not_float.
Print Assumptions nan_inf_not_bool.

(* NOT PROVED:
   - float_ascii_2pass t = float_ascii t (the transcription of CPython's two-pass algorithm — check the
     underscores, delete them, parse — against the one-pass grammar).  Only tested: 0 differences on the
     93 905 strings of tools/validate_grammar.py.  None of the theorems above mentions float_ascii_2pass.
   - Nothing here ties the recognisers to CPython; that tie is the differential test.
   - The 4300-digit limit of int() (sys.set_int_max_str_digits) is not modelled: for a string of more than 4300
     digits int() raises ValueError while float() accepts, which does not contradict G1 (int_ok is then an
     over-approximation of int(), and the implication int() accepts -> float() accepts is preserved). *)
