(* Proofs/LayoutProps.v — property C12 for Model/Layout.v (compose_models_flat / compose_models):
   "In both layouts each inferred model is emitted exactly once; the flat layout lists the root model first;
    for tree-shaped model graphs the nested layout places each class inside the class that references it".
   No axioms; stdlib only. *)
From Coq Require Import List Bool Arith NArith ZArith Lia Permutation.
From J2M.Model Require Import Base Registry Emit Layout.
Import ListNotations.
Local Open Scope list_scope.

(* ------------------------------------------------------------------------------------------------ *)
(* Definitions                                                                                        *)
(* ------------------------------------------------------------------------------------------------ *)
Fixpoint flatten (n : node) : list N := match n with Node m l => m :: flat_map flatten l end.
Definition label (n : node) : N := match n with Node m _ => m end.
Definition nested_of (n : node) : list node := match n with Node _ l => l end.

Definition idxs (g : graph) : list N := map m_idx (ms g).
Definition every_model_pointed (g : graph) : Prop := forall m, In m (map m_idx (ms g)) -> ptrs_to g m <> [].
Definition is_root (g : graph) (m : N) : Prop := parent_ptrs g m = [].

(* the pointer table is a tree rooted at r *)
Definition tree_table (g : graph) (r : N) : Prop :=
  NoDup (map m_idx (ms g)) /\ In r (map m_idx (ms g)) /\ is_root g r /\ has_root_ptr g r = true
  /\ (forall m, In m (map m_idx (ms g)) -> m <> r ->
        has_root_ptr g m = false /\ exists p, parents_of g m = [p] /\ In p (map m_idx (ms g)) /\ p <> m)
  /\ (exists depth : N -> nat, depth r = 0 /\
        forall m p, In m (map m_idx (ms g)) -> m <> r -> parents_of g m = [p] -> depth m = S (depth p)).

(* structural induction on node with the nested list *)
Section node_ind2.
  Variable P : node -> Prop.
  Hypothesis HN : forall m l, Forall P l -> P (Node m l).
  Fixpoint node_ind2 (n : node) : P n :=
    match n with
    | Node m l => HN m l ((fix go l : Forall P l :=
        match l with [] => Forall_nil _ | x :: r => Forall_cons _ (node_ind2 x) (go r) end) l)
    end.
End node_ind2.

(* ------------------------------------------------------------------------------------------------ *)
(* Generic list lemmas                                                                                *)
(* ------------------------------------------------------------------------------------------------ *)
Lemma insert_at_perm : forall (A : Type) (k : nat) (x : A) (l : list A), Permutation (insert_at k x l) (x :: l).
Proof.
  intros A k; induction k as [|k IHk]; intros x l.
  - destruct l; simpl; apply Permutation_refl.
  - destruct l as [|y l']; simpl.
    + apply Permutation_refl.
    + eapply perm_trans; [apply perm_skip, IHk | apply perm_swap].
Qed.

Lemma insert_at_S_cons : forall (A : Type) (k : nat) (x y : A) (l : list A),
  insert_at (S k) x (y :: l) = y :: insert_at k x l.
Proof. reflexivity. Qed.

Lemma flat_map_flatten_leaf : forall l, flat_map flatten (map (fun m => Node m []) l) = l.
Proof. induction l as [|a l IH]; simpl; [reflexivity | now rewrite IH]. Qed.

Lemma str_eqb_true : forall a b, str_eqb a b = true <-> a = b.
Proof. intros a b; unfold str_eqb; destruct (list_eq_dec N.eq_dec a b); split; congruence. Qed.
Lemma str_eqb_refl : forall a, str_eqb a a = true.
Proof. intros a; now apply str_eqb_true. Qed.
Lemma str_eqb_false : forall a b, str_eqb a b = false <-> a <> b.
Proof. intros a b; unfold str_eqb; destruct (list_eq_dec N.eq_dec a b); split; congruence. Qed.

(* ------------------------------------------------------------------------------------------------ *)
(* F1, F2: the flat layout is a permutation of the registry; it fails iff a model has no pointers    *)
(* ------------------------------------------------------------------------------------------------ *)
Lemma ptrs_empty_iff : forall g m, ptrs_to g m = [] <-> (parent_ptrs g m = [] /\ has_root_ptr g m = false).
Proof.
  intros g m; unfold parent_ptrs, has_root_ptr.
  destruct (ptrs_to g m) as [|p lp]; simpl.
  - tauto.
  - split; [discriminate|]. intros [H1 H2]. destruct (p_par p); simpl in *; discriminate.
Qed.

Lemma fold_flat_none : forall g l, fold_left (flat_step g) l None = None.
Proof. induction l; simpl; auto. Qed.

(* shape of one step; [pos] is bounded below by any common lower bound of the stored positions and the length *)
Definition vals_ge (c : Z) (d : pdict) : Prop := Forall (fun kv => (c <= snd kv)%Z) d.

Lemma lookup_vals_ge : forall c (d : pdict) k v, vals_ge c d -> lookup k d = Some v -> (c <= v)%Z.
Proof.
  intros c d k v H; induction H as [|[k' v'] d' Hx Hd IH]; simpl; [discriminate|].
  destruct (str_eqb k k'); [intros E; inversion E; subst; exact Hx | exact IH].
Qed.

Lemma fold_max_ge : forall r x, (x <= fold_left Z.max r x)%Z.
Proof.
  induction r as [|y r IH]; intros x; simpl; [lia|].
  specialize (IH (Z.max x y)). lia.
Qed.

Lemma flat_step_root : forall g st m st',
  parent_ptrs g m = [] -> flat_step g (Some st) m = Some st' ->
  has_root_ptr g m = true /\
  let d := match pd_get (fs_pos st) ROOT with Some _ => fs_pos st | None => fs_pos st ++ [(ROOT, 0%Z)] end in
  let pos := match pd_get d ROOT with Some p => p | None => 0%Z end in
  st' = {| fs_list := insert_at (Z.to_nat pos) m (fs_list st); fs_pos := update_position d ROOT (pos + 1)%Z;
           fs_top := fs_top st ++ [m] |}.
Proof.
  intros g st m st' Hp H. unfold flat_step in H. rewrite Hp in H.
  destruct (has_root_ptr g m); [|discriminate]. split; [reflexivity|].
  cbv zeta. inversion H. reflexivity.
Qed.

Definition pos_bound (st : fstate) (pos : Z) : Prop :=
  forall c, vals_ge c (fs_pos st) -> (c <= Z.of_nat (length (fs_list st)))%Z -> (c <= pos)%Z.

Lemma in_set_of_strs_acc : forall l acc s, (In s acc \/ In s l) -> In s (fold_left (fun acc s => insert_sorted s acc) l acc).
Proof.
  assert (Hcmp : forall a b, str_cmp a b = Eq -> a = b).
  { induction a as [|c a IH]; destruct b as [|d b]; simpl; try discriminate; auto.
    destruct (N.compare c d) eqn:E; try discriminate.
    intros H. apply N.compare_eq in E. subst. f_equal. auto. }
  assert (Hins1 : forall s acc, In s (insert_sorted s acc)).
  { intros s acc; induction acc as [|x acc IH]; simpl; [auto|].
    destruct (str_cmp s x) eqn:E; simpl; auto. apply Hcmp in E; subst; simpl; auto. }
  assert (Hins2 : forall s s' acc, In s acc -> In s (insert_sorted s' acc)).
  { intros s s' acc; induction acc as [|x acc IH]; simpl; [tauto|].
    intros H. destruct (str_cmp s' x); simpl; auto. destruct H; auto. }
  induction l as [|a l IH]; intros acc s H; simpl.
  - destruct H as [H|[]]; exact H.
  - apply IH. destruct H as [H|[H|H]]; subst; auto.
Qed.

Lemma in_set_of_strs : forall l s, In s l -> In s (set_of_strs l).
Proof. intros; unfold set_of_strs; apply in_set_of_strs_acc; auto. Qed.

Lemma in_join : forall sep l s c, In s l -> In c s -> In c (join sep l).
Proof.
  intros sep; induction l as [|x l IH]; intros s c Hs Hc; [destruct Hs|].
  destruct l as [|y l'].
  - destruct Hs as [->|[]]. exact Hc.
  - change (In c (x ++ sep ++ join sep (y :: l'))).
    destruct Hs as [->|Hs]; [apply in_or_app; auto|].
    apply in_or_app; right; apply in_or_app; right. eapply IH; eauto.
Qed.

Lemma ROOT_chars : ROOT = [114; 111; 111; 116]%N.
Proof. vm_compute. reflexivity. Qed.

Lemma index_str_char : forall i, In (65 + i mod 26)%N (index_str i).
Proof. intros i; unfold index_str; apply in_or_app; right; simpl; auto. Qed.

Lemma not_ROOT_of_char : forall s i, In (65 + i mod 26)%N s -> s <> ROOT.
Proof.
  intros s i H E. rewrite E, ROOT_chars in H.
  assert (i mod 26 < 26)%N by (apply N.mod_lt; discriminate).
  remember (i mod 26)%N as x. cbn [In] in H. destruct H as [H|[H|[H|[H|[]]]]]; lia.
Qed.

Lemma index_str_not_ROOT : forall i, index_str i <> ROOT.
Proof. intros i; eapply not_ROOT_of_char, index_str_char. Qed.

Lemma joined_not_ROOT : forall pars extra, pars <> [] -> join HASH (set_of_strs (map index_str pars ++ extra)) <> ROOT.
Proof.
  intros [|q pars] extra H; [congruence|].
  apply not_ROOT_of_char with (i := q).
  eapply in_join; [apply in_set_of_strs; simpl; left; reflexivity | apply index_str_char].
Qed.

Lemma nodupN_acc_nonempty : forall l acc, acc <> [] -> fold_left (fun acc x => if memN x acc then acc else acc ++ [x]) l acc <> [].
Proof.
  induction l as [|a l IH]; intros acc H; simpl; [exact H|].
  apply IH. destruct (memN a acc); [exact H|]. destruct acc; simpl; discriminate.
Qed.

Lemma nodupN_nil : forall l, nodupN l = [] -> l = [].
Proof.
  intros [|a l]; [reflexivity|]. unfold nodupN; simpl. intros H. exfalso.
  revert H. apply nodupN_acc_nonempty. discriminate.
Qed.

Lemma flat_step_nonroot : forall g st m st',
  parent_ptrs g m <> [] -> flat_step g (Some st) m = Some st' ->
  exists pos k1, pos_bound st pos /\ k1 <> ROOT /\
    st' = {| fs_list := insert_at (Z.to_nat pos) m (fs_list st);
             fs_pos := update_position (update_position (fs_pos st) k1 (pos + 1)%Z) (index_str m) (pos + 1)%Z;
             fs_top := fs_top st |}.
Proof.
  intros g st m st' Hp H. unfold flat_step in H.
  assert (Hpars : parents_of g m <> []).
  { intros E. apply Hp. unfold parents_of in E. now apply nodupN_nil in E. }
  destruct (parent_ptrs g m) as [|q0 qs] eqn:Epp; [congruence|]. clear Hp.
  cbv zeta in H.
  match type of H with context [if ?c then _ else _] => destruct c end.
  - match type of H with context [flat_map ?f ?ks] => remember (flat_map f ks) as pp eqn:Epp' end.
    match type of H with context [join HASH (set_of_strs ?pk)] => remember (join HASH (set_of_strs pk)) as joined eqn:Ej end.
    inversion H; clear H.
    eexists; exists joined; split; [|split; [|reflexivity]].
    + intros c Hc Hl. destruct pp as [|x rr]; [exact Hl|].
      eapply Z.le_trans; [|apply fold_max_ge].
      assert (Hin : In x (x :: rr)) by (left; reflexivity).
      rewrite Epp' in Hin. apply in_flat_map in Hin. destruct Hin as [k [_ Hk]].
      unfold pd_get in Hk. destruct (lookup k (fs_pos st)) eqn:El; [|destruct Hk].
      destruct Hk as [->|[]]. eapply lookup_vals_ge; eauto.
    + subst joined. apply joined_not_ROOT. exact Hpars.
  - inversion H; clear H.
    eexists; exists (index_str (min_parent (parents_of g m))); split; [|split; [|reflexivity]].
    + intros c Hc Hl. unfold pd_get. destruct (lookup _ (fs_pos st)) eqn:El; [|exact Hl].
      eapply lookup_vals_ge; eauto.
    + apply index_str_not_ROOT.
Qed.

Lemma flat_step_list : forall g st m st', flat_step g (Some st) m = Some st' ->
  exists k, fs_list st' = insert_at k m (fs_list st).
Proof.
  intros g st m st' H. destruct (parent_ptrs g m) eqn:E.
  - apply flat_step_root in H; [|exact E]. destruct H as [_ H]. cbv zeta in H. subst st'. simpl. eexists; reflexivity.
  - apply flat_step_nonroot in H; [|congruence]. destruct H as [pos [k1 [_ [_ H]]]]. subst st'. simpl. eexists; reflexivity.
Qed.

Lemma flat_fold_perm : forall g l st st', fold_left (flat_step g) l (Some st) = Some st' ->
  Permutation (fs_list st') (fs_list st ++ l).
Proof.
  intros g; induction l as [|a l IH]; intros st st' H; cbn [fold_left] in H.
  - inversion H; subst. rewrite app_nil_r. apply Permutation_refl.
  - destruct (flat_step g (Some st) a) as [st1|] eqn:E.
    + apply IH in H. eapply perm_trans; [exact H|].
      apply flat_step_list in E. destruct E as [k E]. rewrite E.
      eapply perm_trans; [apply Permutation_app_tail, insert_at_perm|].
      simpl. apply Permutation_cons_app. apply Permutation_refl.
    + rewrite fold_flat_none in H. discriminate.
Qed.

Definition leaf_node (n : node) : Prop := nested_of n = [].

(* F1 — holds for every graph; NoDup of the registry is not needed for the permutation itself *)
Theorem flat_perm : forall g l, compose_flat g = Some l ->
  Permutation (flat_map flatten l) (map m_idx (ms g)) /\ Forall leaf_node l.
Proof.
  intros g l H. unfold compose_flat in H.
  destruct (fold_left (flat_step g) (map m_idx (ms g)) _) as [st|] eqn:E; [|discriminate].
  inversion H; subst; clear H. split.
  - rewrite flat_map_flatten_leaf. apply flat_fold_perm in E. exact E.
  - apply Forall_forall. intros n Hn. apply in_map_iff in Hn. destruct Hn as [m [<- _]]. reflexivity.
Qed.

Corollary flat_exactly_once : forall g l, NoDup (map m_idx (ms g)) -> compose_flat g = Some l ->
  NoDup (flat_map flatten l) /\ (forall m, In m (flat_map flatten l) <-> In m (map m_idx (ms g))).
Proof.
  intros g l HN H. apply flat_perm in H. destruct H as [H _]. split.
  - eapply Permutation_NoDup; [apply Permutation_sym; exact H | exact HN].
  - intros m; split; apply Permutation_in; [exact H | apply Permutation_sym; exact H].
Qed.

(* F2 *)
Lemma flat_step_none_iff : forall g st m, flat_step g (Some st) m = None <-> ptrs_to g m = [].
Proof.
  intros g st m. rewrite ptrs_empty_iff. split.
  - intros H. unfold flat_step in H. destruct (parent_ptrs g m) eqn:E.
    + destruct (has_root_ptr g m); [discriminate | auto].
    + exfalso. cbv zeta in H.
      match type of H with context [if ?c then _ else _] => destruct c end; discriminate.
  - intros [H1 H2]. unfold flat_step. rewrite H1, H2. reflexivity.
Qed.

Lemma flat_fold_none_iff : forall g l st,
  fold_left (flat_step g) l (Some st) = None <-> exists m, In m l /\ ptrs_to g m = [].
Proof.
  intros g; induction l as [|a l IH]; intros st; cbn [fold_left].
  - split; [discriminate | intros [m [[] _]]].
  - destruct (flat_step g (Some st) a) as [st1|] eqn:E.
    + rewrite IH. split.
      * intros [m [Hm Hp]]. exists m; split; [right; exact Hm | exact Hp].
      * intros [m [[<-|Hm] Hp]]; [|exists m; split; assumption].
        apply (flat_step_none_iff g st) in Hp. congruence.
    + rewrite fold_flat_none. split; [|reflexivity]. intros _. exists a. split; [left; reflexivity|].
      now apply (flat_step_none_iff g st).
Qed.

Theorem flat_none_iff : forall g, compose_flat g = None <-> exists m, In m (map m_idx (ms g)) /\ ptrs_to g m = [].
Proof.
  intros g. rewrite <- (flat_fold_none_iff g _ {| fs_list := []; fs_pos := []; fs_top := [] |}).
  unfold compose_flat. destruct (fold_left _ _ _); split; congruence.
Qed.

Theorem flat_total : forall g, every_model_pointed g -> compose_flat g <> None.
Proof.
  intros g H E. apply flat_none_iff in E. destruct E as [m [Hm Hp]]. exact (H m Hm Hp).
Qed.

Theorem flat_total_iff : forall g, every_model_pointed g <-> compose_flat g <> None.
Proof.
  intros g; split; [apply flat_total|].
  intros H m Hm Hp. apply H. apply flat_none_iff. exists m; auto.
Qed.

(* ------------------------------------------------------------------------------------------------ *)
(* F3: the root model is first in the flat layout                                                    *)
(* ------------------------------------------------------------------------------------------------ *)
Lemma lookup_none_iff : forall (d : pdict) k, lookup k d = None <-> ~ In k (map fst d).
Proof.
  induction d as [|[k' v] d IH]; intros k; simpl.
  - tauto.
  - destruct (str_eqb k k') eqn:E.
    + apply str_eqb_true in E; subst. split; [discriminate | intros H; exfalso; apply H; auto].
    + apply str_eqb_false in E. rewrite IH. split.
      * intros H [H1|H1]; [congruence | auto].
      * intros H H1; apply H; auto.
Qed.

Lemma keys_update : forall (d : pdict) k v k', In k' (map fst (update k v d)) <-> k' = k \/ In k' (map fst d).
Proof.
  induction d as [|[k0 v0] d IH]; intros k v k'; simpl.
  - split; [intros [H|[]]; auto | intros [H|[]]; auto].
  - destruct (str_eqb k k0) eqn:E; simpl.
    + apply str_eqb_true in E; subst. split; [intros [H|H]; auto | intros [H|[H|H]]; auto].
    + rewrite IH. split; [intros [H|[H|H]]; auto | intros [H|[H|H]]; auto].
Qed.

Lemma keys_update_position : forall (d : pdict) k v k',
  In k' (map fst (update_position d k v)) <-> k' = k \/ In k' (map fst d).
Proof.
  intros d k v k'. unfold update_position, pd_set.
  destruct (pd_get d k); cbv beta iota; rewrite keys_update, map_map;
    (erewrite map_ext; [reflexivity|]); intros [a b]; simpl;
    match goal with |- context [if ?c then _ else _] => destruct c end; reflexivity.
Qed.

Lemma vals_ge_update : forall c (d : pdict) k v, vals_ge c d -> (c <= v)%Z -> vals_ge c (update k v d).
Proof.
  intros c d k v H Hv; induction H as [|[k0 v0] d Hx Hd IH]; simpl.
  - constructor; [exact Hv | constructor].
  - destruct (str_eqb k k0); constructor; auto.
Qed.

Lemma vals_ge_update_position : forall c (d : pdict) k v, vals_ge c d -> (c <= v)%Z -> vals_ge c (update_position d k v).
Proof.
  intros c d k v H Hv. unfold update_position, pd_set.
  destruct (pd_get d k) as [o|] eqn:E; cbv beta iota; apply vals_ge_update; try exact Hv;
    apply Forall_forall; intros kv Hin; apply in_map_iff in Hin; destruct Hin as [[a b] [<- Hin]];
    (assert (Hb : (c <= b)%Z) by (unfold vals_ge in H; rewrite Forall_forall in H; apply (H (a, b) Hin)));
    simpl; destruct (negb (str_eqb a k)); simpl; try exact Hb.
  - destruct (o <=? b)%Z eqn:El; simpl; [apply Z.leb_le in El; lia | exact Hb].
  - destruct (v <=? b)%Z eqn:El; simpl; [apply Z.leb_le in El; lia | exact Hb].
Qed.

Lemma lookup_app_none : forall (l1 l2 : pdict) k, lookup k l1 = None -> lookup k (l1 ++ l2) = lookup k l2.
Proof.
  induction l1 as [|[k0 v0] l1 IH]; intros l2 k; simpl; [reflexivity|].
  destruct (str_eqb k k0); [discriminate | apply IH].
Qed.

Lemma update_app_none : forall (l1 l2 : pdict) k v, lookup k l1 = None -> update k v (l1 ++ l2) = l1 ++ update k v l2.
Proof.
  induction l1 as [|[k0 v0] l1 IH]; intros l2 k v; simpl; [reflexivity|].
  destruct (str_eqb k k0); [discriminate | intros H; f_equal; apply IH; exact H].
Qed.

Lemma update_position_fresh_tail : forall (l1 : pdict) k o v, lookup k l1 = None ->
  update_position (l1 ++ [(k, o)]) k v
  = map (fun kv => if (o <=? snd kv)%Z then (fst kv, (snd kv + (v - o))%Z) else kv) l1 ++ [(k, v)].
Proof.
  intros l1 k o v Hn. unfold update_position, pd_get, pd_set.
  rewrite (lookup_app_none l1 [(k, o)] k Hn). simpl lookup. rewrite str_eqb_refl. cbv beta iota.
  rewrite map_app. simpl map at 2. simpl fst; simpl snd. rewrite str_eqb_refl. simpl negb. simpl andb. cbv iota.
  rewrite update_app_none.
  - simpl update. rewrite str_eqb_refl. f_equal.
    apply map_ext_in. intros [a b] Hin. simpl.
    assert (Ha : str_eqb a k = false).
    { apply str_eqb_false. intros ->. apply lookup_none_iff in Hn. apply Hn.
      apply in_map_iff. exists (k, b); auto. }
    rewrite Ha. reflexivity.
  - apply lookup_none_iff. rewrite map_map. apply lookup_none_iff in Hn.
    erewrite map_ext; [exact Hn|]. intros [a b]; simpl.
    match goal with |- context [if ?c then _ else _] => destruct c end; reflexivity.
Qed.

Lemma lookup_single : forall (k : str) (v : Z), lookup k [(k, v)] = Some v.
Proof. intros; simpl. now rewrite str_eqb_refl. Qed.

Definition invA (st : fstate) : Prop := lookup ROOT (fs_pos st) = None /\ vals_ge 0 (fs_pos st).
Definition invB (r : N) (st : fstate) : Prop :=
  (exists tl, fs_list st = r :: tl) /\ vals_ge 1 (fs_pos st) /\ In ROOT (map fst (fs_pos st)).

Lemma flat_root_A : forall g st m st', invA st -> parent_ptrs g m = [] ->
  flat_step g (Some st) m = Some st' -> invB m st'.
Proof.
  intros g st m st' [Hn Hv] Hp H. apply flat_step_root in H; [|exact Hp]. destruct H as [_ H].
  cbv zeta in H. unfold pd_get in H. rewrite Hn in H.
  rewrite (lookup_app_none (fs_pos st) [(ROOT, 0%Z)] ROOT Hn) in H.
  rewrite lookup_single in H. change (Z.to_nat 0) with 0%nat in H.
  rewrite update_position_fresh_tail in H by exact Hn. subst st'. unfold invB; simpl.
  split; [eexists; reflexivity | split].
  - apply Forall_app. split; [|constructor; [simpl; lia | constructor]].
    apply Forall_forall. intros kv Hin. apply in_map_iff in Hin. destruct Hin as [[a b] [<- Hin]].
    unfold vals_ge in Hv; rewrite Forall_forall in Hv. specialize (Hv (a, b) Hin). simpl in *.
    destruct (0 <=? b)%Z eqn:E; simpl; lia.
  - rewrite map_app. apply in_or_app. right. simpl. auto.
Qed.

Lemma flat_nonroot_A : forall g st m st', invA st -> parent_ptrs g m <> [] ->
  flat_step g (Some st) m = Some st' -> invA st'.
Proof.
  intros g st m st' [Hn Hv] Hp H. apply flat_step_nonroot in H; [|exact Hp].
  destruct H as [pos [k1 [Hb [Hk H]]]]. subst st'. unfold invA; simpl.
  assert (H0 : (0 <= pos)%Z) by (apply Hb; [exact Hv | lia]).
  split.
  - apply lookup_none_iff. rewrite !keys_update_position. apply lookup_none_iff in Hn.
    intros [E|[E|E]]; [symmetry in E; revert E; apply index_str_not_ROOT | congruence | auto].
  - apply vals_ge_update_position; [apply vals_ge_update_position; [exact Hv|]|]; lia.
Qed.

Lemma flat_step_B : forall g r st m st', invB r st -> flat_step g (Some st) m = Some st' -> invB r st'.
Proof.
  intros g r st m st' [[tl Hl] [Hv Hk]] H. destruct (parent_ptrs g m) eqn:Hp.
  - apply flat_step_root in H; [|exact Hp]. destruct H as [_ H]. cbv zeta in H. unfold pd_get in H.
    destruct (lookup ROOT (fs_pos st)) as [p|] eqn:El; [|apply lookup_none_iff in El; contradiction].
    rewrite El in H. assert (Hp1 : (1 <= p)%Z) by (eapply lookup_vals_ge; eauto).
    subst st'. unfold invB; simpl. split; [|split].
    + rewrite Hl. destruct (Z.to_nat p) as [|k'] eqn:Ek; [lia|]. rewrite insert_at_S_cons. eexists; reflexivity.
    + apply vals_ge_update_position; [exact Hv | lia].
    + apply keys_update_position. auto.
  - apply flat_step_nonroot in H; [|congruence]. destruct H as [pos [k1 [Hb [Hk1 H]]]].
    assert (Hp1 : (1 <= pos)%Z).
    { apply Hb; [exact Hv|]. rewrite Hl. simpl length. lia. }
    subst st'. unfold invB; simpl. split; [|split].
    + rewrite Hl. destruct (Z.to_nat pos) as [|k'] eqn:Ek; [lia|]. rewrite insert_at_S_cons. eexists; reflexivity.
    + apply vals_ge_update_position; [apply vals_ge_update_position; [exact Hv|]|]; lia.
    + rewrite !keys_update_position. auto.
Qed.

Lemma flat_fold_A : forall g l st st', (forall m, In m l -> parent_ptrs g m <> []) -> invA st ->
  fold_left (flat_step g) l (Some st) = Some st' -> invA st'.
Proof.
  intros g; induction l as [|a l IH]; intros st st' Hl HA H; cbn [fold_left] in H.
  - inversion H; subst; exact HA.
  - destruct (flat_step g (Some st) a) as [st1|] eqn:E; [|rewrite fold_flat_none in H; discriminate].
    eapply IH; [| |exact H].
    + intros m Hm; apply Hl; right; exact Hm.
    + eapply flat_nonroot_A; [exact HA | apply Hl; left; reflexivity | exact E].
Qed.

Lemma flat_fold_B : forall g r l st st', invB r st ->
  fold_left (flat_step g) l (Some st) = Some st' -> invB r st'.
Proof.
  intros g r; induction l as [|a l IH]; intros st st' HB H; cbn [fold_left] in H.
  - inversion H; subst; exact HB.
  - destruct (flat_step g (Some st) a) as [st1|] eqn:E; [|rewrite fold_flat_none in H; discriminate].
    eapply IH; [|exact H]. eapply flat_step_B; eauto.
Qed.

Lemma in_split_first : forall (r : N) l, In r l -> exists l1 l2, l = l1 ++ r :: l2 /\ ~ In r l1.
Proof.
  intros r; induction l as [|a l IH]; intros H; [destruct H|].
  destruct (N.eq_dec a r) as [->|Hne].
  - exists [], l. split; [reflexivity | intros []].
  - destruct H as [H|H]; [congruence|]. destruct (IH H) as [l1 [l2 [E Hn]]].
    exists (a :: l1), l2. split; [simpl; now rewrite E | intros [H1|H1]; [congruence | auto]].
Qed.

(* F3.  "exactly one root": r is registered, has no parent pointer, and every registered model without parent
   pointers is r.  Neither NoDup nor every_model_pointed is needed: success of compose_flat already implies that
   every model has a pointer. *)
Theorem flat_root_first : forall g l r,
  compose_flat g = Some l ->
  In r (map m_idx (ms g)) -> is_root g r ->
  (forall m, In m (map m_idx (ms g)) -> is_root g m -> m = r) ->
  exists rest, l = Node r [] :: rest.
Proof.
  intros g l r H Hin Hr Huniq. unfold compose_flat in H.
  destruct (fold_left (flat_step g) (map m_idx (ms g)) _) as [stf|] eqn:E; [|discriminate].
  inversion H; subst; clear H.
  destruct (in_split_first r _ Hin) as [l1 [l2 [EL Hn1]]].
  rewrite EL in E. rewrite fold_left_app in E.
  destruct (fold_left (flat_step g) l1 _) as [stA|] eqn:EA; [|rewrite fold_flat_none in E; discriminate].
  cbn [fold_left] in E.
  destruct (flat_step g (Some stA) r) as [stB|] eqn:EB; [|rewrite fold_flat_none in E; discriminate].
  assert (HA : invA stA).
  { eapply flat_fold_A; [| |exact EA].
    - intros m Hm Hp. assert (m = r); [|subst; contradiction].
      apply Huniq; [rewrite EL; apply in_or_app; left; exact Hm | exact Hp].
    - split; [reflexivity | constructor]. }
  assert (HB : invB r stB) by (eapply flat_root_A; eauto).
  assert (HF : invB r stf) by (eapply flat_fold_B; eauto).
  destruct HF as [[tl Htl] _]. rewrite Htl. simpl. eexists; reflexivity.
Qed.

(* ------------------------------------------------------------------------------------------------ *)
(* Abstract trees: [L] the registry order, [isch p x] = "x is a child of p", [depth] a ranking      *)
(* ------------------------------------------------------------------------------------------------ *)
Inductive subtree : node -> node -> Prop :=
| st_refl : forall t, subtree t t
| st_child : forall m l t' s, In t' l -> subtree t' s -> subtree (Node m l) s.

(* in t, a node labelled c sits directly in the nested list of a node labelled p *)
Definition child_of (t : node) (p c : N) : Prop :=
  exists l l', subtree t (Node p l) /\ In (Node c l') l.

Lemma flatten_cons : forall m l, flatten (Node m l) = m :: flat_map flatten l.
Proof. reflexivity. Qed.

Lemma NoDup_flat_map : forall (A B : Type) (F : A -> list B) (l : list A),
  NoDup l -> (forall a, In a l -> NoDup (F a)) ->
  (forall a b x, In a l -> In b l -> In x (F a) -> In x (F b) -> a = b) ->
  NoDup (flat_map F l).
Proof.
  intros A B F; induction l as [|a l IH]; intros HN HF HD; simpl; [constructor|].
  inversion HN as [|? ? Hna HNl]; subst.
  assert (Hl : NoDup (flat_map F l)).
  { apply IH; [exact HNl | intros; apply HF; right; assumption |].
    intros a0 b x Ha Hb; apply HD; right; assumption. }
  assert (Ha : NoDup (F a)) by (apply HF; left; reflexivity).
  assert (Hdisj : forall x, In x (F a) -> ~ In x (flat_map F l)).
  { intros x Hx Hin. apply in_flat_map in Hin. destruct Hin as [b [Hb Hxb]].
    assert (a = b) by (apply (HD a b x); [left; reflexivity | right; exact Hb | exact Hx | exact Hxb]).
    subst. contradiction. }
  clear HF IH HD. revert Ha.
  revert Hdisj. generalize (F a) as la. induction la as [|y la IHla]; intros Hdisj Hla; simpl; [exact Hl|].
  inversion Hla; subst. constructor.
  - intros Hin. apply in_app_or in Hin. destruct Hin as [Hin|Hin]; [contradiction|].
    apply (Hdisj y); [left; reflexivity | exact Hin].
  - apply IHla; [|assumption]. intros x Hx; apply Hdisj; right; exact Hx.
Qed.

Section Tree.
  Variable L : list N.
  Variable isch : N -> N -> bool.
  Variable r : N.
  Variable depth : N -> nat.
  Hypothesis HND : NoDup L.
  Hypothesis Hr : In r L.
  Hypothesis Hd0 : depth r = 0.
  Hypothesis Hpar : forall x, In x L -> x <> r -> exists p, isch p x = true.
  Hypothesis Hparin : forall p x, In x L -> isch p x = true -> In p L.
  Hypothesis Huniq : forall p q x, In x L -> isch p x = true -> isch q x = true -> p = q.
  Hypothesis Hdep : forall p x, In x L -> isch p x = true -> depth x = S (depth p).

  Definition kids (p : N) : list N := filter (isch p) L.
  Fixpoint T (fuel : nat) (m : N) : node :=
    match fuel with O => Node m [] | S f => Node m (map (T f) (kids m)) end.

  Lemma label_T : forall f m, label (T f m) = m.
  Proof. destruct f; reflexivity. Qed.

  Lemma kids_in : forall p c, In c (kids p) <-> In c L /\ isch p c = true.
  Proof. intros; unfold kids; apply filter_In. Qed.

  Lemma kids_NoDup : forall p, NoDup (kids p).
  Proof. intros; unfold kids; apply NoDup_filter; exact HND. Qed.

  (* depth < |L| : the chain of ancestors of x consists of depth x + 1 distinct registered models *)
  Lemma depth_path : forall d x, In x L -> depth x = d ->
    exists pth, NoDup pth /\ incl pth L /\ length pth = S d /\ Forall (fun y => depth y <= d) pth.
  Proof.
    induction d as [|d IH]; intros x Hx Hd.
    - exists [x]. split; [constructor; [intros []|constructor] | split; [|split]].
      + intros y [<-|[]]; exact Hx.
      + reflexivity.
      + constructor; [lia | constructor].
    - assert (Hne : x <> r) by (intros ->; lia).
      destruct (Hpar x Hx Hne) as [p Hp].
      assert (Hpd : depth p = d) by (pose proof (Hdep p x Hx Hp); lia).
      destruct (IH p (Hparin p x Hx Hp) Hpd) as [pth [H1 [H2 [H3 H4]]]].
      exists (x :: pth). split; [|split; [|split]].
      + constructor; [|exact H1]. intros Hin. rewrite Forall_forall in H4. apply H4 in Hin. lia.
      + intros y [<-|Hy]; [exact Hx | apply H2; exact Hy].
      + simpl; now rewrite H3.
      + constructor; [lia|]. eapply Forall_impl; [|exact H4]. simpl; intros; lia.
  Qed.

  Lemma depth_lt : forall x, In x L -> depth x < length L.
  Proof.
    intros x Hx. destruct (depth_path (depth x) x Hx eq_refl) as [pth [H1 [H2 [H3 _]]]].
    pose proof (NoDup_incl_length H1 H2). lia.
  Qed.

  (* reach a x k : a is the k-th ancestor of x *)
  Inductive reach : N -> N -> nat -> Prop :=
  | reach_0 : forall a, reach a a 0
  | reach_S : forall a c x k, In c L -> isch a c = true -> reach c x k -> reach a x (S k).

  Lemma reach_in : forall a x k, reach a x k -> In a L -> In x L.
  Proof. induction 1; auto. Qed.

  Lemma reach_depth : forall a x k, reach a x k -> depth x = depth a + k.
  Proof.
    induction 1 as [|a c x k Hc Hi _ IH]; [lia|].
    rewrite IH, (Hdep a c Hc Hi). lia.
  Qed.

  Lemma reach_snoc : forall a p k x, reach a p k -> In x L -> isch p x = true -> reach a x (S k).
  Proof.
    induction 1 as [a|a c p k Hc Hi _ IH]; intros Hx Hpx.
    - eapply reach_S; [exact Hx | exact Hpx | constructor].
    - eapply reach_S; [exact Hc | exact Hi | apply IH; assumption].
  Qed.

  Lemma reach_uniq : forall a x k, reach a x k -> In a L -> forall b, In b L -> reach b x k -> a = b.
  Proof.
    induction 1 as [a|a c x k Hc Hi Hre IH]; intros Ha b Hb Hb'.
    - inversion Hb'; reflexivity.
    - inversion Hb' as [|? c' ? ? Hc' Hi' Hre']; subst.
      assert (c = c') by (apply IH; assumption). subst c'.
      eapply Huniq; eauto.
  Qed.

  Lemma all_reach : forall d x, In x L -> depth x = d -> reach r x d.
  Proof.
    induction d as [|d IH]; intros x Hx Hd.
    - destruct (N.eq_dec x r) as [->|Hne]; [constructor|].
      destruct (Hpar x Hx Hne) as [p Hp]. pose proof (Hdep p x Hx Hp). lia.
    - assert (Hne : x <> r) by (intros ->; lia).
      destruct (Hpar x Hx Hne) as [p Hp]. pose proof (Hdep p x Hx Hp).
      eapply reach_snoc; [apply IH; [eapply Hparin; eauto | lia] | exact Hx | exact Hp].
  Qed.

  Lemma flatten_T_S : forall f m, flatten (T (S f) m) = m :: flat_map (fun c => flatten (T f c)) (kids m).
  Proof. intros; simpl. f_equal. rewrite flat_map_concat_map, map_map, <- flat_map_concat_map. reflexivity. Qed.

  Lemma flatten_T_reach : forall f m x, In x (flatten (T f m)) -> exists k, reach m x k.
  Proof.
    induction f as [|f IH]; intros m x Hx.
    - simpl in Hx. destruct Hx as [<-|[]]. exists 0; constructor.
    - rewrite flatten_T_S in Hx. destruct Hx as [<-|Hx]; [exists 0; constructor|].
      apply in_flat_map in Hx. destruct Hx as [c [Hc Hx]]. apply kids_in in Hc. destruct Hc as [Hc Hi].
      destruct (IH c x Hx) as [k Hk]. exists (S k). eapply reach_S; eauto.
  Qed.

  Lemma reach_in_T : forall a x k, reach a x k -> forall f, k <= f -> In x (flatten (T f a)).
  Proof.
    induction 1 as [a|a c x k Hc Hi _ IH]; intros f Hf.
    - destruct f; simpl; auto.
    - destruct f as [|f]; [lia|]. rewrite flatten_T_S. right.
      apply in_flat_map. exists c. split; [apply kids_in; auto | apply IH; lia].
  Qed.

  Lemma flatten_T_NoDup : forall f m, In m L -> NoDup (flatten (T f m)).
  Proof.
    induction f as [|f IH]; intros m Hm.
    - simpl. constructor; [intros [] | constructor].
    - rewrite flatten_T_S. constructor.
      + intros Hin. apply in_flat_map in Hin. destruct Hin as [c [Hc Hx]].
        apply kids_in in Hc. destruct Hc as [Hc Hi].
        apply flatten_T_reach in Hx. destruct Hx as [k Hk].
        apply reach_depth in Hk. pose proof (Hdep m c Hc Hi). lia.
      + apply NoDup_flat_map.
        * apply kids_NoDup.
        * intros c Hc. apply kids_in in Hc. apply IH. tauto.
        * intros c1 c2 x H1 H2 Hx1 Hx2. apply kids_in in H1, H2. destruct H1 as [H1 Hi1], H2 as [H2 Hi2].
          apply flatten_T_reach in Hx1, Hx2. destruct Hx1 as [k1 Hk1], Hx2 as [k2 Hk2].
          pose proof (reach_depth _ _ _ Hk1). pose proof (reach_depth _ _ _ Hk2).
          pose proof (Hdep m c1 H1 Hi1). pose proof (Hdep m c2 H2 Hi2).
          assert (k1 = k2) by lia. subst k2.
          eapply reach_uniq; eauto.
  Qed.

  Theorem T_perm : Permutation (flatten (T (length L) r)) L.
  Proof.
    apply NoDup_Permutation; [apply flatten_T_NoDup; exact Hr | exact HND |].
    intros x; split.
    - intros Hx. apply flatten_T_reach in Hx. destruct Hx as [k Hk]. eapply reach_in; eauto.
    - intros Hx. eapply reach_in_T; [eapply all_reach; eauto|]. pose proof (depth_lt x Hx). lia.
  Qed.

  (* every node of the tree carries exactly its children, in registry order *)
  Lemma T_subtree_kids : forall f m p l, In m L -> length L <= f + depth m ->
    subtree (T f m) (Node p l) -> In p L /\ map label l = kids p.
  Proof.
    induction f as [|f IH]; intros m p l Hm Hf Hs.
    - pose proof (depth_lt m Hm). simpl in Hf. lia.
    - simpl in Hs. inversion Hs as [|? ? t' ? Hin Hs']; subst.
      + split; [exact Hm|]. rewrite map_map. erewrite map_ext; [apply map_id|]. intros; apply label_T.
      + apply in_map_iff in Hin. destruct Hin as [c [<- Hc]]. apply kids_in in Hc. destruct Hc as [Hc Hi].
        eapply IH; [exact Hc | | exact Hs']. rewrite (Hdep m c Hc Hi). lia.
  Qed.

  Lemma reach_subtree : forall a x k, reach a x k -> forall f, k <= f -> exists l, subtree (T f a) (Node x l).
  Proof.
    induction 1 as [a|a c x k Hc Hi _ IH]; intros f Hf.
    - destruct f; simpl; eexists; constructor.
    - destruct f as [|f]; [lia|]. destruct (IH f ltac:(lia)) as [l Hl]. exists l. simpl.
      eapply st_child; [|exact Hl]. apply in_map. apply kids_in; auto.
  Qed.

  Theorem T_subtree_order : forall p l, subtree (T (length L) r) (Node p l) -> map label l = kids p.
  Proof. intros p l Hs. eapply T_subtree_kids; [exact Hr | | exact Hs]. lia. Qed.

  Theorem T_child_of : forall p c, child_of (T (length L) r) p c <-> (In c L /\ isch p c = true).
  Proof.
    intros p c; split.
    - intros [l [l' [Hs Hin]]]. apply T_subtree_order in Hs.
      apply kids_in. rewrite <- Hs. change c with (label (Node c l')). apply in_map. exact Hin.
    - intros [Hc Hi]. assert (Hp : In p L) by (eapply Hparin; eauto).
      destruct (reach_subtree r p (depth p) (all_reach _ p Hp eq_refl) (length L)) as [l Hl].
      { pose proof (depth_lt p Hp). lia. }
      pose proof (T_subtree_order p l Hl) as Hk.
      assert (Hin : In c (map label l)) by (rewrite Hk; apply kids_in; auto).
      apply in_map_iff in Hin. destruct Hin as [[c' l'] [Hlab Hin]]. simpl in Hlab. subst c'.
      exists l, l'. auto.
  Qed.
End Tree.

(* ------------------------------------------------------------------------------------------------ *)
(* The nested layout on tree-shaped pointer tables                                                   *)
(* ------------------------------------------------------------------------------------------------ *)
Definition is_child (g : graph) (p c : N) : bool :=
  match parents_of g c with [q] => N.eqb q p | _ => false end.

Lemma is_child_true : forall g p c, is_child g p c = true <-> parents_of g c = [p].
Proof.
  intros g p c; unfold is_child. destruct (parents_of g c) as [|q [|q' t]]; split; try discriminate.
  - intros H; apply N.eqb_eq in H; subst; reflexivity.
  - intros H; inversion H; apply N.eqb_refl.
Qed.

Section SetChildren.
  Variables (m : N) (c : list N).
  Let repl := fun kv : N * list N => if N.eqb (fst kv) m then (m, c) else kv.

  Lemma find_repl_other : forall st q, q <> m ->
    find (fun kv => N.eqb (fst kv) q) (map repl st) = find (fun kv : N * list N => N.eqb (fst kv) q) st.
  Proof.
    induction st as [|[k v] st IH]; intros q Hq; simpl; [reflexivity|].
    assert (Hrepl : repl (k, v) = if N.eqb k m then (m, c) else (k, v)) by reflexivity.
    rewrite !Hrepl. destruct (N.eqb k m) eqn:Ekm; simpl.
    - apply N.eqb_eq in Ekm; subst k.
      assert (E : N.eqb m q = false) by (apply N.eqb_neq; congruence). rewrite E. apply IH; exact Hq.
    - destruct (N.eqb k q); [reflexivity | apply IH; exact Hq].
  Qed.

  Lemma find_repl_same : forall st, existsb (fun kv : N * list N => N.eqb (fst kv) m) st = true ->
    find (fun kv => N.eqb (fst kv) m) (map repl st) = Some (m, c).
  Proof.
    induction st as [|[k v] st IH]; simpl; [discriminate|].
    assert (Hrepl : repl (k, v) = if N.eqb k m then (m, c) else (k, v)) by reflexivity.
    rewrite !Hrepl. destruct (N.eqb k m) eqn:Ekm; simpl.
    - rewrite N.eqb_refl. reflexivity.
    - rewrite Ekm. exact IH.
  Qed.

  Lemma find_app_new : forall st q, existsb (fun kv : N * list N => N.eqb (fst kv) m) st = false ->
    find (fun kv => N.eqb (fst kv) q) (st ++ [(m, c)])
    = if N.eqb q m then Some (m, c) else find (fun kv : N * list N => N.eqb (fst kv) q) st.
  Proof.
    induction st as [|[k v] st IH]; intros q; simpl.
    - intros _. rewrite (N.eqb_sym m q). destruct (N.eqb q m); reflexivity.
    - destruct (N.eqb k m) eqn:Ekm; simpl; [discriminate|]. intros H.
      destruct (N.eqb k q) eqn:Ekq.
      + apply N.eqb_eq in Ekq; subst k. rewrite Ekm. reflexivity.
      + apply IH; exact H.
  Qed.

  Lemma children_set_children : forall st q,
    children (set_children st m c) q = if N.eqb q m then c else children st q.
  Proof.
    intros st q. unfold children, set_children.
    destruct (existsb (fun kv => N.eqb (fst kv) m) st) eqn:Ex.
    - destruct (N.eqb q m) eqn:Eq.
      + apply N.eqb_eq in Eq; subst q. fold repl. rewrite find_repl_same by exact Ex. reflexivity.
      + fold repl. rewrite find_repl_other by (apply N.eqb_neq; exact Eq). reflexivity.
    - rewrite find_app_new by exact Ex. destruct (N.eqb q m); reflexivity.
  Qed.
End SetChildren.

Lemma nested_step_root : forall g st r, parent_ptrs g r = [] -> has_root_ptr g r = true ->
  nested_step g (Some st) r
  = Some {| ns_roots := ns_roots st ++ [r]; ns_nested := ns_nested st; ns_inj := ns_inj st; ns_ix := ns_ix st |}.
Proof. intros g st r H1 H2. unfold nested_step. rewrite H1, H2. reflexivity. Qed.

Lemma nested_step_child : forall g st m p, parents_of g m = [p] -> has_root_ptr g m = false ->
  nested_step g (Some st) m
  = Some {| ns_roots := ns_roots st;
            ns_nested := set_children (ns_nested st) p (children (ns_nested st) p ++ [m]);
            ns_inj := ns_inj st; ns_ix := ns_ix st |}.
Proof.
  intros g st m p Hp Hr. unfold nested_step. destruct (parent_ptrs g m) eqn:E.
  - unfold parents_of in Hp. rewrite E in Hp. discriminate.
  - rewrite Hr, Hp. reflexivity.
Qed.

Lemma fold_nested_none : forall g l, fold_left (nested_step g) l None = None.
Proof. induction l; simpl; auto. Qed.

Lemma parents_of_root : forall g r, is_root g r -> parents_of g r = [].
Proof. intros g r H. unfold parents_of, is_root in *. rewrite H. reflexivity. Qed.

Lemma nested_fold : forall g r, tree_table g r -> forall l st, incl l (map m_idx (ms g)) ->
  exists st', fold_left (nested_step g) l (Some st) = Some st'
    /\ ns_roots st' = ns_roots st ++ filter (N.eqb r) l
    /\ ns_inj st' = ns_inj st
    /\ forall p, children (ns_nested st') p = children (ns_nested st) p ++ filter (is_child g p) l.
Proof.
  intros g r [HND [Hr [Hroot [Hrp [Hch _]]]]].
  induction l as [|a l IH]; intros st Hincl.
  - exists st. simpl. rewrite app_nil_r. repeat split; auto. intros; now rewrite app_nil_r.
  - cbn [fold_left].
    assert (Hincl' : incl l (map m_idx (ms g))) by (intros x Hx; apply Hincl; right; exact Hx).
    destruct (N.eq_dec a r) as [->|Hne].
    + rewrite nested_step_root by assumption.
      match goal with |- context [fold_left _ l (Some ?s)] => destruct (IH s Hincl') as [st' [H1 [H2 [H3 H4]]]] end. cbn [ns_roots ns_nested ns_inj ns_ix] in *.
      exists st'. split; [exact H1 | split; [|split; [exact H3|]]].
      * rewrite H2. cbn [filter]. rewrite N.eqb_refl, <- app_assoc. reflexivity.
      * intros p. rewrite H4. cbn [filter].
        assert (E : is_child g p r = false) by (unfold is_child; now rewrite parents_of_root).
        rewrite E. reflexivity.
    + destruct (Hch a (Hincl a (or_introl eq_refl)) Hne) as [Hnr [pa [Hpa _]]].
      rewrite (nested_step_child g st a pa Hpa Hnr).
      match goal with |- context [fold_left _ l (Some ?s)] => destruct (IH s Hincl') as [st' [H1 [H2 [H3 H4]]]] end. cbn [ns_roots ns_nested ns_inj ns_ix] in *.
      exists st'. split; [exact H1 | split; [|split; [exact H3|]]].
      * rewrite H2. cbn [filter]. assert (E : N.eqb r a = false) by (apply N.eqb_neq; congruence).
        rewrite E. reflexivity.
      * intros p. rewrite H4, children_set_children. cbn [filter].
        unfold is_child at 2. rewrite Hpa. rewrite (N.eqb_sym pa p).
        destruct (N.eqb p pa) eqn:Ep.
        -- apply N.eqb_eq in Ep; subst pa. rewrite <- app_assoc. reflexivity.
        -- reflexivity.
Qed.

Lemma filter_eqb_NoDup : forall (r : N) l, NoDup l -> In r l -> filter (N.eqb r) l = [r].
Proof.
  intros r; induction l as [|a l IH]; intros HN Hin; [destruct Hin|].
  inversion HN as [|? ? Hna HNl]; subst. cbn [filter]. destruct (N.eqb r a) eqn:E.
  - apply N.eqb_eq in E; subst a. f_equal.
    clear IH HN Hin HNl. induction l as [|b l IH]; [reflexivity|]. cbn [filter].
    destruct (N.eqb r b) eqn:Eb; [apply N.eqb_eq in Eb; subst; exfalso; apply Hna; left; reflexivity|].
    apply IH. intros H; apply Hna; right; exact H.
  - apply IH; [exact HNl|]. destruct Hin as [->|Hin]; [rewrite N.eqb_refl in E; discriminate | exact Hin].
Qed.

Lemma build_tree_T : forall L isch nested, (forall p, children nested p = kids L isch p) ->
  forall f m, build_tree f nested m = T L isch f m.
Proof.
  intros L isch nested H; induction f as [|f IH]; intros m; simpl; [reflexivity|].
  f_equal. rewrite H. apply map_ext. exact IH.
Qed.

(* the tree that compose_models builds on a tree-shaped pointer table *)
Definition nested_tree (g : graph) (r : N) : node :=
  T (map m_idx (ms g)) (is_child g) (length (map m_idx (ms g))) r.

Lemma compose_nested_tree : forall g r, tree_table g r -> compose_nested g = Some ([nested_tree g r], []).
Proof.
  intros g r Ht. unfold compose_nested.
  destruct (nested_fold g r Ht (map m_idx (ms g))
              {| ns_roots := []; ns_nested := []; ns_inj := []; ns_ix := 0 |} (incl_refl _))
    as [st' [H1 [H2 [H3 H4]]]].
  rewrite H1. cbn [ns_roots ns_nested ns_inj ns_ix] in *.
  destruct Ht as [HND [Hr _]].
  rewrite H2, H3. cbn [app]. rewrite filter_eqb_NoDup by assumption. cbn [map].
  unfold nested_tree. rewrite map_length.
  rewrite (build_tree_T (map m_idx (ms g)) (is_child g)); [reflexivity|].
  intros p. rewrite H4. reflexivity.
Qed.

Lemma tree_table_hyps : forall g r, tree_table g r ->
  let L := map m_idx (ms g) in
  exists depth : N -> nat,
    NoDup L /\ In r L /\ depth r = 0
    /\ (forall x, In x L -> x <> r -> exists p, is_child g p x = true)
    /\ (forall p x, In x L -> is_child g p x = true -> In p L)
    /\ (forall p q x, In x L -> is_child g p x = true -> is_child g q x = true -> p = q)
    /\ (forall p x, In x L -> is_child g p x = true -> depth x = S (depth p)).
Proof.
  intros g r [HND [Hr [Hroot [Hrp [Hch [depth [Hd0 Hdep]]]]]]] L. exists depth.
  assert (Hnr : forall p x, is_child g p x = true -> x <> r).
  { intros p x H ->. apply is_child_true in H. rewrite parents_of_root in H by exact Hroot. discriminate. }
  repeat split; auto.
  - intros x Hx Hne. destruct (Hch x Hx Hne) as [_ [p [Hp _]]]. exists p. now apply is_child_true.
  - intros p x Hx Hi. destruct (Hch x Hx (Hnr _ _ Hi)) as [_ [p' [Hp' [Hin _]]]].
    apply is_child_true in Hi. rewrite Hi in Hp'. inversion Hp'; subst. exact Hin.
  - intros p q x _ H1 H2. apply is_child_true in H1, H2. rewrite H1 in H2. now inversion H2.
  - intros p x Hx Hi. apply Hdep; [exact Hx | eapply Hnr; eauto | now apply is_child_true].
Qed.

(* N1 *)
Theorem nested_perm_tree : forall g r, tree_table g r ->
  exists t, compose_nested g = Some ([t], []) /\ Permutation (flatten t) (map m_idx (ms g)).
Proof.
  intros g r Ht. exists (nested_tree g r). split; [apply compose_nested_tree; exact Ht|].
  destruct (tree_table_hyps g r Ht) as [depth [H1 [H2 [H3 [H4 [H5 [H6 H7]]]]]]].
  unfold nested_tree. eapply T_perm; eauto.
Qed.

Lemma compose_nested_inv : forall g r t, tree_table g r -> compose_nested g = Some ([t], []) -> t = nested_tree g r.
Proof. intros g r t Ht H. rewrite (compose_nested_tree g r Ht) in H. now inversion H. Qed.

(* N2.  The side condition [In c (map m_idx (ms g))] on the right is necessary: the pointer table may contain stale
   pointers whose target is no longer registered (see Example stale_pointer_not_emitted below). *)
Theorem nested_placement : forall g r t, tree_table g r -> compose_nested g = Some ([t], []) ->
  forall p c, child_of t p c <-> (In c (map m_idx (ms g)) /\ parents_of g c = [p]).
Proof.
  intros g r t Ht H p c. rewrite (compose_nested_inv g r t Ht H).
  destruct (tree_table_hyps g r Ht) as [depth [H1 [H2 [H3 [H4 [H5 [H6 H7]]]]]]].
  rewrite <- is_child_true. unfold nested_tree. eapply T_child_of; eauto.
Qed.

(* every node of the nested layout carries exactly the models whose single parent it is, in registry order *)
Theorem nested_children_order : forall g r t, tree_table g r -> compose_nested g = Some ([t], []) ->
  forall p l, subtree t (Node p l) -> map label l = filter (is_child g p) (map m_idx (ms g)).
Proof.
  intros g r t Ht H p l Hs. rewrite (compose_nested_inv g r t Ht H) in Hs.
  destruct (tree_table_hyps g r Ht) as [depth [H1 [H2 [H3 [H4 [H5 [H6 H7]]]]]]].
  unfold nested_tree in Hs. eapply T_subtree_order in Hs; eauto.
Qed.

Theorem nested_root_label : forall g r t, tree_table g r -> compose_nested g = Some ([t], []) -> label t = r.
Proof. intros g r t Ht H. rewrite (compose_nested_inv g r t Ht H). unfold nested_tree. apply label_T. Qed.

(* a class nested inside p is referenced from a field of p: there is a pointer object (c, Some p) *)
Lemma nodupN_acc_in : forall l acc x,
  In x (fold_left (fun acc x => if memN x acc then acc else acc ++ [x]) l acc) -> In x acc \/ In x l.
Proof.
  induction l as [|a l IH]; intros acc x H; simpl in H; [auto|].
  apply IH in H. destruct H as [H|H]; [|right; right; exact H].
  destruct (memN a acc); [left; exact H|]. apply in_app_or in H.
  destruct H as [H|[->|[]]]; [left; exact H | right; left; reflexivity].
Qed.

Lemma parents_of_ptr : forall g c p, In p (parents_of g c) ->
  exists q, In q (ps g) /\ p_tgt q = c /\ p_par q = Some p.
Proof.
  intros g c p H. unfold parents_of, nodupN in H. apply nodupN_acc_in in H. destruct H as [[]|H].
  unfold parent_ptrs in H. apply in_flat_map in H. destruct H as [q [Hq Hp]].
  unfold ptrs_to in Hq. apply filter_In in Hq. destruct Hq as [Hq Ht]. apply N.eqb_eq in Ht.
  exists q. split; [exact Hq | split; [exact Ht|]].
  destruct (p_par q); [destruct Hp as [->|[]]; reflexivity | destruct Hp].
Qed.

Corollary nested_child_referenced : forall g r t, tree_table g r -> compose_nested g = Some ([t], []) ->
  forall p c, child_of t p c -> exists q, In q (ps g) /\ p_tgt q = c /\ p_par q = Some p.
Proof.
  intros g r t Ht H p c Hc. apply (nested_placement g r t Ht H) in Hc. destruct Hc as [_ Hc].
  apply parents_of_ptr. rewrite Hc. left; reflexivity.
Qed.

(* N3 *)
Theorem same_models : forall g r l t, tree_table g r -> compose_flat g = Some l -> compose_nested g = Some ([t], []) ->
  Permutation (flat_map flatten l) (flatten t).
Proof.
  intros g r l t Ht Hf Hn.
  destruct (nested_perm_tree g r Ht) as [t' [Hn' Hp]]. rewrite Hn in Hn'. inversion Hn'; subst t'.
  apply flat_perm in Hf. destruct Hf as [Hf _].
  eapply perm_trans; [exact Hf | apply Permutation_sym; exact Hp].
Qed.

(* a tree-shaped table never raises in either layout, and the flat layout starts with the root *)
Lemma tree_every_model_pointed : forall g r, tree_table g r -> every_model_pointed g.
Proof.
  intros g r [HND [Hr [Hroot [Hrp [Hch _]]]]] m Hm E. apply ptrs_empty_iff in E. destruct E as [E1 E2].
  destruct (N.eq_dec m r) as [->|Hne]; [congruence|].
  destruct (Hch m Hm Hne) as [_ [p [Hp _]]]. unfold parents_of in Hp. rewrite E1 in Hp. discriminate.
Qed.

Theorem tree_flat_root_first : forall g r, tree_table g r ->
  exists rest, compose_flat g = Some (Node r [] :: rest).
Proof.
  intros g r Ht. destruct (compose_flat g) as [l|] eqn:E.
  - destruct (flat_root_first g l r E) as [rest ->].
    + destruct Ht as [_ [Hr _]]; exact Hr.
    + destruct Ht as [_ [_ [Hroot _]]]; exact Hroot.
    + intros m Hm Hroot. destruct Ht as [_ [_ [_ [_ [Hch _]]]]].
      destruct (N.eq_dec m r) as [|Hne]; [assumption|].
      destruct (Hch m Hm Hne) as [_ [p [Hp _]]]. rewrite parents_of_root in Hp by exact Hroot. discriminate.
    + eexists; reflexivity.
  - exfalso. revert E. apply flat_total. eapply tree_every_model_pointed; eauto.
Qed.

(* ------------------------------------------------------------------------------------------------ *)
(* Sanity tests on concrete graphs (root 0 with children 1, 2 and grandchild 3 under 1)              *)
(* ------------------------------------------------------------------------------------------------ *)
Module Examples.
  Definition mk (i : N) : model := {| m_idx := i; m_fields := []; m_name := None; m_gen := None |}.
  Definition pt (x : N * option N) : ptr := {| p_tgt := fst x; p_par := snd x; p_fld := None |}.
  Definition G (l : list N) (p : list (N * option N)) : graph := {| ms := map mk l; ps := map pt p; nxt := 100 |}.
  Definition T1 : list (N * option N) := [(0, None); (1, Some 0); (2, Some 0); (3, Some 1)]%N.
  (* the same tree with duplicated pointers (several fields / list items referencing the same class) *)
  Definition T2 : list (N * option N) :=
    [(1, Some 0); (0, None); (1, Some 0); (2, Some 1); (2, Some 1); (3, Some 2); (0, None)]%N.

  (* registry order with the root last (merged roots are re-registered at the end) *)
  Example flat_root_last : compose_flat (G [1; 2; 3; 0]%N T1) = Some [Node 0 []; Node 1 []; Node 3 []; Node 2 []]%N.
  Proof. vm_compute. reflexivity. Qed.
  Example nested_root_last :
    compose_nested (G [1; 2; 3; 0]%N T1) = Some ([Node 0 [Node 1 [Node 3 []]; Node 2 []]]%N, []).
  Proof. vm_compute. reflexivity. Qed.
  (* child processed before its parent, parent before the root: nothing is lost *)
  Example nested_reverse_order :
    compose_nested (G [3; 2; 1; 0]%N T1) = Some ([Node 0 [Node 2 []; Node 1 [Node 3 []]]]%N, []).
  Proof. vm_compute. reflexivity. Qed.
  Example flat_reverse_order : compose_flat (G [3; 2; 1; 0]%N T1) = Some [Node 0 []; Node 3 []; Node 2 []; Node 1 []]%N.
  Proof. vm_compute. reflexivity. Qed.
  (* a chain as long as the registry: the fuel of build_tree is exactly sufficient *)
  Example nested_chain : compose_nested (G [3; 2; 1; 0]%N T2) = Some ([Node 0 [Node 1 [Node 2 [Node 3 []]]]]%N, []).
  Proof. vm_compute. reflexivity. Qed.
  (* the exception: a registered model without pointers *)
  Example flat_no_pointers : compose_flat (G [0; 1]%N [(0, None)]%N) = None.
  Proof. vm_compute. reflexivity. Qed.

  (* tree_table is satisfiable (non-vacuity of N1-N3) *)
  Example tree_table_T1 : tree_table (G [1; 2; 3; 0]%N T1) 0%N.
  Proof.
    unfold tree_table. split; [|split; [|split; [|split; [|split]]]].
    - vm_compute. repeat constructor; simpl; intuition discriminate.
    - vm_compute. auto.
    - vm_compute. reflexivity.
    - vm_compute. reflexivity.
    - intros m Hm Hne. vm_compute in Hm.
      destruct Hm as [<-|[<-|[<-|[<-|[]]]]]; try congruence;
        (split; [vm_compute; reflexivity|]); [exists 0%N | exists 0%N | exists 1%N];
        (split; [vm_compute; reflexivity | split; [vm_compute; auto | discriminate]]).
    - exists (fun m : N => match m with 1%N => 1 | 2%N => 1 | 3%N => 2 | _ => 0 end).
      split; [reflexivity|]. intros m p Hm Hne Hp. vm_compute in Hm.
      destruct Hm as [<-|[<-|[<-|[<-|[]]]]]; try congruence; vm_compute in Hp; inversion Hp; reflexivity.
  Qed.

  (* Counterexample to N2 without the side condition [In c (map m_idx (ms g))]: the pointer table still holds a stale
     pointer to the unregistered model 5 whose only parent is 0, the table is a tree rooted at 0, but 5 is (rightly)
     not emitted. *)
  Example stale_pointer_not_emitted :
    let g := G [0]%N [(0, None); (5, Some 0)]%N in
    parents_of g 5%N = [0%N] /\ compose_nested g = Some ([Node 0%N []], []) /\ ~ In 5%N (map m_idx (ms g)).
  Proof. vm_compute. split; [reflexivity | split; [reflexivity | intros [H|[]]; discriminate]]. Qed.

  (* Without a unique root the first element of the flat layout need not be the first registered root ... but it is
     still a model without parent pointers here: two roots 0 and 2, 1 below 0. *)
  Example flat_two_roots :
    compose_flat (G [1; 0; 2]%N [(0, None); (2, None); (1, Some 0)]%N) = Some [Node 0 []; Node 2 []; Node 1 []]%N.
  Proof. vm_compute. reflexivity. Qed.
End Examples.

(* ------------------------------------------------------------------------------------------------ *)
Print Assumptions flat_perm.
Print Assumptions flat_exactly_once.
Print Assumptions flat_none_iff.
Print Assumptions flat_total.
Print Assumptions flat_total_iff.
Print Assumptions flat_root_first.
Print Assumptions nested_perm_tree.
Print Assumptions nested_placement.
Print Assumptions nested_children_order.
Print Assumptions nested_child_referenced.
Print Assumptions nested_root_label.
Print Assumptions same_models.
Print Assumptions tree_flat_root_first.
Print Assumptions Examples.tree_table_T1.
