(* Proofs/AnnProps.v — the emitted type annotations read back (property C04, annotation part).
     parse_print      : whatever print_ty prints for a type t is read by parse_ann as exactly denote t, leaving the
                        follow text untouched (A1), with the explicit fuel bound ty_fuel t;
     parse_print_all  : the corollary for the whole text;
     parse_ann_mono   : more fuel never changes a result (arbitrary texts);
     literal_empty_unreadable : why the side condition "shown literal sets are non-empty" is needed;
     denote_erase / denote_injective : denote forgets exactly what `erase` erases (A2);
     examples by vm_compute (A3).
   No axioms. *)
From Coq Require Import List Bool Arith NArith Lia String Ascii.
From J2M.Model Require Import Base Framework Emit PyLex PyAnn.
From J2M.Proofs Require Import PyLexProps.
Import ListNotations.
Local Open Scope list_scope.

(* ================= characters ================= *)
Lemma ident_start_char : forall c, ident_start c = true -> ident_char c = true.
Proof. intros c H. unfold ident_char. rewrite H. reflexivity. Qed.

Lemma ident_char_not : forall c d, ident_char d = false -> ident_char c = true -> N.eqb c d = false.
Proof.
  intros c d Hd Hc. destruct (N.eqb_spec c d) as [E|E]; [|reflexivity]. subst. rewrite Hd in Hc. discriminate.
Qed.
Lemma ident_char_not_sq : forall c, ident_char c = true -> N.eqb c SQ = false.
Proof. intros c. apply ident_char_not. reflexivity. Qed.
Lemma ident_char_not_dot : forall c, ident_char c = true -> N.eqb c DOT = false.
Proof. intros c. apply ident_char_not. reflexivity. Qed.
Lemma ident_start_not_sq : forall c, ident_start c = true -> N.eqb c SQ = false.
Proof. intros c H. apply ident_char_not_sq, ident_start_char, H. Qed.

(* ================= span ================= *)
Definition head_fails (p : N -> bool) (r : str) : Prop :=
  match r with [] => True | c :: _ => p c = false end.

Lemma span_app : forall p a r, forallb p a = true -> head_fails p r -> span p (a ++ r) = (a, r).
Proof.
  intros p a r. induction a as [|c a IH]; intros Ha Hr.
  - destruct r as [|d r]; [reflexivity|]. simpl in *. rewrite Hr. reflexivity.
  - simpl in Ha. apply andb_true_iff in Ha. destruct Ha as [Hc Ha].
    simpl. rewrite Hc. rewrite (IH Ha Hr). reflexivity.
Qed.

Lemma follow_head_fails : forall rest, follow_ok rest = true -> head_fails ident_char rest.
Proof.
  intros [|c r] H; [exact I|]. simpl in *. apply andb_true_iff in H. destruct H as [H _].
  apply negb_true_iff in H. exact H.
Qed.

Lemma ident_ok_forallb : forall n, ident_ok n = true -> forallb ident_char n = true.
Proof.
  intros [|c r] H; [discriminate|]. simpl in *. apply andb_true_iff in H. destruct H as [Hc Hr].
  rewrite (ident_start_char _ Hc), Hr. reflexivity.
Qed.

(* ================= quoted references ================= *)
Lemma split_sq_app : forall body rest,
  forallb (fun c => negb (N.eqb c SQ)) body = true -> split_sq (body ++ SQ :: rest) = Some (body, rest).
Proof.
  intros body rest H. unfold split_sq. rewrite span_app; [reflexivity|exact H|reflexivity].
Qed.

Lemma dotted_no_sq : forall s b, dotted_aux b s = true -> forallb (fun c => negb (N.eqb c SQ)) s = true.
Proof.
  induction s as [|c s IH]; intros b H; [reflexivity|].
  simpl in H. simpl. destruct b.
  - apply andb_true_iff in H. destruct H as [Hc Hs]. rewrite (ident_start_not_sq _ Hc). simpl. exact (IH _ Hs).
  - destruct (N.eqb_spec c DOT) as [E|E].
    + subst. simpl. exact (IH _ H).
    + apply andb_true_iff in H. destruct H as [Hc Hs]. rewrite (ident_char_not_sq _ Hc). simpl. exact (IH _ Hs).
Qed.

Lemma dotted_ident_chars : forall r s, forallb ident_char r = true -> dotted_aux false (r ++ s) = dotted_aux false s.
Proof.
  induction r as [|c r IH]; intros s H; [reflexivity|].
  simpl in H. apply andb_true_iff in H. destruct H as [Hc Hr].
  change ((c :: r) ++ s) with (c :: (r ++ s)). cbn [dotted_aux].
  rewrite (ident_char_not_dot _ Hc), Hc. simpl. exact (IH s Hr).
Qed.

Lemma dotted_ident_app : forall n s, ident_ok n = true -> dotted_aux true (n ++ s) = dotted_aux false s.
Proof.
  intros [|c r] s H; [discriminate|]. simpl in H. apply andb_true_iff in H. destruct H as [Hc Hr].
  change ((c :: r) ++ s) with (c :: (r ++ s)). cbn [dotted_aux]. rewrite Hc. simpl.
  exact (dotted_ident_chars r s Hr).
Qed.

Lemma dotted_ident : forall n, ident_ok n = true -> dotted_ok n = true.
Proof.
  intros n H. unfold dotted_ok. rewrite <- (app_nil_r n). rewrite (dotted_ident_app n [] H). reflexivity.
Qed.

Lemma dotted_path : forall p n, ident_ok p = true -> ident_ok n = true -> dotted_ok (p ++ [DOT] ++ n) = true.
Proof.
  intros p n Hp Hn. unfold dotted_ok. rewrite (dotted_ident_app p _ Hp).
  change ([DOT] ++ n) with (DOT :: n). cbn [dotted_aux]. rewrite N.eqb_refl. exact (dotted_ident n Hn).
Qed.

(* ================= string literals ================= *)
Definition lift_dq (z : str) (o : option (str * str)) : option (str * str) :=
  match o with Some (b, t) => Some (z ++ b, t) | None => None end.

Lemma split_dq_plain : forall c r, N.eqb c DQ = false -> N.eqb c BSL = false ->
  split_dq (c :: r) = lift_dq [c] (split_dq r).
Proof. intros c r H1 H2. cbn [split_dq]. rewrite H1, H2. destruct (split_dq r) as [[b t]|]; reflexivity. Qed.

Lemma split_dq_bsl : forall e r, split_dq (BSL :: e :: r) = lift_dq [BSL; e] (split_dq r).
Proof. intros e r. cbn [split_dq]. change (N.eqb BSL DQ) with false. change (N.eqb BSL BSL) with true.
  cbv iota. destruct (split_dq r) as [[b t]|]; reflexivity. Qed.

Lemma lift_dq_app : forall a b o, lift_dq a (lift_dq b o) = lift_dq (a ++ b) o.
Proof. intros a b [[x t]|]; simpl; [rewrite app_assoc|]; reflexivity. Qed.

Lemma hex_digit_plain : forall n, N.eqb (hex_digit n) DQ = false /\ N.eqb (hex_digit n) BSL = false.
Proof.
  intros n. unfold hex_digit, DQ, BSL. destruct (N.ltb_spec n 10); split; apply N.eqb_neq; lia.
Qed.

Lemma split_dq_hex4 : forall c r, split_dq (hex4 c ++ r) = lift_dq (hex4 c) (split_dq r).
Proof.
  intros c r. unfold hex4, hex2.
  cbn [app].
  repeat (rewrite split_dq_plain; [|apply hex_digit_plain|apply hex_digit_plain]).
  rewrite !lift_dq_app. reflexivity.
Qed.

Lemma split_dq_char : forall c r, split_dq (json_escape_char_raw c ++ r) = lift_dq (json_escape_char_raw c) (split_dq r).
Proof.
  intros c r. unfold json_escape_char_raw.
  destruct (N.eqb c DQ) eqn:E1; [apply split_dq_bsl|].
  destruct (N.eqb c BSL) eqn:E2; [apply split_dq_bsl|].
  destruct (N.eqb c 10); [apply split_dq_bsl|].
  destruct (N.eqb c 13); [apply split_dq_bsl|].
  destruct (N.eqb c 9); [apply split_dq_bsl|].
  destruct (N.eqb c 8); [apply split_dq_bsl|].
  destruct (N.eqb c 12); [apply split_dq_bsl|].
  destruct (N.ltb c 32).
  - change (([BSL; 117%N] ++ hex4 c) ++ r) with (BSL :: 117%N :: (hex4 c ++ r)).
    rewrite split_dq_bsl, split_dq_hex4, lift_dq_app. reflexivity.
  - apply split_dq_plain; assumption.
Qed.

Lemma split_dq_body : forall s rest,
  split_dq (flat_map json_escape_char_raw s ++ DQ :: rest) = Some (flat_map json_escape_char_raw s ++ [DQ], rest).
Proof.
  induction s as [|c s IH]; intros rest; [reflexivity|].
  cbn [flat_map]. rewrite <- app_assoc. rewrite split_dq_char, IH. cbn [lift_dq]. rewrite <- app_assoc. reflexivity.
Qed.

(* one literal: the text  json.dumps(v, ensure_ascii=False) ++ rest  splits after the literal and its value is v *)
Lemma json_literal_split : forall v rest,
  json_escape_raw v ++ rest = DQ :: (flat_map json_escape_char_raw v ++ DQ :: rest).
Proof. intros. unfold json_escape_raw. cbn [app]. rewrite <- app_assoc. reflexivity. Qed.

Lemma json_literal_value : forall v, py_unescape (DQ :: flat_map json_escape_char_raw v ++ [DQ]) = Some v.
Proof. intros v. exact (unescape_json_raw_all v). Qed.

(* ================= the literal list ================= *)
Lemma COMMA_SP_eq : COMMA_SP = [COMMA; SPACE].
Proof. reflexivity. Qed.

Lemma parse_lits_step : forall f v rest,
  parse_lits (S f) (json_escape_raw v ++ rest) =
  match rest with
  | d :: rest1 =>
      if N.eqb d RBR then Some ([v], rest1)
      else if N.eqb d COMMA then
        match parse_lits f (skip_space rest1) with Some (l, t) => Some (v :: l, t) | None => None end
      else None
  | [] => None
  end.
Proof.
  intros f v rest. rewrite json_literal_split. cbn [parse_lits]. rewrite N.eqb_refl.
  rewrite split_dq_body. rewrite json_literal_value. reflexivity.
Qed.

Lemma parse_lits_join : forall ls rest fuel, ls <> [] -> List.length ls <= fuel ->
  parse_lits fuel (join COMMA_SP (map json_escape_raw ls) ++ RBR :: rest) = Some (ls, rest).
Proof.
  induction ls as [|v ls IH]; intros rest fuel Hne Hf; [congruence|].
  destruct fuel as [|f]; [simpl in Hf; lia|].
  destruct ls as [|w ls].
  - cbn [map join]. rewrite parse_lits_step. rewrite N.eqb_refl. reflexivity.
  - change (join COMMA_SP (map json_escape_raw (v :: w :: ls)))
      with (json_escape_raw v ++ COMMA_SP ++ join COMMA_SP (map json_escape_raw (w :: ls))).
    rewrite <- !app_assoc. rewrite parse_lits_step. rewrite COMMA_SP_eq.
    cbn [app]. change (N.eqb COMMA RBR) with false. rewrite N.eqb_refl. cbv iota.
    cbn [skip_space]. rewrite N.eqb_refl.
    rewrite IH; [reflexivity|discriminate|simpl in *; lia].
Qed.

(* ================= one-step equations of the parser ================= *)
Lemma parse_ann_S : forall f c r,
  parse_ann (S f) (c :: r) =
  if N.eqb c SQ then
    match split_sq r with
    | Some (body, rest) => if dotted_ok body then Some (ARef body, rest) else None
    | None => None
    end
  else if ident_start c then
    let '(name, rest) := span ident_char (c :: r) in
    match rest with
    | d :: rest1 =>
        if N.eqb d LBR then
          if str_eqb name LITERAL then
            match parse_lits f rest1 with Some (l, t) => Some (ALit l, t) | None => None end
          else
            match parse_args f rest1 with Some (l, t) => Some (ASub name l, t) | None => None end
        else Some (AName name, rest)
    | [] => Some (AName name, rest)
    end
  else None.
Proof. reflexivity. Qed.

Lemma parse_args_S : forall f s,
  parse_args (S f) s =
  match parse_ann f s with
  | Some (a, rest) =>
      match rest with
      | d :: rest1 =>
          if N.eqb d RBR then Some ([a], rest1)
          else if N.eqb d COMMA then
            match parse_args f (skip_space rest1) with Some (l, t) => Some (a :: l, t) | None => None end
          else None
      | [] => None
      end
  | None => None
  end.
Proof. reflexivity. Qed.

(* a bare name *)
Lemma parse_name : forall f n rest, ident_ok n = true -> follow_ok rest = true ->
  parse_ann (S f) (n ++ rest) = Some (AName n, rest).
Proof.
  intros f n rest Hn Hr. pose proof (ident_ok_forallb n Hn) as Hall.
  destruct n as [|c r]; [discriminate|].
  pose proof Hn as Hn'. simpl in Hn'. apply andb_true_iff in Hn'. destruct Hn' as [Hc _].
  change ((c :: r) ++ rest) with (c :: (r ++ rest)). rewrite parse_ann_S.
  rewrite (ident_start_not_sq _ Hc), Hc.
  change (c :: (r ++ rest)) with ((c :: r) ++ rest).
  rewrite (span_app ident_char (c :: r) rest Hall (follow_head_fails rest Hr)).
  destruct rest as [|d rest1]; [reflexivity|].
  simpl in Hr. apply andb_true_iff in Hr. destruct Hr as [_ Hd]. apply negb_true_iff in Hd. rewrite Hd. reflexivity.
Qed.

(* Head[ ... *)
Lemma parse_head : forall f h s, ident_ok h = true ->
  parse_ann (S f) (h ++ LBR :: s) =
  if str_eqb h LITERAL
  then match parse_lits f s with Some (l, t) => Some (ALit l, t) | None => None end
  else match parse_args f s with Some (l, t) => Some (ASub h l, t) | None => None end.
Proof.
  intros f h s Hh. pose proof (ident_ok_forallb h Hh) as Hall.
  destruct h as [|c r]; [discriminate|].
  pose proof Hh as Hh'. simpl in Hh'. apply andb_true_iff in Hh'. destruct Hh' as [Hc _].
  change ((c :: r) ++ LBR :: s) with (c :: (r ++ LBR :: s)). rewrite parse_ann_S.
  rewrite (ident_start_not_sq _ Hc), Hc.
  change (c :: (r ++ LBR :: s)) with ((c :: r) ++ LBR :: s).
  rewrite (span_app ident_char (c :: r) (LBR :: s) Hall); [|reflexivity].
  rewrite N.eqb_refl. reflexivity.
Qed.

(* 'Dotted.Name' *)
Lemma parse_ref : forall f q rest, dotted_ok q = true ->
  parse_ann (S f) ([SQ] ++ q ++ [SQ] ++ rest) = Some (ARef q, rest).
Proof.
  intros f q rest Hq. change ([SQ] ++ q ++ [SQ] ++ rest) with (SQ :: (q ++ SQ :: rest)).
  rewrite parse_ann_S. rewrite N.eqb_refl.
  rewrite (split_sq_app q rest (dotted_no_sq q true Hq)). rewrite Hq. reflexivity.
Qed.

(* the last argument *)
Lemma parse_args_last : forall f s a rest,
  parse_ann f s = Some (a, RBR :: rest) -> parse_args (S f) s = Some ([a], rest).
Proof. intros f s a rest H. rewrite parse_args_S, H. rewrite N.eqb_refl. reflexivity. Qed.

(* an argument followed by ", " *)
Lemma parse_args_more : forall f s a s' l t,
  parse_ann f s = Some (a, COMMA :: SPACE :: s') -> parse_args f s' = Some (l, t) ->
  parse_args (S f) s = Some (a :: l, t).
Proof.
  intros f s a s' l t H1 H2. rewrite parse_args_S, H1.
  change (N.eqb COMMA RBR) with false. rewrite N.eqb_refl. cbv iota.
  cbn [skip_space]. rewrite N.eqb_refl. rewrite H2. reflexivity.
Qed.

Lemma follow_rbr : forall r, follow_ok (RBR :: r) = true.
Proof. reflexivity. Qed.
Lemma follow_comma : forall r, follow_ok (COMMA :: r) = true.
Proof. reflexivity. Qed.

(* ================= the printer, unfolded ================= *)
Section ReadBack.
  Variable names : N -> option str.
  Variable ctx : N -> option N.

  Fixpoint print_list (o : opts) (l : list ty) : option (list imp * list str) :=
    match l with
    | [] => Some ([], [])
    | x :: r => match print_ty names ctx o x, print_list o r with
                | Some (i, n), Some (ri, rn) => Some (i ++ ri, n :: rn)
                | _, _ => None
                end
    end.

  Lemma print_ty_union : forall o ts,
    print_ty names ctx o (TUnion ts) =
    match ts with
    | [] => None
    | _ => match print_list o ts with
           | Some (i, ns) => Some (i ++ [T $"Union"], $"Union[" ++ join COMMA_SP ns ++ $"]")
           | None => None
           end
    end.
  Proof.
    intros o ts. destruct ts as [|t ts]; [reflexivity|].
    cbn [print_ty].
    match goal with |- context [?f ts] => is_fix f; assert (E : forall l, f l = print_list o l) end.
    { induction l as [|x l IH]; [reflexivity|]. cbn [print_list]. rewrite <- IH. reflexivity. }
    rewrite E. reflexivity.
  Qed.

  (* the read-back property of one printed type, as a predicate on (type, text) *)
  Definition reads_back (o : opts) (t : ty) (txt : str) : Prop :=
    forall rest fuel, follow_ok rest = true -> ty_fuel t <= fuel ->
      parse_ann fuel (txt ++ rest) = Some (denote names ctx o t, rest).

  Lemma print_list_Forall2 : forall o ts i ns,
    print_list o ts = Some (i, ns) ->
    Forall2 (fun t n => exists j, print_ty names ctx o t = Some (j, n)) ts ns.
  Proof.
    intros o. induction ts as [|x ts IH]; intros i ns H.
    - simpl in H. inversion H. constructor.
    - cbn [print_list] in H.
      destruct (print_ty names ctx o x) as [[j n]|] eqn:Ex; [|discriminate].
      destruct (print_list o ts) as [[ri rn]|] eqn:El; [|discriminate].
      inversion H; subst. constructor; [exists j; exact Ex|]. exact (IH ri rn eq_refl).
  Qed.

  Lemma parse_args_join : forall o ts ns,
    Forall2 (reads_back o) ts ns -> ts <> [] ->
    forall rest fuel, list_sum (map (fun x => 1 + ty_fuel x) ts) <= fuel ->
      parse_args fuel (join COMMA_SP ns ++ RBR :: rest) = Some (map (denote names ctx o) ts, rest).
  Proof.
    intros o ts ns H. induction H as [|t n ts ns Ht Hts IH]; intros Hne rest fuel Hf; [congruence|].
    cbn [map list_sum fold_right] in Hf. cbv beta in Hf. fold (list_sum (map (fun x => 1 + ty_fuel x) ts)) in Hf.
    destruct fuel as [|f]; [lia|].
    destruct Hts as [|t2 n2 ts ns Ht2 Hts].
    - cbn [join map]. apply parse_args_last. apply Ht; [apply follow_rbr|simpl in Hf; lia].
    - change (join COMMA_SP (n :: n2 :: ns)) with (n ++ COMMA_SP ++ join COMMA_SP (n2 :: ns)).
      rewrite <- !app_assoc. rewrite COMMA_SP_eq.
      change ([COMMA; SPACE] ++ join COMMA_SP (n2 :: ns) ++ RBR :: rest)
        with (COMMA :: SPACE :: (join COMMA_SP (n2 :: ns) ++ RBR :: rest)).
      change (map (denote names ctx o) (t :: t2 :: ts))
        with (denote names ctx o t :: map (denote names ctx o) (t2 :: ts)).
      eapply parse_args_more.
      + apply Ht; [apply follow_comma|lia].
      + apply IH; [discriminate|lia].
  Qed.

  (* text equalities used to expose Head, bracket, body *)
  Lemma sub_text : forall (h : str) (body rest : str),
    ((h ++ [LBR]) ++ body ++ [RBR]) ++ rest = h ++ LBR :: (body ++ RBR :: rest).
  Proof. intros. rewrite <- !app_assoc. reflexivity. Qed.

  Lemma dict_text : forall n rest,
    ($"Dict[str, " ++ n ++ $"]") ++ rest = $"Dict" ++ LBR :: ($"str" ++ COMMA :: SPACE :: (n ++ RBR :: rest)).
  Proof. intros. rewrite <- app_assoc. rewrite <- app_assoc. reflexivity. Qed.

  Lemma fuel2 : forall k fuel, 2 + k <= fuel -> exists f, fuel = S (S f) /\ k <= f.
  Proof. intros k fuel H. destruct fuel as [|[|f]]; try lia. exists f. split; [reflexivity|lia]. Qed.

  Lemma Some_snd : forall (A B : Type) (a c : A) (b d : B), Some (a, b) = Some (c, d) -> d = b.
  Proof. intros A B a c b d H. inversion H. reflexivity. Qed.

  Lemma pseudo_name_ident : forall fw p, ident_ok (pseudo_name fw p) = true.
  Proof. intros fw p. destruct fw, p; reflexivity. Qed.

  (* ================= A1 ================= *)
  Theorem parse_print_fuel : forall o t i txt,
    print_ty names ctx o t = Some (i, txt) ->
    ann_wf names ctx o t = true ->
    forall rest fuel, follow_ok rest = true -> ty_fuel t <= fuel ->
      parse_ann fuel (txt ++ rest) = Some (denote names ctx o t, rest).
  Proof.
    intros o t. induction t as [ | | | | | | p | ov ls | x IH | x IH | x IH | ts IH | fs IH | m ] using ty_ind2;
      intros i txt Hp Hwf rest fuel Hr Hf.
    1-6: (cbn [print_ty] in Hp; inversion Hp; subst; cbn [ty_fuel] in Hf;
          destruct fuel as [|f]; [lia|]; apply parse_name; [reflexivity|exact Hr]).
    - (* TPseudo *)
      cbn [print_ty] in Hp. cbn [ty_fuel] in Hf. destruct fuel as [|f]; [lia|].
      assert (txt = pseudo_name (o_fw o) p) as ->.
      { unfold pseudo_name. destruct (use_actual_type (o_fw o)).
        - injection Hp as H0. rewrite H0. reflexivity.
        - injection Hp as _ H1. symmetry. exact H1. }
      cbn [denote]. apply parse_name; [apply pseudo_name_ident|exact Hr].
    - (* TLit *)
      cbn [print_ty] in Hp. cbn [ann_wf] in Hwf. cbn [denote]. cbn [ty_fuel] in Hf.
      fold (lit_shown o ls) in Hp.
      destruct (lit_shown o ls) eqn:Es.
      + apply Some_snd in Hp. subst txt. simpl in Hwf.
        assert (ls <> []) as Hne by (destruct ls; [discriminate|discriminate]).
        destruct fuel as [|f]; [lia|].
        change ($"Literal[") with (LITERAL ++ [LBR]). change ($"]") with [RBR].
        rewrite sub_text. rewrite parse_head; [|reflexivity].
        change (str_eqb LITERAL LITERAL) with true. cbv iota.
        rewrite parse_lits_join; [reflexivity|exact Hne|lia].
      + apply Some_snd in Hp. subst txt. destruct fuel as [|f]; [lia|]. apply parse_name; [reflexivity|exact Hr].
    - (* TOpt *)
      cbn [print_ty] in Hp. destruct (print_ty names ctx o x) as [[j n]|] eqn:Ex; [|discriminate].
      apply Some_snd in Hp. subst txt. cbn [ann_wf] in Hwf. cbn [ty_fuel] in Hf. cbn [denote].
      destruct (fuel2 _ _ Hf) as [f [-> Hf']].
      change ($"Optional[") with ($"Optional" ++ [LBR]). change ($"]") with [RBR].
      rewrite sub_text. rewrite parse_head; [|reflexivity].
      change (str_eqb $"Optional" LITERAL) with false. cbv iota.
      rewrite (parse_args_last f _ (denote names ctx o x) rest); [reflexivity|].
      apply (IH j n eq_refl Hwf); [apply follow_rbr|exact Hf'].
    - (* TList *)
      cbn [print_ty] in Hp. destruct (print_ty names ctx o x) as [[j n]|] eqn:Ex; [|discriminate].
      apply Some_snd in Hp. subst txt. cbn [ann_wf] in Hwf. cbn [ty_fuel] in Hf. cbn [denote].
      destruct (fuel2 _ _ Hf) as [f [-> Hf']].
      change ($"List[") with ($"List" ++ [LBR]). change ($"]") with [RBR].
      rewrite sub_text. rewrite parse_head; [|reflexivity].
      change (str_eqb $"List" LITERAL) with false. cbv iota.
      rewrite (parse_args_last f _ (denote names ctx o x) rest); [reflexivity|].
      apply (IH j n eq_refl Hwf); [apply follow_rbr|exact Hf'].
    - (* TDict *)
      cbn [print_ty] in Hp. destruct (print_ty names ctx o x) as [[j n]|] eqn:Ex; [|discriminate].
      apply Some_snd in Hp. subst txt. cbn [ann_wf] in Hwf. cbn [ty_fuel] in Hf. cbn [denote].
      destruct fuel as [|[|[|f]]]; try lia.
      rewrite dict_text. rewrite parse_head; [|reflexivity].
      change (str_eqb $"Dict" LITERAL) with false. cbv iota.
      rewrite (parse_args_more (S f) _ (AName $"str") (n ++ RBR :: rest) [denote names ctx o x] rest); [reflexivity| |].
      + apply parse_name; [reflexivity|apply follow_comma].
      + apply parse_args_last. apply (IH j n eq_refl Hwf); [apply follow_rbr|lia].
    - (* TUnion *)
      rewrite print_ty_union in Hp. destruct ts as [|t0 ts0]; [discriminate|].
      remember (t0 :: ts0) as ts eqn:Ets.
      destruct (print_list o ts) as [[j ns]|] eqn:El; [|discriminate].
      apply Some_snd in Hp. subst txt. cbn [ann_wf] in Hwf. apply andb_true_iff in Hwf. destruct Hwf as [_ Hwf].
      cbn [ty_fuel] in Hf. cbn [denote]. destruct fuel as [|f]; [lia|].
      change ($"Union[") with ($"Union" ++ [LBR]). change ($"]") with [RBR].
      rewrite sub_text. rewrite parse_head; [|reflexivity].
      change (str_eqb $"Union" LITERAL) with false. cbv iota.
      rewrite (parse_args_join o ts ns); [reflexivity| |subst ts; discriminate|lia].
      clear Hf Ets. apply print_list_Forall2 in El.
      rewrite forallb_forall in Hwf. rewrite Forall_forall in IH.
      clear -El Hwf IH. induction El as [|t n ts ns [jj Ht] Hts IH2]; constructor.
      + intros rest fuel Hr Hf. apply (IH t (or_introl eq_refl) jj n Ht); [apply Hwf; left; reflexivity|exact Hr|exact Hf].
      + apply IH2.
        * intros x Hx. apply IH. right. exact Hx.
        * intros x Hx. apply Hwf. right. exact Hx.
    - (* TObj *)
      cbn [print_ty] in Hp. discriminate.
    - (* TPtr *)
      cbn [print_ty] in Hp. cbn [ann_wf] in Hwf. cbn [denote]. unfold qual_name.
      destruct (names m) as [n|] eqn:En; [|discriminate].
      apply andb_true_iff in Hwf. destruct Hwf as [Hn Hpath].
      cbn [ty_fuel] in Hf. destruct fuel as [|f]; [lia|].
      apply Some_snd in Hp. subst txt.
      set (path := match ctx m with Some p => match names p with Some pn => pn | None => [] end | None => [] end) in *.
      assert (Hpp : path = [] \/ ident_ok path = true).
      { subst path. destruct (ctx m) as [p|]; [|left; reflexivity].
        destruct (names p) as [pn|]; [|left; reflexivity].
        destruct pn; [left; reflexivity|right; exact Hpath]. }
      rewrite <- !app_assoc.
      destruct n as [|c n']; [discriminate|].
      destruct Hpp as [Hp0|Hp1].
      + rewrite Hp0. apply parse_ref. apply dotted_ident. exact Hn.
      + destruct path as [|pc pr]; [discriminate|].
        change ($".") with [DOT]. apply parse_ref. apply dotted_path; assumption.
  Qed.

  Theorem parse_print : forall o t i txt,
    print_ty names ctx o t = Some (i, txt) ->
    ann_wf names ctx o t = true ->
    forall rest, follow_ok rest = true ->
    exists n, forall fuel, n <= fuel -> parse_ann fuel (txt ++ rest) = Some (denote names ctx o t, rest).
  Proof.
    intros o t i txt Hp Hwf rest Hr. exists (ty_fuel t). intros fuel Hf.
    exact (parse_print_fuel o t i txt Hp Hwf rest fuel Hr Hf).
  Qed.

  Corollary parse_print_all : forall o t i txt,
    print_ty names ctx o t = Some (i, txt) ->
    ann_wf names ctx o t = true ->
    forall fuel, ty_fuel t <= fuel -> parse_ann_all fuel txt = Some (denote names ctx o t).
  Proof.
    intros o t i txt Hp Hwf fuel Hf. unfold parse_ann_all.
    rewrite <- (app_nil_r txt). rewrite (parse_print_fuel o t i txt Hp Hwf [] fuel eq_refl Hf). reflexivity.
  Qed.
End ReadBack.

(* ================= fuel monotonicity (arbitrary texts) ================= *)
Lemma parse_lits_mono : forall n s r, parse_lits n s = Some r -> forall m, n <= m -> parse_lits m s = Some r.
Proof.
  induction n as [|n IH]; intros s r H m Hm; [discriminate|].
  destruct m as [|m]; [lia|].
  cbn [parse_lits] in H |- *.
  destruct s as [|c s]; [discriminate|].
  destruct (N.eqb c DQ); [|discriminate].
  destruct (split_dq s) as [[body rest]|]; [|discriminate].
  destruct (py_unescape (DQ :: body)) as [v|]; [|discriminate].
  destruct rest as [|d rest1]; [discriminate|].
  destruct (N.eqb d RBR); [exact H|].
  destruct (N.eqb d COMMA); [|discriminate].
  destruct (parse_lits n (skip_space rest1)) as [[l t]|] eqn:E; [|discriminate].
  rewrite (IH _ _ E m) by lia. exact H.
Qed.

Lemma parse_mono : forall n,
  (forall s r, parse_ann n s = Some r -> forall m, n <= m -> parse_ann m s = Some r) /\
  (forall s r, parse_args n s = Some r -> forall m, n <= m -> parse_args m s = Some r).
Proof.
  induction n as [|n [IHa IHl]]; [split; intros; discriminate|].
  split; intros s r H m Hm; (destruct m as [|m]; [lia|]).
  - destruct s as [|c s]; [discriminate|].
    rewrite parse_ann_S in H |- *.
    destruct (N.eqb c SQ); [exact H|].
    destruct (ident_start c); [|discriminate].
    destruct (span ident_char (c :: s)) as [name rest].
    destruct rest as [|d rest1]; [exact H|].
    destruct (N.eqb d LBR); [|exact H].
    destruct (str_eqb name LITERAL).
    + destruct (parse_lits n rest1) as [[l t]|] eqn:E; [|discriminate].
      rewrite (parse_lits_mono _ _ _ E m) by lia. exact H.
    + destruct (parse_args n rest1) as [[l t]|] eqn:E; [|discriminate].
      rewrite (IHl _ _ E m) by lia. exact H.
  - rewrite parse_args_S in H |- *.
    destruct (parse_ann n s) as [[a rest]|] eqn:E; [|discriminate].
    rewrite (IHa _ _ E m) by lia.
    destruct rest as [|d rest1]; [discriminate|].
    destruct (N.eqb d RBR); [exact H|].
    destruct (N.eqb d COMMA); [|discriminate].
    destruct (parse_args n (skip_space rest1)) as [[l t]|] eqn:E2; [|discriminate].
    rewrite (IHl _ _ E2 m) by lia. exact H.
Qed.

Theorem parse_ann_mono : forall n m s r, parse_ann n s = Some r -> n <= m -> parse_ann m s = Some r.
Proof. intros n m s r H Hm. exact (proj1 (parse_mono n) s r H m Hm). Qed.

(* ================= why the side conditions are there ================= *)
(* (1) an overflowed or empty StringLiteral below the limit is printed as Literal[] (also by the implementation, see
   tools/validate_pyann.py), which CPython rejects (SyntaxError) and so does parse_ann: shown literal sets must be
   non-empty (ann_wf).  Without that condition parse_print is FALSE: *)
Lemma literal_empty_printed : forall names ctx o ov, lit_shown o [] = true ->
  print_ty names ctx o (TLit ov []) = Some ([T $"Literal"], $"Literal[]").
Proof. intros names ctx o ov H. cbn [print_ty]. fold (lit_shown o []). rewrite H. reflexivity. Qed.

Lemma literal_empty_unreadable : forall fuel rest, parse_ann fuel ($"Literal[]" ++ rest) = None.
Proof. intros [|[|f]] rest; reflexivity. Qed.

Lemma literal_empty_counterexample :
  let o := Build_opts FBase 10 false true false in
  print_ty (fun _ => None) (fun _ => None) o (TLit true []) = Some ([T $"Literal"], $"Literal[]") /\
  forall fuel, parse_ann fuel ($"Literal[]" ++ []) = None.
Proof. split; [reflexivity|]. intros fuel. apply literal_empty_unreadable. Qed.

(* (2) the follow-set condition: a bare name swallows identifier characters and an open bracket that follow it *)
Example follow_needed_ident : parse_ann 5 ($"int" ++ $"x") = Some (AName $"intx", []).
Proof. vm_compute. reflexivity. Qed.
Example follow_needed_bracket : parse_ann 5 ($"int" ++ $"[str]") = Some (ASub $"int" [AName $"str"], []).
Proof. vm_compute. reflexivity. Qed.

(* ================= A2: what denote forgets ================= *)
Section Injective.
  Variable names : N -> option str.
  Variable ctx : N -> option N.
  Definition qn (m : N) : str := match qual_name names ctx m with Some s => s | None => [] end.

  (* erase is invisible to denote *)
  Theorem denote_erase : forall o t, denote names ctx o (erase o t) = denote names ctx o t.
  Proof.
    intros o t. induction t as [ | | | | | | p | ov ls | x IH | x IH | x IH | ts IH | fs IH | m ] using ty_ind2;
      try reflexivity.
    - cbn [erase]. destruct (use_actual_type (o_fw o)) eqn:Eu; [|reflexivity].
      destruct p; cbn [denote]; unfold pseudo_name; rewrite Eu; reflexivity.
    - cbn [erase]. destruct (lit_shown o ls) eqn:E; cbn [denote]; rewrite ?E; reflexivity.
    - cbn [erase denote]. rewrite IH. reflexivity.
    - cbn [erase denote]. rewrite IH. reflexivity.
    - cbn [erase denote]. rewrite IH. reflexivity.
    - cbn [erase denote]. rewrite map_map. f_equal. apply map_ext_in. intros x Hx.
      rewrite Forall_forall in IH. exact (IH x Hx).
  Qed.

  (* distinct models among `dom` have distinct absolute names *)
  Variable dom : list N.
  Hypothesis dom_inj : forall m m', In m dom -> In m' dom -> qn m = qn m' -> m = m'.

  Definition inj_at (o : opts) (a : ty) : Prop :=
    forall b, no_obj a = true -> no_obj b = true -> incl (ptrs a) dom -> incl (ptrs b) dom ->
      denote names ctx o a = denote names ctx o b -> erase o a = erase o b.

  Lemma inj_list : forall o ts, Forall (inj_at o) ts ->
    forall ts', forallb no_obj ts = true -> forallb no_obj ts' = true ->
      incl (flat_map ptrs ts) dom -> incl (flat_map ptrs ts') dom ->
      map (denote names ctx o) ts = map (denote names ctx o) ts' -> map (erase o) ts = map (erase o) ts'.
  Proof.
    intros o ts H. induction H as [|x ts Hx Hts IH]; intros ts' Ha Hb Ia Ib E.
    - destruct ts'; [reflexivity|discriminate].
    - destruct ts' as [|y ts']; [discriminate|].
      cbn [map] in E. injection E as E1 E2.
      cbn [forallb] in Ha, Hb. apply andb_true_iff in Ha. apply andb_true_iff in Hb.
      destruct Ha as [Ha1 Ha2]. destruct Hb as [Hb1 Hb2].
      cbn [flat_map] in Ia, Ib. apply incl_app_inv in Ia. apply incl_app_inv in Ib.
      destruct Ia as [Ia1 Ia2]. destruct Ib as [Ib1 Ib2].
      cbn [map]. f_equal.
      + exact (Hx y Ha1 Hb1 Ia1 Ib1 E1).
      + exact (IH ts' Ha2 Hb2 Ia2 Ib2 E2).
  Qed.

  Ltac names_neq H := exfalso; injection H as H; vm_compute in H; discriminate H.
  Ltac lits H :=
    repeat match type of H with
           | context [if lit_shown ?o ?l then _ else _] => destruct (lit_shown o l) eqn:?
           end;
    repeat match goal with
           | |- context [if lit_shown ?o ?l then _ else _] => destruct (lit_shown o l) eqn:?
           end.
  Ltac fin H :=
    first [ reflexivity | discriminate H | congruence | names_neq H ].

  Lemma denote_injective_aux : forall o u, use_actual_type (o_fw o) = u -> forall a, inj_at o a.
  Proof.
    intros o u Eu a.
    induction a as [ | | | | | | p | ov ls | x IH | x IH | x IH | ts IH | fs IH | m ] using ty_ind2;
      intros b Ha Hb Ia Ib H.
    1-6: (destruct b as [ | | | | | | q | ov' ls' | y | y | y | ts' | fs' | m' ];
          cbn [denote erase] in H |- *; unfold pseudo_name in H; rewrite ?Eu in H |- *;
          try (destruct u; destruct q); cbn [pseudo_actual pseudo_cls_name snd] in H; lits H;
          fin H).
    - (* TPseudo *)
      destruct b as [ | | | | | | q | ov' ls' | y | y | y | ts' | fs' | m' ];
        cbn [denote erase] in H |- *; unfold pseudo_name in H; rewrite ?Eu in H |- *;
        destruct u; destruct p; try destruct q; cbn [pseudo_actual pseudo_cls_name snd] in H; lits H;
        fin H.
    - (* TLit *)
      destruct b as [ | | | | | | q | ov' ls' | y | y | y | ts' | fs' | m' ];
        cbn [denote erase] in H |- *; unfold pseudo_name in H; rewrite ?Eu in H |- *;
        try (destruct u; destruct q); cbn [pseudo_actual pseudo_cls_name snd] in H; lits H;
        fin H.
    - (* TOpt *)
      destruct b as [ | | | | | | q | ov' ls' | y | y | y | ts' | fs' | m' ];
        cbn [denote erase] in H |- *; try (lits H; fin H).
      injection H as H. cbn [no_obj ptrs] in *. rewrite (IH y Ha Hb Ia Ib H). reflexivity.
    - (* TList *)
      destruct b as [ | | | | | | q | ov' ls' | y | y | y | ts' | fs' | m' ];
        cbn [denote erase] in H |- *; try (lits H; fin H).
      injection H as H. cbn [no_obj ptrs] in *. rewrite (IH y Ha Hb Ia Ib H). reflexivity.
    - (* TDict *)
      destruct b as [ | | | | | | q | ov' ls' | y | y | y | ts' | fs' | m' ];
        cbn [denote erase] in H |- *; try (lits H; fin H).
      injection H as H. cbn [no_obj ptrs] in *. rewrite (IH y Ha Hb Ia Ib H). reflexivity.
    - (* TUnion *)
      destruct b as [ | | | | | | q | ov' ls' | y | y | y | ts' | fs' | m' ];
        cbn [denote erase] in H |- *; try (lits H; fin H).
      injection H as H. cbn [no_obj ptrs] in *. rewrite (inj_list o ts IH ts' Ha Hb Ia Ib H). reflexivity.
    - (* TObj *)
      cbn [no_obj] in Ha. discriminate.
    - (* TPtr *)
      destruct b as [ | | | | | | q | ov' ls' | y | y | y | ts' | fs' | m' ];
        cbn [denote erase] in H |- *; try (lits H; fin H).
      injection H as H. cbn [ptrs] in Ia, Ib. f_equal.
      apply dom_inj; [apply Ia; left; reflexivity|apply Ib; left; reflexivity|exact H].
  Qed.

  (* two types without raw dicts, whose models are among dom, have the same annotation iff they are equal after erase *)
  Theorem denote_injective : forall o a b,
    no_obj a = true -> no_obj b = true -> incl (ptrs a) dom -> incl (ptrs b) dom ->
    (denote names ctx o a = denote names ctx o b <-> erase o a = erase o b).
  Proof.
    intros o a b Ha Hb Ia Ib. split.
    - exact (denote_injective_aux o _ eq_refl a b Ha Hb Ia Ib).
    - intros E. rewrite <- (denote_erase o a), <- (denote_erase o b), E. reflexivity.
  Qed.
End Injective.

(* ================= A3: examples (vm_compute) ================= *)
Module Examples.
  Definition o_base : opts := Build_opts FBase 10 false true false.
  Definition o_pyd : opts := Build_opts FPydantic 10 false true false.
  Definition no_names : N -> option str := fun _ => None.
  Definition no_ctx : N -> option N := fun _ => None.

  (* Optional[List[Union[int, Literal[DQ a,b DQ, DQ c BSL DQ d DQ]]]]: the literals a,b and c DQ d (DQ = the double quote,
     written twice inside a Coq string; BSL = backslash) *)
  Definition t1 : ty := TOpt (TList (TUnion [TInt; TLit false [$"a,b"; $"c""d"]])).
  Definition text1 : str := $"Optional[List[Union[int, Literal[""a,b"", ""c\""d""]]]]".
  Definition ann1 : ann :=
    ASub $"Optional" [ASub $"List" [ASub $"Union" [AName $"int"; ALit [$"a,b"; $"c""d"]]]].

  Example print1 : option_map snd (print_ty no_names no_ctx o_base t1) = Some text1.
  Proof. vm_compute. reflexivity. Qed.
  Example parse1 : parse_ann (ty_fuel t1) text1 = Some (ann1, []).
  Proof. vm_compute. reflexivity. Qed.
  Example denote1 : denote no_names no_ctx o_base t1 = ann1.
  Proof. vm_compute. reflexivity. Qed.
  (* the comma and the bracket inside the literals do not confuse the argument splitter; one unit of fuel less fails *)
  Example parse1_follow : parse_ann (ty_fuel t1) (text1 ++ $", str]") = Some (ann1, $", str]").
  Proof. vm_compute. reflexivity. Qed.
  Example parse1_fuel_tight : parse_ann (ty_fuel t1 - 4) text1 = None.
  Proof. vm_compute. reflexivity. Qed.
  (* the same instance through the theorem *)
  Example parse1_by_theorem : parse_ann_all 50 text1 = Some ann1.
  Proof.
    change ann1 with (denote no_names no_ctx o_base t1).
    apply (parse_print_all no_names no_ctx o_base t1 [T $"Literal"; T $"Union"; T $"List"; T $"Optional"] text1).
    - vm_compute. reflexivity.
    - vm_compute. reflexivity.
    - vm_compute. lia.
  Qed.

  (* a quoted reference: model 1 is called Child and is nested in model 2 called Root *)
  Definition names2 : N -> option str :=
    fun m => if N.eqb m 1 then Some $"Child" else if N.eqb m 2 then Some $"Root" else None.
  Definition ctx2 : N -> option N := fun m => if N.eqb m 1 then Some 2%N else None.
  Definition t2 : ty := TDict (TList (TPtr 1)).
  Definition text2 : str := $"Dict[str, List['Root.Child']]".
  Definition ann2 : ann := ASub $"Dict" [AName $"str"; ASub $"List" [ARef $"Root.Child"]].
  Example print2 : option_map snd (print_ty names2 ctx2 o_base t2) = Some text2.
  Proof. vm_compute. reflexivity. Qed.
  Example parse2 : parse_ann (ty_fuel t2) text2 = Some (ann2, []).
  Proof. vm_compute. reflexivity. Qed.
  Example denote2 : denote names2 ctx2 o_base t2 = ann2.
  Proof. vm_compute. reflexivity. Qed.
  Example wf2 : ann_wf names2 ctx2 o_base t2 = true.
  Proof. vm_compute. reflexivity. Qed.
  (* a reference that is not a dotted identifier is rejected *)
  Example bad_ref : parse_ann 5 $"'Root..Child'" = None /\ parse_ann 5 $"'1Root'" = None /\ parse_ann 5 $"''" = None.
  Proof. vm_compute. repeat split. Qed.

  (* what the pydantic style erases: IntString is shown as int, and a literal set at the limit as str *)
  Example erased_pseudo : denote no_names no_ctx o_pyd (TUnion [TPseudo PInt; TPseudo PDate])
                          = denote no_names no_ctx o_pyd (TUnion [TInt; TPseudo PDate])
                          /\ denote no_names no_ctx o_base (TPseudo PInt) <> denote no_names no_ctx o_base TInt.
  Proof. split; [vm_compute; reflexivity|]. vm_compute. discriminate. Qed.
  Example erased_literal : denote no_names no_ctx (Build_opts FBase 2 false true false) (TLit false [$"a"; $"b"])
                           = denote no_names no_ctx (Build_opts FBase 2 false true false) TStr.
  Proof. vm_compute. reflexivity. Qed.
End Examples.

Print Assumptions parse_print_fuel.
Print Assumptions parse_print.
Print Assumptions parse_print_all.
Print Assumptions parse_ann_mono.
Print Assumptions literal_empty_counterexample.
Print Assumptions denote_erase.
Print Assumptions denote_injective.
Print Assumptions Examples.parse1_by_theorem.

(* NOT PROVED:
   - Completeness of the parser in the other direction (every text that parse_ann accepts is the print of some type,
     or: parse_ann accepts exactly the texts CPython's parser maps to the same tree) is not stated; the agreement of
     parse_ann with ast.parse is only tested (tools/validate_pyann.py, on printed texts).
   - The link from `ann` to CPython's typing OBJECTS (Optional[X] is Union[X, None], Union flattening and
     de-duplication, Literal de-duplication) is outside this file: denote is the syntax tree of the annotation, not the
     normalised typing object. *)
