(* Proofs/OrderIndep.v — property C06: the result does not depend on the iteration order of Python sets.
   Every place of the model that consumes a set either canonicalises it (sorted insertion) or computes an
   order-independent function of it.  Self-contained: only Model/*.vo is required (the few facts about str_cmp /
   insert_sorted that also exist in Literals.v / NormalForm.v are re-proved here so that this file does not depend on
   files other agents are rebuilding).  No axioms. *)
From Coq Require Import List Bool Arith NArith ZArith Lia Permutation.
From J2M.Model Require Import Base Registry Optimize Layout Emit.
Import ListNotations.
Local Open Scope list_scope.

(* set equivalence of lists: the only thing a Python set offers *)
Definition same_elts {A} (l l' : list A) : Prop := forall x, In x l <-> In x l'.

Lemma perm_same_elts {A} (l l' : list A) : Permutation l l' -> same_elts l l'.
Proof.
  intros HP x. split; intros Hx.
  - eapply Permutation_in; [exact HP | exact Hx].
  - eapply Permutation_in; [apply Permutation_sym; exact HP | exact Hx].
Qed.
Lemma same_elts_refl {A} (l : list A) : same_elts l l.
Proof. intros x. tauto. Qed.
Lemma same_elts_sym {A} (l l' : list A) : same_elts l l' -> same_elts l' l.
Proof. intros H x. symmetry. apply H. Qed.
Lemma same_elts_nil {A} (l l' : list A) : same_elts l l' -> (l = [] <-> l' = []).
Proof.
  intros H. split; intros E; subst.
  - destruct l' as [|y r]; [reflexivity|]. exfalso. apply (proj2 (H y)). left. reflexivity.
  - destruct l as [|y r]; [reflexivity|]. exfalso. apply (proj1 (H y)). left. reflexivity.
Qed.
Lemma existsb_same_elts {A} (f f' : A -> bool) (l l' : list A) :
  same_elts l l' -> (forall x, f x = f' x) -> existsb f l = existsb f' l'.
Proof.
  intros HS HF. apply eq_true_iff_eq. rewrite !existsb_exists. split; intros [x [Hx Hf]]; exists x.
  - split; [apply HS; exact Hx | rewrite <- HF; exact Hf].
  - split; [apply HS; exact Hx | rewrite HF; exact Hf].
Qed.

(* ================================================================== *)
(* O1. str_cmp is a total order compatible with equality               *)
(* ================================================================== *)
Lemma str_cmp_refl : forall a, str_cmp a a = Eq.
Proof. induction a as [|x a IH]; simpl; [reflexivity|]. rewrite N.compare_refl. exact IH. Qed.

Theorem str_cmp_eq_iff : forall a b, str_cmp a b = Eq <-> a = b.
Proof.
  intros a b. split; [|intros ->; apply str_cmp_refl]. revert b.
  induction a as [|x a IH]; destruct b as [|y b]; simpl; try discriminate; [reflexivity|].
  destruct (N.compare x y) eqn:E; try discriminate. intros H.
  apply N.compare_eq_iff in E. subst. f_equal. apply IH. exact H.
Qed.

Lemma str_cmp_opp : forall a b, str_cmp b a = CompOpp (str_cmp a b).
Proof.
  induction a as [|x a IH]; destruct b as [|y b]; simpl; try reflexivity.
  rewrite (N.compare_antisym x y). destruct (N.compare x y); simpl; [apply IH | reflexivity | reflexivity].
Qed.

Theorem str_cmp_antisym : forall a b, str_cmp a b = Lt <-> str_cmp b a = Gt.
Proof.
  intros a b. rewrite (str_cmp_opp a b). destruct (str_cmp a b); simpl; split; intros H; try discriminate; reflexivity.
Qed.

Theorem str_cmp_lt_trans : forall a b c, str_cmp a b = Lt -> str_cmp b c = Lt -> str_cmp a c = Lt.
Proof.
  induction a as [|x a IH]; destruct b as [|y b]; destruct c as [|z c]; simpl; try discriminate; try reflexivity.
  destruct (N.compare x y) eqn:E1; try discriminate; destruct (N.compare y z) eqn:E2; try discriminate; intros H1 H2.
  - apply N.compare_eq_iff in E1, E2. subst. rewrite N.compare_refl. eapply IH; eassumption.
  - apply N.compare_eq_iff in E1. subst. rewrite E2. reflexivity.
  - apply N.compare_eq_iff in E2. subst. rewrite E1. reflexivity.
  - apply N.compare_lt_iff in E1, E2.
    assert (N.compare x z = Lt) as -> by (apply N.compare_lt_iff; eapply N.lt_trans; eassumption). reflexivity.
Qed.

(* totality is built into [comparison]; spelled out *)
Theorem str_cmp_total : forall a b, str_cmp a b = Lt \/ a = b \/ str_cmp b a = Lt.
Proof.
  intros a b. destruct (str_cmp a b) eqn:E.
  - right. left. apply str_cmp_eq_iff. exact E.
  - left. reflexivity.
  - right. right. rewrite str_cmp_opp, E. reflexivity.
Qed.
Lemma str_cmp_irrefl : forall a, str_cmp a a <> Lt.
Proof. intros a. rewrite str_cmp_refl. discriminate. Qed.
Lemma str_cmp_asym : forall a b, str_cmp a b = Lt -> str_cmp b a = Lt -> False.
Proof. intros a b H1 H2. apply (str_cmp_irrefl a). eapply str_cmp_lt_trans; eassumption. Qed.

Lemma str_eqb_iff a b : str_eqb a b = true <-> a = b.
Proof. unfold str_eqb. destruct (list_eq_dec N.eq_dec a b); split; intros H; congruence. Qed.

(* ================================================================== *)
(* O2. the sorted set does not depend on the arrival order              *)
(* ================================================================== *)
(* strictly sorted w.r.t. str_cmp, hence duplicate free *)
Fixpoint sorted_strs (l : list str) : Prop :=
  match l with [] => True | x :: r => (forall y, In y r -> str_cmp x y = Lt) /\ sorted_strs r end.

Lemma sorted_strs_NoDup : forall l, sorted_strs l -> NoDup l.
Proof.
  induction l as [|x r IH]; simpl; intros H; [constructor|]. destruct H as [H1 H2]. constructor; [|apply IH; exact H2].
  intros Hx. apply (str_cmp_irrefl x). apply H1. exact Hx.
Qed.

Lemma In_insert_sorted : forall s x l, In s (insert_sorted x l) <-> s = x \/ In s l.
Proof.
  intros s x. induction l as [|y r IH]; simpl.
  - split; intros [H|H]; auto.
  - destruct (str_cmp x y) eqn:E; simpl.
    + apply str_cmp_eq_iff in E. subst. split; intros H; [right; exact H|]. destruct H as [->|H]; [left; reflexivity | exact H].
    + split; intros H; [destruct H as [<-|H]; auto | destruct H as [->|H]; auto].
    + rewrite IH. tauto.
Qed.

Lemma insert_sorted_sorted s : forall l, sorted_strs l -> sorted_strs (insert_sorted s l).
Proof.
  induction l as [|x r IH]; simpl; intros H; [split; [intros y []|exact I]|].
  destruct H as [H1 H2]. destruct (str_cmp s x) eqn:E; simpl.
  - split; assumption.
  - split; [|split; assumption]. intros y [<-|Hy]; [exact E|]. eapply str_cmp_lt_trans; [exact E | apply H1; exact Hy].
  - split; [|apply IH; exact H2]. intros y Hy. apply In_insert_sorted in Hy.
    destruct Hy as [->|Hy]; [apply str_cmp_antisym; exact E | apply H1; exact Hy].
Qed.

Lemma In_fold_insert : forall l acc s,
  In s (fold_left (fun acc s => insert_sorted s acc) l acc) <-> In s l \/ In s acc.
Proof.
  induction l as [|x r IH]; intros acc s; simpl; [tauto|]. rewrite IH, In_insert_sorted.
  split; intros H; [destruct H as [H|[H|H]]; auto | destruct H as [[H|H]|H]; auto].
Qed.
Lemma fold_insert_sorted : forall l acc, sorted_strs acc ->
  sorted_strs (fold_left (fun acc s => insert_sorted s acc) l acc).
Proof. induction l as [|x r IH]; intros acc H; simpl; [exact H|]. apply IH. apply insert_sorted_sorted. exact H. Qed.

Lemma In_set_of_strs : forall s l, In s (set_of_strs l) <-> In s l.
Proof. intros s l. unfold set_of_strs. rewrite In_fold_insert. simpl. tauto. Qed.
Lemma set_of_strs_sorted : forall l, sorted_strs (set_of_strs l).
Proof. intros l. apply fold_insert_sorted. exact I. Qed.

(* extensionality: a strictly sorted list is determined by its set of elements *)
Theorem sorted_strs_ext : forall l l', sorted_strs l -> sorted_strs l' -> same_elts l l' -> l = l'.
Proof.
  induction l as [|x r IH]; intros l' HS HS' HE.
  - symmetry. apply (same_elts_nil [] l' HE). reflexivity.
  - destruct l' as [|y r']; [exfalso; apply (proj1 (HE x)); left; reflexivity|].
    simpl in HS, HS'. destruct HS as [H1 H2]. destruct HS' as [H1' H2'].
    assert (Exy : x = y).
    { destruct (proj1 (HE x) (or_introl eq_refl)) as [E|Hx]; [symmetry; exact E|].
      destruct (proj2 (HE y) (or_introl eq_refl)) as [E|Hy]; [exact E|].
      exfalso. apply (str_cmp_asym x y); [apply H1; exact Hy | apply H1'; exact Hx]. }
    subst y. f_equal. apply IH; [exact H2 | exact H2'|].
    intros z. split; intros Hz.
    + destruct (proj1 (HE z) (or_intror Hz)) as [E|Hz']; [|exact Hz'].
      subst z. exfalso. apply (str_cmp_irrefl x). apply H1. exact Hz.
    + destruct (proj2 (HE z) (or_intror Hz)) as [E|Hz']; [|exact Hz'].
      subst z. exfalso. apply (str_cmp_irrefl x). apply H1'. exact Hz.
Qed.

Theorem insert_sorted_comm : forall a b l, sorted_strs l ->
  insert_sorted a (insert_sorted b l) = insert_sorted b (insert_sorted a l).
Proof.
  intros a b l HS. apply sorted_strs_ext.
  - apply insert_sorted_sorted, insert_sorted_sorted, HS.
  - apply insert_sorted_sorted, insert_sorted_sorted, HS.
  - intros x. rewrite !In_insert_sorted. tauto.
Qed.

Lemma insert_sorted_idem : forall a l, sorted_strs l -> insert_sorted a (insert_sorted a l) = insert_sorted a l.
Proof.
  intros a l HS. apply sorted_strs_ext.
  - apply insert_sorted_sorted, insert_sorted_sorted, HS.
  - apply insert_sorted_sorted, HS.
  - intros x. rewrite !In_insert_sorted. tauto.
Qed.

(* the general form: only the set of arriving elements matters (order and multiplicity do not) *)
Theorem set_of_strs_ext : forall l l', same_elts l l' -> set_of_strs l = set_of_strs l'.
Proof.
  intros l l' H. apply sorted_strs_ext; [apply set_of_strs_sorted | apply set_of_strs_sorted|].
  intros x. rewrite !In_set_of_strs. apply H.
Qed.

Theorem set_of_strs_perm : forall l l', Permutation l l' -> set_of_strs l = set_of_strs l'.
Proof. intros l l' H. apply set_of_strs_ext, perm_same_elts, H. Qed.

Theorem set_of_strs_dup : forall x l, set_of_strs (x :: x :: l) = set_of_strs (x :: l).
Proof. intros x l. apply set_of_strs_ext. intros y. simpl. tauto. Qed.

(* a canonical set is a fixpoint *)
Lemma set_of_strs_fix : forall l, sorted_strs l -> set_of_strs l = l.
Proof.
  intros l H. apply sorted_strs_ext; [apply set_of_strs_sorted | exact H|]. intros x. apply In_set_of_strs.
Qed.
Lemma set_of_strs_idem : forall l, set_of_strs (set_of_strs l) = set_of_strs l.
Proof. intros l. apply set_of_strs_fix, set_of_strs_sorted. Qed.

(* ================================================================== *)
(* O3. distinct_words                                                   *)
(* ================================================================== *)
Theorem distinct_words_ext : forall ws ws', same_elts ws ws' -> distinct_words ws = distinct_words ws'.
Proof. intros ws ws' H. unfold distinct_words. rewrite (set_of_strs_ext ws ws' H). reflexivity. Qed.

Theorem distinct_words_perm : forall ws ws', Permutation ws ws' -> distinct_words ws = distinct_words ws'.
Proof. intros ws ws' H. apply distinct_words_ext, perm_same_elts, H. Qed.

(* specification: the substring-minimal words *)
Theorem distinct_words_spec : forall ws w,
  In w (distinct_words ws) <-> In w ws /\ forall o, In o ws -> o <> w -> is_substr o w = false.
Proof.
  intros ws w. unfold distinct_words. rewrite filter_In, In_set_of_strs, negb_true_iff.
  split; intros [Hw H]; (split; [exact Hw|]).
  - intros o Ho Hne. destruct (is_substr o w) eqn:E; [|reflexivity].
    assert (X : existsb (fun o0 => negb (str_eqb o0 w) && is_substr o0 w) (set_of_strs ws) = true).
    { apply existsb_exists. exists o. split; [apply In_set_of_strs; exact Ho|]. rewrite E, andb_true_r.
      apply negb_true_iff. destruct (str_eqb o w) eqn:E2; [|reflexivity]. apply str_eqb_iff in E2. contradiction. }
    congruence.
  - destruct (existsb _ (set_of_strs ws)) eqn:E; [|reflexivity].
    apply existsb_exists in E. destruct E as [o [Ho E]]. apply andb_true_iff in E. destruct E as [E1 E2].
    apply (proj1 (In_set_of_strs _ _)) in Ho. apply negb_true_iff in E1.
    rewrite (H o Ho) in E2; [discriminate|]. intros ->. rewrite (proj2 (str_eqb_iff w w) eq_refl) in E1. discriminate.
Qed.

Lemma distinct_words_sorted : forall ws, sorted_strs (distinct_words ws).
Proof.
  intros ws. unfold distinct_words. generalize (set_of_strs_sorted ws). generalize (set_of_strs ws) at 1 3 as l.
  intros l. generalize (fun w : str => negb (existsb (fun o => negb (str_eqb o w) && is_substr o w) (set_of_strs ws))) as f.
  intros f. induction l as [|x r IH]; simpl; intros H; [exact I|]. destruct H as [H1 H2].
  destruct (f x); simpl; [|apply IH; exact H2]. split; [|apply IH; exact H2].
  intros y Hy. apply filter_In in Hy. apply H1. apply Hy.
Qed.

(* ================================================================== *)
(* O8. compile_imports                                                  *)
(* ================================================================== *)
Lemma flat_map_same_elts {A B} (f : A -> list B) (l l' : list A) :
  same_elts l l' -> same_elts (flat_map f l) (flat_map f l').
Proof.
  intros H y. rewrite !in_flat_map. split; intros [x [Hx Hy]]; exists x; (split; [apply H; exact Hx | exact Hy]).
Qed.

Theorem compile_imports_ext : forall i i', same_elts i i' -> compile_imports i = compile_imports i'.
Proof.
  intros i i' H. unfold compile_imports.
  rewrite (set_of_strs_ext _ _ (flat_map_same_elts (fun i0 => match snd i0 with None => [fst i0] | Some _ => [] end) i i' H)).
  rewrite (set_of_strs_ext _ _ (flat_map_same_elts (fun i0 => match snd i0 with Some _ => [fst i0] | None => [] end) i i' H)).
  f_equal. f_equal. apply map_ext. intros m. do 4 f_equal.
  apply set_of_strs_ext. apply flat_map_same_elts. exact H.
Qed.

Theorem compile_imports_perm : forall i i', Permutation i i' -> compile_imports i = compile_imports i'.
Proof. intros i i' H. apply compile_imports_ext, perm_same_elts, H. Qed.

(* ================================================================== *)
(* O4. resolve, as a set                                                *)
(* ================================================================== *)
Lemma pseudo_eqb_iff (a b : pseudo) : pseudo_eqb a b = true <-> a = b.
Proof. destruct a, b; simpl; split; intros H; try discriminate; reflexivity. Qed.

Lemma replaced_by_iff (replaces : list (pseudo * pseudo)) (qs : list pseudo) (t1 : pseudo) :
  replaced_by replaces qs t1 = true <-> exists t2, In t2 qs /\ t1 <> t2 /\ In (t1, t2) replaces.
Proof.
  unfold replaced_by. rewrite existsb_exists. split.
  - intros [t2 [H2 H]]. apply andb_true_iff in H. destruct H as [Hne Hex].
    apply negb_true_iff in Hne. apply existsb_exists in Hex. destruct Hex as [[a b] [Hab E]]. simpl in E.
    apply andb_true_iff in E. destruct E as [Ea Eb]. apply pseudo_eqb_iff in Ea. apply pseudo_eqb_iff in Eb. subst a b.
    exists t2. split; [exact H2|]. split; [|exact Hab]. intros ->.
    rewrite (proj2 (pseudo_eqb_iff t2 t2) eq_refl) in Hne. discriminate.
  - intros [t2 [H2 [Hne Hin]]]. exists t2. split; [exact H2|]. apply andb_true_iff. split.
    + apply negb_true_iff. destruct (pseudo_eqb t1 t2) eqn:E; [|reflexivity]. apply pseudo_eqb_iff in E. contradiction.
    + apply existsb_exists. exists (t1, t2). split; [exact Hin|]. simpl.
      rewrite !(proj2 (pseudo_eqb_iff _ _) eq_refl). reflexivity.
Qed.

Lemma replaced_by_ext (R R' : list (pseudo * pseudo)) (qs qs' : list pseudo) :
  same_elts R R' -> same_elts qs qs' -> forall t, replaced_by R qs t = replaced_by R' qs' t.
Proof.
  intros HR HQ t. apply eq_true_iff_eq. rewrite !replaced_by_iff.
  split; intros [t2 [H1 [H2 H3]]]; exists t2; (split; [apply HQ; exact H1 | split; [exact H2 | apply HR; exact H3]]).
Qed.

(* general form: both the members and the replace table enter only as sets *)
Theorem resolve_ext (R R' : list (pseudo * pseudo)) : same_elts R R' ->
  forall fuel qs qs', same_elts qs qs' -> same_elts (resolve R fuel qs) (resolve R' fuel qs').
Proof.
  intros HR. induction fuel as [|f IH]; intros qs qs' HQ; simpl; [exact HQ|].
  rewrite (existsb_same_elts (replaced_by R qs) (replaced_by R' qs') qs qs' HQ (replaced_by_ext R R' qs qs' HR HQ)).
  destruct (existsb (replaced_by R' qs') qs'); [|exact HQ].
  apply IH. intros x. rewrite !filter_In, (replaced_by_ext R R' qs qs' HR HQ x), (HQ x). tauto.
Qed.

Theorem resolve_perm (replaces : list (pseudo * pseudo)) (fuel : nat) (qs qs' : list pseudo) :
  Permutation qs qs' -> forall p, In p (resolve replaces fuel qs) <-> In p (resolve replaces fuel qs').
Proof. intros H. apply resolve_ext; [apply same_elts_refl | apply perm_same_elts; exact H]. Qed.

Theorem resolve_perm_replaces (R R' : list (pseudo * pseudo)) (fuel : nat) (qs qs' : list pseudo) :
  Permutation R R' -> Permutation qs qs' -> forall p, In p (resolve R fuel qs) <-> In p (resolve R' fuel qs').
Proof. intros HR H. apply resolve_ext; apply perm_same_elts; assumption. Qed.

(* as a multiset: the survivors of a permuted input are a permutation of the survivors, so the test
   "exactly one survivor p" of str_result (and p itself) does not depend on the order *)
Lemma filter_perm {A} (f : A -> bool) (l l' : list A) : Permutation l l' -> Permutation (filter f l) (filter f l').
Proof.
  induction 1 as [|x l l' HP IH|x y l|l l' l'' H1 IH1 H2 IH2]; simpl.
  - constructor.
  - destruct (f x); [constructor; exact IH | exact IH].
  - destruct (f x), (f y); try apply Permutation_refl. apply perm_swap.
  - eapply Permutation_trans; eassumption.
Qed.
Lemma filter_ext_all {A} (f f' : A -> bool) (l : list A) : (forall x, f x = f' x) -> filter f l = filter f' l.
Proof. intros H. induction l as [|x r IH]; simpl; [reflexivity|]. rewrite H, IH. reflexivity. Qed.

Theorem resolve_perm_multiset (R R' : list (pseudo * pseudo)) : same_elts R R' ->
  forall fuel qs qs', Permutation qs qs' -> Permutation (resolve R fuel qs) (resolve R' fuel qs').
Proof.
  intros HR. induction fuel as [|f IH]; intros qs qs' HP; simpl; [exact HP|].
  pose proof (perm_same_elts _ _ HP) as HQ.
  rewrite (existsb_same_elts (replaced_by R qs) (replaced_by R' qs') qs qs' HQ (replaced_by_ext R R' qs qs' HR HQ)).
  destruct (existsb (replaced_by R' qs') qs'); [|exact HP].
  apply IH.
  rewrite (filter_ext_all (fun t => negb (replaced_by R qs t)) (fun t => negb (replaced_by R' qs' t)) qs
             (fun t => f_equal negb (replaced_by_ext R R' qs qs' HR HQ t))).
  apply filter_perm. exact HP.
Qed.

Corollary resolve_singleton_perm (R R' : list (pseudo * pseudo)) (qs qs' : list pseudo) (p : pseudo) :
  Permutation R R' -> Permutation qs qs' ->
  (resolve R (S (length qs)) qs = [p] <-> resolve R' (S (length qs')) qs' = [p]).
Proof.
  intros HR HP. rewrite <- (Permutation_length HP).
  pose proof (resolve_perm_multiset R R' (perm_same_elts _ _ HR) (S (length qs)) qs qs' HP) as H.
  split; intros E; rewrite E in H.
  - apply Permutation_length_1_inv. exact H.
  - apply Permutation_sym in H. apply Permutation_length_1_inv. exact H.
Qed.

(* ================================================================== *)
(* O6. parents_of / has_root_ptr / parent_ptrs read the pointer table   *)
(*     only through membership                                          *)
(* ================================================================== *)
Lemma memN_In x s : memN x s = true <-> In x s.
Proof.
  unfold memN. rewrite existsb_exists. split.
  - intros [y [Hy E]]. apply N.eqb_eq in E. subst. exact Hy.
  - intros H. exists x. split; [exact H | apply N.eqb_refl].
Qed.
Lemma memN_false x s : memN x s = false <-> ~ In x s.
Proof. rewrite <- memN_In. destruct (memN x s); split; intros H; congruence. Qed.

(* the "append if absent" fold used by nodupN and by roots_from *)
Definition addN (acc : list N) (x : N) : list N := if memN x acc then acc else acc ++ [x].
Lemma In_fold_addN : forall l acc x, In x (fold_left addN l acc) <-> In x acc \/ In x l.
Proof.
  induction l as [|y r IH]; intros acc x; simpl; [tauto|]. rewrite IH. unfold addN.
  destruct (memN y acc) eqn:E.
  - apply memN_In in E. split; intros H; [destruct H as [H|H]; auto | destruct H as [H|[<-|H]]; auto].
  - rewrite in_app_iff. simpl. tauto.
Qed.
Lemma NoDup_fold_addN : forall l acc, NoDup acc -> NoDup (fold_left addN l acc).
Proof.
  induction l as [|y r IH]; intros acc H; simpl; [exact H|]. apply IH. unfold addN.
  destruct (memN y acc) eqn:E; [exact H|]. apply memN_false in E.
  apply NoDup_rev in H. rewrite <- (rev_involutive (acc ++ [y])). apply NoDup_rev. rewrite rev_app_distr. simpl.
  constructor; [rewrite <- in_rev; exact E | exact H].
Qed.
Lemma length_fold_addN : forall l acc, length (fold_left addN l acc) <= length acc + length l.
Proof.
  induction l as [|y r IH]; intros acc; simpl; [lia|]. specialize (IH (addN acc y)). unfold addN in *.
  destruct (memN y acc); [lia|]. rewrite app_length in IH. simpl in IH. lia.
Qed.

Lemma In_nodupN l x : In x (nodupN l) <-> In x l.
Proof. unfold nodupN. change (In x (fold_left addN l []) <-> In x l). rewrite In_fold_addN. simpl. tauto. Qed.
Lemma NoDup_nodupN l : NoDup (nodupN l).
Proof. unfold nodupN. change (NoDup (fold_left addN l [])). apply NoDup_fold_addN. constructor. Qed.
Lemma length_nodupN l : length (nodupN l) <= length l.
Proof. unfold nodupN. change (length (fold_left addN l []) <= length l). apply (length_fold_addN l []). Qed.

Lemma In_ptrs_to g m p : In p (ptrs_to g m) <-> In p (ps g) /\ p_tgt p = m.
Proof. unfold ptrs_to. rewrite filter_In, N.eqb_eq. tauto. Qed.

Lemma In_parent_ptrs g m q :
  In q (parent_ptrs g m) <-> exists p, In p (ps g) /\ p_tgt p = m /\ p_par p = Some q.
Proof.
  unfold parent_ptrs. rewrite in_flat_map. split.
  - intros [p [Hp Hq]]. apply In_ptrs_to in Hp. destruct Hp as [Hp Ht]. exists p.
    destruct (p_par p) as [q'|]; simpl in Hq; [|destruct Hq]. destruct Hq as [->|[]]. auto.
  - intros [p [Hp [Ht Hq]]]. exists p. split; [apply In_ptrs_to; auto|]. rewrite Hq. left. reflexivity.
Qed.
Lemma In_parents_of g m q :
  In q (parents_of g m) <-> exists p, In p (ps g) /\ p_tgt p = m /\ p_par p = Some q.
Proof. unfold parents_of. rewrite In_nodupN. apply In_parent_ptrs. Qed.
Lemma has_root_ptr_iff g m :
  has_root_ptr g m = true <-> exists p, In p (ps g) /\ p_tgt p = m /\ p_par p = None.
Proof.
  unfold has_root_ptr. rewrite existsb_exists. split.
  - intros [p [Hp E]]. apply In_ptrs_to in Hp. destruct Hp as [Hp Ht]. exists p.
    destruct (p_par p); [discriminate|]. auto.
  - intros [p [Hp [Ht E]]]. exists p. split; [apply In_ptrs_to; auto|]. rewrite E. reflexivity.
Qed.

Section PtrTable.
  Variables g g' : graph.
  Hypothesis Hps : same_elts (ps g) (ps g').

  Lemma parent_ptrs_ext m : same_elts (parent_ptrs g m) (parent_ptrs g' m).
  Proof.
    intros q. rewrite !In_parent_ptrs.
    split; intros [p [H1 H2]]; exists p; (split; [apply Hps; exact H1 | exact H2]).
  Qed.
  Lemma parents_of_ext m : same_elts (parents_of g m) (parents_of g' m).
  Proof. intros q. unfold parents_of. rewrite !In_nodupN. apply parent_ptrs_ext. Qed.
  Lemma has_root_ptr_ext m : has_root_ptr g m = has_root_ptr g' m.
  Proof.
    apply eq_true_iff_eq. rewrite !has_root_ptr_iff.
    split; intros [p [H1 H2]]; exists p; (split; [apply Hps; exact H1 | exact H2]).
  Qed.
  Lemma parent_ptrs_nil_ext m : parent_ptrs g m = [] <-> parent_ptrs g' m = [].
  Proof. apply same_elts_nil, parent_ptrs_ext. Qed.
End PtrTable.

(* the statements as requested ([ms g = ms g'] is not needed: none of the three functions reads the registry) *)
Theorem parents_of_perm g g' : Permutation (ps g) (ps g') -> ms g = ms g' ->
  forall m p, In p (parents_of g m) <-> In p (parents_of g' m).
Proof. intros H _ m. apply parents_of_ext, perm_same_elts, H. Qed.
Theorem has_root_ptr_perm g g' : Permutation (ps g) (ps g') -> ms g = ms g' ->
  forall m, has_root_ptr g m = has_root_ptr g' m.
Proof. intros H _ m. apply has_root_ptr_ext, perm_same_elts, H. Qed.
Theorem parent_ptrs_nil_perm g g' : Permutation (ps g) (ps g') -> ms g = ms g' ->
  forall m, parent_ptrs g m = [] <-> parent_ptrs g' m = [].
Proof. intros H _ m. apply parent_ptrs_nil_ext, perm_same_elts, H. Qed.
(* parents_of is duplicate free, so under a permutation of the table it is a permutation (same length: the tests
   [1 <? length pars] of nested_step / flat_step do not depend on the order either) *)
Theorem parents_of_perm_multiset g g' : Permutation (ps g) (ps g') ->
  forall m, Permutation (parents_of g m) (parents_of g' m).
Proof.
  intros H m. apply NoDup_Permutation; [apply NoDup_nodupN | apply NoDup_nodupN|].
  apply parents_of_ext, perm_same_elts, H.
Qed.

(* ================================================================== *)
(* O5. min(parents) by index string                                     *)
(* ================================================================== *)
Local Open Scope N_scope.

(* reading a decimal digit string back *)
Fixpoint undec (l : str) (acc : N) : N :=
  match l with [] => acc | d :: r => undec r (10 * acc + (d - 48)) end.
Lemma undec_app : forall l d acc, undec (l ++ [d]) acc = 10 * undec l acc + (d - 48).
Proof. induction l as [|x r IH]; intros d acc; simpl; [reflexivity|]. apply IH. Qed.

Lemma dec_digits_S f n :
  dec_digits (S f) n = if n <? 10 then [48 + n] else dec_digits f (n / 10) ++ [48 + n mod 10].
Proof. reflexivity. Qed.

Lemma dec_digits_inv : forall fuel n, n < 10 ^ N.of_nat fuel -> undec (dec_digits fuel n) 0 = n.
Proof.
  induction fuel as [|f IH]; intros n Hn.
  - simpl in Hn. simpl. lia.
  - rewrite dec_digits_S. destruct (n <? 10) eqn:E.
    + apply N.ltb_lt in E. cbn [undec]. lia.
    + apply N.ltb_ge in E. rewrite undec_app, IH.
      * pose proof (N.div_mod n 10 ltac:(lia)) as Hdm. clear Hn IH.
        remember (n / 10) as q eqn:Eq. remember (n mod 10) as r eqn:Er. clear Eq Er. lia.
      * rewrite Nat2N.inj_succ, N.pow_succ_r' in Hn. apply N.div_lt_upper_bound; [lia | exact Hn].
Qed.

Lemma dec_digits_inj fuel a b : a < 10 ^ N.of_nat fuel -> b < 10 ^ N.of_nat fuel ->
  dec_digits fuel a = dec_digits fuel b -> a = b.
Proof. intros Ha Hb E. rewrite <- (dec_digits_inv fuel a Ha), <- (dec_digits_inv fuel b Hb), E. reflexivity. Qed.

(* the range in which utils.Index is modelled faithfully: the decimal part has at most 20 digits *)
Definition idx_ok (a : N) : Prop := a / 26 + 1 < 10 ^ 20.
Definition IDX_BOUND : N := 26 * 10 ^ 18.
Lemma idx_ok_bound a : a < IDX_BOUND -> idx_ok a.
Proof.
  unfold IDX_BOUND, idx_ok. intros H.
  assert (E18 : 10 ^ 18 = 1000000000000000000) by (vm_compute; reflexivity).
  assert (E20 : 10 ^ 20 = 100000000000000000000) by (vm_compute; reflexivity).
  rewrite E18 in H. rewrite E20.
  assert (a / 26 < 1000000000000000000) by (apply N.div_lt_upper_bound; lia). lia.
Qed.

Theorem index_str_inj_gen a b : idx_ok a -> idx_ok b -> index_str a = index_str b -> a = b.
Proof.
  unfold idx_ok, index_str. intros Ha Hb E. apply app_inj_tail in E. destruct E as [E1 E2].
  apply (dec_digits_inj 20) in E1; [|exact Ha | exact Hb].
  pose proof (N.div_mod a 26 ltac:(lia)) as Hda. pose proof (N.div_mod b 26 ltac:(lia)) as Hdb. clear Ha Hb.
  remember (a / 26) as qa eqn:E3. remember (b / 26) as qb eqn:E4. remember (a mod 26) as ra eqn:E5. remember (b mod 26) as rb eqn:E6.
  clear E3 E4 E5 E6. lia.
Qed.
Theorem index_str_inj a b : a < 26 * 10 ^ 18 -> b < 26 * 10 ^ 18 -> index_str a = index_str b -> a = b.
Proof. intros Ha Hb. apply index_str_inj_gen; apply idx_ok_bound; assumption. Qed.

(* without a bound index_str is NOT injective: dec_digits has fuel 20 and silently drops the leading digits *)
Definition cexA : N := 26 * (10 ^ 20 - 1).
Definition cexB : N := 26 * (2 * 10 ^ 20 - 1).
Example index_str_not_inj : index_str cexA = index_str cexB /\ cexA <> cexB.
Proof. split; [vm_compute; reflexivity | vm_compute; discriminate]. Qed.
(* ... and then min_parent does depend on the arrival order: ties are resolved in favour of the first *)
Example min_parent_order_dep : min_parent [cexA; cexB] = cexA /\ min_parent [cexB; cexA] = cexB.
Proof. split; vm_compute; reflexivity. Qed.

Definition sle (a b : str) : Prop := str_cmp a b <> Gt.
Lemma sle_refl a : sle a a.
Proof. unfold sle. rewrite str_cmp_refl. discriminate. Qed.
Lemma sle_trans a b c : sle a b -> sle b c -> sle a c.
Proof.
  unfold sle. intros H1 H2. destruct (str_cmp a b) eqn:E1; [| |congruence]; destruct (str_cmp b c) eqn:E2; try congruence.
  - apply str_cmp_eq_iff in E1, E2. subst. rewrite str_cmp_refl. discriminate.
  - apply str_cmp_eq_iff in E1. subst. rewrite E2. discriminate.
  - apply str_cmp_eq_iff in E2. subst. rewrite E1. discriminate.
  - rewrite (str_cmp_lt_trans a b c E1 E2). discriminate.
Qed.
Lemma sle_antisym a b : sle a b -> sle b a -> a = b.
Proof.
  unfold sle. intros H1 H2. destruct (str_cmp a b) eqn:E; [apply str_cmp_eq_iff; exact E | | congruence].
  apply str_cmp_antisym in E. congruence.
Qed.

Definition min_step (best y : N) : N :=
  match str_cmp (index_str y) (index_str best) with Lt => y | _ => best end.
Lemma min_fold_spec : forall r x,
  let b := fold_left min_step r x in
  In b (x :: r) /\ forall y, In y (x :: r) -> sle (index_str b) (index_str y).
Proof.
  induction r as [|y r IH]; intros x; cbn zeta.
  - simpl. split; [left; reflexivity|]. intros y [<-|[]]. apply sle_refl.
  - cbn [fold_left]. specialize (IH (min_step x y)). cbn zeta in IH. destruct IH as [IH1 IH2].
    assert (Hx' : (min_step x y = x \/ min_step x y = y) /\
                  sle (index_str (min_step x y)) (index_str x) /\ sle (index_str (min_step x y)) (index_str y)).
    { unfold min_step. destruct (str_cmp (index_str y) (index_str x)) eqn:E.
      - split; [left; reflexivity|]. split; [apply sle_refl|]. apply str_cmp_eq_iff in E. rewrite E. apply sle_refl.
      - split; [right; reflexivity|]. split; [unfold sle; rewrite E; discriminate | apply sle_refl].
      - split; [left; reflexivity|]. split; [apply sle_refl|]. unfold sle. intros E'. apply str_cmp_antisym in E'. congruence. }
    destruct Hx' as [Hc [Hlx Hly]]. split.
    + destruct IH1 as [E|Hin]; [|right; right; exact Hin]. rewrite <- E. destruct Hc as [->| ->]; [left|right; left]; reflexivity.
    + intros z [<-|[<-|Hz]].
      * eapply sle_trans; [apply IH2; left; reflexivity | exact Hlx].
      * eapply sle_trans; [apply IH2; left; reflexivity | exact Hly].
      * apply IH2. right. exact Hz.
Qed.

(* specification of min_parent: a member whose index string is least *)
Theorem min_parent_spec l : l <> [] ->
  In (min_parent l) l /\ forall y, In y l -> str_cmp (index_str (min_parent l)) (index_str y) <> Gt.
Proof.
  destruct l as [|x r]; [congruence|]. intros _. unfold min_parent.
  change (fold_left _ r x) with (fold_left min_step r x). apply (min_fold_spec r x).
Qed.

(* general form: only the set of parents matters, provided all members are in the faithful range
   (NoDup is not needed: equal members cannot disagree) *)
Theorem min_parent_ext l l' : same_elts l l' -> (forall x, In x l -> idx_ok x) -> min_parent l = min_parent l'.
Proof.
  intros HS Hok. destruct l as [|x r].
  - rewrite (proj1 (same_elts_nil _ _ HS) eq_refl). reflexivity.
  - assert (Hne : x :: r <> []) by discriminate.
    assert (Hne' : l' <> []) by (intros E; apply Hne; apply (same_elts_nil _ _ HS); exact E).
    destruct (min_parent_spec (x :: r) Hne) as [H1 H2]. destruct (min_parent_spec l' Hne') as [H1' H2'].
    apply index_str_inj_gen; [apply Hok; exact H1 | apply Hok; apply HS; exact H1'|].
    apply sle_antisym; [apply H2; apply HS; exact H1' | apply H2'; apply HS; exact H1].
Qed.

Theorem min_parent_perm l l' : Permutation l l' -> l <> [] -> NoDup l ->
  (forall x, In x l -> x < 26 * 10 ^ 18) -> min_parent l = min_parent l'.
Proof.
  intros HP _ _ Hb. apply min_parent_ext; [apply perm_same_elts; exact HP|].
  intros x Hx. apply idx_ok_bound. apply Hb. exact Hx.
Qed.
Local Close Scope N_scope.

(* ================================================================== *)
(* O7. extract_root = the parentless ancestors, as a set                *)
(* ================================================================== *)
Lemma length_filter_le {A} (f : A -> bool) (l : list A) : length (filter f l) <= length l.
Proof. induction l as [|x r IH]; simpl; [lia|]. destruct (f x); simpl; lia. Qed.

Section Roots.
  Variable g : graph.

  Definition hasp (q : N) : bool := match parent_ptrs g q with [] => false | _ => true end.
  Definition nop (q : N) : bool := match parent_ptrs g q with [] => true | _ => false end.
  Lemma hasp_true q : hasp q = true <-> parent_ptrs g q <> [].
  Proof. unfold hasp. destruct (parent_ptrs g q); split; intros H; congruence. Qed.
  Lemma nop_true q : nop q = true <-> parent_ptrs g q = [].
  Proof. unfold nop. destruct (parent_ptrs g q); split; intros H; congruence. Qed.

  Lemma roots_from_S f m rest seen acc :
    roots_from g (S f) (m :: rest) seen acc =
    if memN m seen then roots_from g f rest seen acc
    else roots_from g f (rest ++ filter hasp (parents_of g m)) (m :: seen)
                    (fold_left addN (filter nop (parents_of g m)) acc).
  Proof. reflexivity. Qed.
  Lemma roots_from_nil fuel seen acc : roots_from g fuel [] seen acc = acc.
  Proof. destruct fuel; reflexivity. Qed.

  (* one step upward: to a parent that has parents itself *)
  Inductive reach : N -> N -> Prop :=
  | reach_refl a : reach a a
  | reach_step a b c : In b (parents_of g a) -> parent_ptrs g b <> [] -> reach b c -> reach a c.
  (* r is a root above m: a parentless parent of some model reached from m *)
  Definition is_root_of (m r : N) : Prop :=
    exists m', reach m m' /\ In r (parents_of g m') /\ parent_ptrs g r = [].

  (* soundness, any fuel *)
  Lemma roots_from_sound : forall fuel frontier seen acc r,
    In r (roots_from g fuel frontier seen acc) -> In r acc \/ exists f, In f frontier /\ is_root_of f r.
  Proof.
    induction fuel as [|fu IH]; intros frontier seen acc r Hr; [left; exact Hr|].
    destruct frontier as [|m rest]; [left; exact Hr|]. rewrite roots_from_S in Hr.
    destruct (memN m seen).
    - destruct (IH _ _ _ _ Hr) as [H|[f [Hf H]]]; [left; exact H|]. right. exists f. split; [right; exact Hf | exact H].
    - destruct (IH _ _ _ _ Hr) as [H|[f [Hf H]]].
      + apply In_fold_addN in H. destruct H as [H|H]; [left; exact H|]. apply filter_In in H. destruct H as [H1 H2].
        right. exists m. split; [left; reflexivity|]. exists m. split; [apply reach_refl|]. split; [exact H1 | apply nop_true; exact H2].
      + right. apply in_app_iff in Hf. destruct Hf as [Hf|Hf]; [exists f; split; [right; exact Hf | exact H]|].
        apply filter_In in Hf. destruct Hf as [H1 H2]. exists m. split; [left; reflexivity|].
        destruct H as [m' [Hre Hm']]. exists m'. split; [|exact Hm'].
        eapply reach_step; [exact H1 | apply hasp_true; exact H2 | exact Hre].
  Qed.

  (* fuel: every non-skipping step marks a model seen and thereby retires all pointers that target it; it pushes at
     most that many models on the frontier *)
  Definition unseen_in (l : list ptr) (seen : list N) : nat :=
    length (filter (fun p => negb (memN (p_tgt p) seen)) l).
  Lemma unseen_cons m seen : memN m seen = false -> forall l,
    unseen_in l seen = unseen_in l (m :: seen) + length (filter (fun p => N.eqb (p_tgt p) m) l).
  Proof.
    intros E. unfold unseen_in. induction l as [|p r IH]; [reflexivity|].
    cbn [filter]. change (memN (p_tgt p) (m :: seen)) with (N.eqb (p_tgt p) m || memN (p_tgt p) seen).
    destruct (N.eqb (p_tgt p) m) eqn:E1.
    - apply N.eqb_eq in E1. rewrite E1, E. cbn [negb orb length]. lia.
    - cbn [orb]. destruct (memN (p_tgt p) seen); cbn [negb length]; lia.
  Qed.
  Lemma length_parents_le m : length (parents_of g m) <= length (ptrs_to g m).
  Proof.
    unfold parents_of. eapply Nat.le_trans; [apply length_nodupN|]. unfold parent_ptrs.
    induction (ptrs_to g m) as [|p r IH]; simpl; [lia|]. rewrite app_length. destruct (p_par p); simpl; lia.
  Qed.

  Definition Inv (frontier seen acc : list N) : Prop :=
    forall s q, In s seen -> In q (parents_of g s) ->
      (parent_ptrs g q <> [] -> In q seen \/ In q frontier) /\ (parent_ptrs g q = [] -> In q acc).

  (* completeness, enough fuel: the run ends in a state whose [seen] is closed under upward steps *)
  Lemma roots_from_complete : forall fuel frontier seen acc,
    length frontier + unseen_in (ps g) seen <= fuel -> Inv frontier seen acc ->
    exists seenF, Inv [] seenF (roots_from g fuel frontier seen acc) /\ incl seen seenF /\ incl frontier seenF
                  /\ incl acc (roots_from g fuel frontier seen acc).
  Proof.
    induction fuel as [|fu IH]; intros frontier seen acc Hfuel HInv.
    - destruct frontier as [|m rest]; [|simpl in Hfuel; lia]. exists seen. simpl.
      split; [exact HInv|]. split; [apply incl_refl|]. split; [intros x []|apply incl_refl].
    - destruct frontier as [|m rest].
      { exists seen. simpl. split; [exact HInv|]. split; [apply incl_refl|]. split; [intros x []|apply incl_refl]. }
      rewrite roots_from_S. destruct (memN m seen) eqn:E.
      + destruct (IH rest seen acc) as [sF [I1 [I2 [I3 I4]]]].
        * simpl in Hfuel. lia.
        * intros s q Hs Hq. destruct (HInv s q Hs Hq) as [A B]. split; [|exact B]. intros Hne.
          destruct (A Hne) as [H|[<-|H]]; [left; exact H | left; apply memN_In; exact E | right; exact H].
        * exists sF. split; [exact I1|]. split; [exact I2|]. split; [|exact I4].
          intros x [<-|Hx]; [apply I2, memN_In, E | apply I3, Hx].
      + destruct (IH (rest ++ filter hasp (parents_of g m)) (m :: seen)
                     (fold_left addN (filter nop (parents_of g m)) acc)) as [sF [I1 [I2 [I3 I4]]]].
        * rewrite app_length. pose proof (unseen_cons m seen E (ps g)) as Hu.
          pose proof (length_filter_le hasp (parents_of g m)) as H1. pose proof (length_parents_le m) as H2.
          unfold ptrs_to in H2. simpl in Hfuel. lia.
        * intros s q [<-|Hs] Hq.
          -- split; intros Hp.
             ++ right. apply in_app_iff. right. apply filter_In. split; [exact Hq | apply hasp_true; exact Hp].
             ++ apply In_fold_addN. right. apply filter_In. split; [exact Hq | apply nop_true; exact Hp].
          -- destruct (HInv s q Hs Hq) as [A B]. split; intros Hp.
             ++ destruct (A Hp) as [H|[<-|H]];
                  [left; right; exact H | left; left; reflexivity | right; apply in_app_iff; left; exact H].
             ++ apply In_fold_addN. left. apply B. exact Hp.
        * exists sF. split; [exact I1|]. split; [intros x Hx; apply I2; right; exact Hx|]. split.
          -- intros x [<-|Hx]; [apply I2; left; reflexivity | apply I3; apply in_app_iff; left; exact Hx].
          -- intros x Hx. apply I4. apply In_fold_addN. left. exact Hx.
  Qed.

  Lemma Inv_closed seenF R : Inv [] seenF R -> forall a b, reach a b -> In a seenF -> In b seenF.
  Proof.
    intros HI a b Hre. induction Hre as [a|a b c H1 H2 Hre IH]; intros Ha; [exact Ha|].
    apply IH. destruct (HI a b Ha H1) as [A _]. destruct (A H2) as [H|[]]. exact H.
  Qed.

  (* "enough fuel" form *)
  Theorem roots_from_spec fuel m : 1 + length (ps g) <= fuel ->
    forall r, In r (roots_from g fuel [m] [] []) <-> is_root_of m r.
  Proof.
    intros Hfuel r. split.
    - intros Hr. destruct (roots_from_sound _ _ _ _ _ Hr) as [[]|[f [[<-|[]] H]]]. exact H.
    - intros [m' [Hre [H1 H2]]].
      destruct (roots_from_complete fuel [m] [] []) as [sF [I1 [_ [I3 _]]]].
      + unfold unseen_in. pose proof (length_filter_le (fun p => negb (memN (p_tgt p) [])) (ps g)). cbn [length]. lia.
      + intros s q [].
      + assert (Hm' : In m' sF) by (apply (Inv_closed _ _ I1 m m' Hre); apply I3; left; reflexivity).
        destruct (I1 m' r Hm' H1) as [_ B]. apply B. exact H2.
  Qed.

  (* the model's fuel is enough: extract_root is exactly the set of parentless ancestors-of-parents *)
  Theorem extract_root_spec m r : In r (extract_root g m) <-> is_root_of m r.
  Proof.
    unfold extract_root. apply roots_from_spec.
    change (S (length (ms g)) * S (length (ps g))) with (S (length (ps g)) + length (ms g) * S (length (ps g))). lia.
  Qed.

  Lemma roots_from_NoDup : forall fuel frontier seen acc, NoDup acc -> NoDup (roots_from g fuel frontier seen acc).
  Proof.
    induction fuel as [|fu IH]; intros frontier seen acc H; [exact H|].
    destruct frontier as [|m rest]; [exact H|]. rewrite roots_from_S. destruct (memN m seen); [apply IH; exact H|].
    apply IH. apply NoDup_fold_addN. exact H.
  Qed.
  Lemma extract_root_NoDup m : NoDup (extract_root g m).
  Proof. apply roots_from_NoDup. constructor. Qed.
End Roots.

Section RootsTable.
  Variables g g' : graph.
  Hypothesis Hps : same_elts (ps g) (ps g').
  Lemma reach_ext a b : reach g a b -> reach g' a b.
  Proof.
    induction 1 as [a|a b c H1 H2 Hre IH]; [apply reach_refl|].
    eapply reach_step; [apply (parents_of_ext g g' Hps); exact H1 | | exact IH].
    intros E. apply H2. apply (parent_ptrs_nil_ext g g' Hps). exact E.
  Qed.
  Lemma is_root_of_ext m r : is_root_of g m r -> is_root_of g' m r.
  Proof.
    intros [m' [Hre [H1 H2]]]. exists m'. split; [apply reach_ext; exact Hre|].
    split; [apply (parents_of_ext g g' Hps); exact H1 | apply (parent_ptrs_nil_ext g g' Hps); exact H2].
  Qed.
End RootsTable.

Theorem extract_root_ext g g' : same_elts (ps g) (ps g') -> forall m, same_elts (extract_root g m) (extract_root g' m).
Proof.
  intros H m r. rewrite !extract_root_spec.
  split; apply is_root_of_ext; [exact H | apply same_elts_sym; exact H].
Qed.

(* as requested; [ms g = ms g'] is not needed (the fuel of either run is enough by extract_root_spec) *)
Theorem extract_root_perm g g' : Permutation (ps g) (ps g') -> ms g = ms g' ->
  forall m r, In r (extract_root g m) <-> In r (extract_root g' m).
Proof. intros H _ m. apply extract_root_ext, perm_same_elts, H. Qed.
Theorem extract_root_perm_multiset g g' : Permutation (ps g) (ps g') ->
  forall m, Permutation (extract_root g m) (extract_root g' m).
Proof.
  intros H m. apply NoDup_Permutation; [apply extract_root_NoDup | apply extract_root_NoDup|].
  apply extract_root_ext, perm_same_elts, H.
Qed.

(* ================================================================== *)
(* L. Capstone for the layout: compose_nested / compose_flat do not     *)
(*    depend on the order of the pointer table                          *)
(* ================================================================== *)
Lemma flat_map_perm {A B} (f : A -> list B) (l l' : list A) :
  Permutation l l' -> Permutation (flat_map f l) (flat_map f l').
Proof.
  induction 1 as [|x l l' HP IH|x y l|l l' l'' H1 IH1 H2 IH2]; simpl.
  - constructor.
  - apply Permutation_app_head. exact IH.
  - rewrite !app_assoc. apply Permutation_app_tail. apply Permutation_app_comm.
  - eapply Permutation_trans; eassumption.
Qed.

(* a fold whose step is right-commutative does not depend on the order *)
Lemma fold_left_perm {A B} (f : A -> B -> A) : (forall a x y, f (f a x) y = f (f a y) x) ->
  forall l l', Permutation l l' -> forall a, fold_left f l a = fold_left f l' a.
Proof.
  intros Hc. induction 1 as [|x l l' HP IH|x y l|l l' l'' H1 IH1 H2 IH2]; intros a; simpl.
  - reflexivity.
  - apply IH.
  - rewrite Hc. reflexivity.
  - rewrite IH1. apply IH2.
Qed.
Lemma fold_left_ext_fn {A B} (f f' : A -> B -> A) : (forall a x, f a x = f' a x) ->
  forall l a, fold_left f l a = fold_left f' l a.
Proof. intros H. induction l as [|x r IH]; intros a; simpl; [reflexivity|]. rewrite H. apply IH. Qed.

(* min(...) over positions *)
Definition omin (a : option nat) (y : nat) : option nat :=
  match a with None => Some y | Some x => Some (Nat.min x y) end.
Lemma min_list_fold l : min_list l = fold_left omin l None.
Proof.
  destruct l as [|x r]; [reflexivity|]. simpl. revert x.
  induction r as [|y r IH]; intros x; simpl; [reflexivity|]. apply IH.
Qed.
Lemma min_list_perm l l' : Permutation l l' -> min_list l = min_list l'.
Proof.
  intros HP. rewrite !min_list_fold. apply fold_left_perm; [|exact HP].
  intros [a|] x y; simpl; f_equal; lia.
Qed.

(* max(...) over positions, with a default for the empty list *)
Definition zmax_or (d : Z) (l : list Z) : Z := match l with [] => d | x :: r => fold_left Z.max r x end.
Definition omax (a : option Z) (y : Z) : option Z :=
  match a with None => Some y | Some x => Some (Z.max x y) end.
Lemma zmax_or_fold d l : zmax_or d l = match fold_left omax l None with Some v => v | None => d end.
Proof.
  destruct l as [|x r]; [reflexivity|]. simpl. revert x.
  induction r as [|y r IH]; intros x; simpl; [reflexivity|]. apply IH.
Qed.
Lemma zmax_or_perm d l l' : Permutation l l' -> zmax_or d l = zmax_or d l'.
Proof.
  intros HP. rewrite !zmax_or_fold. rewrite (fold_left_perm omax) with (l' := l'); [reflexivity | | exact HP].
  intros [a|] x y; simpl; f_equal; lia.
Qed.

(* nested_step / flat_step read the graph only through parents_of, extract_root, has_root_ptr and the emptiness of
   parent_ptrs: the same bodies with these four made parameters *)
Definition nested_core (pars roots : list N) (hasroot isnil : bool) (st : nstate) (m : N) : option nstate :=
  if isnil then
    (if hasroot then Some {| ns_roots := ns_roots st ++ [m]; ns_nested := ns_nested st; ns_inj := ns_inj st; ns_ix := ns_ix st |}
     else None)
  else
    if hasroot || (Nat.ltb 1 (length pars) && Nat.ltb 1 (length roots)) then
      match min_list (flat_map (fun r => match index_of r (ns_roots st) 0 with Some i => [i] | None => [] end) roots) with
      | Some pos => Some {| ns_roots := insert_at pos m (ns_roots st); ns_nested := ns_nested st; ns_inj := ns_inj st; ns_ix := ns_ix st |}
      | None => Some {| ns_roots := insert_at (ns_ix st) m (ns_roots st); ns_nested := ns_nested st; ns_inj := ns_inj st; ns_ix := S (ns_ix st) |}
      end
    else if Nat.ltb 1 (length pars) && Nat.eqb (length roots) 1 then
      let p := hd 0%N roots in
      Some {| ns_roots := ns_roots st; ns_nested := set_children (ns_nested st) p (m :: children (ns_nested st) p);
              ns_inj := ns_inj st ++ [(m, p)]; ns_ix := ns_ix st |}
    else
      let p := min_parent pars in
      Some {| ns_roots := ns_roots st; ns_nested := set_children (ns_nested st) p (children (ns_nested st) p ++ [m]);
              ns_inj := ns_inj st; ns_ix := ns_ix st |}.

Lemma nested_step_core g st m :
  nested_step g (Some st) m = nested_core (parents_of g m) (extract_root g m) (has_root_ptr g m) (nop g m) st m.
Proof. unfold nested_step, nested_core, nop. destruct (parent_ptrs g m); reflexivity. Qed.

Definition flat_core (pars : list N) (nroots : nat) (hasroot isnil : bool) (st : fstate) (m : N) : option fstate :=
  let key := index_str m in
  if isnil then
    (if hasroot then
       let d := match pd_get (fs_pos st) ROOT with Some _ => fs_pos st | None => fs_pos st ++ [(ROOT, 0%Z)] end in
       let pos := match pd_get d ROOT with Some p => p | None => 0%Z end in
       Some {| fs_list := insert_at (Z.to_nat pos) m (fs_list st); fs_pos := update_position d ROOT (pos + 1)%Z;
               fs_top := fs_top st ++ [m] |}
     else None)
  else
    let '(pos, d) :=
      if hasroot || (Nat.ltb 1 (length pars) && Nat.leb 1 nroots) then
        let pkeys := map index_str pars ++ (if existsb (fun p => memN p (fs_top st)) pars then [ROOT] else []) in
        let joined := join HASH (set_of_strs pkeys) in
        let pp := flat_map (fun k => match pd_get (fs_pos st) k with Some p => [p] | None => [] end) (pkeys ++ [joined]) in
        let pos := zmax_or (Z.of_nat (length (fs_list st))) pp in
        (pos, update_position (fs_pos st) joined (pos + 1)%Z)
      else
        let pk := index_str (min_parent pars) in
        let pos := match pd_get (fs_pos st) pk with Some p => p | None => Z.of_nat (length (fs_list st)) end in
        (pos, update_position (fs_pos st) pk (pos + 1)%Z) in
    let d := update_position d key (pos + 1)%Z in
    Some {| fs_list := insert_at (Z.to_nat pos) m (fs_list st); fs_pos := d; fs_top := fs_top st |}.

Lemma flat_step_core g st m :
  flat_step g (Some st) m = flat_core (parents_of g m) (length (extract_root g m)) (has_root_ptr g m) (nop g m) st m.
Proof. unfold flat_step, flat_core, nop. destruct (parent_ptrs g m); reflexivity. Qed.

Lemma nested_core_perm pars pars' roots roots' h i st m :
  Permutation pars pars' -> Permutation roots roots' -> (forall x, In x pars -> idx_ok x) ->
  nested_core pars roots h i st m = nested_core pars' roots' h i st m.
Proof.
  intros HP HR Hok. unfold nested_core. destruct i; [reflexivity|].
  rewrite <- (Permutation_length HP), <- (Permutation_length HR).
  rewrite <- (min_parent_ext pars pars' (perm_same_elts _ _ HP) Hok).
  rewrite <- (min_list_perm _ _ (flat_map_perm (fun r => match index_of r (ns_roots st) 0 with Some i => [i] | None => [] end) _ _ HR)).
  destruct (h || (Nat.ltb 1 (length pars) && Nat.ltb 1 (length roots))); [reflexivity|].
  destruct (Nat.ltb 1 (length pars) && Nat.eqb (length roots) 1) eqn:C; [|reflexivity].
  apply andb_true_iff in C. destruct C as [_ C]. apply Nat.eqb_eq in C.
  destruct roots as [|x [|y r]]; try discriminate. apply Permutation_length_1_inv in HR. rewrite HR. reflexivity.
Qed.

Lemma flat_core_perm pars pars' n h i st m :
  Permutation pars pars' -> (forall x, In x pars -> idx_ok x) ->
  flat_core pars n h i st m = flat_core pars' n h i st m.
Proof.
  intros HP Hok. unfold flat_core. cbv zeta. destruct i; [reflexivity|].
  rewrite <- (Permutation_length HP).
  rewrite <- (min_parent_ext pars pars' (perm_same_elts _ _ HP) Hok).
  rewrite <- (existsb_same_elts (fun p => memN p (fs_top st)) (fun p => memN p (fs_top st)) pars pars'
                (perm_same_elts _ _ HP) (fun x => eq_refl)).
  set (X := if existsb (fun p => memN p (fs_top st)) pars then [ROOT] else []).
  assert (HPk : Permutation (map index_str pars ++ X) (map index_str pars' ++ X))
    by (apply Permutation_app_tail, Permutation_map, HP).
  rewrite <- (set_of_strs_perm _ _ HPk).
  set (J := join HASH (set_of_strs (map index_str pars ++ X))).
  rewrite <- (zmax_or_perm (Z.of_nat (length (fs_list st))) _ _
               (flat_map_perm (fun k => match pd_get (fs_pos st) k with Some p => [p] | None => [] end) _ _
                  (Permutation_app_tail [J] HPk))).
  reflexivity.
Qed.

(* every parent recorded in the pointer table lies in the range where utils.Index is modelled faithfully *)
Definition parents_ok (g : graph) : Prop := forall p q, In p (ps g) -> p_par p = Some q -> idx_ok q.
Lemma parents_ok_bound g : (forall p q, In p (ps g) -> p_par p = Some q -> (q < 26 * 10 ^ 18)%N) -> parents_ok g.
Proof. intros H p q Hp Hq. apply idx_ok_bound. exact (H p q Hp Hq). Qed.

Section LayoutPerm.
  Variables g g' : graph.
  Hypothesis HP : Permutation (ps g) (ps g').
  Hypothesis Hok : parents_ok g.

  Lemma nop_perm m : nop g m = nop g' m.
  Proof. apply eq_true_iff_eq. rewrite !nop_true. apply parent_ptrs_nil_ext, perm_same_elts, HP. Qed.
  Lemma parents_idx_ok m x : In x (parents_of g m) -> idx_ok x.
  Proof. intros H. apply In_parents_of in H. destruct H as [p [H1 [_ H2]]]. exact (Hok p x H1 H2). Qed.

  Theorem nested_step_perm ost m : nested_step g ost m = nested_step g' ost m.
  Proof.
    destruct ost as [st|]; [|reflexivity]. rewrite !nested_step_core.
    rewrite <- (has_root_ptr_ext g g' (perm_same_elts _ _ HP) m), <- (nop_perm m).
    apply nested_core_perm; [apply parents_of_perm_multiset, HP | apply extract_root_perm_multiset, HP | apply parents_idx_ok].
  Qed.
  Theorem flat_step_perm ost m : flat_step g ost m = flat_step g' ost m.
  Proof.
    destruct ost as [st|]; [|reflexivity]. rewrite !flat_step_core.
    rewrite <- (has_root_ptr_ext g g' (perm_same_elts _ _ HP) m), <- (nop_perm m).
    rewrite <- (Permutation_length (extract_root_perm_multiset g g' HP m)).
    apply flat_core_perm; [apply parents_of_perm_multiset, HP | apply parents_idx_ok].
  Qed.

  Hypothesis Hms : ms g = ms g'.
  Theorem compose_nested_perm : compose_nested g = compose_nested g'.
  Proof.
    unfold compose_nested. rewrite <- Hms.
    rewrite (fold_left_ext_fn (nested_step g) (nested_step g') nested_step_perm). reflexivity.
  Qed.
  Theorem compose_flat_perm : compose_flat g = compose_flat g'.
  Proof.
    unfold compose_flat. rewrite <- Hms.
    rewrite (fold_left_ext_fn (flat_step g) (flat_step g') flat_step_perm). reflexivity.
  Qed.
End LayoutPerm.

Print Assumptions str_cmp_eq_iff.
Print Assumptions str_cmp_antisym.
Print Assumptions str_cmp_lt_trans.
Print Assumptions insert_sorted_comm.
Print Assumptions set_of_strs_perm.
Print Assumptions set_of_strs_dup.
Print Assumptions distinct_words_perm.
Print Assumptions distinct_words_spec.
Print Assumptions compile_imports_perm.
Print Assumptions resolve_perm.
Print Assumptions resolve_perm_replaces.
Print Assumptions resolve_singleton_perm.
Print Assumptions parents_of_perm.
Print Assumptions has_root_ptr_perm.
Print Assumptions parent_ptrs_nil_perm.
Print Assumptions index_str_inj.
Print Assumptions min_parent_spec.
Print Assumptions min_parent_perm.
Print Assumptions extract_root_spec.
Print Assumptions extract_root_perm.
Print Assumptions extract_root_perm_multiset.
Print Assumptions nested_step_perm.
Print Assumptions flat_step_perm.
Print Assumptions compose_nested_perm.
Print Assumptions compose_flat_perm.

(* NOT PROVED: nothing of O1-O8 is left open.  Remarks.
   - O5: index_str is not injective on all of N (Example index_str_not_inj: dec_digits has fuel 20 and drops leading
     digits, so 26*(10^20-1) and 26*(2*10^20-1) get the same index string) and then min_parent does depend on the
     arrival order (Example min_parent_order_dep).  min_parent_perm / min_parent_ext therefore carry the decidable side
     condition idx_ok x := x / 26 + 1 < 10^20 (implied by x < 26 * 10^18) on the members.  NoDup and l <> [] turned
     out to be unnecessary (they are accepted and ignored by min_parent_perm).
   - O6/O7: the hypothesis ms g = ms g' is unnecessary (accepted and ignored); extract_root_spec shows that the model's
     fuel S (length (ms g)) * S (length (ps g)) is always enough (1 + length (ps g) suffices, roots_from_spec).
   - Every *_perm theorem has an *_ext companion that only assumes equal sets of elements (same_elts), which also
     covers repeated arrivals.
   - Out of scope here (no set iteration is visible in these model functions, they are deterministic list programs):
     the registry sites (_merge: pointers / child_pointers, merge_models: gr1 | gr2) and merge_field_sets. *)
