(* Proofs/CliProps.v — properties of Model/Cli.v:
   (A) C17: a failing run reports failure and leaves existing output untouched; a successful run writes the
       complete text (for ALL fault schedules);
   (B) C16: sample assembly (iter_json_file / dict_lookup / setup_models_data). *)
From Coq Require Import List Bool Arith NArith Lia.
From J2M.Model Require Import Base Cli.
Import ListNotations.
Local Open Scope list_scope.

(* ============================================================================================================ *)
(* (A) effect order of main()                                                                                  *)
(* ============================================================================================================ *)
Section Atomic.
  Variable full : str.
  Variable faults : nat -> bool.

  Definition failst (st : cstate) : cstate :=
    {| file := file st; stdout := stdout st; text := text st; ret := ret st; failed := true |}.
  Definition eff (st : cstate) (o : op) : cstate :=
    match o with
    | BuildText => {| file := file st; stdout := stdout st; text := Some full; ret := Some full; failed := false |}
    | OpenTruncate => {| file := Some []; stdout := stdout st; text := text st; ret := ret st; failed := false |}
    | WriteAll => {| file := text st; stdout := stdout st; text := text st; ret := ret st; failed := false |}
    | ReturnMsg => {| file := file st; stdout := stdout st; text := text st; ret := Some MSG; failed := false |}
    | Print => {| file := file st; stdout := stdout st ++ match ret st with Some r => [r] | None => [] end;
                  text := text st; ret := ret st; failed := false |}
    | _ => st
    end.

  Lemma step_cases : forall i st o,
    step full faults (i, st) o =
    (S i, if failed st then st else if fallible o && faults i then failst st else eff st o).
  Proof.
    intros i st o. unfold step. destruct (failed st); [reflexivity|].
    destruct (fallible o && faults i); reflexivity.
  Qed.

  Definition run_from (ist : nat * cstate) (ops : list op) : nat * cstate := fold_left (step full faults) ops ist.

  Lemma run_from_cons : forall ist o r, run_from ist (o :: r) = run_from (step full faults ist o) r.
  Proof. reflexivity. Qed.
  Lemma run_from_app : forall ist a b, run_from ist (a ++ b) = run_from (run_from ist a) b.
  Proof. intros. unfold run_from. apply fold_left_app. Qed.

  Definition st0 (file0 : option str) : cstate :=
    {| file := file0; stdout := []; text := None; ret := None; failed := false |}.
  Lemma run_ops_from : forall ops file0, run_ops full faults ops file0 = snd (run_from (O, st0 file0) ops).
  Proof. reflexivity. Qed.

  (* once failed, nothing else runs *)
  Lemma run_failed : forall ops i st, failed st = true -> run_from (i, st) ops = (i + length ops, st).
  Proof.
    induction ops as [|o r IH]; intros i st Hf.
    - simpl. rewrite Nat.add_0_r. reflexivity.
    - rewrite run_from_cons, step_cases, Hf, IH by assumption. simpl. rewrite Nat.add_succ_r. reflexivity.
  Qed.

  Definition nonfallible (x : op) : bool := negb (fallible x).

  Lemma eff_not_failed : forall st o, failed st = false -> failed (eff st o) = false.
  Proof. intros st o H. destruct o; simpl; auto. Qed.

  (* a list of infallible operations cannot fail *)
  Lemma nonfallible_no_fail : forall ops i st,
    forallb (fun x => negb (fallible x)) ops = true -> failed st = false ->
    failed (snd (run_from (i, st) ops)) = false.
  Proof.
    induction ops as [|o r IH]; intros i st Hall Hf; [exact Hf|].
    simpl in Hall. apply andb_true_iff in Hall. destruct Hall as [Ho Hr].
    rewrite run_from_cons, step_cases, Hf. apply negb_true_iff in Ho. rewrite Ho. simpl.
    apply IH; [assumption | apply eff_not_failed; assumption].
  Qed.

  (* (A1), general form: from any non-failed state, under the first conjunct of atomicb alone *)
  Lemma atomic_failure_from : forall ops i st,
    no_effect_before_fallible ops = true -> failed st = false ->
    failed (snd (run_from (i, st) ops)) = true ->
    file (snd (run_from (i, st) ops)) = file st /\ stdout (snd (run_from (i, st) ops)) = stdout st.
  Proof.
    induction ops as [|o r IH]; intros i st Hn Hf Hfail.
    - simpl in Hfail. congruence.
    - rewrite run_from_cons, step_cases, Hf in *.
      destruct (fallible o && faults i) eqn:E.
      + rewrite run_failed by reflexivity. simpl. auto.
      + assert (Hrest : no_effect_before_fallible r = true).
        { destruct o; simpl in Hn; try exact Hn; apply andb_true_iff in Hn; apply Hn. }
        assert (Heff : (file (eff st o) = file st /\ stdout (eff st o) = stdout st)
                       \/ forallb (fun x => negb (fallible x)) r = true).
        { destruct o; simpl; auto; right; simpl in Hn; apply andb_true_iff in Hn; apply Hn. }
        destruct Heff as [[H1 H2] | Hall].
        * destruct (IH (S i) (eff st o) Hrest (eff_not_failed st o Hf) Hfail) as [H3 H4].
          rewrite H3, H4. auto.
        * rewrite (nonfallible_no_fail r (S i) (eff st o) Hall (eff_not_failed st o Hf)) in Hfail. discriminate.
  Qed.

  Theorem atomic_failure_strong : forall ops file0,
    no_effect_before_fallible ops = true ->
    failed (run_ops full faults ops file0) = true ->
    file (run_ops full faults ops file0) = file0 /\ stdout (run_ops full faults ops file0) = [].
  Proof.
    intros ops file0 Hn Hfail. rewrite run_ops_from in *.
    apply (atomic_failure_from ops O (st0 file0) Hn eq_refl Hfail).
  Qed.

  (* (A1) as asked: atomicb as defined in the model is strong enough (its first conjunct suffices) *)
  Theorem atomic_failure : forall ops file0,
    atomicb ops = true ->
    failed (run_ops full faults ops file0) = true ->
    file (run_ops full faults ops file0) = file0 /\ stdout (run_ops full faults ops file0) = [].
  Proof.
    intros ops file0 Ha. unfold atomicb in Ha. apply andb_true_iff in Ha. destruct Ha as [Ha _].
    apply andb_true_iff in Ha. destruct Ha as [Ha _]. apply atomic_failure_strong. exact Ha.
  Qed.

  (* ---- (A2) the two concrete shapes ---- *)
  Definition pure_op (o : op) : bool :=
    match o with
    | ParseArgv | MutateDefaultRegistry | LoadSamples | Validate | SetArgs | Generate => true
    | _ => false
    end.

  Lemma nebf_pure_app : forall p r, forallb pure_op p = true ->
    no_effect_before_fallible (p ++ r) = no_effect_before_fallible r.
  Proof.
    induction p as [|o p IH]; intros r H; [reflexivity|].
    simpl in H. apply andb_true_iff in H. destruct H as [Ho Hp].
    destruct o; simpl in Ho; try discriminate; simpl; apply IH; assumption.
  Qed.
  Lemma bbo_pure_app : forall p r b, forallb pure_op p = true ->
    built_before_open (p ++ r) b = built_before_open r b.
  Proof.
    induction p as [|o p IH]; intros r b H; [reflexivity|].
    simpl in H. apply andb_true_iff in H. destruct H as [Ho Hp].
    destruct o; simpl in Ho; try discriminate; simpl; apply IH; assumption.
  Qed.
  Lemma otw_pure_app : forall p r, forallb pure_op p = true ->
    open_then_write (p ++ r) = open_then_write r.
  Proof.
    induction p as [|o p IH]; intros r H; [reflexivity|].
    simpl in H. apply andb_true_iff in H. destruct H as [Ho Hp].
    destruct o; simpl in Ho; try discriminate; simpl; apply IH; assumption.
  Qed.

  Lemma main_ops_shape : forall pa rc' b,
    main_ops pa (rc' ++ [BuildText]) b =
    pa ++ rc' ++ BuildText :: (if b then [OpenTruncate; WriteAll; ReturnMsg] else []) ++ [Print].
  Proof. intros. unfold main_ops. rewrite <- !app_assoc. reflexivity. Qed.

  Theorem main_ops_atomic : forall pa rc rc' b,
    forallb pure_op pa = true -> rc = rc' ++ [BuildText] -> forallb pure_op rc' = true ->
    atomicb (main_ops pa rc b) = true.
  Proof.
    intros pa rc rc' b Hpa -> Hrc. rewrite main_ops_shape. unfold atomicb.
    rewrite !nebf_pure_app, !bbo_pure_app, !otw_pure_app by assumption.
    destruct b; reflexivity.
  Qed.

  (* pure operations either fail (and then the whole run is failed) or change nothing *)
  Lemma pure_run : forall p q i st, forallb pure_op p = true -> failed st = false ->
    failed (snd (run_from (i, st) (p ++ q))) = false ->
    run_from (i, st) (p ++ q) = run_from (i + length p, st) q.
  Proof.
    induction p as [|o p IH]; intros q i st Hp Hf Hok.
    - simpl. rewrite Nat.add_0_r. reflexivity.
    - simpl in Hp. apply andb_true_iff in Hp. destruct Hp as [Ho Hp].
      simpl app in *. rewrite run_from_cons, step_cases, Hf in *.
      destruct (fallible o && faults i) eqn:E.
      + rewrite run_failed in Hok by reflexivity. simpl in Hok. discriminate.
      + assert (He : eff st o = st) by (destruct o; simpl in Ho; try discriminate; reflexivity).
        rewrite He in *. rewrite IH by assumption. simpl. rewrite Nat.add_succ_r. reflexivity.
  Qed.

  Theorem main_success_file : forall pa rc rc' file0,
    forallb pure_op pa = true -> rc = rc' ++ [BuildText] -> forallb pure_op rc' = true ->
    failed (run_ops full faults (main_ops pa rc true) file0) = false ->
    file (run_ops full faults (main_ops pa rc true) file0) = Some full /\
    stdout (run_ops full faults (main_ops pa rc true) file0) = [MSG].
  Proof.
    intros pa rc rc' file0 Hpa -> Hrc. rewrite main_ops_shape, run_ops_from. intros Hok.
    rewrite pure_run in * by (assumption || reflexivity).
    rewrite pure_run in * by (assumption || reflexivity).
    set (n := 0 + length pa + length rc') in *. clearbody n.
    cbv iota in *. unfold run_from in *. cbn [fold_left app] in *. rewrite !step_cases in *.
    cbn [failed st0 fallible andb] in *.
    destruct (faults n); [simpl in Hok; discriminate|].
    cbn [eff failed] in *.
    destruct (faults (S n)); [simpl in Hok; discriminate|].
    simpl. auto.
  Qed.

  Theorem main_success_stdout : forall pa rc rc' file0,
    forallb pure_op pa = true -> rc = rc' ++ [BuildText] -> forallb pure_op rc' = true ->
    failed (run_ops full faults (main_ops pa rc false) file0) = false ->
    file (run_ops full faults (main_ops pa rc false) file0) = file0 /\
    stdout (run_ops full faults (main_ops pa rc false) file0) = [full].
  Proof.
    intros pa rc rc' file0 Hpa -> Hrc. rewrite main_ops_shape, run_ops_from. intros Hok.
    rewrite pure_run in * by (assumption || reflexivity).
    rewrite pure_run in * by (assumption || reflexivity).
    set (n := 0 + length pa + length rc') in *. clearbody n.
    cbv iota in *. unfold run_from in *. cbn [fold_left app] in *. rewrite !step_cases in *.
    cbn [failed st0 fallible andb] in *.
    destruct (faults n); [simpl in Hok; discriminate|].
    simpl. auto.
  Qed.

  (* C17 in one statement, for both paths through main() *)
  Theorem C17_main : forall pa rc rc' b file0,
    forallb pure_op pa = true -> rc = rc' ++ [BuildText] -> forallb pure_op rc' = true ->
    let st := run_ops full faults (main_ops pa rc b) file0 in
    if failed st then file st = file0 /\ stdout st = []
    else if b then file st = Some full /\ stdout st = [MSG]
         else file st = file0 /\ stdout st = [full].
  Proof.
    intros pa rc rc' b file0 Hpa Hrc Hrc'. cbv zeta.
    destruct (failed (run_ops full faults (main_ops pa rc b) file0)) eqn:E.
    - apply atomic_failure; [eapply main_ops_atomic; eauto | exact E].
    - destruct b; [eapply main_success_file | eapply main_success_stdout]; eauto.
  Qed.
  (* ---- what the other two conjuncts of atomicb buy: on success of ANY atomic list the file is either untouched
     (no WriteAll in the list) or holds the complete text, and everything printed is the text or the message ---- *)
  Definition is_write (o : op) : bool := match o with WriteAll => true | _ => false end.
  Definition good_line (s : str) : Prop := s = full \/ s = MSG.

  Lemma atomic_success_from : forall ops i st built,
    built_before_open ops built = true -> open_then_write ops = true -> failed st = false ->
    (built = true -> text st = Some full /\ (ret st = Some full \/ ret st = Some MSG)) ->
    Forall good_line (stdout st) ->
    failed (snd (run_from (i, st) ops)) = false ->
    file (snd (run_from (i, st) ops)) = (if existsb is_write ops then Some full else file st) /\
    Forall good_line (stdout (snd (run_from (i, st) ops))).
  Proof.
    induction ops as [|o r IH]; intros i st built Hb Ho Hf Ht Hs Hok.
    - simpl. auto.
    - rewrite run_from_cons, step_cases, Hf in *.
      destruct (fallible o && faults i) eqn:E.
      { rewrite run_failed in Hok by reflexivity. simpl in Hok. discriminate. }
      pose proof (eff_not_failed st o Hf) as Hf'.
      destruct o; simpl existsb; simpl orb.
      1-6: simpl in Hb, Ho; simpl eff in *; eapply IH; eauto.
      + (* BuildText *)
        simpl in Hb, Ho.
        assert (Ht' : true = true -> text (eff st BuildText) = Some full /\
                      (ret (eff st BuildText) = Some full \/ ret (eff st BuildText) = Some MSG))
          by (intros _; simpl; auto).
        exact (IH (S i) (eff st BuildText) true Hb Ho Hf' Ht' Hs Hok).
      + (* OpenTruncate *)
        simpl in Hb. apply andb_true_iff in Hb. destruct Hb as [Hbt Hb]. subst built.
        destruct r as [|o2 r']; [simpl in Ho; discriminate|].
        destruct o2; simpl in Ho; try discriminate.
        destruct (IH (S i) (eff st OpenTruncate) true Hb Ho Hf' Ht Hs Hok) as [H1 H2].
        split; [|exact H2]. rewrite H1. reflexivity.
      + (* WriteAll *)
        simpl in Hb, Ho. apply andb_true_iff in Hb. destruct Hb as [Hbt Hb]. subst built.
        destruct (Ht eq_refl) as [Htx Hret].
        destruct (IH (S i) (eff st WriteAll) true Hb Ho Hf' Ht Hs Hok) as [H1 H2].
        split; [|exact H2]. rewrite H1. simpl. rewrite Htx. destruct (existsb is_write r); reflexivity.
      + (* ReturnMsg *)
        simpl in Hb, Ho.
        assert (Ht' : built = true -> text (eff st ReturnMsg) = Some full /\
                      (ret (eff st ReturnMsg) = Some full \/ ret (eff st ReturnMsg) = Some MSG))
          by (intros Hbt; destruct (Ht Hbt); simpl; auto).
        exact (IH (S i) (eff st ReturnMsg) built Hb Ho Hf' Ht' Hs Hok).
      + (* Print *)
        simpl in Hb, Ho. apply andb_true_iff in Hb. destruct Hb as [Hbt Hb]. subst built.
        destruct (Ht eq_refl) as [Htx Hret].
        assert (Hs' : Forall good_line (stdout (eff st Print))).
        { simpl. apply Forall_app. split; [exact Hs|].
          destruct Hret as [-> | ->]; constructor; unfold good_line; auto. }
        exact (IH (S i) (eff st Print) true Hb Ho Hf' Ht Hs' Hok).
  Qed.

  Theorem atomic_success : forall ops file0,
    atomicb ops = true ->
    failed (run_ops full faults ops file0) = false ->
    file (run_ops full faults ops file0) = (if existsb is_write ops then Some full else file0) /\
    Forall good_line (stdout (run_ops full faults ops file0)).
  Proof.
    intros ops file0 Ha Hok. unfold atomicb in Ha. apply andb_true_iff in Ha. destruct Ha as [Ha H3].
    apply andb_true_iff in Ha. destruct Ha as [_ H2]. rewrite run_ops_from in *.
    apply (atomic_success_from ops O (st0 file0) false H2 H3 eq_refl); [discriminate | constructor | exact Hok].
  Qed.
End Atomic.

(* ---- (A3) the reordered variant: open the file, then generate ---- *)
Definition reordered_ops : list op :=
  [ParseArgv; MutateDefaultRegistry; LoadSamples; Validate; SetArgs; OpenTruncate; Generate; BuildText;
   WriteAll; ReturnMsg; Print].
Example reordered_refuted : forall full old,
  atomicb reordered_ops = false /\
  exists faults,
    failed (run_ops full faults reordered_ops (Some old)) = true /\
    file (run_ops full faults reordered_ops (Some old)) = Some [].
Proof.
  intros full old. split; [vm_compute; reflexivity|].
  exists (fun i => Nat.eqb i 7). vm_compute. auto.
Qed.
(* same list, Generate itself raising *)
Example reordered_refuted_generate : forall full old,
  failed (run_ops full (fun i => Nat.eqb i 6) reordered_ops (Some old)) = true /\
  file (run_ops full (fun i => Nat.eqb i 6) reordered_ops (Some old)) = Some [].
Proof. intros. vm_compute. auto. Qed.

(* the second and third conjunct of atomicb are what atomic_success needs: without them a run can SUCCEED and yet
   leave an empty / deleted file *)
Example write_before_build_refuted : forall full old,
  no_effect_before_fallible [Validate; WriteAll; Print] = true /\
  built_before_open [Validate; WriteAll; Print] false = false /\
  failed (run_ops full (fun _ => false) [Validate; WriteAll; Print] (Some old)) = false /\
  file (run_ops full (fun _ => false) [Validate; WriteAll; Print] (Some old)) = None.
Proof. intros. vm_compute. auto. Qed.
Example open_without_write_refuted : forall full old,
  no_effect_before_fallible [BuildText; OpenTruncate; ReturnMsg; Print] = true /\
  open_then_write [BuildText; OpenTruncate; ReturnMsg; Print] = false /\
  failed (run_ops full (fun _ => false) [BuildText; OpenTruncate; ReturnMsg; Print] (Some old)) = false /\
  file (run_ops full (fun _ => false) [BuildText; OpenTruncate; ReturnMsg; Print] (Some old)) = Some [].
Proof. intros. vm_compute. auto. Qed.

(* ============================================================================================================ *)
(* (B) sample assembly                                                                                         *)
(* ============================================================================================================ *)
Lemma str_eqb_refl : forall a, str_eqb a a = true.
Proof. intros a. unfold str_eqb. destruct (list_eq_dec N.eq_dec a a); congruence. Qed.
Lemma str_eqb_eq : forall a b, str_eqb a b = true <-> a = b.
Proof. intros a b. unfold str_eqb. destruct (list_eq_dec N.eq_dec a b); split; congruence. Qed.
Lemma str_eqb_neq : forall a b, str_eqb a b = false <-> a <> b.
Proof. intros a b. unfold str_eqb. destruct (list_eq_dec N.eq_dec a b); split; congruence. Qed.
Lemma str_eqb_sym : forall a b, str_eqb a b = str_eqb b a.
Proof.
  intros a b. destruct (str_eqb a b) eqn:E.
  - apply str_eqb_eq in E. subst. symmetry. apply str_eqb_refl.
  - apply str_eqb_neq in E. symmetry. apply str_eqb_neq. congruence.
Qed.

(* ---- (B2) dict_lookup ---- *)
Lemma dict_lookup_S : forall f d lk,
  dict_lookup (S f) d lk =
  match lk with
  | [] => Some d
  | _ => if str_eqb lk DASH then Some d
         else match split_dot lk with
              | (k, None) => jget d k
              | (k, Some rest) => match jget d k with Some d' => dict_lookup f d' rest | None => None end
              end
  end.
Proof. reflexivity. Qed.

(* the two stopping cases of the while loop *)
Lemma dict_lookup_empty : forall f d, dict_lookup f d [] = Some d.
Proof. destruct f; reflexivity. Qed.
Lemma dict_lookup_dash : forall f d, dict_lookup f d DASH = Some d.
Proof. destruct f; reflexivity. Qed.

Definition nodot (k : str) : bool := forallb (fun c => negb (N.eqb c DOT)) k.

Lemma split_dot_nodot : forall k, nodot k = true -> split_dot k = (k, None).
Proof.
  induction k as [|c k IH]; intros H; [reflexivity|].
  simpl in H. apply andb_true_iff in H. destruct H as [Hc Hk]. apply negb_true_iff in Hc.
  simpl. rewrite Hc, (IH Hk). reflexivity.
Qed.
Lemma split_dot_app : forall k rest, nodot k = true -> split_dot (k ++ DOT :: rest) = (k, Some rest).
Proof.
  induction k as [|c k IH]; intros rest H.
  - reflexivity.
  - simpl in H. apply andb_true_iff in H. destruct H as [Hc Hk]. apply negb_true_iff in Hc.
    simpl. rewrite Hc, (IH rest Hk). reflexivity.
Qed.
Lemma split_dot_length : forall s k rest, split_dot s = (k, Some rest) -> length rest < length s.
Proof.
  induction s as [|c s IH]; intros k rest H; simpl in H; [discriminate|].
  destruct (N.eqb c DOT).
  - inversion H. subst. simpl. lia.
  - destruct (split_dot s) as [a b] eqn:E. inversion H. subst.
    specialize (IH a rest eq_refl). simpl. lia.
Qed.

Lemma dotted_not_dash : forall k rest, str_eqb (k ++ DOT :: rest) DASH = false.
Proof.
  intros k rest. apply str_eqb_neq. unfold DASH, DOT. intro H.
  destruct k as [|c [|c' k]]; simpl in H; discriminate.
Qed.

(* one step of a dotted lookup.  No side condition on k besides being dot-free: k may be empty ("a..b" and ".a"
   look up the key "") and may be "-" ("-.a" looks up the key "-"; only the WHOLE remaining lookup "-" stops). *)
Theorem dict_lookup_dotted : forall f d k rest, nodot k = true ->
  dict_lookup (S f) d (k ++ [DOT] ++ rest) =
  match jget d k with Some d' => dict_lookup f d' rest | None => None end.
Proof.
  intros f d k rest Hk. rewrite dict_lookup_S. simpl app.
  rewrite dotted_not_dash, split_dot_app by assumption.
  destruct (k ++ DOT :: rest) eqn:E; [destruct k; discriminate | reflexivity].
Qed.

(* the last component *)
Theorem dict_lookup_plain : forall f d k, nodot k = true -> k <> [] -> k <> DASH ->
  dict_lookup (S f) d k = jget d k.
Proof.
  intros f d k Hk Hne Hnd. rewrite dict_lookup_S.
  apply str_eqb_neq in Hnd. rewrite Hnd, split_dot_nodot by assumption.
  destruct k; [contradiction | reflexivity].
Qed.

(* enough fuel is enough: the result does not depend on the fuel once it exceeds the length of the lookup *)
Theorem dict_lookup_fuel : forall f1 f2 d lk, length lk < f1 -> length lk < f2 ->
  dict_lookup f1 d lk = dict_lookup f2 d lk.
Proof.
  induction f1 as [|f1 IH]; intros f2 d lk H1 H2; [lia|].
  destruct f2 as [|f2]; [lia|].
  rewrite !dict_lookup_S. destruct lk as [|c lk']; [reflexivity|].
  set (lk := c :: lk') in *.
  destruct (str_eqb lk DASH); [reflexivity|].
  destruct (split_dot lk) as [k [rest|]] eqn:E; [|reflexivity].
  destruct (jget d k) as [d'|]; [|reflexivity].
  apply split_dot_length in E. apply IH; lia.
Qed.
Corollary iter_json_file_fuel : forall f d lk, length lk < f ->
  dict_lookup f d lk = dict_lookup (S (length lk)) d lk.
Proof. intros. apply dict_lookup_fuel; lia. Qed.
Corollary iter_json_file_any_fuel : forall f d lk, length lk < f ->
  iter_json_file d lk = match dict_lookup f d lk with
                        | Some (JArr l) => Some l
                        | Some (JObj o) => Some [JObj o]
                        | _ => None
                        end.
Proof. intros f d lk H. unfold iter_json_file. rewrite (iter_json_file_fuel f d lk H). reflexivity. Qed.

(* ---- (B1) iter_json_file ---- *)
Theorem iter_list : forall l, iter_json_file (JArr l) DASH = Some l.
Proof. reflexivity. Qed.
Theorem iter_obj : forall o, iter_json_file (JObj o) DASH = Some [JObj o].
Proof. reflexivity. Qed.
Theorem iter_list_empty : forall l, iter_json_file (JArr l) [] = Some l.
Proof. reflexivity. Qed.
Theorem iter_obj_empty : forall o, iter_json_file (JObj o) [] = Some [JObj o].
Proof. reflexivity. Qed.
Definition is_container (d : json) : bool := match d with JArr _ | JObj _ => true | _ => false end.
Theorem iter_scalar : forall d, is_container d = false ->
  iter_json_file d DASH = None /\ iter_json_file d [] = None.
Proof. intros d H. destruct d; simpl in H; try discriminate; split; reflexivity. Qed.
(* a dotted lookup selects a sub-document of an object *)
Theorem iter_dotted : forall o k rest, nodot k = true ->
  iter_json_file (JObj o) (k ++ [DOT] ++ rest) =
  match lookup k o with Some d' => iter_json_file d' rest | None => None end.
Proof.
  intros o k rest Hk. unfold iter_json_file at 1. rewrite dict_lookup_dotted by assumption. simpl jget.
  destruct (lookup k o) as [d'|]; [|reflexivity].
  rewrite (iter_json_file_any_fuel (length (k ++ [DOT] ++ rest)) d' rest); [reflexivity|].
  rewrite !app_length. simpl. lia.
Qed.
Theorem iter_key : forall o k, nodot k = true -> k <> [] -> k <> DASH ->
  iter_json_file (JObj o) k =
  match lookup k o with Some (JArr l) => Some l | Some (JObj o') => Some [JObj o'] | _ => None end.
Proof. intros o k H1 H2 H3. unfold iter_json_file. rewrite dict_lookup_plain by assumption. reflexivity. Qed.

(* ---- association lists ---- *)
Lemma lookup_update_same : forall A (k : str) (v : A) d, lookup k (update k v d) = Some v.
Proof.
  intros A k v. induction d as [|[k' t'] r IH]; simpl.
  - rewrite str_eqb_refl. reflexivity.
  - destruct (str_eqb k k') eqn:E; simpl; rewrite E; [reflexivity | exact IH].
Qed.
Lemma lookup_update_other : forall A (k k2 : str) (v : A) d, k <> k2 -> lookup k2 (update k v d) = lookup k2 d.
Proof.
  intros A k k2 v d Hne. induction d as [|[k' t'] r IH]; simpl.
  - apply str_eqb_neq in Hne. rewrite str_eqb_sym, Hne. reflexivity.
  - destruct (str_eqb k k') eqn:E; simpl.
    + apply str_eqb_eq in E. subst k'.
      assert (E2 : str_eqb k2 k = false) by (apply str_eqb_neq; congruence). rewrite E2. reflexivity.
    + rewrite IH. reflexivity.
Qed.
Lemma update_update : forall A (k : str) (v1 v2 : A) d, update k v2 (update k v1 d) = update k v2 d.
Proof.
  intros A k v1 v2. induction d as [|[k' t'] r IH]; simpl.
  - rewrite str_eqb_refl. reflexivity.
  - destruct (str_eqb k k') eqn:E; simpl; rewrite E; [reflexivity | rewrite IH; reflexivity].
Qed.
Lemma lookup_app : forall A (k : str) (d e : list (str * A)),
  lookup k (d ++ e) = match lookup k d with Some v => Some v | None => lookup k e end.
Proof.
  intros A k d e. induction d as [|[k' t'] r IH]; simpl; [reflexivity|].
  destruct (str_eqb k k'); [reflexivity | exact IH].
Qed.
Lemma update_app_none : forall A (k : str) (v v' : A) d, lookup k d = None ->
  update k v' (d ++ [(k, v)]) = d ++ [(k, v')].
Proof.
  intros A k v v'. induction d as [|[k' t'] r IH]; simpl; intros H.
  - rewrite str_eqb_refl. reflexivity.
  - destruct (str_eqb k k'); [discriminate|]. rewrite IH by assumption. reflexivity.
Qed.

(* extending twice = extending once with the concatenation (also when x is empty: the entry is created by the
   first extend in both cases, so even the ORDER of the names cannot differ) *)
Lemma add_samples_app : forall d n x y, add_samples (add_samples d n x) n y = add_samples d n (x ++ y).
Proof.
  intros d n x y. unfold add_samples at 2 3. destruct (lookup n d) as [old|] eqn:E.
  - unfold add_samples. rewrite lookup_update_same, update_update, app_assoc. reflexivity.
  - unfold add_samples. rewrite lookup_app, E. simpl. rewrite str_eqb_refl.
    apply update_app_none. exact E.
Qed.

(* ---- the inner loop over the files of one argument, as a function of its own ---- *)
Definition files_from (nm lk : str) :=
  fix files (d : list (str * list json)) (docs : list json) : option (list (str * list json)) :=
    match docs with
    | [] => Some d
    | doc :: rest => match iter_json_file doc lk with
                     | Some xs => files (add_samples d nm xs) rest
                     | None => None
                     end
    end.

Lemma assemble_from_cons : forall d a r,
  assemble_from d (a :: r) =
  match files_from (a_name a) (a_lookup a) d (a_docs a) with
  | Some d' => assemble_from d' r
  | None => None
  end.
Proof. reflexivity. Qed.
Lemma files_from_cons : forall nm lk d doc rest,
  files_from nm lk d (doc :: rest) =
  match iter_json_file doc lk with
  | Some xs => files_from nm lk (add_samples d nm xs) rest
  | None => None
  end.
Proof. reflexivity. Qed.
Lemma files_from_app : forall nm lk d1 d2 d,
  files_from nm lk d (d1 ++ d2) =
  match files_from nm lk d d1 with Some d' => files_from nm lk d' d2 | None => None end.
Proof.
  intros nm lk. induction d1 as [|doc r IH]; intros d2 d; [reflexivity|].
  simpl app. rewrite !files_from_cons. destruct (iter_json_file doc lk); [apply IH | reflexivity].
Qed.
Lemma assemble_from_app : forall a b d,
  assemble_from d (a ++ b) =
  match assemble_from d a with Some d' => assemble_from d' b | None => None end.
Proof.
  induction a as [|x a IH]; intros b d; [reflexivity|].
  simpl app. rewrite !assemble_from_cons.
  destruct (files_from (a_name x) (a_lookup x) d (a_docs x)); [apply IH | reflexivity].
Qed.

(* ---- (B3) several arguments or one ---- *)
Theorem assemble_split_docs : forall d n lk d1 d2 r,
  assemble_from d ({| a_name := n; a_lookup := lk; a_docs := d1 ++ d2 |} :: r) =
  assemble_from d ({| a_name := n; a_lookup := lk; a_docs := d1 |}
                   :: {| a_name := n; a_lookup := lk; a_docs := d2 |} :: r).
Proof.
  intros. rewrite !assemble_from_cons. simpl. rewrite files_from_app.
  destruct (files_from n lk d d1); reflexivity.
Qed.

(* ---- (B4) one file holding x ++ y or two files holding x and y ---- *)
(* general form: any lookup, any three documents whose sample lists are x ++ y, x and y; anywhere in the
   argument list; the WHOLE result (sample lists and order of names) is equal *)
Theorem assemble_split_list_gen : forall d pre n lk docs1 docs2 D D1 D2 x y r,
  iter_json_file D lk = Some (x ++ y) -> iter_json_file D1 lk = Some x -> iter_json_file D2 lk = Some y ->
  assemble_from d (pre ++ {| a_name := n; a_lookup := lk; a_docs := docs1 ++ D :: docs2 |} :: r) =
  assemble_from d (pre ++ {| a_name := n; a_lookup := lk; a_docs := docs1 ++ D1 :: D2 :: docs2 |} :: r).
Proof.
  intros d pre n lk docs1 docs2 D D1 D2 x y r H H1 H2.
  rewrite !assemble_from_app. destruct (assemble_from d pre) as [d0|]; [|reflexivity].
  rewrite !assemble_from_cons. simpl. rewrite !files_from_app.
  destruct (files_from n lk d0 docs1) as [d1|]; [|reflexivity].
  rewrite !files_from_cons, H, H1, files_from_cons, H2, add_samples_app. reflexivity.
Qed.
Theorem assemble_split_list : forall d pre n docs1 docs2 x y r,
  assemble_from d (pre ++ {| a_name := n; a_lookup := DASH; a_docs := docs1 ++ JArr (x ++ y) :: docs2 |} :: r) =
  assemble_from d (pre ++ {| a_name := n; a_lookup := DASH; a_docs := docs1 ++ JArr x :: JArr y :: docs2 |} :: r).
Proof. intros. eapply assemble_split_list_gen; apply iter_list. Qed.
Corollary assemble_split_list_lookup : forall models lists models' n docs1 docs2 x y name,
  models = models' ++ [{| a_name := n; a_lookup := DASH; a_docs := docs1 ++ JArr (x ++ y) :: docs2 |}] ->
  match assemble models lists,
        assemble (models' ++ [{| a_name := n; a_lookup := DASH; a_docs := docs1 ++ JArr x :: JArr y :: docs2 |}]) lists
  with
  | Some r1, Some r2 => lookup name r1 = lookup name r2
  | None, None => True
  | _, _ => False
  end.
Proof.
  intros models lists models' n docs1 docs2 x y name ->. unfold assemble. rewrite <- !app_assoc. simpl app.
  rewrite assemble_split_list. destruct (assemble_from _ _); auto.
Qed.

(* ---- (B5) the samples of one name: concatenation in argument order ---- *)
Definition doc_samples (lk : str) (doc : json) : list json :=
  match iter_json_file doc lk with Some xs => xs | None => [] end.
Definition arg_samples (a : marg) : list json := flat_map (doc_samples (a_lookup a)) (a_docs a).
Definition samples_of (n : str) (args : list marg) : list json :=
  flat_map (fun a => if str_eqb (a_name a) n then arg_samples a else []) args.
Definition has_docs (a : marg) : bool := match a_docs a with [] => false | _ => true end.
(* the name has an entry at all: some argument with this name matched at least one file *)
Definition touched (n : str) (args : list marg) : bool :=
  existsb (fun a => str_eqb (a_name a) n && has_docs a) args.

Definition ext (o : option (list json)) (b : bool) (xs : list json) : option (list json) :=
  match o with
  | Some old => Some (old ++ xs)
  | None => if b then Some xs else None
  end.
Lemma ext_ext : forall o b1 x1 b2 x2, (b1 = false -> x1 = []) ->
  ext (ext o b1 x1) b2 x2 = ext o (b1 || b2) (x1 ++ x2).
Proof.
  intros o b1 x1 b2 x2 H. destruct o as [old|]; simpl.
  - rewrite app_assoc. reflexivity.
  - destruct b1; simpl; [reflexivity|]. rewrite (H eq_refl). reflexivity.
Qed.
Lemma ext_nil : forall o, ext o false [] = o.
Proof. destruct o; simpl; [rewrite app_nil_r|]; reflexivity. Qed.

Lemma lookup_add_samples : forall d m xs n,
  lookup n (add_samples d m xs) = if str_eqb m n then ext (lookup n d) true xs else lookup n d.
Proof.
  intros d m xs n. unfold add_samples. destruct (str_eqb m n) eqn:E.
  - apply str_eqb_eq in E. subst m. destruct (lookup n d) as [old|] eqn:El.
    + rewrite lookup_update_same. reflexivity.
    + rewrite lookup_app, El. simpl. rewrite str_eqb_refl. reflexivity.
  - apply str_eqb_neq in E. destruct (lookup m d) as [old|] eqn:El.
    + apply lookup_update_other. exact E.
    + rewrite lookup_app. destruct (lookup n d); [reflexivity|]. simpl.
      assert (E2 : str_eqb n m = false) by (apply str_eqb_neq; congruence). rewrite E2. reflexivity.
Qed.

Lemma files_from_lookup : forall nm lk n docs d d',
  files_from nm lk d docs = Some d' ->
  lookup n d' = if str_eqb nm n
                then ext (lookup n d) (match docs with [] => false | _ => true end) (flat_map (doc_samples lk) docs)
                else lookup n d.
Proof.
  intros nm lk n. induction docs as [|doc rest IH]; intros d d' H.
  - inversion H. subst. simpl. rewrite ext_nil. destruct (str_eqb nm n); reflexivity.
  - rewrite files_from_cons in H. destruct (iter_json_file doc lk) as [xs|] eqn:Ei; [|discriminate].
    rewrite (IH _ _ H), lookup_add_samples. destruct (str_eqb nm n); [|reflexivity].
    rewrite ext_ext by discriminate. simpl. unfold doc_samples at 2. rewrite Ei. reflexivity.
Qed.

Theorem assemble_from_lookup : forall n args d res,
  assemble_from d args = Some res ->
  lookup n res = ext (lookup n d) (touched n args) (samples_of n args).
Proof.
  intros n. induction args as [|a r IH]; intros d res H.
  - inversion H. subst. simpl. rewrite ext_nil. reflexivity.
  - rewrite assemble_from_cons in H.
    destruct (files_from (a_name a) (a_lookup a) d (a_docs a)) as [d1|] eqn:Ef; [|discriminate].
    rewrite (IH _ _ H), (files_from_lookup _ _ n _ _ _ Ef). simpl. unfold has_docs, arg_samples.
    destruct (str_eqb (a_name a) n); simpl; [|reflexivity].
    apply ext_ext. destruct (a_docs a); [reflexivity | discriminate].
Qed.

Lemma samples_of_app : forall n a b, samples_of n (a ++ b) = samples_of n a ++ samples_of n b.
Proof. intros. unfold samples_of. apply flat_map_app. Qed.
Lemma touched_app : forall n a b, touched n (a ++ b) = touched n a || touched n b.
Proof. intros. unfold touched. apply existsb_app. Qed.

(* (B5): all `models` arguments first, then all `lists` arguments.  The entry exists iff some argument of that
   name matched at least one file (a name all of whose patterns match nothing has NO entry, not an empty one). *)
Theorem assemble_order : forall models lists res n,
  assemble models lists = Some res ->
  lookup n res = if touched n models || touched n lists
                 then Some (samples_of n models ++ samples_of n lists)
                 else None.
Proof.
  intros models lists res n H. unfold assemble in H.
  rewrite (assemble_from_lookup n _ _ _ H), touched_app, samples_of_app. reflexivity.
Qed.

(* arguments with other names do not matter *)
Theorem samples_of_other_names : forall n args,
  samples_of n args = samples_of n (filter (fun a => str_eqb (a_name a) n) args) /\
  touched n args = touched n (filter (fun a => str_eqb (a_name a) n) args).
Proof.
  intros n. induction args as [|a r [IH1 IH2]]; [split; reflexivity|].
  simpl. destruct (str_eqb (a_name a) n) eqn:E; simpl; rewrite ?E; simpl; rewrite <- ?IH1, <- ?IH2; auto.
Qed.
Theorem samples_of_flat : forall n args,
  samples_of n args = flat_map arg_samples (filter (fun a => str_eqb (a_name a) n) args).
Proof.
  intros n. induction args as [|a r IH]; [reflexivity|].
  simpl. destruct (str_eqb (a_name a) n); simpl; rewrite IH; reflexivity.
Qed.

(* ---- the ORDER of the names in the result: first touch (a name is touched by the first matched file) ---- *)
Definition add_key (ks : list str) (n : str) : list str := if existsb (str_eqb n) ks then ks else ks ++ [n].
Definition keys_from (ks : list str) (args : list marg) : list str :=
  fold_left (fun ks a => if has_docs a then add_key ks (a_name a) else ks) args ks.

Lemma map_fst_update : forall A (k : str) (v : A) d, lookup k d <> None -> map fst (update k v d) = map fst d.
Proof.
  intros A k v. induction d as [|[k' t'] r IH]; simpl; intros H; [congruence|].
  destruct (str_eqb k k'); simpl; [reflexivity|]. rewrite IH by assumption. reflexivity.
Qed.
Lemma lookup_none_keys : forall A (k : str) (d : list (str * A)),
  existsb (str_eqb k) (map fst d) = match lookup k d with Some _ => true | None => false end.
Proof.
  intros A k. induction d as [|[k' t'] r IH]; simpl; [reflexivity|].
  destruct (str_eqb k k'); simpl; [reflexivity | exact IH].
Qed.
Lemma keys_add_samples : forall d n xs, map fst (add_samples d n xs) = add_key (map fst d) n.
Proof.
  intros d n xs. unfold add_samples, add_key. rewrite lookup_none_keys.
  destruct (lookup n d) eqn:E.
  - apply map_fst_update. congruence.
  - rewrite map_app. reflexivity.
Qed.
Lemma add_key_idem : forall ks n, add_key (add_key ks n) n = add_key ks n.
Proof.
  intros ks n. unfold add_key at 2 3. destruct (existsb (str_eqb n) ks) eqn:E.
  - unfold add_key. rewrite E. reflexivity.
  - unfold add_key. rewrite existsb_app. simpl. rewrite str_eqb_refl, orb_true_r. reflexivity.
Qed.
Lemma files_from_keys : forall nm lk docs d d', files_from nm lk d docs = Some d' ->
  map fst d' = match docs with [] => map fst d | _ => add_key (map fst d) nm end.
Proof.
  intros nm lk. induction docs as [|doc rest IH]; intros d d' H.
  - inversion H. reflexivity.
  - rewrite files_from_cons in H. destruct (iter_json_file doc lk) as [xs|]; [|discriminate].
    rewrite (IH _ _ H), keys_add_samples. destruct rest; [reflexivity | apply add_key_idem].
Qed.
Theorem assemble_from_keys : forall args d res, assemble_from d args = Some res ->
  map fst res = keys_from (map fst d) args.
Proof.
  induction args as [|a r IH]; intros d res H.
  - inversion H. reflexivity.
  - rewrite assemble_from_cons in H.
    destruct (files_from (a_name a) (a_lookup a) d (a_docs a)) as [d1|] eqn:Ef; [|discriminate].
    rewrite (IH _ _ H), (files_from_keys _ _ _ _ _ Ef). unfold keys_from. simpl. unfold has_docs.
    destruct (a_docs a); reflexivity.
Qed.
Theorem assemble_keys : forall models lists res, assemble models lists = Some res ->
  map fst res = keys_from [] (models ++ lists).
Proof. intros models lists res H. apply (assemble_from_keys _ [] res H). Qed.

(* ---- (B6) failure ---- *)
Definition doc_ok (lk : str) (doc : json) : bool :=
  match iter_json_file doc lk with Some _ => true | None => false end.
Definition arg_ok (a : marg) : bool := forallb (doc_ok (a_lookup a)) (a_docs a).
Definition all_ok (args : list marg) : bool := forallb arg_ok args.

Lemma files_from_ok : forall nm lk docs d,
  if forallb (doc_ok lk) docs then exists d', files_from nm lk d docs = Some d'
  else files_from nm lk d docs = None.
Proof.
  intros nm lk. induction docs as [|doc rest IH]; intros d.
  - simpl. eauto.
  - rewrite files_from_cons. simpl. unfold doc_ok at 1.
    destruct (iter_json_file doc lk) as [xs|]; simpl; [apply IH | reflexivity].
Qed.
Lemma assemble_from_ok : forall args d,
  if all_ok args then exists res, assemble_from d args = Some res else assemble_from d args = None.
Proof.
  induction args as [|a r IH]; intros d.
  - simpl. eauto.
  - rewrite assemble_from_cons. unfold all_ok in *. simpl. unfold arg_ok at 1.
    pose proof (files_from_ok (a_name a) (a_lookup a) (a_docs a) d) as Hf.
    destruct (forallb (doc_ok (a_lookup a)) (a_docs a)); simpl.
    + destruct Hf as [d' ->]. apply IH.
    + rewrite Hf. reflexivity.
Qed.

Theorem assemble_failure_b : forall models lists,
  assemble models lists = None <-> all_ok (models ++ lists) = false.
Proof.
  intros models lists. unfold assemble.
  pose proof (assemble_from_ok (models ++ lists) []) as H.
  destruct (all_ok (models ++ lists)).
  - destruct H as [res ->]. split; discriminate.
  - rewrite H. split; reflexivity.
Qed.

Lemma forallb_false_ex : forall A (f : A -> bool) l, forallb f l = false -> exists x, In x l /\ f x = false.
Proof.
  intros A f. induction l as [|x r IH]; simpl; intros H; [discriminate|].
  destruct (f x) eqn:E; [|exists x; auto].
  destruct (IH H) as (y & Hy & Hf). exists y. auto.
Qed.

Theorem assemble_failure : forall models lists,
  assemble models lists = None <->
  exists a doc, In a (models ++ lists) /\ In doc (a_docs a) /\ iter_json_file doc (a_lookup a) = None.
Proof.
  intros models lists. rewrite assemble_failure_b. unfold all_ok. split.
  - intros H. apply forallb_false_ex in H. destruct H as (a & Hin & Ha).
    unfold arg_ok in Ha. apply forallb_false_ex in Ha. destruct Ha as (doc & Hd & Hdoc).
    exists a, doc. split; [assumption|]. split; [assumption|].
    unfold doc_ok in Hdoc. destruct (iter_json_file doc (a_lookup a)); [discriminate | reflexivity].
  - intros (a & doc & Hin & Hd & Hnone).
    destruct (forallb arg_ok (models ++ lists)) eqn:E; [|reflexivity].
    rewrite forallb_forall in E. specialize (E a Hin). unfold arg_ok in E.
    rewrite forallb_forall in E. specialize (E doc Hd). unfold doc_ok in E. rewrite Hnone in E. discriminate.
Qed.

(* success + order in one statement *)
Theorem assemble_spec : forall models lists, all_ok (models ++ lists) = true ->
  exists res, assemble models lists = Some res /\
    forall n, lookup n res = if touched n models || touched n lists
                             then Some (samples_of n models ++ samples_of n lists) else None.
Proof.
  intros models lists H. destruct (assemble models lists) as [res|] eqn:E.
  - exists res. split; [reflexivity|]. intros n. apply assemble_order. exact E.
  - apply assemble_failure_b in E. congruence.
Qed.

Print Assumptions atomic_failure.
Print Assumptions atomic_failure_strong.
Print Assumptions main_ops_atomic.
Print Assumptions main_success_file.
Print Assumptions main_success_stdout.
Print Assumptions C17_main.
Print Assumptions atomic_success.
Print Assumptions reordered_refuted.
Print Assumptions iter_list.
Print Assumptions iter_obj.
Print Assumptions iter_scalar.
Print Assumptions iter_dotted.
Print Assumptions dict_lookup_dotted.
Print Assumptions dict_lookup_plain.
Print Assumptions dict_lookup_fuel.
Print Assumptions assemble_split_docs.
Print Assumptions assemble_split_list_gen.
Print Assumptions assemble_split_list.
Print Assumptions assemble_order.
Print Assumptions assemble_failure.
Print Assumptions assemble_keys.
Print Assumptions assemble_spec.
