(* Proofs/Closure.v — C05: the group-closure loop of ModelRegistry.merge_models
   (Model/Groups.v) computes exactly the connected components of the similarity graph,
   and terminates within the fuel.  No axioms; stdlib only. *)
From Coq Require Import List Bool Arith Lia Relations Permutation.
From J2M.Model Require Import Groups.
From J2M.Proofs Require Import ClosureAux.
Import ListNotations.

Section C05.
  Variable R : nat -> nat -> bool.

  (* a and b are members of ms and the comparator answered true on the pair, queried
     in registry order (with NoDup ms this also forces a <> b) *)
  Definition edge (ms : list nat) (a b : nat) : Prop :=
    exists l1 l2 l3,
      (ms = l1 ++ a :: l2 ++ b :: l3 /\ R a b = true) \/
      (ms = l1 ++ b :: l2 ++ a :: l3 /\ R b a = true).

  Definition connected (ms : list nat) : nat -> nat -> Prop := clos_refl_trans nat (edge ms).

  Lemma edge_EP ms a b : edge ms a b <-> EP R (combos ms) a b.
  Proof.
    unfold edge, EP. rewrite !in_combos_split. split.
    - intros [l1 [l2 [l3 [[H1 H2] | [H1 H2]]]]]; [left | right]; (split; [exists l1, l2, l3; exact H1 | exact H2]).
    - intros [[[l1 [l2 [l3 H1]]] H2] | [[l1 [l2 [l3 H1]]] H2]]; exists l1, l2, l3; [left | right]; split; assumption.
  Qed.

  Lemma edge_sym ms a b : edge ms a b -> edge ms b a.
  Proof.
    intros [l1 [l2 [l3 [H | H]]]]; exists l1, l2, l3; [right | left]; exact H.
  Qed.

  Lemma split2_props (ms l1 l2 l3 : list nat) a b :
    NoDup ms -> ms = l1 ++ a :: l2 ++ b :: l3 -> In a ms /\ In b ms /\ a <> b.
  Proof.
    intros Hnd ->. split; [| split].
    - apply in_app_iff. right. left. reflexivity.
    - apply in_app_iff. right. right. apply in_app_iff. right. left. reflexivity.
    - intros ->. apply NoDup_remove_2 in Hnd. apply Hnd.
      apply in_app_iff. right. apply in_app_iff. right. left. reflexivity.
  Qed.

  Lemma edge_in ms a b : NoDup ms -> edge ms a b -> In a ms /\ In b ms /\ a <> b.
  Proof.
    intros Hnd [l1 [l2 [l3 [[H _] | [H _]]]]].
    - exact (split2_props _ _ _ _ _ _ Hnd H).
    - destruct (split2_props _ _ _ _ _ _ Hnd H) as [H1 [H2 H3]]. auto.
  Qed.

  Lemma connected_sym ms a b : connected ms a b -> connected ms b a.
  Proof.
    unfold connected. intros H. induction H as [x y H | x | x y z _ IH1 _ IH2].
    - apply rt_step. apply edge_sym. exact H.
    - apply rt_refl.
    - eapply rt_trans; eauto.
  Qed.

  (* ---------------------------------------------------------------- *)
  (* (1) the initial groups                                            *)
  (* ---------------------------------------------------------------- *)

  Definition group_ok (ms g : list nat) : Prop :=
    NoDup g /\ incl g ms /\ 2 <= length g /\
    forall x y, In x g -> In y g -> connected ms x y.

  Theorem groups0_spec ms : NoDup ms ->
    (* every group is k :: neighbours of k, for a k with at least one neighbour *)
    (forall g, In g (groups0 R ms) ->
       exists k v, g = k :: v /\ v <> [] /\ forall b, In b v <-> edge ms k b) /\
    (* one group per such k *)
    NoDup (map (hd 0) (groups0 R ms)) /\
    (* every edge {a,b} lies inside the group of a and inside the group of b *)
    (forall a b, edge ms a b ->
       exists va vb, In (a :: va) (groups0 R ms) /\ In b va /\
                     In (b :: vb) (groups0 R ms) /\ In a vb) /\
    (* every group is a duplicate-free subset of ms with >= 2 members, all connected *)
    (forall g, In g (groups0 R ms) -> group_ok ms g).
  Proof.
    intros Hnd.
    destruct (models2merge_ok R ms) as [K1 [K2 [K3 K4]]].
    assert (P1 : forall g, In g (groups0 R ms) ->
       exists k v, g = k :: v /\ v <> [] /\ forall b, In b v <-> edge ms k b).
    { intros g Hg. unfold groups0 in Hg. apply in_map_iff in Hg.
      destruct Hg as [[k v] [Hg Hin]]. simpl in Hg. subst g.
      pose proof (in_dict_get _ _ _ K1 Hin) as Hv.
      assert (Hk : In k (keys (models2merge R ms))).
      { apply in_map_iff. exists (k, v). split; auto. }
      exists k, v. split; [reflexivity | split].
      - apply K4 in Hk. destruct Hk as [c Hc]. apply K3 in Hc. rewrite <- Hv in Hc.
        intros ->. exact Hc.
      - intros b. rewrite Hv, K3. symmetry. apply edge_EP. }
    split; [exact P1 | split; [| split]].
    - unfold groups0. rewrite map_map. simpl. exact K1.
    - assert (Hhalf : forall a b, edge ms a b ->
         exists va, In (a :: va) (groups0 R ms) /\ In b va).
      { intros a b Hab. apply edge_EP in Hab.
        exists (get (models2merge R ms) a). split.
        - unfold groups0. apply in_map_iff. exists (a, get (models2merge R ms) a). split; auto.
          apply get_in_dict. apply K4. exists b. exact Hab.
        - apply K3. exact Hab. }
      intros a b Hab.
      destruct (Hhalf a b Hab) as [va [H1 H2]].
      destruct (Hhalf b a (edge_sym _ _ _ Hab)) as [vb [H3 H4]].
      exists va, vb. auto.
    - intros g Hg. destruct (P1 g Hg) as [k [v [-> [Hne Hv]]]].
      assert (Hgv : In (k :: v) (groups0 R ms)) by exact Hg.
      unfold groups0 in Hg. apply in_map_iff in Hg.
      destruct Hg as [[k' v'] [Hg Hin]]. simpl in Hg. injection Hg as -> ->.
      pose proof (in_dict_get _ _ _ K1 Hin) as Hv'.
      assert (Hck : forall x, In x (k :: v) -> connected ms x k).
      { intros x [Hkx | Hx]; [subst x; apply rt_refl |].
        apply rt_step. apply edge_sym. apply Hv. exact Hx. }
      split; [| split; [| split]].
      + constructor.
        * intros Hk. apply Hv in Hk. destruct (edge_in _ _ _ Hnd Hk) as [_ [_ Hkk]]. apply Hkk. reflexivity.
        * rewrite Hv'. apply K2.
      + intros x [Hkx | Hx].
        * subst x. destruct v as [| c v]; [contradiction |].
          assert (Hc : edge ms k c) by (apply Hv; left; reflexivity).
          apply (edge_in _ _ _ Hnd Hc).
        * apply Hv in Hx. apply (edge_in _ _ _ Hnd Hx).
      + destruct v; [contradiction | simpl; lia].
      + intros x y Hx Hy. eapply rt_trans; [apply Hck; exact Hx |].
        apply connected_sym. apply Hck. exact Hy.
  Qed.

  (* ---------------------------------------------------------------- *)
  (* (2) one pass preserves the invariant                              *)
  (* ---------------------------------------------------------------- *)

  Definition Inv (ms : list nat) (G : list (list nat)) : Prop :=
    (forall g, In g G -> group_ok ms g) /\
    (forall a b, edge ms a b -> exists g, In g G /\ In a g /\ In b g).

  Lemma groups0_Inv ms : NoDup ms -> Inv ms (groups0 R ms).
  Proof.
    intros Hnd. destruct (groups0_spec ms Hnd) as [_ [_ [H3 H4]]]. split; auto.
    intros a b Hab. destruct (H3 a b Hab) as [va [_ [H1 [H2 _]]]].
    exists (a :: va). split; auto. split; [left; reflexivity | right; exact H2].
  Qed.

  Lemma union_group_ok ms g1 g2 :
    group_ok ms g1 -> group_ok ms g2 -> meets g1 g2 -> group_ok ms (union g1 g2).
  Proof.
    intros [A1 [A2 [A3 A4]]] [B1 [B2 [B3 B4]]] [z [Hz1 Hz2]].
    split; [| split; [| split]].
    - apply NoDup_union; assumption.
    - intros x Hx. apply union_In in Hx. destruct Hx as [Hx | Hx]; auto.
    - pose proof (union_length_ge g1 g2). lia.
    - assert (Hz : forall x, In x (union g1 g2) -> connected ms x z).
      { intros x Hx. apply union_In in Hx. destruct Hx as [Hx | Hx]; auto. }
      intros x y Hx Hy. eapply rt_trans; [apply Hz; exact Hx |].
      apply connected_sym. apply Hz. exact Hy.
  Qed.

  (* what a pass returns, and what its flag means:
     flag = true  iff two groups at different positions intersect;
     flag = false means the INPUT groups are pairwise disjoint (by position), and in that
     case [loop] returns the input groups, not new_groups. *)
  Theorem pass_preserves ms G flag G' :
    Inv ms G -> pass G = (flag, G') ->
    Inv ms G' /\ distinct G' /\
    (flag = false -> pairwise_disjoint G) /\
    (flag = true -> exists i gi j gj,
        nth_error G i = Some gi /\ nth_error G j = Some gj /\ j <> i /\ meets gi gj).
  Proof.
    intros [Hg Hc] Hp. apply pass_ok in Hp.
    destruct Hp as [Pfrom Punion Piso Pdist Pflt Pflf].
    split; [| split; [| split]]; auto.
    split.
    - intros h Hh. destruct (Pfrom h Hh) as [[i [gi [j [gj [H1 [H2 [H3 [H4 ->]]]]]]]] | [i [H1 _]]].
      + apply union_group_ok; auto; apply Hg; eapply nth_error_In; eauto.
      + apply Hg. eapply nth_error_In; eauto.
    - intros a b Hab. destruct (Hc a b Hab) as [g [Hin [Ha Hb]]].
      apply In_nth_error in Hin. destruct Hin as [i Hi].
      destruct (isolated_dec G i g) as [Hiso | [j [gj [Hj [Hne Hm]]]]].
      + destruct (Piso i g Hi Hiso) as [h [Hh1 Hh2]]. apply seteq_spec in Hh2.
        destruct Hh2 as [Hsub _]. exists h. split; auto.
      + destruct (Punion i g j gj Hi Hj Hne Hm) as [h [Hh1 Hh2]]. apply seteq_spec in Hh2.
        destruct Hh2 as [Hsub _]. exists h. split; auto.
        split; apply Hsub; apply union_In; left; assumption.
  Qed.

  (* flag = true is also implied by any intersecting pair (converse of the last clause) *)
  Lemma pass_flag_true G flag G' i j gi gj :
    pass G = (flag, G') -> i <> j -> nth_error G i = Some gi -> nth_error G j = Some gj ->
    meets gi gj -> flag = true.
  Proof.
    intros Hp Hij Hi Hj Hm. apply pass_ok in Hp. destruct flag; auto.
    exfalso. exact (ps_fl_f _ _ _ Hp eq_refl i j gi gj Hij Hi Hj Hm).
  Qed.

  (* the first pass on a non-empty groups0 always sets the flag: the groups of a and of b
     (different positions) both contain the edge {a,b} *)
  Lemma first_pass_flag ms : NoDup ms -> groups0 R ms <> [] -> fst (pass (groups0 R ms)) = true.
  Proof.
    intros Hnd Hne. destruct (groups0_spec ms Hnd) as [H1 [_ [H3 _]]].
    destruct (groups0 R ms) as [| g0 G] eqn:EG; [congruence |].
    destruct (H1 g0 (or_introl eq_refl)) as [k [v [_ [Hv Hkv]]]].
    destruct v as [| c v]; [congruence |].
    assert (Hkc : edge ms k c) by (apply Hkv; left; reflexivity).
    destruct (H3 k c Hkc) as [va [vb [A1 [A2 [A3 A4]]]]].
    destruct (edge_in _ _ _ Hnd Hkc) as [_ [_ Hneq]].
    destruct (In_two_positions _ _ _ A1 A3) as [i [j [Hij [Hi Hj]]]]; [congruence |].
    destruct (pass (g0 :: G)) as [flag G'] eqn:Hp. simpl.
    eapply pass_flag_true; eauto.
    exists k. split; [left; reflexivity | right; exact A4].
  Qed.

  (* ---------------------------------------------------------------- *)
  (* (3) what the loop returns                                         *)
  (* ---------------------------------------------------------------- *)

  (* no hypothesis needed: the returned groups are pairwise disjoint BY POSITION *)
  Theorem loop_result_disjoint fuel : forall G gs,
    loop fuel G = Some gs -> pairwise_disjoint gs.
  Proof.
    induction fuel as [| f IH]; intros G gs H; simpl in H; [discriminate |].
    destruct (pass G) as [flag ng] eqn:Hp. destruct flag.
    - apply (IH ng gs H).
    - injection H as <-. apply pass_ok in Hp. apply (ps_fl_f _ _ _ Hp eq_refl).
  Qed.

  Theorem loop_result_Inv ms fuel : forall G gs,
    Inv ms G -> loop fuel G = Some gs -> Inv ms gs.
  Proof.
    induction fuel as [| f IH]; intros G gs HI H; simpl in H; [discriminate |].
    destruct (pass G) as [flag ng] eqn:Hp. destruct flag.
    - apply (IH ng gs); auto. apply (pass_preserves ms G true ng HI Hp).
    - injection H as <-. exact HI.
  Qed.

  (* hence no set occurs twice in the result (groups are non-empty under Inv) *)
  Corollary loop_result_no_dup ms fuel G gs :
    Inv ms G -> loop fuel G = Some gs ->
    forall i j gi gj, i <> j -> nth_error gs i = Some gi -> nth_error gs j = Some gj ->
      seteq gi gj = false /\ ~ meets gi gj.
  Proof.
    intros HI H i j gi gj Hij Hi Hj.
    pose proof (loop_result_disjoint fuel G gs H i j gi gj Hij Hi Hj) as Hd.
    split; auto. destruct (seteq gi gj) eqn:E; auto. exfalso.
    apply seteq_spec in E. destruct E as [Hsub _].
    destruct (loop_result_Inv ms fuel G gs HI H) as [Hg _].
    destruct (Hg gi (nth_error_In _ _ Hi)) as [_ [_ [Hlen _]]].
    destruct gi as [| x gi]; [simpl in Hlen; lia |].
    apply Hd. exists x. split; [left; reflexivity | apply Hsub; left; reflexivity].
  Qed.

  Lemma disjoint_same_group gs g1 g2 :
    pairwise_disjoint gs -> In g1 gs -> In g2 gs -> meets g1 g2 -> g1 = g2.
  Proof.
    intros Hd H1 H2 Hm. apply In_nth_error in H1. apply In_nth_error in H2.
    destruct H1 as [i Hi]. destruct H2 as [j Hj].
    destruct (Nat.eq_dec i j) as [-> | Hne]; [congruence |].
    exfalso. exact (Hd i j g1 g2 Hne Hi Hj Hm).
  Qed.

  (* ---------------------------------------------------------------- *)
  (* (4) the result groups are the non-trivial connected components     *)
  (* ---------------------------------------------------------------- *)

  Lemma component_closed ms gs :
    Inv ms gs -> pairwise_disjoint gs ->
    forall a b, connected ms a b -> forall g, In g gs -> In a g -> In b g.
  Proof.
    intros [_ Hc] Hd a b Hab. unfold connected in Hab.
    induction Hab as [x y Hxy | x | x y z _ IH1 _ IH2]; intros g Hg Hx; auto.
    destruct (Hc x y Hxy) as [g' [Hg' [Hx' Hy']]].
    assert (g = g') as ->; auto.
    apply (disjoint_same_group gs); auto. exists x. auto.
  Qed.

  Lemma connected_first_edge ms a b :
    connected ms a b -> a <> b -> exists c, edge ms a c.
  Proof.
    intros H. apply clos_rt_rt1n in H. destruct H as [| c z Hac _]; intros Hne.
    - congruence.
    - exists c. exact Hac.
  Qed.

  Theorem C05_from_loop ms fuel gs : NoDup ms ->
    loop fuel (groups0 R ms) = Some gs ->
    (forall a b, In a ms -> In b ms -> a <> b ->
       ((exists g, In g gs /\ In a g /\ In b g) <-> connected ms a b))
    /\ (forall g, In g gs -> NoDup g /\ 2 <= length g /\ incl g ms)
    /\ (forall g1 g2, In g1 gs -> In g2 gs -> (exists x, In x g1 /\ In x g2) -> seteq g1 g2 = true).
  Proof.
    intros Hnd H.
    pose proof (loop_result_Inv ms fuel _ gs (groups0_Inv ms Hnd) H) as HI.
    pose proof (loop_result_disjoint fuel _ gs H) as Hd.
    split; [| split].
    - intros a b _ _ Hne. split.
      + intros [g [Hg [Ha Hb]]]. destruct HI as [Hgo _].
        destruct (Hgo g Hg) as [_ [_ [_ Hconn]]]. auto.
      + intros Hab. destruct (connected_first_edge ms a b Hab Hne) as [c Hac].
        destruct HI as [Hgo Hc]. destruct (Hc a c Hac) as [g [Hg [Ha _]]].
        exists g. split; auto. split; auto.
        apply (component_closed ms gs (conj Hgo Hc) Hd a b Hab g Hg Ha).
    - intros g Hg. destruct HI as [Hgo _]. destruct (Hgo g Hg) as [A1 [A2 [A3 _]]]. auto.
    - intros g1 g2 H1 H2 Hm. rewrite (disjoint_same_group gs g1 g2 Hd H1 H2 Hm). apply seteq_refl.
  Qed.

  Theorem C05_components ms gs : NoDup ms ->
    merge_groups R ms = Some gs ->
    (forall a b, In a ms -> In b ms -> a <> b ->
       ((exists g, In g gs /\ In a g /\ In b g) <-> connected ms a b))
    /\ (forall g, In g gs -> NoDup g /\ 2 <= length g /\ incl g ms)
    /\ (forall g1 g2, In g1 gs -> In g2 gs -> (exists x, In x g1 /\ In x g2) -> seteq g1 g2 = true).
  Proof. intros Hnd H. exact (C05_from_loop ms _ gs Hnd H). Qed.

  (* ---------------------------------------------------------------- *)
  (* (5) termination within the fuel                                   *)
  (* ---------------------------------------------------------------- *)

  Definition Good (ms : list nat) (G : list (list nat)) : Prop := forall g, In g G -> group_ok ms g.

  (* every group that intersects a group at another position has at least k members *)
  Definition big (k : nat) (G : list (list nat)) : Prop :=
    forall i j gi gj, i <> j -> nth_error G i = Some gi -> nth_error G j = Some gj ->
      meets gi gj -> k <= length gi.

  Lemma loop_S f G :
    loop (S f) G = let '(flag, ng) := pass G in if flag then loop f ng else Some G.
  Proof. reflexivity. Qed.

  Lemma pass_Good ms G flag G' : Good ms G -> pass G = (flag, G') -> Good ms G'.
  Proof.
    intros Hg Hp. apply pass_ok in Hp. intros h Hh.
    destruct (ps_from _ _ _ Hp h Hh) as [[i [gi [j [gj [H1 [H2 [H3 [H4 ->]]]]]]]] | [i [H1 _]]].
    - apply union_group_ok; auto; apply Hg; eapply nth_error_In; eauto.
    - apply Hg. eapply nth_error_In; eauto.
  Qed.

  Lemma same_size_seteq (a b u : list nat) :
    NoDup a -> NoDup b -> incl a u -> incl b u ->
    length u <= length a -> length u <= length b -> seteq a b = true.
  Proof.
    intros Na Nb Ia Ib La Lb.
    pose proof (NoDup_length_incl Na La Ia) as Ua.
    pose proof (NoDup_length_incl Nb Lb Ib) as Ub.
    apply seteq_spec. split; intros x Hx; [apply Ub, Ia, Hx | apply Ua, Ib, Hx].
  Qed.

  (* the variant: on a list of pairwise different sets, a pass raises the minimum size of
     the non-isolated groups *)
  Lemma pass_big ms k G flag G' :
    Good ms G -> distinct G -> big k G -> pass G = (flag, G') -> big (S k) G'.
  Proof.
    intros Hg Hd Hb Hp. apply pass_ok in Hp.
    destruct Hp as [Pfrom _ _ Pdist _ _].
    intros i j hi hj Hij Hi Hj Hm.
    destruct (Pfrom hi (nth_error_In _ _ Hi)) as [[a [ga [b [gb [A1 [A2 [A3 [A4 ->]]]]]]]] | [p [P1 P2]]].
    - (* hi is a union of two different sets, each of size >= k *)
      destruct (le_lt_dec (S k) (length (union ga gb))) as [Hok | Hsmall]; auto.
      exfalso.
      assert (La : k <= length ga) by (apply (Hb a b ga gb); auto).
      assert (Lb : k <= length gb) by (apply (Hb b a gb ga); auto using meets_sym).
      destruct (Hg ga (nth_error_In _ _ A1)) as [Na _].
      destruct (Hg gb (nth_error_In _ _ A2)) as [Nb _].
      assert (E : seteq ga gb = true).
      { apply (same_size_seteq ga gb (union ga gb)); auto; try lia.
        - intros x Hx. apply union_In. left. exact Hx.
        - intros x Hx. apply union_In. right. exact Hx. }
      rewrite (distinct_nth G Hd a b ga gb) in E; auto; discriminate.
    - (* hi is an old isolated group: nothing else in G' can touch it *)
      exfalso.
      assert (Hold : forall q gq, nth_error G q = Some gq -> meets hi gq -> q = p /\ gq = hi).
      { intros q gq Hq Hmq. destruct (Nat.eq_dec q p) as [-> | Hne].
        - split; auto. congruence.
        - exfalso. exact (P2 q gq Hq Hne Hmq). }
      destruct (Pfrom hj (nth_error_In _ _ Hj)) as [[a [ga [b [gb [A1 [A2 [A3 [A4 ->]]]]]]]] | [q [Q1 _]]].
      + destruct Hm as [x [Hx1 Hx2]]. apply union_In in Hx2. destruct Hx2 as [Hx2 | Hx2].
        * destruct (Hold a ga A1) as [-> ->]; [exists x; auto |].
          exact (P2 b gb A2 A3 A4).
        * destruct (Hold b gb A2) as [-> ->]; [exists x; auto |].
          apply (P2 a ga A1); auto using meets_sym.
      + destruct (Hold q hj Q1 Hm) as [_ ->].
        pose proof (seteq_refl hi) as E.
        rewrite (distinct_nth G' Pdist i j hi hi Hij Hi Hj) in E. discriminate.
  Qed.

  Lemma big_full ms k G :
    Good ms G -> distinct G -> big k G -> length ms <= k -> pairwise_disjoint G.
  Proof.
    intros Hg Hd Hb Hk i j gi gj Hij Hi Hj Hm.
    assert (Li : k <= length gi) by (apply (Hb i j gi gj); auto).
    assert (Lj : k <= length gj) by (apply (Hb j i gj gi); auto using meets_sym).
    destruct (Hg gi (nth_error_In _ _ Hi)) as [Ni [Ii _]].
    destruct (Hg gj (nth_error_In _ _ Hj)) as [Nj [Ij _]].
    assert (E : seteq gi gj = true).
    { apply (same_size_seteq gi gj ms); auto; lia. }
    rewrite (distinct_nth G Hd i j gi gj) in E; auto; discriminate.
  Qed.

  Lemma loop_fuel ms : forall d k G,
    Good ms G -> distinct G -> big k G -> length ms <= k + d -> loop (S d) G <> None.
  Proof.
    induction d as [| d IH]; intros k G Hg Hd Hb Hk; rewrite loop_S;
      destruct (pass G) as [flag ng] eqn:Hp; destruct flag; try discriminate.
    - exfalso. pose proof (pass_ok _ _ _ Hp) as Hs.
      destruct (ps_fl_t _ _ _ Hs eq_refl) as [i [gi [j [gj [H1 [H2 [H3 H4]]]]]]].
      apply (big_full ms k G Hg Hd Hb) with (i := i) (j := j) (gi := gi) (gj := gj); auto; lia.
    - apply (IH (S k) ng).
      + exact (pass_Good ms G true ng Hg Hp).
      + exact (ps_dist _ _ _ (pass_ok _ _ _ Hp)).
      + exact (pass_big ms k G true ng Hg Hd Hb Hp).
      + lia.
  Qed.

  Lemma groups0_Good ms : NoDup ms -> Good ms (groups0 R ms).
  Proof. intros Hnd. exact (proj1 (groups0_Inv ms Hnd)). Qed.

  Lemma Good_big2 ms G : Good ms G -> big 2 G.
  Proof.
    intros Hg i j gi gj _ Hi _ _. destruct (Hg gi (nth_error_In _ _ Hi)) as [_ [_ [H _]]]. exact H.
  Qed.

  Theorem merge_groups_terminates ms : NoDup ms -> merge_groups R ms <> None.
  Proof.
    intros Hnd. unfold merge_groups. rewrite loop_S.
    destruct (pass (groups0 R ms)) as [flag G1] eqn:Hp. destruct flag; [| discriminate].
    pose proof (groups0_Good ms Hnd) as Hg.
    apply (loop_fuel ms (length ms) 0 G1).
    - exact (pass_Good ms _ true G1 Hg Hp).
    - exact (ps_dist _ _ _ (pass_ok _ _ _ Hp)).
    - intros i j gi gj _ _ _ _. lia.
    - lia.
  Qed.

  Corollary merge_groups_total ms : NoDup ms -> exists gs, merge_groups R ms = Some gs.
  Proof.
    intros Hnd. destruct (merge_groups R ms) as [gs |] eqn:E.
    - exists gs. reflexivity.
    - exfalso. exact (merge_groups_terminates ms Hnd E).
  Qed.

  (* sharper fuel: max 1 (length ms) passes suffice (tight for a single edge, n = 2) *)
  Lemma loop_mono : forall f G gs, loop f G = Some gs -> loop (S f) G = Some gs.
  Proof.
    induction f as [| f IH]; intros G gs H; [discriminate |].
    rewrite loop_S in H. rewrite loop_S.
    destruct (pass G) as [flag ng]. destruct flag; auto.
  Qed.

  Lemma loop_mono_le f f' G : f <= f' -> loop f G <> None -> loop f' G <> None.
  Proof.
    intros Hle. induction Hle as [| f' _ IH]; auto.
    intros H. specialize (IH H). destruct (loop f' G) as [gs |] eqn:E; [| congruence].
    rewrite (loop_mono f' G gs E). discriminate.
  Qed.

  Theorem loop_terminates_tight ms : NoDup ms ->
    loop (Nat.max 1 (length ms)) (groups0 R ms) <> None.
  Proof.
    intros Hnd. pose proof (groups0_Good ms Hnd) as Hg.
    destruct (groups0 R ms) as [| g0 G] eqn:EG.
    - destruct (Nat.max 1 (length ms)) as [| f] eqn:Ef; [lia |].
      rewrite loop_S. simpl. discriminate.
    - assert (Hn : 2 <= length ms).
      { destruct (Hg g0 (or_introl eq_refl)) as [N0 [I0 [L0 _]]].
        pose proof (NoDup_incl_length N0 I0). lia. }
      replace (Nat.max 1 (length ms)) with (S (S (length ms - 2))) by lia.
      rewrite loop_S. destruct (pass (g0 :: G)) as [flag G1] eqn:Hp.
      destruct flag; [| discriminate].
      pose proof (pass_Good ms _ true G1 Hg Hp) as Hg1.
      apply (loop_fuel ms (length ms - 2) 2 G1); auto.
      + exact (ps_dist _ _ _ (pass_ok _ _ _ Hp)).
      + apply (Good_big2 ms). exact Hg1.
      + lia.
  Qed.

  (* the form announced in DESIGN.md *)
  Corollary loop_terminates ms : NoDup ms -> loop (S (length ms)) (groups0 R ms) <> None.
  Proof.
    intros Hnd. apply (loop_mono_le (Nat.max 1 (length ms))); [lia |].
    apply loop_terminates_tight. exact Hnd.
  Qed.

  (* (4) + (5) together *)
  Theorem C05_total ms : NoDup ms ->
    exists gs, merge_groups R ms = Some gs /\
    (forall a b, In a ms -> In b ms -> a <> b ->
       ((exists g, In g gs /\ In a g /\ In b g) <-> connected ms a b))
    /\ (forall g, In g gs -> NoDup g /\ 2 <= length g /\ incl g ms)
    /\ pairwise_disjoint gs.
  Proof.
    intros Hnd. destruct (merge_groups_total ms Hnd) as [gs Hgs]. exists gs.
    destruct (C05_components ms gs Hnd Hgs) as [H1 [H2 _]].
    split; [exact Hgs | split; [exact H1 | split; [exact H2 |]]].
    exact (loop_result_disjoint _ _ gs Hgs).
  Qed.

  (* ---------------------------------------------------------------- *)
  (* bridge to the DESIGN.md formulation (symmetric comparator)         *)
  (* ---------------------------------------------------------------- *)

  Lemma in_two_split (ms : list nat) a b : In a ms -> In b ms -> a <> b ->
    (exists l1 l2 l3, ms = l1 ++ a :: l2 ++ b :: l3) \/
    (exists l1 l2 l3, ms = l1 ++ b :: l2 ++ a :: l3).
  Proof.
    intros Ha Hb Hne. apply in_split in Ha. destruct Ha as [l1 [r ->]].
    apply in_app_iff in Hb. destruct Hb as [Hb | [Hb | Hb]].
    - right. apply in_split in Hb. destruct Hb as [l1' [l2' ->]].
      exists l1', l2', r. rewrite <- app_assoc. reflexivity.
    - congruence.
    - left. apply in_split in Hb. destruct Hb as [l2 [l3 ->]].
      exists l1, l2, l3. reflexivity.
  Qed.

  Definition sim (ms : list nat) (x y : nat) : Prop := R x y = true /\ In x ms /\ In y ms.

  Lemma connected_sim ms a b : NoDup ms -> (forall x y, R x y = R y x) ->
    (connected ms a b <-> clos_refl_trans nat (sim ms) a b).
  Proof.
    intros Hnd Hsym. unfold connected. split; intros H.
    - induction H as [x y Hxy | x | x y z _ IH1 _ IH2].
      + apply rt_step. destruct (edge_in _ _ _ Hnd Hxy) as [Hx [Hy _]].
        destruct Hxy as [l1 [l2 [l3 [[_ Hr] | [_ Hr]]]]]; split; auto.
        rewrite Hsym. exact Hr.
      + apply rt_refl.
      + eapply rt_trans; eauto.
    - induction H as [x y [Hr [Hx Hy]] | x | x y z _ IH1 _ IH2].
      + destruct (Nat.eq_dec x y) as [-> | Hne]; [apply rt_refl |].
        apply rt_step.
        destruct (in_two_split ms x y Hx Hy Hne) as [[l1 [l2 [l3 E]]] | [l1 [l2 [l3 E]]]];
          exists l1, l2, l3; [left | right]; split; auto.
        rewrite Hsym. exact Hr.
      + apply rt_refl.
      + eapply rt_trans; eauto.
  Qed.

  Corollary C05_components_sym ms gs : NoDup ms -> (forall x y, R x y = R y x) ->
    merge_groups R ms = Some gs ->
    forall a b, In a ms -> In b ms -> a <> b ->
    ((exists g, In g gs /\ In a g /\ In b g) <->
     clos_refl_trans nat (fun x y => R x y = true /\ In x ms /\ In y ms) a b).
  Proof.
    intros Hnd Hsym Hgs a b Ha Hb Hne.
    destruct (C05_components ms gs Hnd Hgs) as [H1 _].
    rewrite (H1 a b Ha Hb Hne). apply (connected_sim ms a b Hnd Hsym).
  Qed.

End C05.

(* ------------------------------------------------------------------ *)
(* sanity checks on small graphs (computed)                            *)
(* ------------------------------------------------------------------ *)

Definition sym_of (es : list (nat * nat)) (a b : nat) : bool :=
  existsb (fun e => (Nat.eqb (fst e) a && Nat.eqb (snd e) b) || (Nat.eqb (fst e) b && Nat.eqb (snd e) a)) es.

(* path 0-1-2-3 *)
Example ex_groups0_path : groups0 (sym_of [(0,1);(1,2);(2,3)]) [0;1;2;3] = [[0;1];[1;0;2];[2;1;3];[3;2]].
Proof. vm_compute. reflexivity. Qed.
Example ex_path : merge_groups (sym_of [(0,1);(1,2);(2,3)]) [0;1;2;3] = Some [[0;1;2;3]].
Proof. vm_compute. reflexivity. Qed.
(* two disjoint edges: groups0 = [{0,1};{1,0};{2,3};{3,2}] has equal sets at different
   positions; the first pass sets the flag and the OrderedSet removes the duplicates *)
Example ex_two_edges_pass :
  pass (groups0 (sym_of [(0,1);(2,3)]) [0;1;2;3]) = (true, [[0;1];[2;3]]).
Proof. vm_compute. reflexivity. Qed.
Example ex_two_edges : merge_groups (sym_of [(0,1);(2,3)]) [0;1;2;3] = Some [[0;1];[2;3]].
Proof. vm_compute. reflexivity. Qed.
(* star *)
Example ex_star : merge_groups (sym_of [(0,1);(0,2);(0,3)]) [0;1;2;3] = Some [[0;1;2;3]].
Proof. vm_compute. reflexivity. Qed.
(* triangle plus an isolated vertex: the isolated vertex is in no group *)
Example ex_triangle : merge_groups (sym_of [(0,1);(1,2);(0,2)]) [0;1;2;3] = Some [[0;1;2]].
Proof. vm_compute. reflexivity. Qed.
(* no edge at all *)
Example ex_empty : merge_groups (sym_of []) [0;1;2] = Some [].
Proof. vm_compute. reflexivity. Qed.
(* an asymmetric comparator is only ever asked in registry order *)
Example ex_asym1 : merge_groups (fun a b => Nat.eqb a 2 && Nat.eqb b 0) [0;1;2] = Some [].
Proof. vm_compute. reflexivity. Qed.
Example ex_asym2 : merge_groups (fun a b => Nat.eqb a 2 && Nat.eqb b 0) [2;1;0] = Some [[2;0]].
Proof. vm_compute. reflexivity. Qed.
(* the fuel bound max 1 n of loop_terminates_tight is attained for a single edge (n = 2) *)
Example ex_fuel_tight : loop 1 (groups0 (sym_of [(0,1)]) [0;1]) = None
                     /\ loop 2 (groups0 (sym_of [(0,1)]) [0;1]) = Some [[0;1]].
Proof. vm_compute. split; reflexivity. Qed.
(* a path on 8 nodes needs exactly 7 = n - 1 passes *)
Example ex_path8 :
  let G := groups0 (sym_of [(0,1);(1,2);(2,3);(3,4);(4,5);(5,6);(6,7)]) [0;1;2;3;4;5;6;7] in
  loop 6 G = None /\ loop 7 G = Some [[0;1;2;3;4;5;6;7]].
Proof. vm_compute. split; reflexivity. Qed.

Print Assumptions groups0_spec.
Print Assumptions pass_preserves.
Print Assumptions first_pass_flag.
Print Assumptions loop_result_disjoint.
Print Assumptions loop_result_no_dup.
Print Assumptions C05_components.
Print Assumptions merge_groups_terminates.
Print Assumptions loop_terminates_tight.
Print Assumptions loop_terminates.
Print Assumptions C05_total.
Print Assumptions C05_components_sym.

(* NOT PROVED: nothing — statements (1)-(5) are all proved above, closed under the global context. *)
