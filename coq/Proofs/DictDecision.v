(* Proofs/DictDecision.v — property C13: the dict-field options.
   When is a JSON object detected as a mapping (TDict) rather than a model (TObj), with which
   convert_dict flag every sub-value is detected, and what the value type of a mapping is. *)
From Coq Require Import List Bool Arith NArith ZArith Lia.
From J2M.Model Require Import Base Union Merge Optimize Detect.
Import ListNotations.

Lemma str_eqb_eq (a b : str) : str_eqb a b = true <-> a = b.
Proof.
  unfold str_eqb. destruct (list_eq_dec N.eq_dec a b) as [E | E]; split; intros H; congruence.
Qed.

Lemma str_eqb_neq (a b : str) : str_eqb a b = false <-> a <> b.
Proof.
  unfold str_eqb. destruct (list_eq_dec N.eq_dec a b) as [E | E]; split; intros H; congruence.
Qed.

Section DictDecision.
  Variable registry : list pseudo.
  Variable accepts : pseudo -> str -> bool.
  Variable n_regex : nat.
  Variable key_matches : nat -> str -> bool.
  Variable dict_fields : list str.

  Notation detect' := (detect registry accepts n_regex key_matches dict_fields).
  Notation convert' := (convert registry accepts n_regex key_matches dict_fields).
  Notation akm := (all_keys_match n_regex key_matches).

  (* ---------------------------------------------------------------- *)
  (* D1                                                               *)
  (* ---------------------------------------------------------------- *)
  Lemma all_keys_match_spec (ks : list str) :
    akm ks = true <-> exists i, i < n_regex /\ Forall (fun k => key_matches i k = true) ks.
  Proof.
    unfold all_keys_match. rewrite existsb_exists. split.
    - intros [i [Hi Hf]]. exists i. apply in_seq in Hi. split; [lia |].
      apply Forall_forall. apply forallb_forall. exact Hf.
    - intros [i [Hi Hf]]. exists i. split; [apply in_seq; lia |].
      apply forallb_forall. apply Forall_forall. exact Hf.
  Qed.

  (* ---------------------------------------------------------------- *)
  (* unfolding equations of [detect]: the local fixpoints are maps     *)
  (* ---------------------------------------------------------------- *)
  Lemma detect_arr (cd : bool) (l : list json) :
    detect' cd (JArr l) = TList (elem_type (map (detect' true) l)).
  Proof.
    simpl. do 2 apply f_equal. induction l as [| x r IH]; simpl; [reflexivity |]. rewrite IH. reflexivity.
  Qed.

  Lemma detect_obj_nil (cd : bool) : detect' cd (JObj []) = TDict TUnknown.
  Proof. reflexivity. Qed.

  Lemma detect_obj (cd : bool) (kvs : list (str * json)) :
    kvs <> [] ->
    detect' cd (JObj kvs) =
      if cd && negb (akm (map fst kvs))
      then TObj (convert' kvs)
      else TDict (elem_type (map (detect' true) (map snd kvs))).
  Proof.
    intros Hne. destruct kvs as [| kv0 kvs0]; [congruence |].
    remember (kv0 :: kvs0) as kvs eqn:Ekvs.
    assert (Hobj : (fix go (l : list (str * json)) : fields :=
                      match l with
                      | [] => []
                      | (k, x) :: r => (k, detect' (negb (existsb (str_eqb k) dict_fields)) x) :: go r
                      end) kvs = convert' kvs).
    { clear. induction kvs as [| [k x] r IH]; simpl; [reflexivity |]. rewrite IH. reflexivity. }
    assert (Hdict : (fix go (l : list (str * json)) : list ty :=
                      match l with [] => [] | (_, x) :: r => detect' true x :: go r end) kvs
                    = map (detect' true) (map snd kvs)).
    { clear. induction kvs as [| [k x] r IH]; simpl; [reflexivity |]. rewrite IH. reflexivity. }
    rewrite <- Hobj, <- Hdict. rewrite Ekvs. reflexivity.
  Qed.

  (* ---------------------------------------------------------------- *)
  (* D3                                                               *)
  (* ---------------------------------------------------------------- *)
  Lemma convert_keys (kvs : list (str * json)) : map fst (convert' kvs) = map fst kvs.
  Proof. unfold convert. rewrite map_map. simpl. reflexivity. Qed.

  Lemma convert_length (kvs : list (str * json)) : length (convert' kvs) = length kvs.
  Proof. unfold convert. apply map_length. Qed.

  Lemma convert_field (kvs : list (str * json)) (k : str) (v : json) :
    In (k, v) kvs -> NoDup (map fst kvs) ->
    lookup k (convert' kvs) = Some (detect' (negb (existsb (str_eqb k) dict_fields)) v).
  Proof.
    induction kvs as [| [k0 v0] r IH]; intros Hin Hnd; [destruct Hin |].
    simpl in Hnd. inversion Hnd as [| ? ? Hk0 Hnd']; subst.
    simpl. destruct Hin as [Heq | Hin].
    - inversion Heq; subst. destruct (str_eqb k k) eqn:E; [reflexivity |].
      apply str_eqb_neq in E. congruence.
    - destruct (str_eqb k k0) eqn:E.
      + apply str_eqb_eq in E. subst k0. exfalso. apply Hk0.
        apply in_map_iff. exists (k, v). split; [reflexivity | exact Hin].
      + apply IH; assumption.
  Qed.

  (* the same, positionally: the i-th field of the model is the i-th pair of the object, and its value
     was detected with convert_dict = false exactly when its own name is listed in dict_fields *)
  Lemma convert_nth (kvs : list (str * json)) (i : nat) (k : str) (v : json) :
    nth_error kvs i = Some (k, v) ->
    nth_error (convert' kvs) i = Some (k, detect' (negb (existsb (str_eqb k) dict_fields)) v).
  Proof.
    intros H. unfold convert. rewrite nth_error_map, H. reflexivity.
  Qed.

  Lemma convert_field_named (kvs : list (str * json)) (k : str) (v : json) :
    In (k, v) kvs -> NoDup (map fst kvs) -> In k dict_fields ->
    lookup k (convert' kvs) = Some (detect' false v).
  Proof.
    intros Hin Hnd Hk. rewrite (convert_field kvs k v Hin Hnd).
    replace (existsb (str_eqb k) dict_fields) with true; [reflexivity |].
    symmetry. apply existsb_exists. exists k. split; [exact Hk | apply str_eqb_eq; reflexivity].
  Qed.

  Lemma convert_field_unnamed (kvs : list (str * json)) (k : str) (v : json) :
    In (k, v) kvs -> NoDup (map fst kvs) -> ~ In k dict_fields ->
    lookup k (convert' kvs) = Some (detect' true v).
  Proof.
    intros Hin Hnd Hk. rewrite (convert_field kvs k v Hin Hnd).
    replace (existsb (str_eqb k) dict_fields) with false; [reflexivity |].
    symmetry. destruct (existsb (str_eqb k) dict_fields) eqn:E; [| reflexivity].
    apply existsb_exists in E. destruct E as [k' [Hk' E]]. apply str_eqb_eq in E. subst k'. contradiction.
  Qed.

  (* ---------------------------------------------------------------- *)
  (* D2                                                               *)
  (* ---------------------------------------------------------------- *)
  Theorem dict_decision_iff (cd : bool) (kvs : list (str * json)) :
    kvs <> [] ->
    ((exists t, detect' cd (JObj kvs) = TDict t) <-> (cd = false \/ akm (map fst kvs) = true)).
  Proof.
    intros Hne. rewrite (detect_obj cd kvs Hne). split.
    - intros [t Ht]. destruct cd; [| left; reflexivity].
      destruct (akm (map fst kvs)); [right; reflexivity |]. simpl in Ht. discriminate.
    - intros [Hcd | Hk].
      + subst cd. simpl. eexists. reflexivity.
      + rewrite Hk. rewrite andb_false_r. eexists. reflexivity.
  Qed.

  Theorem dict_decision_empty (cd : bool) : detect' cd (JObj []) = TDict TUnknown.
  Proof. reflexivity. Qed.

  (* the other case: a model with exactly the object's keys, in order; its fields are [convert kvs] *)
  Theorem dict_decision_model (cd : bool) (kvs : list (str * json)) :
    kvs <> [] -> ~ (cd = false \/ akm (map fst kvs) = true) ->
    exists fs, detect' cd (JObj kvs) = TObj fs /\ map fst fs = map fst kvs /\ fs = convert' kvs.
  Proof.
    intros Hne Hn. rewrite (detect_obj cd kvs Hne).
    destruct cd; [| exfalso; apply Hn; left; reflexivity].
    destruct (akm (map fst kvs)); [exfalso; apply Hn; right; reflexivity |].
    simpl. exists (convert' kvs). split; [reflexivity |]. split; [apply convert_keys | reflexivity].
  Qed.

  (* every object is one or the other *)
  Corollary detect_obj_cases (cd : bool) (kvs : list (str * json)) :
    (exists t, detect' cd (JObj kvs) = TDict t) \/
    (exists fs, detect' cd (JObj kvs) = TObj fs /\ map fst fs = map fst kvs).
  Proof.
    destruct kvs as [| kv0 r].
    - left. eexists. reflexivity.
    - remember (kv0 :: r) as kvs eqn:E. assert (Hne : kvs <> []) by (subst; discriminate).
      destruct cd.
      + destruct (akm (map fst kvs)) eqn:Hk.
        * left. apply dict_decision_iff; auto.
        * right. destruct (dict_decision_model true kvs Hne) as [fs [H1 [H2 _]]].
          { intros [H | H]; congruence. }
          exists fs. split; assumption.
      + left. apply dict_decision_iff; auto.
  Qed.

  (* ---------------------------------------------------------------- *)
  (* D4                                                               *)
  (* ---------------------------------------------------------------- *)
  Theorem dict_value_type (cd : bool) (kvs : list (str * json)) (t : ty) :
    detect' cd (JObj kvs) = TDict t ->
    t = elem_type (map (detect' true) (map snd kvs)).
  Proof.
    destruct kvs as [| kv0 r].
    - simpl. intros H. inversion H. reflexivity.
    - remember (kv0 :: r) as kvs eqn:E. assert (Hne : kvs <> []) by (subst; discriminate).
      rewrite (detect_obj cd kvs Hne).
      destruct (cd && negb (akm (map fst kvs))); intros H; [discriminate |].
      inversion H. reflexivity.
  Qed.

  (* ---------------------------------------------------------------- *)
  (* D3, second half: list elements and mapping values always use      *)
  (* convert_dict = true, whatever flag the container was detected with *)
  (* ---------------------------------------------------------------- *)
  Theorem array_elements_cd_true (cd : bool) (l : list json) :
    detect' cd (JArr l) = TList (elem_type (map (detect' true) l)).
  Proof. apply detect_arr. Qed.

  Theorem mapping_values_cd_true (cd : bool) (kvs : list (str * json)) (t : ty) :
    detect' cd (JObj kvs) = TDict t -> t = elem_type (map (fun kv => detect' true (snd kv)) kvs).
  Proof. intros H. rewrite (dict_value_type cd kvs t H), map_map. reflexivity. Qed.

  (* in particular the flag of the container is irrelevant for arrays, and for objects it only
     selects between the two shapes: it is never passed down *)
  Corollary detect_arr_flag_irrelevant (cd cd' : bool) (l : list json) :
    detect' cd (JArr l) = detect' cd' (JArr l).
  Proof. rewrite !detect_arr. reflexivity. Qed.

  (* nested fields of a model value: named in dict_fields -> false, otherwise true (never inherited) *)
  Theorem nested_field_flag (cd : bool) (kvs : list (str * json)) (fs : fields) (k : str) (v : json) :
    detect' cd (JObj kvs) = TObj fs -> In (k, v) kvs -> NoDup (map fst kvs) ->
    lookup k fs = Some (detect' (negb (existsb (str_eqb k) dict_fields)) v).
  Proof.
    intros H Hin Hnd. destruct kvs as [| kv0 r]; [destruct Hin |].
    remember (kv0 :: r) as kvs' eqn:E. assert (Hne : kvs' <> []) by (subst; discriminate).
    rewrite (detect_obj cd kvs' Hne) in H.
    destruct (cd && negb (akm (map fst kvs'))); [| discriminate].
    inversion H. apply convert_field; assumption.
  Qed.
End DictDecision.

Print Assumptions all_keys_match_spec.
Print Assumptions dict_decision_iff.
Print Assumptions dict_decision_empty.
Print Assumptions dict_decision_model.
Print Assumptions convert_keys.
Print Assumptions convert_field.
Print Assumptions array_elements_cd_true.
Print Assumptions mapping_values_cd_true.
Print Assumptions nested_field_flag.
Print Assumptions dict_value_type.
