(* Proofs/PyLexProps.v — Python reads the emitted string literals back as intended (model: Model/PyLex.v).
     T1 unescape_json_raw      py_unescape (json_escape_raw s) = Some s
     T2 unescape_repr          py_unescape (py_repr is_printable_c s) = Some s
     T3 replace_triple_transparent / replace_triple_never_ends
     T4 header_is_one_string
     T5 header_unrepaired_refuted
   No axioms; stdlib only. *)
From Coq Require Import List Bool Arith NArith Lia.
From Coq Require String.
From J2M.Model Require Import Base Emit PyLex.
Import ListNotations.
Local Open Scope list_scope.

(* ================================================================================================================ *)
(* hex digits                                                                                                       *)
(* ================================================================================================================ *)
Lemma hexval_hex_digit : forall n, (n < 16)%N -> hexval (hex_digit n) = Some n.
Proof.
  intros n H.
  assert (E : (n = 0 \/ n = 1 \/ n = 2 \/ n = 3 \/ n = 4 \/ n = 5 \/ n = 6 \/ n = 7 \/ n = 8 \/ n = 9 \/ n = 10 \/
               n = 11 \/ n = 12 \/ n = 13 \/ n = 14 \/ n = 15)%N) by lia.
  repeat (destruct E as [E | E]; [subst n; reflexivity |]). subst n; reflexivity.
Qed.

Lemma hexn_hex2 : forall k acc c r,
  hexn (S (S k)) acc (hex2 c ++ r) = hexn k (acc * 256 + c mod 256)%N r.
Proof.
  intros k acc c r. unfold hex2. cbn [app hexn].
  rewrite hexval_hex_digit by (apply N.mod_lt; discriminate).
  rewrite hexval_hex_digit by (apply N.mod_lt; discriminate).
  f_equal.
  change 256%N with (16 * 16)%N. rewrite N.mod_mul_r by discriminate. lia.
Qed.

Lemma hexn_hex4 : forall k acc c r,
  hexn (S (S (S (S k)))) acc (hex4 c ++ r) = hexn k (acc * 65536 + c mod 65536)%N r.
Proof.
  intros k acc c r. unfold hex4. rewrite <- app_assoc, hexn_hex2, hexn_hex2.
  f_equal.
  change 65536%N with (256 * 256)%N. rewrite (N.mod_mul_r c 256 256) by discriminate. lia.
Qed.

Lemma hexn_hex8 : forall k acc c r,
  hexn (S (S (S (S (S (S (S (S k)))))))) acc (hex8 c ++ r) = hexn k (acc * 4294967296 + c mod 4294967296)%N r.
Proof.
  intros k acc c r. unfold hex8. rewrite <- app_assoc, hexn_hex4, hexn_hex4.
  f_equal.
  change 4294967296%N with (65536 * 65536)%N. rewrite (N.mod_mul_r c 65536 65536) by discriminate. lia.
Qed.

Lemma hex_escape_2 : forall c r, (c < 256)%N -> hex_escape 2 (hex2 c ++ r) = Some ([c], r).
Proof.
  intros c r H. unfold hex_escape. rewrite hexn_hex2. cbn [hexn].
  rewrite N.mod_small by exact H. rewrite N.mul_0_l, N.add_0_l.
  replace (c <? 1114112)%N with true by (symmetry; apply N.ltb_lt; lia). reflexivity.
Qed.
Lemma hex_escape_4 : forall c r, (c < 65536)%N -> hex_escape 4 (hex4 c ++ r) = Some ([c], r).
Proof.
  intros c r H. unfold hex_escape. rewrite hexn_hex4. cbn [hexn].
  rewrite N.mod_small by exact H. rewrite N.mul_0_l, N.add_0_l.
  replace (c <? 1114112)%N with true by (symmetry; apply N.ltb_lt; lia). reflexivity.
Qed.
Lemma hex_escape_8 : forall c r, (c < 1114112)%N -> hex_escape 8 (hex8 c ++ r) = Some ([c], r).
Proof.
  intros c r H. unfold hex_escape. rewrite hexn_hex8. cbn [hexn].
  rewrite N.mod_small by lia. rewrite N.mul_0_l, N.add_0_l.
  replace (c <? 1114112)%N with true by (symmetry; apply N.ltb_lt; lia). reflexivity.
Qed.

(* ================================================================================================================ *)
(* one step of the literal reader                                                                                   *)
(* ================================================================================================================ *)
Definition lift1 (c : N) (o : option str) : option str := match o with Some t => Some (c :: t) | None => None end.

Lemma unesc_close : forall f q, unesc_body (S f) q [q] = Some [].
Proof. intros. cbn [unesc_body]. rewrite N.eqb_refl. reflexivity. Qed.

Lemma unesc_raw : forall f q c r,
  N.eqb c q = false -> N.eqb c 92 = false -> N.eqb c 10 = false -> N.eqb c 13 = false -> N.eqb c 0 = false ->
  unesc_body (S f) q (c :: r) = lift1 c (unesc_body f q r).
Proof. intros f q c r H1 H2 H3 H4 H5. cbn [unesc_body]. rewrite H1, H2, H3, H4, H5. reflexivity. Qed.

Lemma unesc_esc1 : forall f q e r1 c r2,
  N.eqb 92 q = false -> decode_escape e r1 = Some ([c], r2) ->
  unesc_body (S f) q (92%N :: e :: r1) = lift1 c (unesc_body f q r2).
Proof.
  intros f q e r1 c r2 H1 H2. cbn [unesc_body]. rewrite H1. change (N.eqb 92 92) with true. cbn iota.
  rewrite H2. reflexivity.
Qed.

Lemma neqb : forall a b : N, a <> b -> N.eqb a b = false.
Proof. intros. apply N.eqb_neq. assumption. Qed.

(* ================================================================================================================ *)
(* T1: json.dumps(s, ensure_ascii=False)                                                                            *)
(* ================================================================================================================ *)
Lemma json_char : forall f c rest,
  unesc_body (S f) 34 (json_escape_char_raw c ++ rest) = lift1 c (unesc_body f 34 rest).
Proof.
  intros f c rest. unfold json_escape_char_raw, DQ, BSL.
  destruct (N.eqb_spec c 34) as [-> | N34]; [apply unesc_esc1; reflexivity |].
  destruct (N.eqb_spec c 92) as [-> | N92]; [apply unesc_esc1; reflexivity |].
  destruct (N.eqb_spec c 10) as [-> | N10]; [apply unesc_esc1; reflexivity |].
  destruct (N.eqb_spec c 13) as [-> | N13]; [apply unesc_esc1; reflexivity |].
  destruct (N.eqb_spec c 9) as [-> | N9]; [apply unesc_esc1; reflexivity |].
  destruct (N.eqb_spec c 8) as [-> | N8]; [apply unesc_esc1; reflexivity |].
  destruct (N.eqb_spec c 12) as [-> | N12]; [apply unesc_esc1; reflexivity |].
  destruct (N.ltb_spec c 32) as [L | L].
  - cbn [app]. apply unesc_esc1; [reflexivity |].
    change (decode_escape 117 (hex4 c ++ rest)) with (hex_escape 4 (hex4 c ++ rest)).
    apply hex_escape_4. lia.
  - cbn [app]. apply unesc_raw; apply neqb; lia.
Qed.

Lemma json_char_len : forall c, 1 <= List.length (json_escape_char_raw c).
Proof.
  intros c. unfold json_escape_char_raw.
  repeat match goal with |- context [if ?b then _ else _] => destruct b end; cbn; lia.
Qed.

Lemma json_body : forall s f,
  List.length (flat_map json_escape_char_raw s) < f ->
  unesc_body f 34 (flat_map json_escape_char_raw s ++ [34%N]) = Some s.
Proof.
  induction s as [| c s IH]; intros f Hf.
  - destruct f; [inversion Hf |]. apply unesc_close.
  - cbn [flat_map] in *. rewrite app_length in Hf. pose proof (json_char_len c).
    destruct f; [lia |]. rewrite <- app_assoc, json_char, IH by lia. reflexivity.
Qed.

(* the strong form: no condition on s at all (the model accepts any raw code point >= 32 other than the quote and the
   backslash, lone surrogates and out-of-range values included) *)
Theorem unescape_json_raw_all : forall s, py_unescape (json_escape_raw s) = Some s.
Proof.
  intros s. unfold json_escape_raw, DQ. cbn [app]. unfold py_unescape.
  change (N.eqb 34 39 || N.eqb 34 34) with true. cbn iota.
  apply json_body. cbn [List.length]. rewrite app_length. cbn. lia.
Qed.

(* T1 as stated *)
Theorem unescape_json_raw : forall s, (forall c, In c s -> (c < 1114112)%N) -> py_unescape (json_escape_raw s) = Some s.
Proof. intros s _. apply unescape_json_raw_all. Qed.

(* ================================================================================================================ *)
(* T2: repr(s)                                                                                                      *)
(* ================================================================================================================ *)
Definition repr_quote (s : str) : N :=
  if existsb (N.eqb SQ) s && negb (existsb (N.eqb DQ) s) then DQ else SQ.
Definition repr_esc (is_printable_c : N -> bool) (q c : N) : str :=
  if N.eqb c q || N.eqb c BSL then [BSL; c]
  else if N.eqb c 9 then [BSL; 116%N] else if N.eqb c 10 then [BSL; 110%N] else if N.eqb c 13 then [BSL; 114%N]
  else if (c <? 32)%N || N.eqb c 127 then [BSL; 120%N] ++ hex2 c
  else if (c <? 127)%N then [c]
  else if is_printable_c c then [c]
  else if (c <? 256)%N then [BSL; 120%N] ++ hex2 c
  else if (c <? 65536)%N then [BSL; 117%N] ++ hex4 c
  else [BSL; 85%N] ++ hex8 c.

Lemma py_repr_eq : forall ip s,
  py_repr ip s = [repr_quote s] ++ flat_map (repr_esc ip (repr_quote s)) s ++ [repr_quote s].
Proof. reflexivity. Qed.

Lemma repr_char : forall ip f q c rest,
  q = 34%N \/ q = 39%N -> (c < 1114112)%N ->
  unesc_body (S f) q (repr_esc ip q c ++ rest) = lift1 c (unesc_body f q rest).
Proof.
  intros ip f q c rest Hq Hc.
  assert (Q92 : N.eqb 92 q = false) by (destruct Hq; subst q; reflexivity).
  unfold repr_esc, BSL.
  destruct (N.eqb_spec c q) as [-> | Nq].
  { cbn [orb app]. apply unesc_esc1; [exact Q92 |]. destruct Hq; subst q; reflexivity. }
  destruct (N.eqb_spec c 92) as [-> | N92].
  { cbn [orb app]. apply unesc_esc1; [exact Q92 | reflexivity]. }
  cbn [orb].
  destruct (N.eqb_spec c 9) as [-> | N9]; [apply unesc_esc1; [exact Q92 | reflexivity] |].
  destruct (N.eqb_spec c 10) as [-> | N10]; [apply unesc_esc1; [exact Q92 | reflexivity] |].
  destruct (N.eqb_spec c 13) as [-> | N13]; [apply unesc_esc1; [exact Q92 | reflexivity] |].
  destruct (N.ltb_spec c 32) as [L32 | L32].
  { cbn [orb app]. apply unesc_esc1; [exact Q92 |].
    change (decode_escape 120 (hex2 c ++ rest)) with (hex_escape 2 (hex2 c ++ rest)). apply hex_escape_2. lia. }
  destruct (N.eqb_spec c 127) as [-> | N127].
  { cbn [orb app]. apply unesc_esc1; [exact Q92 | reflexivity]. }
  cbn [orb].
  assert (RAW : unesc_body (S f) q ([c] ++ rest) = lift1 c (unesc_body f q rest)).
  { cbn [app]. apply unesc_raw; apply neqb; lia. }
  destruct (N.ltb_spec c 127) as [L127 | L127]; [exact RAW |].
  destruct (ip c); [exact RAW |].
  destruct (N.ltb_spec c 256) as [L256 | L256].
  { cbn [app]. apply unesc_esc1; [exact Q92 |].
    change (decode_escape 120 (hex2 c ++ rest)) with (hex_escape 2 (hex2 c ++ rest)). apply hex_escape_2. lia. }
  destruct (N.ltb_spec c 65536) as [L64k | L64k].
  { cbn [app]. apply unesc_esc1; [exact Q92 |].
    change (decode_escape 117 (hex4 c ++ rest)) with (hex_escape 4 (hex4 c ++ rest)). apply hex_escape_4. lia. }
  cbn [app]. apply unesc_esc1; [exact Q92 |].
  change (decode_escape 85 (hex8 c ++ rest)) with (hex_escape 8 (hex8 c ++ rest)). apply hex_escape_8. exact Hc.
Qed.

Lemma repr_char_len : forall ip q c, 1 <= List.length (repr_esc ip q c).
Proof.
  intros ip q c. unfold repr_esc.
  repeat match goal with |- context [if ?b then _ else _] => destruct b end; cbn; lia.
Qed.

Lemma repr_body : forall ip q s f,
  q = 34%N \/ q = 39%N -> (forall c, In c s -> (c < 1114112)%N) ->
  List.length (flat_map (repr_esc ip q) s) < f ->
  unesc_body f q (flat_map (repr_esc ip q) s ++ [q]) = Some s.
Proof.
  intros ip q s. induction s as [| c s IH]; intros f Hq Hr Hf.
  - destruct f; [inversion Hf |]. apply unesc_close.
  - cbn [flat_map] in *. rewrite app_length in Hf. pose proof (repr_char_len ip q c).
    destruct f; [lia |]. rewrite <- app_assoc, repr_char; [| exact Hq | apply Hr; left; reflexivity].
    rewrite IH; [reflexivity | exact Hq | intros x Hx; apply Hr; right; exact Hx | lia].
Qed.

(* T2.  The range condition is needed: hex8 only renders 32 bits and Python rejects \U escapes above 0x10FFFF
   (see repr_out_of_range below). *)
Theorem unescape_repr : forall is_printable_c s,
  (forall c, In c s -> (c < 1114112)%N) -> py_unescape (py_repr is_printable_c s) = Some s.
Proof.
  intros ip s Hr. rewrite py_repr_eq.
  assert (Hq : repr_quote s = 34%N \/ repr_quote s = 39%N).
  { unfold repr_quote, DQ, SQ. destruct (_ && _); [left | right]; reflexivity. }
  set (q := repr_quote s) in *. clearbody q.
  cbn [app]. unfold py_unescape.
  replace (N.eqb q 39 || N.eqb q 34) with true by (destruct Hq; subst q; reflexivity).
  apply repr_body; [exact Hq | exact Hr |].
  cbn [List.length]. rewrite app_length. cbn. lia.
Qed.

(* without the range condition T2 is false: 0x110000 is not a code point, repr would never see it, and the model
   (like Python) rejects the escape \U00110000 *)
Example repr_out_of_range : py_unescape (py_repr (fun _ => false) [1114112%N]) = None.
Proof. vm_compute. reflexivity. Qed.

(* ================================================================================================================ *)
(* raw triple-quoted literals                                                                                       *)
(* ================================================================================================================ *)
Definition lift_raw (z : str) (o : option (str * str)) : option (str * str) :=
  match o with Some (b, t) => Some (z ++ b, t) | None => None end.

(* z is "transparent": scanning z ++ y from the normal state never ends the literal inside z and reaches y in the
   normal state, whatever y is *)
Definition transparent (z : str) : Prop :=
  forall y, py_raw_triple_end (z ++ y) = lift_raw z (py_raw_triple_end y).

Lemma transparent_nil : transparent [].
Proof. intros y. cbn [app]. destruct (py_raw_triple_end y) as [[b t] |]; reflexivity. Qed.

Lemma transparent_app : forall a b, transparent a -> transparent b -> transparent (a ++ b).
Proof.
  intros a b Ha Hb y. rewrite <- app_assoc, Ha, Hb.
  destruct (py_raw_triple_end y) as [[b0 t] |]; cbn [lift_raw]; [rewrite app_assoc |]; reflexivity.
Qed.

Lemma raw_bsl : forall e r, py_raw_triple_end (92%N :: e :: r) = lift_raw [92%N; e] (py_raw_triple_end r).
Proof. intros. cbn [py_raw_triple_end]. change (N.eqb 92 92) with true. cbn iota. reflexivity. Qed.

Lemma raw_other : forall c r, N.eqb c 92 = false -> starts_triple (c :: r) = false ->
  py_raw_triple_end (c :: r) = lift_raw [c] (py_raw_triple_end r).
Proof. intros c r H1 H2. cbn [py_raw_triple_end]. rewrite H1, H2. reflexivity. Qed.

Lemma raw_end : forall r, py_raw_triple_end (34%N :: 34%N :: 34%N :: r) = Some ([], r).
Proof. reflexivity. Qed.

Lemma lift_raw_cons2 : forall a b z o, lift_raw [a; b] (lift_raw z o) = lift_raw (a :: b :: z) o.
Proof. intros. destruct o as [[x t] |]; reflexivity. Qed.
Lemma lift_raw_cons1 : forall a z o, lift_raw [a] (lift_raw z o) = lift_raw (a :: z) o.
Proof. intros. destruct o as [[x t] |]; reflexivity. Qed.

(* ---- starts_triple facts ---- *)
Lemma st_head : forall a l, a <> 34%N -> starts_triple (a :: l) = false.
Proof. intros a l H. destruct l as [| b [| c l]]; cbn; try reflexivity. rewrite (neqb _ _ H). reflexivity. Qed.
Lemma st_second : forall a b l, b <> 34%N -> starts_triple (a :: b :: l) = false.
Proof. intros a b l H. destruct l as [| c l]; cbn; try reflexivity. rewrite (neqb _ _ H), andb_false_r. reflexivity. Qed.
Lemma st_third : forall a b c l, c <> 34%N -> starts_triple (a :: b :: c :: l) = false.
Proof. intros a b c l H. cbn. rewrite (neqb _ _ H), andb_false_r. reflexivity. Qed.
Lemma st_true : forall s, starts_triple s = true -> exists r, s = 34%N :: 34%N :: 34%N :: r.
Proof.
  intros s H. destruct s as [| a [| b [| c r]]]; try discriminate. cbn in H.
  apply andb_prop in H. destruct H as [H H3]. apply andb_prop in H. destruct H as [H1 H2].
  apply N.eqb_eq in H1, H2, H3. subst. exists r. reflexivity.
Qed.
(* a separator d other than the quote after x: the lookahead at the head of x does not change *)
Lemma st_sep : forall x d y, starts_triple x = false -> d <> 34%N -> starts_triple ((x ++ [d]) ++ y) = false.
Proof.
  intros x d y H Hd. destruct x as [| a [| b [| c x]]]; cbn [app].
  - apply st_head. exact Hd.
  - apply st_second. exact Hd.
  - apply st_third. exact Hd.
  - exact H.
Qed.

Lemma has_triple_tail : forall a r, has_triple (a :: r) = false -> starts_triple (a :: r) = false /\ has_triple r = false.
Proof. intros a r H. cbn [has_triple] in H. apply orb_false_elim in H. exact H. Qed.

(* ---- A: a text without three consecutive quotes, followed by a separator, is transparent ---- *)
Lemma no_triple_transparent_n : forall n x d, List.length x <= n ->
  has_triple x = false -> d <> 34%N -> d <> 92%N -> transparent (x ++ [d]).
Proof.
  induction n as [| n IH]; intros x d Hn Hx Hd Hb y.
  - destruct x; [| cbn in Hn; lia]. cbn [app].
    rewrite raw_other; [| apply neqb; exact Hb | apply st_head; exact Hd]. reflexivity.
  - destruct x as [| c r].
    + cbn [app]. rewrite raw_other; [| apply neqb; exact Hb | apply st_head; exact Hd]. reflexivity.
    + cbn [List.length] in Hn. apply has_triple_tail in Hx. destruct Hx as [Hst Hr].
      destruct (N.eqb_spec c 92) as [-> | Nc].
      * destruct r as [| e r1].
        { cbn [app]. rewrite raw_bsl. reflexivity. }
        apply has_triple_tail in Hr. destruct Hr as [_ Hr1]. cbn [List.length] in Hn.
        cbn [app]. rewrite raw_bsl.
        rewrite (IH r1 d); [| lia | exact Hr1 | exact Hd | exact Hb].
        rewrite lift_raw_cons2. reflexivity.
      * change ((c :: r) ++ [d]) with (c :: (r ++ [d])). change ((c :: r ++ [d]) ++ y) with (c :: (r ++ [d]) ++ y).
        rewrite raw_other; [| apply neqb; exact Nc | ].
        2:{ change (c :: (r ++ [d]) ++ y) with (((c :: r) ++ [d]) ++ y). apply st_sep; assumption. }
        rewrite (IH r d); [| lia | exact Hr | exact Hd | exact Hb].
        rewrite lift_raw_cons1. reflexivity.
Qed.

Lemma no_triple_transparent : forall x d,
  has_triple x = false -> d <> 34%N -> d <> 92%N -> transparent (x ++ [d]).
Proof. intros x d. apply (no_triple_transparent_n (List.length x)). apply le_n. Qed.

Lemma transparent_sep : forall d, d <> 34%N -> d <> 92%N -> transparent [d].
Proof. intros d Hd Hb. apply (no_triple_transparent [] d); [reflexivity | exact Hd | exact Hb]. Qed.

Lemma lift_raw_app : forall a b o, lift_raw a (lift_raw b o) = lift_raw (a ++ b) o.
Proof. intros a b o. destruct o as [[x t] |]; cbn [lift_raw]; [rewrite app_assoc |]; reflexivity. Qed.

(* ---- replace_triple: unfolding equations ---- *)
Lemma rt_triple : forall r,
  replace_triple (34%N :: 34%N :: 34%N :: r) = 34%N :: 34%N :: 92%N :: 34%N :: replace_triple r.
Proof. reflexivity. Qed.
Lemma rt_other : forall a r, starts_triple (a :: r) = false -> replace_triple (a :: r) = a :: replace_triple r.
Proof.
  intros a r H. destruct r as [| b [| c r2]]; try reflexivity.
  change (replace_triple (a :: b :: c :: r2))
    with (if N.eqb a 34 && N.eqb b 34 && N.eqb c 34
          then 34%N :: 34%N :: 92%N :: 34%N :: replace_triple r2 else a :: replace_triple (b :: c :: r2)).
  cbn [starts_triple] in H. rewrite H. reflexivity.
Qed.

(* the naive form of T3 is FALSE: the output of the replacement may well contain three consecutive quotes (five quotes
   become  DQ DQ BSL DQ DQ DQ); what matters is that the first of them is escaped for the raw-string scanner *)
Example replace_triple_has_triple : has_triple (replace_triple [34; 34; 34; 34; 34]%N) = true.
Proof. vm_compute. reflexivity. Qed.

(* after a character c that does not start a triple in the input, the scanner's lookahead at c in the output is
   negative as well *)
Lemma st_replace : forall c r d y, starts_triple (c :: r) = false -> d <> 34%N ->
  starts_triple (c :: (replace_triple r ++ [d]) ++ y) = false.
Proof.
  intros c r d y H Hd.
  destruct (N.eq_dec c 34) as [-> | Nc]; [| apply st_head; exact Nc].
  destruct r as [| x r'].
  - cbn [replace_triple app]. apply st_second. exact Hd.
  - destruct (N.eq_dec x 34) as [-> | Nx].
    + destruct r' as [| z r''].
      * cbn [replace_triple app]. apply st_third. exact Hd.
      * assert (Nz : z <> 34%N).
        { cbn in H. apply N.eqb_neq. exact H. }
        rewrite (rt_other 34 (z :: r'')) by (apply st_second; exact Nz).
        rewrite (rt_other z r'') by (apply st_head; exact Nz).
        cbn [app]. apply st_third. exact Nz.
    + rewrite (rt_other x r') by (apply st_head; exact Nx). cbn [app]. apply st_second. exact Nx.
Qed.

(* ---- B = T3: the repaired command text, followed by a separator, is transparent ---- *)
Lemma replace_triple_transparent_n : forall n a d, List.length a <= n ->
  d <> 34%N -> d <> 92%N -> transparent (replace_triple a ++ [d]).
Proof.
  induction n as [| n IH]; intros a d Hn Hd Hb.
  - destruct a; [| cbn in Hn; lia]. apply transparent_sep; assumption.
  - destruct a as [| c r]; [apply transparent_sep; assumption |].
    cbn [List.length] in Hn. intros y.
    destruct (starts_triple (c :: r)) eqn:St.
    + apply st_true in St. destruct St as [r2 E]. inversion E; subst c r. clear E. cbn [List.length] in Hn.
      rewrite rt_triple. cbn [app].
      rewrite raw_other by reflexivity. rewrite raw_other by reflexivity. rewrite raw_bsl.
      rewrite (IH r2 d) by (try assumption; lia).
      rewrite !lift_raw_app. reflexivity.
    + rewrite (rt_other c r St).
      destruct (N.eqb_spec c 92) as [-> | Nc].
      * destruct r as [| e r1].
        { cbn [replace_triple app]. rewrite raw_bsl. reflexivity. }
        cbn [List.length] in Hn.
        destruct (starts_triple (e :: r1)) eqn:St2.
        -- apply st_true in St2. destruct St2 as [r3 E]. inversion E; subst e r1. clear E. cbn [List.length] in Hn.
           rewrite rt_triple. cbn [app].
           rewrite raw_bsl. rewrite raw_other by reflexivity. rewrite raw_bsl.
           rewrite (IH r3 d) by (try assumption; lia).
           rewrite !lift_raw_app. reflexivity.
        -- rewrite (rt_other e r1 St2). cbn [app]. rewrite raw_bsl.
           rewrite (IH r1 d) by (try assumption; lia).
           rewrite !lift_raw_app. reflexivity.
      * cbn [app]. rewrite raw_other; [| apply neqb; exact Nc | apply st_replace; assumption].
        rewrite (IH r d) by (try assumption; lia).
        rewrite !lift_raw_app. reflexivity.
Qed.

(* T3 (the statement T4 needs).  Whatever the command line is, the raw-string scanner started in its normal state at
   the beginning of  replace_triple a ++ [d]  (d a character other than the quote and the backslash, here the newline)
   runs through it without ending the literal and arrives behind d in its normal state. *)
Theorem replace_triple_transparent : forall a d, d <> 34%N -> d <> 92%N -> transparent (replace_triple a ++ [d]).
Proof. intros a d. apply (replace_triple_transparent_n (List.length a)). apply le_n. Qed.

Corollary replace_triple_never_ends : forall a, py_raw_triple_end (replace_triple a ++ [10%N]) = None.
Proof.
  intros a. rewrite <- (app_nil_r (replace_triple a ++ [10%N])).
  rewrite (replace_triple_transparent a 10%N) by discriminate. reflexivity.
Qed.

Corollary replace_triple_then_close : forall a rest,
  py_raw_triple_end (replace_triple a ++ [10%N] ++ TRIPLE ++ rest) = Some (replace_triple a ++ [10%N], rest).
Proof.
  intros a rest. rewrite app_assoc.
  rewrite (replace_triple_transparent a 10%N) by discriminate.
  unfold TRIPLE. cbn [app]. rewrite raw_end. cbn [lift_raw]. rewrite app_nil_r. reflexivity.
Qed.

(* ================================================================================================================ *)
(* T4: the header is exactly one raw string literal                                                                 *)
(* ================================================================================================================ *)
Lemma header_body_transparent : forall line cmd,
  has_triple line = false -> transparent (cmd ++ [10%N]) -> transparent (header_body_of line cmd).
Proof.
  intros line cmd Hl Hc. unfold header_body_of, COMMAND_PREFIX.
  change ([10%N] ++ line ++ [10%N] ++ [99; 111; 109; 109; 97; 110; 100; 58; 32]%N ++ cmd ++ [10%N])
    with ([10%N] ++ line ++ [10%N] ++ ([99; 111; 109; 109; 97; 110; 100; 58]%N ++ [32%N]) ++ cmd ++ [10%N]).
  apply transparent_app; [apply transparent_sep; discriminate |].
  rewrite app_assoc. apply transparent_app; [apply no_triple_transparent; [exact Hl | discriminate | discriminate] |].
  apply transparent_app; [apply no_triple_transparent; [reflexivity | discriminate | discriminate] |].
  exact Hc.
Qed.

Lemma header_text_of_split : forall line cmd rest,
  header_text_of line cmd ++ rest = [114; 34; 34; 34]%N ++ header_body_of line cmd ++ TRIPLE ++ [10%N] ++ rest.
Proof. intros. unfold header_text_of, TRIPLE. cbn [app]. rewrite <- !app_assoc. reflexivity. Qed.

(* hypothesis on the first line: it does not contain three consecutive double quotes.  (It may end with a backslash:
   that backslash "escapes" the newline after it, which is harmless.)  No hypothesis on argv. *)
Theorem header_is_one_string : forall line argv rest,
  has_triple line = false ->
  exists body,
    firstn 4 (header_text line argv ++ rest) = [114; 34; 34; 34]%N /\
    py_raw_triple_end (skipn 4 (header_text line argv ++ rest)) = Some (body, [10%N] ++ rest) /\
    body = [10%N] ++ line ++ [10%N] ++ COMMAND_PREFIX ++ replace_triple argv ++ [10%N].
Proof.
  intros line argv rest Hl. exists (header_body line argv).
  unfold header_text. rewrite header_text_of_split.
  split; [reflexivity |]. split; [| reflexivity].
  change (skipn 4 ([114; 34; 34; 34]%N ++ header_body_of line (replace_triple argv) ++ TRIPLE ++ [10%N] ++ rest))
    with (header_body_of line (replace_triple argv) ++ TRIPLE ++ [10%N] ++ rest).
  rewrite (header_body_transparent line (replace_triple argv) Hl)
    by (apply replace_triple_transparent; discriminate).
  unfold TRIPLE. cbn [app]. rewrite raw_end. cbn [lift_raw]. rewrite app_nil_r. reflexivity.
Qed.

(* the hypothesis on line is decidable and holds for the actual first line *)
Module HeaderLine.
  Import Coq.Strings.String.
  Example header_line_ok :
    has_triple (s_ "generated by json2python-models v0.3.0 at Thu Oct  1 12:00:00 2026"%string) = false.
  Proof. vm_compute. reflexivity. Qed.
  Example command_prefix_text : COMMAND_PREFIX = s_ "command: "%string.
  Proof. vm_compute. reflexivity. Qed.
End HeaderLine.

(* ================================================================================================================ *)
(* T5: without the repair the header is broken                                                                      *)
(* ================================================================================================================ *)
(* argv = three double quotes: the literal ends right after "command: "; the text that follows it in the module is
   newline, three quotes, newline — an unterminated triple-quoted string (SyntaxError) *)
Example header_unrepaired_refuted :
  py_raw_triple_end (skipn 4 (header_text_unrepaired [103%N] [34; 34; 34]%N ++ [120; 61; 49; 10]%N))
  = Some ([10; 103; 10]%N ++ COMMAND_PREFIX, [10; 34; 34; 34; 10]%N ++ [120; 61; 49; 10]%N)
  /\ py_raw_triple_end ([34; 34; 34; 10]%N ++ [120; 61; 49; 10]%N) <> None
  /\ py_raw_triple_end (skipn 3 ([34; 34; 34; 10]%N ++ [120; 61; 49; 10]%N)) = None.
Proof. vm_compute. repeat split. discriminate. Qed.

(* in general *)
Theorem header_unrepaired_ends_early : forall line rest,
  has_triple line = false ->
  py_raw_triple_end (skipn 4 (header_text_unrepaired line [34; 34; 34]%N ++ rest))
  = Some ([10%N] ++ line ++ [10%N] ++ COMMAND_PREFIX, [10; 34; 34; 34; 10]%N ++ rest).
Proof.
  intros line rest Hl. unfold header_text_unrepaired. rewrite header_text_of_split.
  change (skipn 4 ([114; 34; 34; 34]%N ++ header_body_of line [34; 34; 34]%N ++ TRIPLE ++ [10%N] ++ rest))
    with (header_body_of line [34; 34; 34]%N ++ TRIPLE ++ [10%N] ++ rest).
  unfold header_body_of, COMMAND_PREFIX.
  assert (T : transparent ([10%N] ++ line ++ [10%N] ++ [99; 111; 109; 109; 97; 110; 100; 58; 32]%N)).
  { change ([10%N] ++ line ++ [10%N] ++ [99; 111; 109; 109; 97; 110; 100; 58; 32]%N)
      with ([10%N] ++ line ++ [10%N] ++ ([99; 111; 109; 109; 97; 110; 100; 58]%N ++ [32%N])).
    apply transparent_app; [apply transparent_sep; discriminate |].
    rewrite app_assoc. apply transparent_app; apply no_triple_transparent; try discriminate; [exact Hl | reflexivity]. }
  replace (([10%N] ++ line ++ [10%N] ++ [99; 111; 109; 109; 97; 110; 100; 58; 32]%N ++ [34; 34; 34]%N ++ [10%N]) ++
           TRIPLE ++ [10%N] ++ rest)
    with (([10%N] ++ line ++ [10%N] ++ [99; 111; 109; 109; 97; 110; 100; 58; 32]%N) ++
          [34; 34; 34]%N ++ [10%N] ++ TRIPLE ++ [10%N] ++ rest)
    by (rewrite <- !app_assoc; reflexivity).
  rewrite T. unfold TRIPLE. cbn [app]. rewrite raw_end. cbn [lift_raw]. rewrite app_nil_r. reflexivity.
Qed.

Print Assumptions unescape_json_raw.
Print Assumptions unescape_json_raw_all.
Print Assumptions unescape_repr.
Print Assumptions replace_triple_transparent.
Print Assumptions replace_triple_never_ends.
Print Assumptions replace_triple_then_close.
Print Assumptions header_is_one_string.
Print Assumptions header_unrepaired_refuted.
Print Assumptions header_unrepaired_ends_early.

(* NOT PROVED: nothing — T1..T5 are all proved above.
   Modelling limits (not proof gaps): \N{NAME} escapes are rejected by py_unescape (never emitted); texts are taken
   after CPython's universal-newline translation; triple-quoted, prefixed and implicitly concatenated literals are
   outside py_unescape (it answers None for them). *)
