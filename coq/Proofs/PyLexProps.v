(* Proofs/PyLexProps.v — Python reads the emitted string literals back as intended (model: Model/PyLex.v).
     T1 unescape_json_raw      py_unescape (json_escape_raw s) = Some s
     T2 unescape_repr          py_unescape (py_repr is_printable_c s) = Some s
     T3 replace_triple_transparent / replace_triple_never_ends
     T4 header_is_one_string
     T5 header_unrepaired_refuted
   No axioms; stdlib only. *)
From Coq Require Import List Bool Arith NArith Lia.
From J2M.Model Require Import Base Emit PyLex.
Import ListNotations.
Local Open Scope list_scope.

(* ================================================================================================================ *)
(* hex digits                                                                                                       *)
(* ================================================================================================================ *)
Lemma hexval_hex_digit : forall n, (n < 16)%N -> hexval (hex_digit n) = Some n.
Proof.
  intros n H.
  assert (E : (n = 0 \/ n = 1 \/ n = 2 \/ n = 3 \/ n = 4 \/ n = 5 \/ n = 6 \/ n = 7 \/ n = 8 \/ n = 9 \/ n = 10 \/
               n = 11 \/ n = 12 \/ n = 13 \/ n = 14 \/ n = 15)%N) by lia.
  repeat (destruct E as [E | E]; [subst n; reflexivity |]). subst n; reflexivity.
Qed.

Lemma hexn_hex2 : forall k acc c r,
  hexn (S (S k)) acc (hex2 c ++ r) = hexn k (acc * 256 + c mod 256)%N r.
Proof.
  intros k acc c r. unfold hex2. cbn [app hexn].
  rewrite hexval_hex_digit by (apply N.mod_lt; discriminate).
  rewrite hexval_hex_digit by (apply N.mod_lt; discriminate).
  f_equal.
  change 256%N with (16 * 16)%N. rewrite N.mod_mul_r by discriminate. lia.
Qed.

Lemma hexn_hex4 : forall k acc c r,
  hexn (S (S (S (S k)))) acc (hex4 c ++ r) = hexn k (acc * 65536 + c mod 65536)%N r.
Proof.
  intros k acc c r. unfold hex4. rewrite <- app_assoc, hexn_hex2, hexn_hex2.
  f_equal.
  change 65536%N with (256 * 256)%N. rewrite (N.mod_mul_r c 256 256) by discriminate. lia.
Qed.

Lemma hexn_hex8 : forall k acc c r,
  hexn (S (S (S (S (S (S (S (S k)))))))) acc (hex8 c ++ r) = hexn k (acc * 4294967296 + c mod 4294967296)%N r.
Proof.
  intros k acc c r. unfold hex8. rewrite <- app_assoc, hexn_hex4, hexn_hex4.
  f_equal.
  change 4294967296%N with (65536 * 65536)%N. rewrite (N.mod_mul_r c 65536 65536) by discriminate. lia.
Qed.

Lemma hex_escape_2 : forall c r, (c < 256)%N -> hex_escape 2 (hex2 c ++ r) = Some ([c], r).
Proof.
  intros c r H. unfold hex_escape. rewrite hexn_hex2. cbn [hexn].
  rewrite N.mod_small by exact H. rewrite N.mul_0_l, N.add_0_l.
  replace (c <? 1114112)%N with true by (symmetry; apply N.ltb_lt; lia). reflexivity.
Qed.
Lemma hex_escape_4 : forall c r, (c < 65536)%N -> hex_escape 4 (hex4 c ++ r) = Some ([c], r).
Proof.
  intros c r H. unfold hex_escape. rewrite hexn_hex4. cbn [hexn].
  rewrite N.mod_small by exact H. rewrite N.mul_0_l, N.add_0_l.
  replace (c <? 1114112)%N with true by (symmetry; apply N.ltb_lt; lia). reflexivity.
Qed.
Lemma hex_escape_8 : forall c r, (c < 1114112)%N -> hex_escape 8 (hex8 c ++ r) = Some ([c], r).
Proof.
  intros c r H. unfold hex_escape. rewrite hexn_hex8. cbn [hexn].
  rewrite N.mod_small by lia. rewrite N.mul_0_l, N.add_0_l.
  replace (c <? 1114112)%N with true by (symmetry; apply N.ltb_lt; lia). reflexivity.
Qed.

(* ================================================================================================================ *)
(* one step of the literal reader                                                                                   *)
(* ================================================================================================================ *)
Definition lift1 (c : N) (o : option str) : option str := match o with Some t => Some (c :: t) | None => None end.

Lemma unesc_close : forall f q, unesc_body (S f) q [q] = Some [].
Proof. intros. cbn [unesc_body]. rewrite N.eqb_refl. reflexivity. Qed.

Lemma unesc_raw : forall f q c r,
  N.eqb c q = false -> N.eqb c 92 = false -> N.eqb c 10 = false -> N.eqb c 13 = false -> N.eqb c 0 = false ->
  unesc_body (S f) q (c :: r) = lift1 c (unesc_body f q r).
Proof. intros f q c r H1 H2 H3 H4 H5. cbn [unesc_body]. rewrite H1, H2, H3, H4, H5. reflexivity. Qed.

Lemma unesc_esc1 : forall f q e r1 c r2,
  N.eqb 92 q = false -> decode_escape e r1 = Some ([c], r2) ->
  unesc_body (S f) q (92%N :: e :: r1) = lift1 c (unesc_body f q r2).
Proof.
  intros f q e r1 c r2 H1 H2. cbn [unesc_body]. rewrite H1. change (N.eqb 92 92) with true. cbn iota.
  rewrite H2. reflexivity.
Qed.

Lemma neqb : forall a b : N, a <> b -> N.eqb a b = false.
Proof. intros. apply N.eqb_neq. assumption. Qed.

(* ================================================================================================================ *)
(* T1: json.dumps(s, ensure_ascii=False)                                                                            *)
(* ================================================================================================================ *)
Lemma json_char : forall f c rest,
  unesc_body (S f) 34 (json_escape_char_raw c ++ rest) = lift1 c (unesc_body f 34 rest).
Proof.
  intros f c rest. unfold json_escape_char_raw, DQ, BSL.
  destruct (N.eqb_spec c 34) as [-> | N34]; [apply unesc_esc1; reflexivity |].
  destruct (N.eqb_spec c 92) as [-> | N92]; [apply unesc_esc1; reflexivity |].
  destruct (N.eqb_spec c 10) as [-> | N10]; [apply unesc_esc1; reflexivity |].
  destruct (N.eqb_spec c 13) as [-> | N13]; [apply unesc_esc1; reflexivity |].
  destruct (N.eqb_spec c 9) as [-> | N9]; [apply unesc_esc1; reflexivity |].
  destruct (N.eqb_spec c 8) as [-> | N8]; [apply unesc_esc1; reflexivity |].
  destruct (N.eqb_spec c 12) as [-> | N12]; [apply unesc_esc1; reflexivity |].
  destruct (N.ltb_spec c 32) as [L | L].
  - cbn [app]. apply unesc_esc1; [reflexivity |].
    change (decode_escape 117 (hex4 c ++ rest)) with (hex_escape 4 (hex4 c ++ rest)).
    apply hex_escape_4. lia.
  - cbn [app]. apply unesc_raw; apply neqb; lia.
Qed.

Lemma json_char_len : forall c, 1 <= List.length (json_escape_char_raw c).
Proof.
  intros c. unfold json_escape_char_raw.
  repeat match goal with |- context [if ?b then _ else _] => destruct b end; cbn; lia.
Qed.

Lemma json_body : forall s f,
  List.length (flat_map json_escape_char_raw s) < f ->
  unesc_body f 34 (flat_map json_escape_char_raw s ++ [34%N]) = Some s.
Proof.
  induction s as [| c s IH]; intros f Hf.
  - destruct f; [inversion Hf |]. apply unesc_close.
  - cbn [flat_map] in *. rewrite app_length in Hf. pose proof (json_char_len c).
    destruct f; [lia |]. rewrite <- app_assoc, json_char, IH by lia. reflexivity.
Qed.

(* the strong form: no condition on s at all (the model accepts any raw code point >= 32 other than the quote and the
   backslash, lone surrogates and out-of-range values included) *)
Theorem unescape_json_raw_all : forall s, py_unescape (json_escape_raw s) = Some s.
Proof.
  intros s. unfold json_escape_raw, DQ. cbn [app]. unfold py_unescape.
  change (N.eqb 34 39 || N.eqb 34 34) with true. cbn iota.
  apply json_body. cbn [List.length]. rewrite app_length. cbn. lia.
Qed.

(* T1 as stated *)
Theorem unescape_json_raw : forall s, (forall c, In c s -> (c < 1114112)%N) -> py_unescape (json_escape_raw s) = Some s.
Proof. intros s _. apply unescape_json_raw_all. Qed.

(* ================================================================================================================ *)
(* T2: repr(s)                                                                                                      *)
(* ================================================================================================================ *)
Definition repr_quote (s : str) : N :=
  if existsb (N.eqb SQ) s && negb (existsb (N.eqb DQ) s) then DQ else SQ.
Definition repr_esc (is_printable_c : N -> bool) (q c : N) : str :=
  if N.eqb c q || N.eqb c BSL then [BSL; c]
  else if N.eqb c 9 then [BSL; 116%N] else if N.eqb c 10 then [BSL; 110%N] else if N.eqb c 13 then [BSL; 114%N]
  else if (c <? 32)%N || N.eqb c 127 then [BSL; 120%N] ++ hex2 c
  else if (c <? 127)%N then [c]
  else if is_printable_c c then [c]
  else if (c <? 256)%N then [BSL; 120%N] ++ hex2 c
  else if (c <? 65536)%N then [BSL; 117%N] ++ hex4 c
  else [BSL; 85%N] ++ hex8 c.

Lemma py_repr_eq : forall ip s,
  py_repr ip s = [repr_quote s] ++ flat_map (repr_esc ip (repr_quote s)) s ++ [repr_quote s].
Proof. reflexivity. Qed.

Lemma repr_char : forall ip f q c rest,
  q = 34%N \/ q = 39%N -> (c < 1114112)%N ->
  unesc_body (S f) q (repr_esc ip q c ++ rest) = lift1 c (unesc_body f q rest).
Proof.
  intros ip f q c rest Hq Hc.
  assert (Q92 : N.eqb 92 q = false) by (destruct Hq; subst q; reflexivity).
  unfold repr_esc, BSL.
  destruct (N.eqb_spec c q) as [-> | Nq].
  { cbn [orb app]. apply unesc_esc1; [exact Q92 |]. destruct Hq; subst q; reflexivity. }
  destruct (N.eqb_spec c 92) as [-> | N92].
  { cbn [orb app]. apply unesc_esc1; [exact Q92 | reflexivity]. }
  cbn [orb].
  destruct (N.eqb_spec c 9) as [-> | N9]; [apply unesc_esc1; [exact Q92 | reflexivity] |].
  destruct (N.eqb_spec c 10) as [-> | N10]; [apply unesc_esc1; [exact Q92 | reflexivity] |].
  destruct (N.eqb_spec c 13) as [-> | N13]; [apply unesc_esc1; [exact Q92 | reflexivity] |].
  destruct (N.ltb_spec c 32) as [L32 | L32].
  { cbn [orb app]. apply unesc_esc1; [exact Q92 |].
    change (decode_escape 120 (hex2 c ++ rest)) with (hex_escape 2 (hex2 c ++ rest)). apply hex_escape_2. lia. }
  destruct (N.eqb_spec c 127) as [-> | N127].
  { cbn [orb app]. apply unesc_esc1; [exact Q92 | reflexivity]. }
  cbn [orb].
  assert (RAW : unesc_body (S f) q ([c] ++ rest) = lift1 c (unesc_body f q rest)).
  { cbn [app]. apply unesc_raw; apply neqb; lia. }
  destruct (N.ltb_spec c 127) as [L127 | L127]; [exact RAW |].
  destruct (ip c); [exact RAW |].
  destruct (N.ltb_spec c 256) as [L256 | L256].
  { cbn [app]. apply unesc_esc1; [exact Q92 |].
    change (decode_escape 120 (hex2 c ++ rest)) with (hex_escape 2 (hex2 c ++ rest)). apply hex_escape_2. lia. }
  destruct (N.ltb_spec c 65536) as [L64k | L64k].
  { cbn [app]. apply unesc_esc1; [exact Q92 |].
    change (decode_escape 117 (hex4 c ++ rest)) with (hex_escape 4 (hex4 c ++ rest)). apply hex_escape_4. lia. }
  cbn [app]. apply unesc_esc1; [exact Q92 |].
  change (decode_escape 85 (hex8 c ++ rest)) with (hex_escape 8 (hex8 c ++ rest)). apply hex_escape_8. exact Hc.
Qed.

Lemma repr_char_len : forall ip q c, 1 <= List.length (repr_esc ip q c).
Proof.
  intros ip q c. unfold repr_esc.
  repeat match goal with |- context [if ?b then _ else _] => destruct b end; cbn; lia.
Qed.

Lemma repr_body : forall ip q s f,
  q = 34%N \/ q = 39%N -> (forall c, In c s -> (c < 1114112)%N) ->
  List.length (flat_map (repr_esc ip q) s) < f ->
  unesc_body f q (flat_map (repr_esc ip q) s ++ [q]) = Some s.
Proof.
  intros ip q s. induction s as [| c s IH]; intros f Hq Hr Hf.
  - destruct f; [inversion Hf |]. apply unesc_close.
  - cbn [flat_map] in *. rewrite app_length in Hf. pose proof (repr_char_len ip q c).
    destruct f; [lia |]. rewrite <- app_assoc, repr_char; [| exact Hq | apply Hr; left; reflexivity].
    rewrite IH; [reflexivity | exact Hq | intros x Hx; apply Hr; right; exact Hx | lia].
Qed.

(* T2.  The range condition is needed: hex8 only renders 32 bits and Python rejects \U escapes above 0x10FFFF
   (see repr_out_of_range below). *)
Theorem unescape_repr : forall is_printable_c s,
  (forall c, In c s -> (c < 1114112)%N) -> py_unescape (py_repr is_printable_c s) = Some s.
Proof.
  intros ip s Hr. rewrite py_repr_eq.
  assert (Hq : repr_quote s = 34%N \/ repr_quote s = 39%N).
  { unfold repr_quote, DQ, SQ. destruct (_ && _); [left | right]; reflexivity. }
  set (q := repr_quote s) in *. clearbody q.
  cbn [app]. unfold py_unescape.
  replace (N.eqb q 39 || N.eqb q 34) with true by (destruct Hq; subst q; reflexivity).
  apply repr_body; [exact Hq | exact Hr |].
  cbn [List.length]. rewrite app_length. cbn. lia.
Qed.

(* without the range condition T2 is false: 0x110000 is not a code point, repr would never see it, and the model
   (like Python) rejects the escape \U00110000 *)
Example repr_out_of_range : py_unescape (py_repr (fun _ => false) [1114112%N]) = None.
Proof. vm_compute. reflexivity. Qed.
