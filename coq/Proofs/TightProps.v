(* Proofs/TightProps.v — C02: inferred types are tight (nothing enters a type that no sample exhibited).

   Main results (all closed under the global context, see the Print Assumptions at the end):
     generate_tight      : samples <> [] -> Forall (fun s => wf_json (JObj s) = true) samples ->
                           generate registry replaces accepts n_regex key_matches dict_fields fuel samples = Some fs ->
                           exists n, forall k, n <= k -> tightb accepts k (map JObj samples) false (TObj fs) = true.
     generate_tight_spec : same hypotheses -> tight accepts (TObj fs) (map JObj samples) false
                           (tight = fuel-free propositional twin of tightb; tight_iff: tight t obs m <->
                            exists n, forall k >= n, tightb k obs m t = true; tightb_tight: any fuel that answers true is right).
   Both hypotheses are necessary: Examples samples_nonempty_needed, wf_needed, wf_needed_nested.

   Structure of the proof.
   The raw terms handed from detection to optimisation are NOT tight in the sense of tightb (Examples
   raw_long_string_not_tight, raw_singleton_union_not_tight): overflowed literals TLit true [], one-member unions built by
   dunion, Any as a union member below a container.  The pipeline is therefore followed with a working predicate
       J t e obs m     ("justified": every part of t has evidence in obs)
   e = a container was observed empty at the enclosing container (licence for Any), m = some object lacked the key.
   J relaxes tightb (unions of any length; a literal needs some observed string and all its listed strings observed;
   Any wherever e holds) and strengthens it in one place: an object type needs an observed object all of whose keys
   are fields of the type (witness) — without it merging is not justified (Example merge_needs_witness).
     T1  J_mono               J is monotone in the observations (as sets: incl), in e and in m.
     T2  detect_J, convert_J  wf_json v = true -> J (detect cd v) false [v] false.
     T3  mk_union_J, union1_J, dunion_J, elem_type_J.
     T4  merge_field_sets_FJ / merge_J: field sets without Optional fields, each justified by the observed objects
         and each with a witness, merge into a justified field set with a witness.
     T5  regroup_J, finish_J, optimize_J: okT t = true -> optimize fuel t = Some t' -> J t e obs m -> J t' e obs m
         (okT/okt: the structural invariant of Proofs/Sound.v — object types inside a type carry no Optional field).
         D32 repair of regroup (work-list = flat_map members_deep ts): members_deep_J / flat_map_members_deep_J show the
         deep work-list is justified member by member; regroup_J then runs on it unchanged.  No statement changed.
     T6  generate_J; then J_tightb: on a normal form (nf, from NormalForm.generate_nfo) J implies tightb for all large
         fuels — the normal form is what removes the relaxations (unions have >= 2 members and no Any member,
         literals are non-overflowed and non-empty, no Optional[Optional]). *)
From Coq Require Import List Bool Arith NArith ZArith Lia.
From J2M.Model Require Import Base Union Merge Optimize Detect.
From J2M.Sem Require Import NF Tight.
From J2M.Proofs Require Import Sound.
From J2M.Proofs Require NormalForm Literals StrTypes.
Import ListNotations.

(* ------------------------------------------------------------------ *)
(* 0. generic list facts                                               *)
(* ------------------------------------------------------------------ *)
Lemma existsb_incl {A} (f : A -> bool) l l' : incl l l' -> existsb f l = true -> existsb f l' = true.
Proof.
  intros I H. apply existsb_exists in H as [x [Hx Fx]]. apply existsb_exists. exists x. split; auto.
Qed.
Lemma isnil_negb {A} (l : list A) : negb (isnil l) = true <-> l <> [].
Proof. destruct l; simpl; split; intros H; congruence. Qed.
Lemma incl_nonnil {A} (l l' : list A) : incl l l' -> l <> [] -> l' <> [].
Proof. intros I N E. subst l'. destruct l as [|x r]; [congruence|]. destruct (I x (or_introl eq_refl)). Qed.
Lemma concat_incl {A} (l l' : list (list A)) : incl l l' -> incl (concat l) (concat l').
Proof.
  intros I x H. apply in_concat in H as [y [Hy Hx]]. apply in_concat. exists y. split; auto.
Qed.
Lemma bound_Forall {A} (P : nat -> A -> Prop) (l : list A) :
  (forall x, In x l -> exists n, forall k, n <= k -> P k x) ->
  exists n, forall k, n <= k -> forall x, In x l -> P k x.
Proof.
  induction l as [|a l IH]; intros H.
  - exists 0. intros k _ x [].
  - destruct (H a (or_introl eq_refl)) as [n1 H1].
    destruct IH as [n2 H2]; [intros x Hx; apply H; right; exact Hx|].
    exists (max n1 n2). intros k Hk x [<-|Hx]; [apply H1; lia|apply H2; [lia|exact Hx]].
Qed.

Lemma arrays_of_In l obs : In l (arrays_of obs) <-> In (JArr l) obs.
Proof.
  unfold arrays_of. rewrite in_flat_map. split.
  - intros [v [Hv Hl]]. destruct v; simpl in Hl; try contradiction. destruct Hl as [<-|[]]. exact Hv.
  - intros H. exists (JArr l). split; simpl; auto.
Qed.
Lemma objects_of_In o obs : In o (objects_of obs) <-> In (JObj o) obs.
Proof.
  unfold objects_of. rewrite in_flat_map. split.
  - intros [v [Hv Hl]]. destruct v; simpl in Hl; try contradiction. destruct Hl as [<-|[]]. exact Hv.
  - intros H. exists (JObj o). split; simpl; auto.
Qed.
Lemma arrays_of_incl obs obs' : incl obs obs' -> incl (arrays_of obs) (arrays_of obs').
Proof. intros I l. rewrite !arrays_of_In. apply I. Qed.
Lemma objects_of_incl obs obs' : incl obs obs' -> incl (objects_of obs) (objects_of obs').
Proof. intros I l. rewrite !objects_of_In. apply I. Qed.
Lemma objects_of_map_JObj l : objects_of (map JObj l) = l.
Proof. unfold objects_of. induction l as [|x r IH]; simpl; [reflexivity|]. now rewrite IH. Qed.

(* the values routed to key k, and "some object lacks k" *)
Definition vals (k : str) (objs : list (list (str * json))) : list json :=
  flat_map (fun o => match lookup k o with Some v => [v] | None => [] end) objs.
Definition miss (k : str) (objs : list (list (str * json))) : bool :=
  existsb (fun o => negb (has_key k o)) objs.
Definition kincl {A B} (a : list (str * A)) (b : list (str * B)) : Prop :=
  forall k, has_key k a = true -> has_key k b = true.

Lemma vals_In v k objs : In v (vals k objs) <-> exists o, In o objs /\ lookup k o = Some v.
Proof.
  unfold vals. rewrite in_flat_map. split.
  - intros [o [Ho Hv]]. exists o. split; auto. destruct (lookup k o); simpl in Hv; [|contradiction].
    destruct Hv as [<-|[]]. reflexivity.
  - intros [o [Ho L]]. exists o. split; auto. rewrite L. simpl. auto.
Qed.
Lemma vals_incl k objs objs' : incl objs objs' -> incl (vals k objs) (vals k objs').
Proof. intros I v. rewrite !vals_In. intros [o [Ho L]]. exists o. split; auto. Qed.
Lemma miss_incl k objs objs' : incl objs objs' -> miss k objs = true -> miss k objs' = true.
Proof. intros I. apply existsb_incl. exact I. Qed.
Lemma kincl_refl {A} (a : list (str * A)) : kincl a a.
Proof. intros k H. exact H. Qed.
Lemma kincl_trans {A B C} (a : list (str * A)) (b : list (str * B)) (c : list (str * C)) :
  kincl a b -> kincl b c -> kincl a c.
Proof. intros H1 H2 k H. apply H2, H1, H. Qed.
Lemma has_key_fst {A B} k (a : list (str * A)) (b : list (str * B)) : map fst a = map fst b -> has_key k a = has_key k b.
Proof.
  revert b. induction a as [|[k1 x] r IH]; intros [|[k2 y] r'] E; simpl in E; try discriminate; [reflexivity|].
  inversion E; subst. specialize (IH r' H1). unfold has_key in *. simpl. destruct (str_eqb k k2); auto.
Qed.
Lemma kincl_fst {A B} (a : list (str * A)) (b : list (str * B)) : map fst a = map fst b -> kincl a b.
Proof. intros E k H. now rewrite <- (has_key_fst k a b E). Qed.

Definition is_jstr v := match v with JStr _ => true | _ => false end.

Section TightJ.
  Variable accepts : pseudo -> str -> bool.
  Notation tightb := (tightb accepts).
  Notation tight_elem := (tight_elem accepts).
  Notation tight_container := (tight_container accepts).

  (* ------------------------------------------------------------------ *)
  (* 1. the working predicate J: "justified".                            *)
  (*    J t e obs m: every part of t has evidence in obs; e = a container *)
  (*    observed empty at the enclosing container (licence for Any);      *)
  (*    m = some object lacked the key.  Relaxations w.r.t. tightb, all   *)
  (*    removed by the normal form of the final result (J_tightb):        *)
  (*    unions of any length, overflowed/empty literals (evidence: some   *)
  (*    string), Any anywhere below a container observed empty.           *)
  (*    Strengthening: an object type needs an observed object whose keys *)
  (*    are all fields (so that a field absent from the type was absent   *)
  (*    from some observed object).                                        *)
  (* ------------------------------------------------------------------ *)
  Fixpoint J (t : ty) (e : bool) (obs : list json) (m : bool) {struct t} : Prop :=
    match t with
    | TInt => existsb (fun v => match v with JInt _ => true | _ => false end) obs = true
    | TFloat => existsb (fun v => match v with JInt _ | JFloat _ => true | _ => false end) obs = true
    | TBool => existsb (fun v => match v with JBool _ => true | _ => false end) obs = true
    | TNull => existsb is_jnull obs = true
    | TStr => existsb is_jstr obs = true
    | TUnknown => e = true
    | TPseudo p => existsb (fun v => match v with JStr s => accepts p s | _ => false end) obs = true
    | TLit o ls => existsb is_jstr obs = true /\ forall s, In s ls -> In (JStr s) obs
    | TOpt x => (m = true \/ existsb is_jnull obs = true) /\ J x e obs false
    | TList x => arrays_of obs <> [] /\
                 J x (existsb isnil (arrays_of obs)) (concat (arrays_of obs)) false
    | TDict x => objects_of obs <> [] /\
                 J x (existsb isnil (map (map snd) (objects_of obs))) (concat (map (map snd) (objects_of obs))) false
    | TUnion ts => (fix all (l : list ty) : Prop := match l with [] => True | x :: r => J x e obs false /\ all r end) ts
    | TObj fs =>
        (exists o, In o (objects_of obs) /\ kincl o fs) /\
        (fix all (l : fields) : Prop :=
           match l with
           | [] => True
           | (k, x) :: r => (vals k (objects_of obs) <> [] /\
                             J x false (vals k (objects_of obs)) (miss k (objects_of obs))) /\ all r
           end) fs
    | TPtr _ => True
    end.

  Definition FJ (objs : list (list (str * json))) (kt : str * ty) : Prop :=
    vals (fst kt) objs <> [] /\ J (snd kt) false (vals (fst kt) objs) (miss (fst kt) objs).

  Lemma J_union ts e obs m : J (TUnion ts) e obs m <-> Forall (fun x => J x e obs false) ts.
  Proof.
    simpl. induction ts as [|x r IH]; split; intros H.
    - constructor. - exact I.
    - constructor; [apply H|apply IH, H].
    - inversion H; subst. split; [assumption|]. apply IH. assumption.
  Qed.
  Lemma J_obj fs e obs m : J (TObj fs) e obs m <->
    (exists o, In o (objects_of obs) /\ kincl o fs) /\ Forall (FJ (objects_of obs)) fs.
  Proof.
    simpl. apply and_iff_compat_l.
    induction fs as [|[k x] r IH]; split; intros H.
    - constructor. - exact I.
    - constructor; [apply H|apply IH, H].
    - inversion H; subst. split; [assumption|]. apply IH. assumption.
  Qed.
  Lemma J_opt x e obs m : J (TOpt x) e obs m <-> (m = true \/ existsb is_jnull obs = true) /\ J x e obs false.
  Proof. reflexivity. Qed.
  Lemma J_list x e obs m : J (TList x) e obs m <->
    arrays_of obs <> [] /\ J x (existsb isnil (arrays_of obs)) (concat (arrays_of obs)) false.
  Proof. reflexivity. Qed.
  Lemma J_dict x e obs m : J (TDict x) e obs m <->
    objects_of obs <> [] /\
    J x (existsb isnil (map (map snd) (objects_of obs))) (concat (map (map snd) (objects_of obs))) false.
  Proof. reflexivity. Qed.

  (* T1: monotonicity — every rule is existential in the observations *)
  Lemma J_mono : forall t e obs m e' obs' m',
    J t e obs m -> incl obs obs' -> (e = true -> e' = true) -> (m = true -> m' = true) -> J t e' obs' m'.
  Proof.
    induction t using ty_ind2; intros e obs m e' obs' m' HJ I He Hm.
    - simpl in *. eapply existsb_incl; eauto.
    - simpl in *. eapply existsb_incl; eauto.
    - simpl in *. eapply existsb_incl; eauto.
    - simpl in *. eapply existsb_incl; eauto.
    - simpl in *. eapply existsb_incl; eauto.
    - simpl in *. auto.
    - simpl in *. eapply existsb_incl; eauto.
    - simpl in *. destruct HJ as [A B]. split; [eapply existsb_incl; eauto|]. intros s Hs. apply I, B, Hs.
    - rewrite J_opt in *. destruct HJ as [A B]. split.
      + destruct A as [A|A]; [left; auto|right; eapply existsb_incl; eauto].
      + eapply IHt; eauto.
    - rewrite J_list in *. destruct HJ as [A B].
      pose proof (arrays_of_incl _ _ I) as IA. split; [eapply incl_nonnil; eauto|].
      eapply IHt; [exact B|now apply concat_incl|apply existsb_incl; exact IA|auto].
    - rewrite J_dict in *. destruct HJ as [A B].
      pose proof (objects_of_incl _ _ I) as IA. split; [eapply incl_nonnil; eauto|].
      assert (IM : incl (map (map snd) (objects_of obs)) (map (map snd) (objects_of obs'))) by now apply incl_map.
      eapply IHt; [exact B|now apply concat_incl|apply existsb_incl; exact IM|auto].
    - rewrite J_union in *. rewrite Forall_forall in *. intros x Hx. eapply H; eauto.
    - rewrite J_obj in *. destruct HJ as [[o [Ho K]] F].
      pose proof (objects_of_incl _ _ I) as IA. split; [exists o; split; auto|].
      rewrite Forall_forall in *. intros kt Hkt. destruct (F kt Hkt) as [F1 F2]. split.
      + eapply incl_nonnil; [apply vals_incl; exact IA|exact F1].
      + eapply (H kt Hkt); [exact F2|apply vals_incl; exact IA|auto|apply miss_incl; exact IA].
    - exact HJ.
  Qed.

  Lemma J_m_irrel t e obs m m' : is_opt t = false -> J t e obs m -> J t e obs m'.
  Proof. destruct t; simpl; intros O H; try exact H. discriminate. Qed.
  Lemma J_m_false t e obs m : J t e obs false -> J t e obs m.
  Proof. intros H. eapply J_mono; eauto using incl_refl. discriminate. Qed.

  (* ------------------------------------------------------------------ *)
  (* 2. from J to tightb on normal forms                                 *)
  (* ------------------------------------------------------------------ *)
  Definition ntop (t : ty) : bool :=
    match t with TUnknown => false | TOpt TUnknown => false | _ => true end.

  Lemma J_false_ntop t obs m : J t false obs m -> ntop t = true.
  Proof.
    destruct t; simpl; auto; try discriminate.
    destruct t; simpl; auto. intros [_ H]. discriminate.
  Qed.

  Lemma tightb_m_irrel k obs m m' t : is_opt t = false -> tightb k obs m t = tightb k obs m' t.
  Proof. destruct k; [reflexivity|]. destruct t; simpl; intros O; try reflexivity. discriminate. Qed.

  Lemma tcont_of_J containers elems x :
    (ntop x = true -> exists n, forall k, n <= k -> tightb k elems false x = true) ->
    J x (existsb isnil containers) elems false ->
    exists n, forall k, n <= k -> tight_container k containers elems x = true.
  Proof.
    intros IH HJ. destruct (ntop x) eqn:NX.
    - destruct (IH eq_refl) as [n Hn]. exists (S n). intros [|k] Hk; [lia|].
      destruct x; try discriminate; try (simpl; apply Hn; lia).
      destruct x; try discriminate; simpl; apply Hn; lia.
    - destruct x; try discriminate.
      + exists 1. intros [|k] Hk; [lia|]. simpl. exact HJ.
      + destruct x; try discriminate. exists 1. intros [|k] Hk; [lia|]. simpl.
        destruct HJ as [[A|A] B]; [discriminate|]. simpl in B. rewrite A, B. reflexivity.
  Qed.

  Section ToTightb.
    Variable registry : list pseudo.
    Notation nf := (nf registry).

    Lemma J_tightb : forall t, nf t = true -> forall e obs m, ntop t = true -> J t e obs m ->
      exists n, forall k, n <= k -> tightb k obs m t = true.
    Proof.
      induction t using ty_ind2; intros NF e obs m NT HJ.
      - exists 1. intros [|k] Hk; [lia|]. exact HJ.
      - exists 1. intros [|k] Hk; [lia|]. exact HJ.
      - exists 1. intros [|k] Hk; [lia|]. exact HJ.
      - exists 1. intros [|k] Hk; [lia|]. exact HJ.
      - exists 1. intros [|k] Hk; [lia|]. exact HJ.
      - discriminate.
      - exists 1. intros [|k] Hk; [lia|]. exact HJ.
      - (* TLit *) exists 1. intros [|k] Hk; [lia|]. simpl in *. destruct HJ as [_ B].
        destruct o; [discriminate|]. destruct ls as [|s0 ls]; [discriminate|]. simpl.
        assert (E : forall s, In s (s0 :: ls) ->
                  existsb (fun v => match v with JStr s' => str_eqb s s' | _ => false end) obs = true).
        { intros s Hs. apply existsb_exists. exists (JStr s). split; [apply B, Hs|apply str_eqb_refl]. }
        rewrite (E s0 (or_introl eq_refl)). simpl. apply forallb_forall. intros s Hs. apply E. right. exact Hs.
      - (* TOpt *) simpl in NF. apply andb_prop in NF as [NF1 NF2].
        assert (NX : ntop t = true).
        { destruct t; try reflexivity; discriminate. }
        rewrite J_opt in HJ. destruct HJ as [A B].
        destruct (IHt NF1 e obs false NX B) as [n Hn]. exists (S (S n)).
        intros [|[|k]] Hk; try lia. simpl. rewrite Hn by lia.
        destruct A as [->| ->]; simpl; rewrite ?orb_true_r; reflexivity.
      - (* TList *) simpl in NF. rewrite J_list in HJ. destruct HJ as [A B].
        destruct (tcont_of_J (arrays_of obs) (concat (arrays_of obs)) t) as [n Hn]; [|exact B|].
        { intros NX. eapply IHt; eauto. }
        exists (S n). intros [|k] Hk; [lia|]. simpl. rewrite Hn by lia.
        apply isnil_negb in A. rewrite A. reflexivity.
      - (* TDict *) simpl in NF. rewrite J_dict in HJ. destruct HJ as [A B].
        destruct (tcont_of_J (map (map snd) (objects_of obs)) (concat (map (map snd) (objects_of obs))) t) as [n Hn];
          [|exact B|].
        { intros NX. eapply IHt; eauto. }
        exists (S n). intros [|k] Hk; [lia|]. simpl. rewrite Hn by lia.
        apply isnil_negb in A. rewrite A. reflexivity.
      - (* TUnion *) rewrite (NormalForm.nf_union registry) in NF. apply andb_prop in NF as [U NFs].
        unfold union_ok in U.
        repeat match goal with Hc : _ && _ = true |- _ => apply andb_prop in Hc as [Hc ?] end.
        rewrite J_union in HJ. rewrite Forall_forall in H, HJ. rewrite forallb_forall in NFs.
        match goal with Hc : forallb (fun m => negb (is_union m) && _ && _) ts = true |- _ =>
          rename Hc into Hflat end.
        rewrite forallb_forall in Hflat.
        destruct (bound_Forall (fun k x => tightb k obs false x = true) ts) as [n Hn].
        { intros x Hx. apply (H x Hx (NFs x Hx) e obs false); [|apply HJ, Hx].
          specialize (Hflat x Hx). destruct x; try reflexivity; simpl in Hflat.
          - match goal with Hc : negb (existsb is_unknown ts) = true |- _ =>
              apply negb_true_iff in Hc; assert (existsb is_unknown ts = true)
                by (apply existsb_exists; exists TUnknown; auto); congruence end.
          - discriminate. }
        exists (S n). intros [|k] Hk; [lia|].
        change (tightb (S k) obs m (TUnion ts)) with ((2 <=? length ts) && forallb (tightb k obs false) ts).
        rewrite U. simpl.
        apply forallb_forall. intros x Hx. apply Hn; [lia|exact Hx].
      - (* TObj *) rewrite (NormalForm.nf_obj registry) in NF. rewrite forallb_forall in NF.
        rewrite J_obj in HJ. destruct HJ as [[o [Ho _]] F]. rewrite Forall_forall in H, F.
        set (objs := objects_of obs) in *.
        destruct (bound_Forall (fun k (kt : str * ty) =>
                    tightb k (vals (fst kt) objs) (miss (fst kt) objs) (snd kt) = true) fs) as [n Hn].
        { intros kt Hkt. destruct (F kt Hkt) as [F1 F2].
          apply (H kt Hkt (NF kt Hkt) false); [|exact F2]. eapply J_false_ntop; eauto. }
        exists (S n). intros [|k] Hk; [lia|]. simpl. fold objs.
        assert (NE : negb (isnil objs) = true) by (apply isnil_negb; intros E; rewrite E in Ho; inversion Ho).
        rewrite NE. simpl. apply forallb_forall. intros [k0 x] Hkt.
        destruct (F _ Hkt) as [F1 _]. cbn [fst snd] in *. fold (vals k0 objs).
        apply isnil_negb in F1. rewrite F1. simpl.
        destruct (is_opt x) eqn:Ox.
        + destruct x; try discriminate.
          pose proof (Hn (S k) ltac:(lia) _ Hkt) as T. cbn [fst snd] in T. simpl in T. exact T.
        + pose proof (Hn k ltac:(lia) _ Hkt) as T. cbn [fst snd] in T.
          rewrite (tightb_m_irrel k _ _ false x Ox) in T. destruct x; try exact T. discriminate.
      - exists 1. intros [|k] Hk; [lia|]. reflexivity.
    Qed.
  End ToTightb.

  (* ------------------------------------------------------------------ *)
  (* 3. T3: union construction                                           *)
  (* ------------------------------------------------------------------ *)
  Lemma ev_str_of_In s obs : In (JStr s) obs -> existsb is_jstr obs = true.
  Proof. intros H. apply existsb_exists. exists (JStr s). split; auto. Qed.

  Lemma flat_J : forall t e obs, J t e obs false -> Forall (fun x => J x e obs false) (flat t).
  Proof.
    induction t using ty_ind2; intros e obs HJ; try (constructor; [exact HJ|constructor]).
    rewrite J_union in HJ. simpl.
    induction H as [|x r Hx Hr IH]; [constructor|]. inversion HJ; subst. apply Forall_app. split; auto.
  Qed.

  Lemma mk_union_J ts e obs :
    Forall (fun x => J x e obs false) ts -> Forall (fun x => J x e obs false) (mk_union ts).
  Proof.
    intros H. assert (F : Forall (fun x => J x e obs false) (flatten_union ts)).
    { apply (flat_J (TUnion ts)). apply J_union. exact H. }
    rewrite Forall_forall in F. apply Forall_forall. intros x Hx.
    destruct (is_lit x) eqn:L.
    - destruct x; try discriminate.
      destruct (Literals.mk_union_literal ts) as [C1 _]. destruct (C1 _ _ Hx) as [_ [_ [_ [NE _]]]].
      assert (B : forall s, In s ls -> In (JStr s) obs).
      { intros s Hs. apply (Literals.mk_union_literal_exact ts _ _ s Hx) in Hs as [l [Hl Hs]].
        apply F in Hl. destruct Hl as [_ Hl]. auto. }
      split; auto. destruct ls as [|s0 r]; [congruence|]. apply (ev_str_of_In s0). apply B. left. reflexivity.
    - destruct (NormalForm.mk_union_nonlit_from ts x Hx L) as [H1| ->]; [auto|].
      apply Literals.mk_union_str_iff in Hx. cbv zeta in Hx. destruct Hx as [K|[NE _]].
      + unfold Literals.kills in K.
        apply orb_prop in K as [K|K]; apply existsb_exists in K as [t [Ht Kt]]; apply F in Ht;
          destruct t; try discriminate.
        * exact Ht.
        * destruct overflow; try discriminate. apply Ht.
      + destruct (Literals.lits_of (flatten_union ts)) as [|s r] eqn:E; [congruence|].
        assert (Hs : In s (Literals.lits_of (flatten_union ts))) by (rewrite E; left; reflexivity).
        unfold Literals.lits_of in Hs. apply in_flat_map in Hs as [t [Ht Hs]].
        destruct t; try contradiction. destruct overflow; [contradiction|].
        apply F in Ht. destruct Ht as [_ Ht]. simpl. apply (ev_str_of_In s). auto.
  Qed.
  Lemma union1_J ts e obs : Forall (fun x => J x e obs false) ts -> J (union1 ts) e obs false.
  Proof.
    intros H. apply mk_union_J in H. unfold union1. destruct (mk_union ts) as [|x [|y r]].
    - apply J_union. constructor.
    - now inversion H.
    - now apply J_union.
  Qed.
  Lemma dunion_J ts e obs : Forall (fun x => J x e obs false) ts -> J (dunion ts) e obs false.
  Proof. intros H. apply J_union, mk_union_J, H. Qed.
  Lemma members_J t e obs : J t e obs false -> Forall (fun x => J x e obs false) (members t).
  Proof. destruct t; intros H; try (constructor; [exact H|constructor]). now apply J_union in H. Qed.
  Lemma elem_type_J types e obs :
    (types = [] -> e = true) -> Forall (fun x => J x e obs false) types -> J (elem_type types) e obs false.
  Proof.
    intros He H. destruct types as [|t [|t2 r]].
    - simpl. auto.
    - now inversion H.
    - apply (union1_J _ _ _ H).
  Qed.

  (* ------------------------------------------------------------------ *)
  (* 4. T2: detection                                                    *)
  (* ------------------------------------------------------------------ *)
  Section DetectJ.
    Variable registry : list pseudo.
    Variable n_regex : nat.
    Variable key_matches : nat -> str -> bool.
    Variable dict_fields : list str.
    Notation detect := (detect registry accepts n_regex key_matches dict_fields).
    Notation convert := (convert registry accepts n_regex key_matches dict_fields).

    Lemma convert_keys kvs : map fst (convert kvs) = map fst kvs.
    Proof. unfold Detect.convert. rewrite map_map. apply map_ext. reflexivity. Qed.

    Lemma detect_J : forall v cd, wf_json v = true -> J (detect cd v) false [v] false.
    Proof.
      induction v using json_ind2; intros cd W; try reflexivity.
      - (* JStr *) simpl. unfold detect_str. destruct (find (fun p => accepts p s) registry) as [p|] eqn:Ef.
        + apply find_some in Ef as [_ Ef]. simpl. rewrite Ef. reflexivity.
        + unfold mk_lit. destruct (lit_overflow [s]); simpl; (split; [reflexivity|]).
          * intros s' [].
          * intros s' [<-|[]]. left. reflexivity.
      - (* JArr *) apply wf_json_arr in W.
        change (detect cd (JArr l)) with (detect true (JArr l)). rewrite detect_arr. rewrite J_list.
        cbn [arrays_of flat_map app concat]. rewrite app_nil_r. split; [discriminate|].
        rewrite Forall_forall in H, W. apply elem_type_J.
        + intros E. destruct l; [reflexivity|discriminate].
        + apply Forall_forall. intros t Ht. apply in_map_iff in Ht as [x [<- Hx]].
          eapply J_mono; [apply (H x Hx true (W x Hx))| |discriminate|auto].
          intros y [<-|[]]. exact Hx.
      - (* JObj *) apply Sound.wf_json_obj in W as [ND W]. rewrite detect_obj.
        rewrite Forall_forall in H, W.
        destruct l as [|kv0 r] eqn:El.
        + rewrite J_dict. simpl. split; [discriminate|reflexivity].
        + rewrite <- El in *. assert (NE : l <> []) by (rewrite El; discriminate). clear El.
          destruct (cd && negb (all_keys_match n_regex key_matches (map fst l))).
          * rewrite J_obj. cbn [objects_of flat_map app]. split.
            -- exists l. split; [left; reflexivity|]. apply kincl_fst. symmetry. apply convert_keys.
            -- apply Forall_forall. intros kt Hkt. unfold Detect.convert in Hkt.
               apply in_map_iff in Hkt as [[k x] [<- Hin]]. unfold FJ. cbn [fst snd].
               assert (L : lookup k l = Some x) by (apply In_lookup_nodup; auto).
               unfold vals. cbn [flat_map]. rewrite L. cbn [app]. split; [discriminate|].
               eapply J_mono; [apply (H _ Hin _ (W _ Hin))|apply incl_refl|auto|discriminate].
          * rewrite J_dict. cbn [objects_of flat_map app map concat]. rewrite app_nil_r.
            split; [discriminate|]. apply elem_type_J.
            -- intros E. destruct l; [congruence|discriminate].
            -- apply Forall_forall. intros t Ht. apply in_map_iff in Ht as [kv [<- Hx]].
               eapply J_mono; [apply (H kv Hx true (W kv Hx))| |discriminate|auto].
               intros y [<-|[]]. apply in_map. exact Hx.
    Qed.

    Lemma convert_J kvs : wf_json (JObj kvs) = true -> J (TObj (convert kvs)) false [JObj kvs] false.
    Proof.
      intros W. apply Sound.wf_json_obj in W as [ND W]. rewrite Forall_forall in W.
      rewrite J_obj. cbn [objects_of flat_map app]. split.
      - exists kvs. split; [left; reflexivity|]. apply kincl_fst. symmetry. apply convert_keys.
      - apply Forall_forall. intros kt Hkt. unfold Detect.convert in Hkt.
        apply in_map_iff in Hkt as [[k x] [<- Hin]]. unfold FJ. cbn [fst snd].
        assert (L : lookup k kvs = Some x) by (apply In_lookup_nodup; auto).
        unfold vals. cbn [flat_map]. rewrite L. cbn [app]. split; [discriminate|].
        eapply J_mono; [apply (detect_J x _ (W _ Hin))|apply incl_refl|auto|discriminate].
    Qed.
  End DetectJ.

  (* ------------------------------------------------------------------ *)
  (* 5. T4: merge_field_sets                                             *)
  (* ------------------------------------------------------------------ *)
  Lemma update_Forall (P : str * ty -> Prop) k t acc : Forall P acc -> P (k, t) -> Forall P (update k t acc).
  Proof.
    induction acc as [|[k' t'] r IH]; simpl; intros F H.
    - constructor; auto.
    - inversion F; subst. destruct (str_eqb k k') eqn:E.
      + apply str_eqb_true in E. subst. constructor; auto.
      + constructor; auto.
  Qed.
  Lemma has_key_update {A} k k' (t : A) acc :
    has_key k' (update k t acc) = true <-> (k' = k \/ has_key k' acc = true).
  Proof.
    destruct (list_eq_dec N.eq_dec k' k) as [->|Nk]; unfold has_key.
    - rewrite lookup_update_same. split; auto.
    - rewrite lookup_update_other by auto. split; auto. intros [?|?]; [contradiction|auto].
  Qed.
  Lemma kincl_update {A} k (t : A) acc : kincl acc (update k t acc).
  Proof. intros k' H. apply has_key_update. auto. Qed.

  Section MergeJ.
    Variable peq : N -> N -> bool.
    Variable objs : list (list (str * json)).
    Notation FJo := (FJ objs).
    Definition wit (fs : fields) : Prop := exists o, In o objs /\ kincl o fs.
    Definition SetOK (f : fields) : Prop := Forall FJo f /\ no_opt f = true /\ wit f.

    Lemma wit_kincl a b : wit a -> kincl a b -> wit b.
    Proof. intros [o [Ho K]] K2. exists o. split; auto. eapply kincl_trans; eauto. Qed.
    Lemma wit_miss fs k : wit fs -> has_key k fs = false -> miss k objs = true.
    Proof.
      intros [o [Ho K]] H. unfold miss. apply existsb_exists. exists o. split; auto.
      destruct (has_key k o) eqn:E; auto. apply K in E. congruence.
    Qed.

    Lemma merge_field_FJ first acc name field :
      Forall FJo acc -> FJo (name, field) -> is_opt field = false -> (first = true \/ wit acc) ->
      Forall FJo (merge_field peq first acc (name, field)).
    Proof.
      intros Fa [V Jf] NO FW. cbn [fst snd] in *. unfold merge_field.
      assert (Jf0 : J field false (vals name objs) false) by (eapply J_m_irrel; eauto).
      destruct (lookup name acc) as [fo|] eqn:L.
      - pose proof (lookup_In _ _ _ L) as Hin.
        assert (Jo : J fo false (vals name objs) (miss name objs)).
        { rewrite Forall_forall in Fa. apply (Fa _ Hin). }
        assert (U : forall x, J x false (vals name objs) false ->
                    J (union1 (members field ++ members x)) false (vals name objs) false).
        { intros x Hx. apply union1_J, Forall_app. split; apply members_J; auto. }
        assert (R1 : forall x, J x false (vals name objs) false ->
                     Forall FJo (update name (union1 (members field ++ members x)) acc)).
        { intros x Hx. apply update_Forall; auto. split; auto. cbn [fst snd]. apply J_m_false. auto. }
        destruct (is_opt fo) eqn:Ofo.
        + destruct fo; try discriminate. rewrite J_opt in Jo. destruct Jo as [Jo1 Jo2].
          repeat match goal with |- context [if ?c then _ else _] => destruct c end; try assumption.
          apply update_Forall; auto. split; auto. cbn [fst snd]. rewrite J_opt. split; auto.
        + assert (Jo0 : J fo false (vals name objs) false) by (eapply J_m_irrel; eauto).
          destruct fo; try discriminate;
            (destruct (py_eq peq _ field); [assumption|]);
            destruct field; try discriminate; apply R1; exact Jo0.
      - rewrite NO, orb_false_r. destruct first.
        + apply update_Forall; auto. split; auto.
        + destruct FW as [FW|FW]; [discriminate|].
          assert (M : miss name objs = true).
          { apply (wit_miss acc); auto. unfold has_key. now rewrite L. }
          apply update_Forall; auto. split; auto. cbn [fst snd]. rewrite J_opt. split; auto.
    Qed.

    Lemma merge_field_keys first acc kv :
      kincl acc (merge_field peq first acc kv) /\ has_key (fst kv) (merge_field peq first acc kv) = true.
    Proof.
      destruct kv as [name field]. cbn [fst]. unfold merge_field.
      assert (U : forall t, kincl acc (update name t acc) /\ has_key name (update name t acc) = true).
      { intros t. split; [apply kincl_update|apply has_key_update; auto]. }
      destruct (lookup name acc) as [fo|] eqn:L; [|apply U].
      assert (A : kincl acc acc /\ has_key name acc = true).
      { split; [apply kincl_refl|]. unfold has_key. now rewrite L. }
      destruct fo; repeat match goal with |- context [if ?c then _ else _] => destruct c end;
        try exact A; try apply U;
        destruct field; repeat match goal with |- context [if ?c then _ else _] => destruct c end;
        try exact A; apply U.
    Qed.

    Lemma fold_merge_FJ first : forall model acc,
      Forall FJo acc -> Forall FJo model -> no_opt model = true -> (first = true \/ wit acc) ->
      Forall FJo (fold_left (merge_field peq first) model acc) /\
      kincl acc (fold_left (merge_field peq first) model acc) /\
      kincl model (fold_left (merge_field peq first) model acc).
    Proof.
      induction model as [|[name field] r IH]; intros acc Fa Fm NO FW; cbn [fold_left].
      - split; auto. split; [apply kincl_refl|]. intros k Hk. discriminate.
      - inversion Fm as [|? ? Hf Hr]; subst. simpl in NO. apply andb_prop in NO as [NO1 NO2].
        apply negb_true_iff in NO1.
        pose proof (merge_field_FJ first acc name field Fa Hf NO1 FW) as F1.
        destruct (merge_field_keys first acc (name, field)) as [K1 K2]. cbn [fst] in K2.
        assert (FW' : first = true \/ wit (merge_field peq first acc (name, field))).
        { destruct FW as [FW|FW]; [left; auto|right; eapply wit_kincl; eauto]. }
        destruct (IH _ F1 Hr NO2 FW') as [A [B C]].
        split; auto. split; [eapply kincl_trans; eauto|].
        intros k Hk. unfold has_key in Hk. simpl in Hk. destruct (str_eqb k name) eqn:E.
        + apply str_eqb_true in E. subst. apply B, K2.
        + apply C. exact Hk.
    Qed.

    Lemma merge_step_FJ first acc model :
      Forall FJo acc -> SetOK model -> (first = true \/ wit acc) ->
      Forall FJo (snd (merge_step peq (first, acc) model)) /\ wit (snd (merge_step peq (first, acc) model)).
    Proof.
      intros Fa [Fm [NO W]] FW. unfold merge_step. cbn [snd].
      destruct (fold_merge_FJ first model acc Fa Fm NO FW) as [A [B C]].
      set (acc' := fold_left (merge_field peq first) model acc) in *. split.
      - apply Forall_map. eapply Forall_impl; [|exact A]. intros [k t] [V Jt]. cbn [fst snd] in *.
        destruct (has_key k acc && negb (has_key k model)) eqn:E; [|split; auto].
        apply andb_prop in E as [_ E]. apply negb_true_iff in E.
        pose proof (wit_miss model k W E) as M. split; cbn [fst snd]; auto.
        unfold wrap_opt. destruct (is_opt t) eqn:O; [exact Jt|]. rewrite J_opt. split; auto.
        eapply J_m_irrel; eauto.
      - eapply wit_kincl; [exact W|]. eapply kincl_trans; [exact C|]. apply kincl_fst.
        rewrite map_map. apply map_ext. intros [k t]. cbn [fst snd].
        destruct (has_key k acc && negb (has_key k model)); reflexivity.
    Qed.

    Lemma merge_fold_FJ : forall sets st,
      Forall SetOK sets -> Forall FJo (snd st) -> (fst st = true \/ wit (snd st)) ->
      Forall FJo (snd (fold_left (merge_step peq) sets st)) /\
      ((sets <> [] \/ wit (snd st)) -> wit (snd (fold_left (merge_step peq) sets st))).
    Proof.
      induction sets as [|s r IH]; intros [first acc] Hs Fa FW; cbn [fold_left fst snd] in *.
      - split; auto. intros [H|H]; [congruence|exact H].
      - inversion Hs as [|? ? Hs1 Hs2]; subst.
        destruct (merge_step_FJ first acc s Fa Hs1 FW) as [F1 W1].
        destruct (IH (merge_step peq (first, acc) s) Hs2 F1 (or_intror W1)) as [A B].
        split; auto.
    Qed.

    Theorem merge_field_sets_FJ sets : sets <> [] -> Forall SetOK sets ->
      Forall FJo (merge_field_sets peq sets) /\ wit (merge_field_sets peq sets).
    Proof.
      intros NE Hs. unfold merge_field_sets.
      destruct (merge_fold_FJ sets (true, []) Hs (Forall_nil _) (or_introl eq_refl)) as [A B]. auto.
    Qed.
  End MergeJ.

  Theorem merge_J peq sets e obs : sets <> [] ->
    Forall (fun f => no_opt f = true /\ J (TObj f) e obs false) sets ->
    J (TObj (merge_field_sets peq sets)) e obs false.
  Proof.
    intros NE H. rewrite J_obj.
    destruct (merge_field_sets_FJ peq (objects_of obs) sets NE) as [A B].
    - eapply Forall_impl; [|exact H]. intros f [NO Jf]. rewrite J_obj in Jf. destruct Jf as [W F].
      split; [exact F|]. split; [exact NO|exact W].
    - split; [exact B|exact A].
  Qed.

  (* ------------------------------------------------------------------ *)
  (* 6. T5: optimize                                                     *)
  (* ------------------------------------------------------------------ *)
  Lemma ev_str_of_pseudo p obs :
    existsb (fun v => match v with JStr s => accepts p s | _ => false end) obs = true -> existsb is_jstr obs = true.
  Proof.
    intros H. apply existsb_exists in H as [v [Hv A]]. destruct v; try discriminate.
    apply (ev_str_of_In s). exact Hv.
  Qed.

  Lemma ofields_F2 o : forall l l', ofields o l = Some l' ->
    Forall2 (fun kt kt' : str * ty => fst kt = fst kt' /\ o (snd kt) = Some (snd kt')) l l'.
  Proof.
    induction l as [|[k0 x] r IH]; simpl; intros l' H.
    - inversion H. constructor.
    - destruct (o x) as [x'|] eqn:E; [|discriminate]. destruct (ofields o r) as [r'|] eqn:E'; [|discriminate].
      inversion H; subst. constructor; auto.
  Qed.

  Lemma finish_J types t' e obs :
    Forall (fun x => J x e obs false) types -> finish types = Some t' -> J t' e obs false.
  Proof.
    intros H F. destruct types as [|x [|y r]]; [discriminate| |].
    - simpl in F. inversion F; subst. now inversion H.
    - remember (x :: y :: r) as types eqn:ET.
      assert (F' : Some (let types1 := if existsb is_unknown types && existsb (fun t => negb (is_unknown t) && negb (is_null t)) types
                   then remove_first is_unknown types else types in
               if existsb is_null types1 then TOpt (union1 (filter (fun x => negb (is_null x)) types1))
               else union1 (filter (fun x => negb (is_null x)) types1)) = Some t').
      { rewrite <- F. subst types. reflexivity. }
      clear F. inversion F' as [F]. clear F'. cbv zeta.
      set (types1 := if existsb is_unknown types && existsb (fun t => negb (is_unknown t) && negb (is_null t)) types
                   then remove_first is_unknown types else types).
      rewrite Forall_forall in H.
      assert (H1 : forall t, In t types1 -> J t e obs false).
      { intros t Ht. apply H. unfold types1 in Ht. destruct (_ && _); auto. eapply remove_first_sub; eauto. }
      assert (M : J (union1 (filter (fun x => negb (is_null x)) types1)) e obs false).
      { apply union1_J. apply Forall_forall. intros t Ht. apply filter_In in Ht as [Ht _]. auto. }
      destruct (existsb is_null types1) eqn:EN; [|exact M].
      rewrite J_opt. split; [|exact M]. right.
      apply existsb_exists in EN as [t [Ht Nt]]. destruct t; try discriminate. apply (H1 _ Ht).
  Qed.

  Section OptJ.
    Variable registry : list pseudo.
    Variable replaces : list (pseudo * pseudo).
    Variable peq : N -> N -> bool.
    Hypothesis Hpeq : forall i j, peq i j = true -> i = j.
    Notation optimize := (optimize registry replaces peq).
    Notation regroup := (regroup registry replaces peq).

    Lemma merge_okf sets : Forall (fun f => okf f = true /\ no_opt f = true) sets ->
      okf (merge_field_sets peq sets) = true.
    Proof.
      intros H.
      assert (Hp : forall i j, peq i j = true -> forall v,
                htg (fun _ _ => false) (fun _ => None) false v (TPtr i) <->
                htg (fun _ _ => false) (fun _ => None) false v (TPtr j)).
      { intros i j E v. apply Hpeq in E. subst. reflexivity. }
      apply (merge_member_sound (fun _ _ => false) (fun _ => None) false peq Hp sets).
      - eapply Forall_impl; [|exact H]. simpl. tauto.
      - destruct sets; simpl; [constructor|]. inversion H; subst. eapply Forall_impl; [|eassumption]. simpl. tauto.
    Qed.

    Section Regroup.
      Variable e : bool.
      Variable obs : list json.
      Notation Jx := (fun x => J x e obs false).

      Definition catJ (st : cats) : Prop :=
        let '(strs, objs, lists, dicts, other) := st in
        Forall Jx strs /\ Forall (fun f => J (TObj f) e obs false) objs /\
        Forall (fun x => J (TList x) e obs false) lists /\ Forall (fun x => J (TDict x) e obs false) dicts /\
        Forall Jx other.

      Lemma add_null_J st : catJ st -> existsb is_jnull obs = true -> catJ (add_null st).
      Proof.
        destruct st as [[[[strs objs] lists] dicts] other]. simpl. intros [A [B [C [D E]]]] Hn.
        repeat split; auto. apply Forall_app. split; auto.
      Qed.
      Lemma classify_J st t : catJ st -> J t e obs false -> catJ (classify registry st t).
      Proof.
        destruct st as [[[[strs objs] lists] dicts] other]. intros [A [B [C [D E]]]] HJ.
        assert (Def : catJ (if in_reg registry t then (strs ++ [t], objs, lists, dicts, other)
                            else (strs, objs, lists, dicts, other ++ [t]))).
        { destruct (in_reg registry t); simpl; repeat split; auto; apply Forall_app; split; auto. }
        destruct t; try exact Def; simpl; repeat split; auto; apply Forall_app; split; auto.
      Qed.
      Lemma split_fold_J : forall ts st, catinv st -> catJ st -> okts ts -> Forall Jx ts ->
        catinv (fold_left (split_step registry) ts st) /\ catJ (fold_left (split_step registry) ts st).
      Proof.
        induction ts as [|t r IH]; intros st I C O HJ; cbn [fold_left]; [split; auto|].
        inversion O as [|? ? Ot Or]; subst. inversion HJ as [|? ? Jt Jr]; subst.
        apply IH; auto.
        - rewrite split_step_eq. destruct t; try (apply classify_inv; assumption).
          apply classify_inv; [now apply add_null_inv|exact Ot].
        - rewrite split_step_eq. destruct t; try (apply classify_J; assumption).
          rewrite J_opt in Jt. destruct Jt as [[Jn|Jn] Jx0]; [discriminate|].
          apply classify_J; auto. now apply add_null_J.
      Qed.

      (* D32 repair of regroup: the work-list is flat_map members_deep ts.  An Optional member contributes TNull
         (justified: at m = false the Optional itself needs an observed null) and its payload; a union member its
         members. *)
      Lemma members_deep_J : forall t, J t e obs false -> Forall Jx (members_deep t).
      Proof.
        induction t using ty_ind2; intros HJ; try (constructor; [exact HJ|constructor]).
        - (* TOpt *) rewrite J_opt in HJ. destruct HJ as [[A|A] B]; [discriminate|].
          change (members_deep (TOpt t)) with (TNull :: members_deep t). constructor; [exact A|apply IHt, B].
        - (* TUnion *) rewrite members_deep_union. rewrite J_union in HJ.
          induction H as [|x r Hx Hr IHr]; [constructor|]. inversion HJ; subst.
          cbn [flat_map]. apply Forall_app. split; auto.
      Qed.
      Lemma flat_map_members_deep_J ts : Forall Jx ts -> Forall Jx (flat_map members_deep ts).
      Proof. intros H. rewrite <- members_deep_union. apply members_deep_J. apply J_union. exact H. Qed.

      Lemma regroup_J ts : okts ts -> Forall Jx ts ->
        Forall (fun t => okT t = true /\ J t e obs false) (regroup ts).
      Proof.
        intros O0 HJ0. unfold Optimize.regroup.
        pose proof (flat_map_members_deep_okt ts O0) as O. pose proof (flat_map_members_deep_J ts HJ0) as HJ.
        clear O0 HJ0. set (ms := flat_map members_deep ts) in *. clearbody ms. clear ts. rename ms into ts.
        assert (I0 : catinv ([], [], [], [], [])) by (simpl; repeat split; constructor).
        assert (C0 : catJ ([], [], [], [], [])) by (simpl; repeat split; constructor).
        destruct (split_fold_J ts _ I0 C0 O HJ) as [I C].
        destruct (fold_left (split_step registry) ts ([], [], [], [], [])) as [[[[strs objs] lists] dicts] other].
        destruct I as [Is [Io [Il [Id Ie]]]]. destruct C as [Cs [Co [Cl [Cd Ce]]]].
        repeat (apply Forall_app; split).
        - rewrite Forall_forall in *. intros x Hx.
          assert (Hx' : In x other).
          { destruct (existsb (ty_eqb TInt) other && existsb (ty_eqb TFloat) other); auto.
            eapply remove_first_sub; eauto. }
          split; [apply okt_okT; auto|auto].
        - destruct objs as [|f0 fr] eqn:Eo; [constructor|]. rewrite <- Eo in *.
          assert (NE : objs <> []) by (rewrite Eo; discriminate).
          constructor; [|constructor]. split.
          + simpl. apply merge_okf. exact Io.
          + apply merge_J; auto. rewrite Forall_forall in *. intros f Hf. split; [apply Io, Hf|apply Co, Hf].
        - destruct lists as [|x0 xr] eqn:El; [constructor|]. rewrite <- El in *.
          constructor; [|constructor]. split; [simpl; now apply dunion_okt|].
          assert (A : arrays_of obs <> []).
          { rewrite El in Cl. inversion Cl as [|? ? Hx0 _]; subst. rewrite J_list in Hx0. tauto. }
          rewrite J_list. split; auto. apply dunion_J. eapply Forall_impl; [|exact Cl].
          intros x Hx. rewrite J_list in Hx. tauto.
        - destruct dicts as [|x0 xr] eqn:El; [constructor|]. rewrite <- El in *.
          constructor; [|constructor]. split; [simpl; now apply dunion_okt|].
          assert (A : objects_of obs <> []).
          { rewrite El in Cd. inversion Cd as [|? ? Hx0 _]; subst. rewrite J_dict in Hx0. tauto. }
          rewrite J_dict. split; auto. apply dunion_J. eapply Forall_impl; [|exact Cd].
          intros x Hx. rewrite J_dict in Hx. tauto.
        - destruct (StrTypes.str_result_shape replaces strs) as [[S1 _] [S2|[S2|[p [S2 Hp]]]]]; rewrite S2.
          + constructor.
          + constructor; [|constructor]. split; [reflexivity|].
            destruct strs as [|t0 sr].
            * exfalso. assert (E : str_result replaces [] = []) by reflexivity. congruence.
            * inversion Is as [|? ? Ht0 _]; subst. inversion Cs as [|? ? Jt0 _]; subst.
              destruct Ht0 as [->|[p ->]]; [exact Jt0|]. simpl. apply (ev_str_of_pseudo p). exact Jt0.
          + constructor; [|constructor]. split; [reflexivity|].
            rewrite Forall_forall in Cs. apply (Cs _ Hp).
      Qed.
    End Regroup.

    Theorem optimize_J : forall fuel t t' e obs m,
      okT t = true -> optimize fuel t = Some t' -> J t e obs m -> J t' e obs m.
    Proof.
      induction fuel as [|fuel IH]; intros t t' e obs m O E HJ; [discriminate|].
      rewrite optimize_S in E. destruct t; try (inversion E; subst; exact HJ).
      - (* TLit *) inversion E; subst. destruct (overflow || match ls with [] => true | _ => false end); [|exact HJ].
        simpl in *. tauto.
      - (* TOpt *) simpl in O. destruct (optimize fuel t) as [y|] eqn:Ey; [|discriminate].
        assert (R : t' = match y with TOpt y' => TOpt y' | _ => TOpt y end) by (destruct y; inversion E; reflexivity).
        rewrite J_opt in HJ. destruct HJ as [A B].
        assert (Hy : J y e obs false) by (eapply IH; eauto; now apply okt_okT).
        subst t'. destruct y; try (rewrite J_opt; split; [exact A|exact Hy]).
        rewrite J_opt in Hy. rewrite J_opt. destruct Hy as [[Hy|Hy] Hy2]; [discriminate|]. split; auto.
      - (* TList *) simpl in O. destruct (optimize fuel t) as [y|] eqn:Ey; [|discriminate].
        inversion E; subst. rewrite J_list in *. destruct HJ as [A B]. split; auto.
        eapply IH; eauto. now apply okt_okT.
      - (* TDict *) simpl in O. destruct (optimize fuel t) as [y|] eqn:Ey; [|discriminate].
        inversion E; subst. rewrite J_dict in *. destruct HJ as [A B]. split; auto.
        eapply IH; eauto. now apply okt_okT.
      - (* TUnion *) unfold okT in O. rewrite okt_union in O.
        assert (Ots : okts ts) by (rewrite forallb_forall in O; apply Forall_forall; auto).
        rewrite J_union in HJ.
        pose proof (regroup_J e obs ts Ots HJ) as R.
        destruct (olist (optimize fuel) (regroup ts)) as [types|] eqn:EL; [|discriminate].
        apply olist_Forall2 in EL. apply J_m_false.
        apply (finish_J types t' e obs); auto.
        clear E. induction EL as [|x x' l l' Hx _ IHl]; [constructor|].
        inversion R as [|? ? [Ox Jx0] R']; subst. constructor; [|apply IHl; exact R'].
        eapply IH; eauto.
      - (* TObj *) simpl in O.
        destruct (ofields (optimize fuel) fs) as [fs'|] eqn:EF; [|discriminate].
        inversion E; subst. apply ofields_F2 in EF.
        rewrite J_obj in *. destruct HJ as [[o [Ho K]] F].
        apply okf_iff in O as [_ O].
        assert (KF : map fst fs = map fst fs').
        { clear -EF. induction EF as [|a b l l' [Hab _] _ IHl]; [reflexivity|]. simpl. now rewrite Hab, IHl. }
        split.
        + exists o. split; auto. eapply kincl_trans; [exact K|]. now apply kincl_fst.
        + clear KF K E. revert F O.
          induction EF as [|[k x] [k' x'] l l' [Hk Hx] _ IHl]; intros F O; [constructor|].
          cbn [fst snd] in *. subst k'.
          inversion F as [|? ? [F1 F2] F']; subst. inversion O as [|? ? Ox O']; subst.
          constructor; [|apply IHl; assumption].
          split; [exact F1|]. cbn [fst snd] in *. eapply IH; eauto. now apply okt_okT.
    Qed.
  End OptJ.
End TightJ.

(* ------------------------------------------------------------------ *)
(* 6b. the fuel-free twin of tightb                                    *)
(* ------------------------------------------------------------------ *)
Section Twin.
  Variable accepts : pseudo -> str -> bool.
  Notation tightb := (tightb accepts).
  Notation tight_elem := (tight_elem accepts).
  Notation tight_container := (tight_container accepts).

  (* element type of a container *)
  Definition tcontP (x : ty) (containers : list (list json)) (elems : list json) (P : Prop) : Prop :=
    match x with
    | TUnknown => existsb isnil containers = true
    | TOpt TUnknown => existsb isnil containers = true /\ existsb is_jnull elems = true
    | _ => P
    end.

  (* same rules as tightb, no fuel.  The field rule of TObj is written `tight x vals (miss k objs)`: for an Optional
     field this is tightb's "(some object lacks k || a null was seen) && payload", for any other field the flag is
     ignored — exactly the two branches of tightb. *)
  Fixpoint tight (t : ty) (obs : list json) (m : bool) {struct t} : Prop :=
    match t with
    | TInt => existsb (fun v => match v with JInt _ => true | _ => false end) obs = true
    | TFloat => existsb (fun v => match v with JInt _ | JFloat _ => true | _ => false end) obs = true
    | TBool => existsb (fun v => match v with JBool _ => true | _ => false end) obs = true
    | TNull => existsb is_jnull obs = true
    | TStr => existsb is_jstr obs = true
    | TUnknown => False
    | TPseudo p => existsb (fun v => match v with JStr s => accepts p s | _ => false end) obs = true
    | TLit o ls => o = false /\ ls <> [] /\ forall s, In s ls -> In (JStr s) obs
    | TOpt x => (m = true \/ existsb is_jnull obs = true) /\ tight x obs false
    | TList x => arrays_of obs <> [] /\
                 tcontP x (arrays_of obs) (concat (arrays_of obs)) (tight x (concat (arrays_of obs)) false)
    | TDict x => objects_of obs <> [] /\
                 tcontP x (map (map snd) (objects_of obs)) (concat (map (map snd) (objects_of obs)))
                        (tight x (concat (map (map snd) (objects_of obs))) false)
    | TUnion ts => 2 <= length ts /\
                   (fix all (l : list ty) : Prop := match l with [] => True | x :: r => tight x obs false /\ all r end) ts
    | TObj fs =>
        objects_of obs <> [] /\
        (fix all (l : fields) : Prop :=
           match l with
           | [] => True
           | (k, x) :: r => (vals k (objects_of obs) <> [] /\
                             tight x (vals k (objects_of obs)) (miss k (objects_of obs))) /\ all r
           end) fs
    | TPtr _ => True
    end.

  Lemma tight_union ts obs m :
    tight (TUnion ts) obs m <-> 2 <= length ts /\ Forall (fun x => tight x obs false) ts.
  Proof.
    simpl. apply and_iff_compat_l. induction ts as [|x r IH]; split; intros H.
    - constructor. - exact I.
    - constructor; [apply H|apply IH, H].
    - inversion H; subst. split; [assumption|]. apply IH. assumption.
  Qed.
  Lemma tight_obj fs obs m :
    tight (TObj fs) obs m <->
    objects_of obs <> [] /\
    Forall (fun kt => vals (fst kt) (objects_of obs) <> [] /\
                      tight (snd kt) (vals (fst kt) (objects_of obs)) (miss (fst kt) (objects_of obs))) fs.
  Proof.
    simpl. apply and_iff_compat_l. induction fs as [|[k x] r IH]; split; intros H.
    - constructor. - exact I.
    - constructor; [apply H|apply IH, H].
    - inversion H; subst. split; [assumption|]. apply IH. assumption.
  Qed.

  Lemma tightb_S k obs m t :
    tightb (S k) obs m t =
    match t with
    | TInt => existsb (fun v => match v with JInt _ => true | _ => false end) obs
    | TFloat => existsb (fun v => match v with JInt _ | JFloat _ => true | _ => false end) obs
    | TBool => existsb (fun v => match v with JBool _ => true | _ => false end) obs
    | TNull => existsb is_jnull obs
    | TStr => existsb is_jstr obs
    | TUnknown => false
    | TPseudo p => existsb (fun v => match v with JStr s => accepts p s | _ => false end) obs
    | TLit o ls => negb o && negb (isnil ls) &&
                   forallb (fun s => existsb (fun v => match v with JStr s' => str_eqb s s' | _ => false end) obs) ls
    | TOpt x => (m || existsb is_jnull obs) && tight_elem k obs x
    | TList x => negb (isnil (arrays_of obs)) && tight_container k (arrays_of obs) (concat (arrays_of obs)) x
    | TDict x => negb (isnil (objects_of obs)) &&
                 tight_container k (map (map snd) (objects_of obs)) (concat (map (map snd) (objects_of obs))) x
    | TUnion ts => (2 <=? length ts) && forallb (tightb k obs false) ts
    | TObj fs =>
        negb (isnil (objects_of obs)) &&
        forallb (fun kt =>
                   negb (isnil (vals (fst kt) (objects_of obs))) &&
                   match snd kt with
                   | TOpt x => (miss (fst kt) (objects_of obs) || existsb is_jnull (vals (fst kt) (objects_of obs)))
                               && tight_elem k (vals (fst kt) (objects_of obs)) x
                   | x => tightb k (vals (fst kt) (objects_of obs)) false x
                   end) fs
    | TPtr _ => true
    end.
  Proof. destruct t; reflexivity. Qed.
  Lemma tight_elem_S k obs x : tight_elem (S k) obs x = tightb k obs false x.
  Proof. reflexivity. Qed.
  Lemma tight_container_S k c el x :
    tight_container (S k) c el x =
    match x with
    | TUnknown => existsb isnil c
    | TOpt TUnknown => existsb isnil c && existsb is_jnull el
    | _ => tightb k el false x
    end.
  Proof. reflexivity. Qed.
  Lemma tight_container_ntop k c el x : ntop x = true -> tight_container (S k) c el x = tightb k el false x.
  Proof. intros N. rewrite tight_container_S. destruct x; try reflexivity; try discriminate. destruct x; try reflexivity; discriminate. Qed.
  Lemma tcontP_ntop x c el P : ntop x = true -> tcontP x c el P = P.
  Proof. intros N. destruct x; try reflexivity; try discriminate. destruct x; try reflexivity; discriminate. Qed.

  (* the field test of tightb's TObj case, at fuel k, is tightb at the flag `miss` (fuel S k for an Optional) *)
  Lemma field_test k vs mi (kt : str * ty) :
    match snd kt with
    | TOpt y => (mi || existsb is_jnull vs) && tight_elem k vs y
    | x0 => tightb k vs false x0
    end = if is_opt (snd kt) then tightb (S k) vs mi (snd kt) else tightb k vs mi (snd kt).
  Proof.
    destruct kt as [k0 x]. cbn [snd]. destruct (is_opt x) eqn:O.
    - destruct x; try discriminate. rewrite tightb_S. reflexivity.
    - rewrite (tightb_m_irrel accepts k vs mi false x O). destruct x; try reflexivity. discriminate.
  Qed.

  (* soundness of the boolean test *)
  Lemma tightb_tight : forall k t obs m, tightb k obs m t = true -> tight t obs m.
  Proof.
    induction k as [k IH] using lt_wf_ind. intros t obs m H. destruct k as [|k]; [discriminate|].
    rewrite tightb_S in H. destruct t; try exact H.
    - discriminate.
    - (* TLit *) apply andb_prop in H as [H H3]. apply andb_prop in H as [H1 H2]. simpl.
      split; [destruct overflow; [discriminate|reflexivity]|]. split; [now apply isnil_negb|].
      intros s Hs. rewrite forallb_forall in H3. specialize (H3 s Hs).
      apply existsb_exists in H3 as [v [Hv E]]. destruct v; try discriminate.
      apply str_eqb_true in E. subst. exact Hv.
    - (* TOpt *) apply andb_prop in H as [A B]. destruct k as [|k]; [discriminate|]. rewrite tight_elem_S in B.
      split; [apply orb_prop in A; tauto|]. apply (IH k); [lia|exact B].
    - (* TList *) apply andb_prop in H as [A B]. destruct k as [|k]; [discriminate|]. rewrite tight_container_S in B.
      split; [now apply isnil_negb|].
      destruct t; try (apply (IH k); [lia|exact B]); [exact B|].
      destruct t; try (apply (IH k); [lia|exact B]). simpl. apply andb_prop in B. exact B.
    - (* TDict *) apply andb_prop in H as [A B]. destruct k as [|k]; [discriminate|]. rewrite tight_container_S in B.
      split; [now apply isnil_negb|].
      destruct t; try (apply (IH k); [lia|exact B]); [exact B|].
      destruct t; try (apply (IH k); [lia|exact B]). simpl. apply andb_prop in B. exact B.
    - (* TUnion *) apply andb_prop in H as [A B]. apply tight_union. split; [now apply Nat.leb_le|].
      rewrite forallb_forall in B. apply Forall_forall. intros x Hx. apply (IH k); [lia|auto].
    - (* TObj *) apply andb_prop in H as [A B]. apply tight_obj. split; [now apply isnil_negb|].
      rewrite forallb_forall in B. apply Forall_forall. intros kt Hkt. specialize (B kt Hkt). cbv beta in B.
      apply andb_prop in B as [B1 B2]. split; [now apply isnil_negb|].
      destruct kt as [k0 x]. cbn [fst snd] in *. destruct (is_opt x) eqn:Ox.
      + destruct x; try discriminate. apply andb_prop in B2 as [C D].
        destruct k as [|k]; [discriminate|]. rewrite tight_elem_S in D.
        split; [apply orb_prop in C; tauto|]. apply (IH k); [lia|exact D].
      + assert (T : tightb k (vals k0 (objects_of obs)) false x = true) by (destruct x; try exact B2; discriminate).
        apply (IH k) in T; [|lia]. destruct x; try exact T. discriminate.
    - exact I.
  Qed.

  (* completeness: enough fuel suffices, and then every larger fuel does *)
  Lemma tcont_complete c el x :
    (tight x el false -> exists n, forall k, n <= k -> tightb k el false x = true) ->
    tcontP x c el (tight x el false) ->
    exists n, forall k, n <= k -> tight_container k c el x = true.
  Proof.
    intros IH H. destruct (ntop x) eqn:NX.
    - rewrite tcontP_ntop in H by exact NX. destruct (IH H) as [n Hn]. exists (S n).
      intros [|k] Hk; [lia|]. rewrite tight_container_ntop by exact NX. apply Hn. lia.
    - destruct x; try discriminate.
      + exists 1. intros [|k] Hk; [lia|]. exact H.
      + destruct x; try discriminate. exists 1. intros [|k] Hk; [lia|]. rewrite tight_container_S.
        destruct H as [A B]. simpl in A, B. now rewrite A, B.
  Qed.

  Lemma tight_tightb : forall t obs m, tight t obs m -> exists n, forall k, n <= k -> tightb k obs m t = true.
  Proof.
    induction t using ty_ind2; intros obs m HT;
      try (exists 1; intros [|k] Hk; [lia|]; exact HT).
    - destruct HT.
    - (* TLit *) exists 1. intros [|k] Hk; [lia|]. rewrite tightb_S. destruct HT as [-> [NE B]].
      apply isnil_negb in NE. rewrite NE. simpl. apply forallb_forall. intros s Hs.
      apply existsb_exists. exists (JStr s). split; [apply B, Hs|apply str_eqb_refl].
    - (* TOpt *) destruct HT as [A B]. destruct (IHt _ _ B) as [n Hn]. exists (S (S n)).
      intros [|[|k]] Hk; try lia. rewrite tightb_S, tight_elem_S, Hn by lia.
      destruct A as [->| ->]; simpl; rewrite ?orb_true_r; reflexivity.
    - (* TList *) destruct HT as [A B].
      destruct (tcont_complete _ _ _ (IHt _ false) B) as [n Hn]. exists (S n).
      intros [|k] Hk; [lia|]. rewrite tightb_S, Hn by lia. apply isnil_negb in A. now rewrite A.
    - (* TDict *) destruct HT as [A B].
      destruct (tcont_complete _ _ _ (IHt _ false) B) as [n Hn]. exists (S n).
      intros [|k] Hk; [lia|]. rewrite tightb_S, Hn by lia. apply isnil_negb in A. now rewrite A.
    - (* TUnion *) apply tight_union in HT as [L F]. rewrite Forall_forall in H, F.
      destruct (bound_Forall (fun k x => tightb k obs false x = true) ts) as [n Hn].
      { intros x Hx. apply (H x Hx). apply F, Hx. }
      exists (S n). intros [|k] Hk; [lia|]. rewrite tightb_S. apply Nat.leb_le in L. rewrite L. simpl.
      apply forallb_forall. intros x Hx. apply Hn; [lia|exact Hx].
    - (* TObj *) apply tight_obj in HT as [NE F]. rewrite Forall_forall in H, F.
      set (objs := objects_of obs) in *.
      destruct (bound_Forall (fun k (kt : str * ty) =>
                  tightb k (vals (fst kt) objs) (miss (fst kt) objs) (snd kt) = true) fs) as [n Hn].
      { intros kt Hkt. apply (H kt Hkt). apply F, Hkt. }
      exists (S n). intros [|k] Hk; [lia|]. rewrite tightb_S. fold objs.
      apply isnil_negb in NE. rewrite NE. simpl. apply forallb_forall. intros kt Hkt. cbv beta.
      destruct (F kt Hkt) as [F1 _]. apply isnil_negb in F1. rewrite F1. simpl.
      rewrite field_test. destruct (is_opt (snd kt)); apply Hn; [lia|exact Hkt|lia|exact Hkt].
    - exists 1. intros [|k] Hk; [lia|]. reflexivity.
  Qed.

  Theorem tight_iff t obs m :
    tight t obs m <-> exists n, forall k, n <= k -> tightb k obs m t = true.
  Proof.
    split; [apply tight_tightb|]. intros [n Hn]. apply (tightb_tight n). apply Hn. lia.
  Qed.
  Corollary tightb_fuel_mono k t obs m :
    tightb k obs m t = true -> exists n, forall k', n <= k' -> tightb k' obs m t = true.
  Proof. intros H. apply tight_tightb. eapply tightb_tight; eauto. Qed.
End Twin.

(* ------------------------------------------------------------------ *)
(* 7. T6: the pipeline                                                 *)
(* ------------------------------------------------------------------ *)
Theorem generate_J : forall registry replaces accepts n_regex key_matches dict_fields fuel samples fs,
  samples <> [] ->
  Forall (fun s => wf_json (JObj s) = true) samples ->
  generate registry replaces accepts n_regex key_matches dict_fields fuel samples = Some fs ->
  J accepts (TObj fs) false (map JObj samples) false.
Proof.
  intros registry replaces accepts n_regex key_matches dict_fields fuel samples fs NE W G.
  unfold generate, optimize_fields in G.
  set (conv := convert registry accepts n_regex key_matches dict_fields) in *.
  set (merged := merge_field_sets N.eqb (map conv samples)) in *.
  destruct (optimize registry replaces N.eqb fuel (TObj merged)) as [t'|] eqn:EO; [|discriminate].
  destruct t'; try discriminate. inversion G; subst fs0. clear G.
  set (obs := map JObj samples).
  assert (CS : forall s, In s samples ->
            okf (conv s) = true /\ no_opt (conv s) = true /\ J accepts (TObj (conv s)) false obs false).
  { intros s Hs. rewrite Forall_forall in W. specialize (W s Hs).
    destruct (convert_sound_g accepts (fun _ => None) false registry n_regex key_matches dict_fields s W) as [_ [A B]].
    split; auto. split; auto.
    eapply J_mono; [apply (convert_J accepts registry n_regex key_matches dict_fields s W)| |auto|auto].
    intros y [<-|[]]. unfold obs. apply in_map. exact Hs. }
  assert (Hp : forall i j, N.eqb i j = true -> i = j) by (intros i j; apply N.eqb_eq).
  assert (Jm : J accepts (TObj merged) false obs false).
  { apply merge_J.
    - intros E. apply map_eq_nil in E. contradiction.
    - apply Forall_forall. intros f Hf. apply in_map_iff in Hf as [s [<- Hs]].
      destruct (CS s Hs) as [A [B C]]. split; auto. }
  assert (Om : okT (TObj merged) = true).
  { simpl. apply (merge_okf N.eqb Hp). apply Forall_forall. intros f Hf. apply in_map_iff in Hf as [s [<- Hs]].
    destruct (CS s Hs) as [A [B C]]. split; auto. }
  exact (optimize_J accepts registry replaces N.eqb Hp fuel _ _ false obs false Om EO Jm).
Qed.

Theorem generate_tight : forall registry replaces accepts n_regex key_matches dict_fields fuel samples fs,
  samples <> [] ->
  Forall (fun s => wf_json (JObj s) = true) samples ->
  generate registry replaces accepts n_regex key_matches dict_fields fuel samples = Some fs ->
  exists n, forall k, n <= k -> tightb accepts k (map JObj samples) false (TObj fs) = true.
Proof.
  intros registry replaces accepts n_regex key_matches dict_fields fuel samples fs NE W G.
  pose proof (NormalForm.generate_nfo _ _ _ _ _ _ _ _ _ G) as NFO.
  unfold nfo in NFO. apply andb_prop in NFO as [NF _].
  pose proof (generate_J _ _ _ _ _ _ _ _ _ NE W G) as Jf.
  exact (J_tightb accepts registry (TObj fs) NF false _ false eq_refl Jf).
Qed.

Theorem generate_tight_spec : forall registry replaces accepts n_regex key_matches dict_fields fuel samples fs,
  samples <> [] ->
  Forall (fun s => wf_json (JObj s) = true) samples ->
  generate registry replaces accepts n_regex key_matches dict_fields fuel samples = Some fs ->
  tight accepts (TObj fs) (map JObj samples) false.
Proof.
  intros registry replaces accepts n_regex key_matches dict_fields fuel samples fs NE W G.
  apply tight_iff. eapply generate_tight; eauto.
Qed.

(* ------------------------------------------------------------------ *)
(* 8. the hypotheses are needed; the raw terms are not tight            *)
(* ------------------------------------------------------------------ *)
Definition ex_acc : pseudo -> str -> bool := fun _ _ => false.
Definition ex_gen := generate [] [] ex_acc 0 (fun _ _ => false) [].
Definition ex_k1 : str := [1%N].
Definition ex_k2 : str := [2%N].

(* no sample: the result is the empty model, and tightb asks for an observed object *)
Example samples_nonempty_needed :
  ex_gen 5 [] = Some [] /\ forall k, tightb ex_acc k (map JObj []) false (TObj []) = false.
Proof. split; [vm_compute; reflexivity|]. intros [|k]; reflexivity. Qed.

(* a sample with a repeated key (impossible for a parsed JSON object): both values reach the type, only the first
   is found by lookup *)
Definition ex_dup := [[(ex_k1, JInt 1); (ex_k1, JStr [65%N])]].
Example wf_needed :
  ex_gen 9 ex_dup = Some [(ex_k1, TUnion [TInt; TLit false [[65%N]]])] /\
  tightb ex_acc 20 (map JObj ex_dup) false (TObj [(ex_k1, TUnion [TInt; TLit false [[65%N]]])]) = false.
Proof. split; vm_compute; reflexivity. Qed.
(* ... and the keys must be unique at every depth *)
Definition ex_dup2 := [[(ex_k2, JArr [JObj [(ex_k1, JInt 1); (ex_k1, JStr [65%N])]; JObj [(ex_k1, JInt 1)]])]].
Example wf_needed_nested :
  match ex_gen 12 ex_dup2 with
  | Some fs => tightb ex_acc 30 (map JObj ex_dup2) false (TObj fs)
  | None => true
  end = false.
Proof. vm_compute. reflexivity. Qed.

(* raw (pre-optimisation) terms are not tight: hence the working predicate J *)
Example raw_long_string_not_tight :
  let long := repeat 65%N 25 in
  detect [] ex_acc 0 (fun _ _ => false) [] true (JStr long) = TLit true [] /\
  tightb ex_acc 20 [JStr long] false (TLit true []) = false.
Proof. cbv zeta. split; vm_compute; reflexivity. Qed.
Example raw_singleton_union_not_tight :
  dunion [TUnknown; TUnknown] = TUnion [TUnknown] /\
  tightb ex_acc 20 [JArr []] false (TList (TUnion [TUnknown])) = false.
Proof. split; vm_compute; reflexivity. Qed.

(* field-wise evidence alone does not survive merging: {a: int} and {b: int} are both justified field by field by
   the single object {a: 1, b: 2}, their merge makes both fields Optional although no object lacks a key.  J asks
   for an observed object whose keys are all fields of the type (here: none for either set). *)
Example merge_needs_witness :
  let obs := [JObj [(ex_k1, JInt 1); (ex_k2, JInt 2)]] in
  merge_field_sets N.eqb [[(ex_k1, TInt)]; [(ex_k2, TInt)]] = [(ex_k1, TOpt TInt); (ex_k2, TOpt TInt)] /\
  tightb ex_acc 20 obs false (TObj [(ex_k1, TInt)]) = true /\
  tightb ex_acc 20 obs false (TObj [(ex_k2, TInt)]) = true /\
  tightb ex_acc 20 obs false (TObj [(ex_k1, TOpt TInt); (ex_k2, TOpt TInt)]) = false.
Proof. cbv zeta. repeat split; vm_compute; reflexivity. Qed.

Print Assumptions J_mono.
Print Assumptions detect_J.
Print Assumptions mk_union_J.
Print Assumptions merge_J.
Print Assumptions optimize_J.
Print Assumptions J_tightb.
Print Assumptions tight_iff.
Print Assumptions generate_J.
Print Assumptions generate_tight.
Print Assumptions generate_tight_spec.
