(* Proofs/Tight2Props.v -- C02, sharper reading: str appears only as a documented widening.

   Sem/Tight2.v: tightb2 registry accepts fuel obs missing t = Sem/Tight.tightb with the clause of TStr replaced by
   str_reason obs: among the strings observed at the position, a plain string of MAX_STRING_LENGTH code points or more
   (reason_long), or more than MAX_LITERALS distinct plain strings (reason_many), or two strings that detect_str types
   as different pseudo-types (reason_mixed).  plain s = no registered pseudo-type accepts s; det s = the first
   registered pseudo-type that accepts s.

   Main results (all closed under the global context, see the Print Assumptions at the end):
     generate_tight2      : samples <> [] -> Forall (fun s => wf_json (JObj s) = true) samples ->
                            generate registry replaces accepts n_regex key_matches dict_fields fuel samples = Some fs ->
                            exists n, forall k, n <= k ->
                              tightb2 registry accepts k (map JObj samples) false (TObj fs) = true.
     generate_tight2_spec : same hypotheses -> tight2 registry accepts (TObj fs) (map JObj samples) false.
     tightb2_iff          : tightb2 k obs m t = true <-> tightb k obs m t = true /\ Wk t obs
                            (Wk t obs: every str inside t has a reason among the observations routed to it).
     tightb2_tightb       : tightb2 k obs m t = true -> tightb k obs m t = true      (the new statement is stronger).
     tight2_iff           : tight2 t obs m <-> exists n, forall k >= n, tightb2 k obs m t = true.
     generate_K           : the invariant itself, which says more than tightb2: every string of a literal in the result
                            is plain, every pseudo-type p in the result has an observed string that detect_str types as p.
   The sharper statement is TRUE of the model: no counterexample, no fourth reason was needed.

   Structure.  TightProps is reused unchanged.  The invariant here is J /\ K where K speaks about the string-typed
   parts only and is routed to positions exactly like tightb (Kg, generic in the three leaf clauses):
       str            str_reason obs = true
       pseudo-type p  some observed s with det s = Some p
       literal        overflowed: str_reason obs = true; otherwise the list is non-empty and every listed string is
                      plain and observed at the position.
     K_mono                   K is monotone in the observations (str_reason_mono: each reason is existential or a
                              lower bound on a count of distinct observed strings).
     detect_K, convert_K      detect_str makes a literal only of a plain string, an overflowed one only of a long one.
     mk_union_K               str enters a union from a str member, from an overflowed literal member, or because the
                              folded literal set overflows: that set is duplicate-free (set_of_strs_NoDup) and holds
                              only plain observed strings, so either it has more than MAX_LITERALS distinct plain
                              strings or a long plain one (lit_overflow_reason).
     merge_K                  merging keeps or unions types at the same key; no side condition is needed for K.
     str_result_K, regroup_K  the string category collapses to str only if it holds a str already or two different
                              pseudo-types (a single pseudo-type is never replaced, NoDup_pdedup), and two different
                              pseudo-types at a position are two observed strings detected differently.
     optimize_K, generate_K   a lone literal becomes str only if overflowed (an empty non-overflowed literal is
                              excluded by K).
   generate_tight2 = TightProps.generate_tight + generate_K + tightb2_iff.

   Examples: weak_reading_refuted (tightb accepts str for two short plain strings, tightb2 rejects),
   premature_overflow_rejected (16 observations with 15 distinct short plain strings: str rejected, the literal that
   generate returns accepted), reason_long_needed / reason_many_needed / reason_mixed_needed (generate returns str and
   exactly one reason holds), mixed_resolved_no_str, mixed_cyclic_str, limits_exact. *)
From Coq Require Import List Bool Arith NArith ZArith Lia.
From J2M.Model Require Import Base Union Merge Optimize Detect.
From J2M.Sem Require Import NF Tight Tight2.
From J2M.Proofs Require Import Sound TightProps.
From J2M.Proofs Require NormalForm Literals StrTypes.
Import ListNotations.

(* ------------------------------------------------------------------ *)
(* 0. observed strings, the three reasons                              *)
(* ------------------------------------------------------------------ *)
Lemma strs_of_In s obs : In s (strs_of obs) <-> In (JStr s) obs.
Proof.
  unfold strs_of. rewrite in_flat_map. split.
  - intros [v [Hv Hs]]. destruct v; simpl in Hs; try contradiction. destruct Hs as [<-|[]]. exact Hv.
  - intros H. exists (JStr s). split; simpl; auto.
Qed.
Lemma strs_of_incl obs obs' : incl obs obs' -> incl (strs_of obs) (strs_of obs').
Proof. intros I s. rewrite !strs_of_In. apply I. Qed.

Lemma NoDup_snoc_gen {A} (l : list A) x : NoDup l -> ~ In x l -> NoDup (l ++ [x]).
Proof.
  induction l as [|a l IH]; simpl; intros N H.
  - constructor; [intros []|constructor].
  - inversion N; subst. constructor.
    + rewrite in_app_iff. simpl. intros [Hc|[Hc|[]]]; [contradiction|]. subst. apply H. left. reflexivity.
    + apply IH; auto.
Qed.

Section Reasons.
  Variable registry : list pseudo.
  Variable accepts : pseudo -> str -> bool.
  Notation plain := (Tight2.plain registry accepts).
  Notation det := (Tight2.det registry accepts).
  Notation reason_long := (Tight2.reason_long registry accepts).
  Notation reason_many := (Tight2.reason_many registry accepts).
  Notation reason_mixed := (Tight2.reason_mixed registry accepts).
  Notation str_reason := (Tight2.str_reason registry accepts).

  Lemma plain_det s : plain s = true <-> det s = None.
  Proof.
    unfold Tight2.plain, Tight2.det. split.
    - intros H. rewrite forallb_forall in H. apply Literals.find_none_iff. intros p Hp.
      specialize (H p Hp). now apply negb_true_iff in H.
    - intros H. apply forallb_forall. intros p Hp. apply negb_true_iff. exact (find_none _ _ H p Hp).
  Qed.

  Lemma reason_long_spec ss :
    reason_long ss = true <-> exists s, In s ss /\ plain s = true /\ MAX_STRING_LENGTH <= List.length s.
  Proof.
    unfold Tight2.reason_long. rewrite existsb_exists. split.
    - intros [s [Hs H]]. apply andb_prop in H as [A B]. apply Nat.leb_le in B. exists s. auto.
    - intros [s [Hs [A B]]]. exists s. split; auto. rewrite A. cbn [andb]. now apply Nat.leb_le.
  Qed.
  Lemma reason_many_intro ss l :
    NoDup l -> (forall s, In s l -> plain s = true /\ In s ss) -> MAX_LITERALS < List.length l -> reason_many ss = true.
  Proof.
    intros N H L. unfold Tight2.reason_many. apply Nat.ltb_lt. eapply Nat.lt_le_trans; [exact L|].
    apply NoDup_incl_length; [exact N|]. intros s Hs. apply nodup_In. apply filter_In.
    destruct (H s Hs). split; auto.
  Qed.
  Lemma reason_many_elim ss : reason_many ss = true ->
    MAX_LITERALS < List.length (nodup str_dec (filter plain ss)) /\
    forall s, In s (nodup str_dec (filter plain ss)) -> plain s = true /\ In s ss.
  Proof.
    unfold Tight2.reason_many. intros H. apply Nat.ltb_lt in H. split; [exact H|].
    intros s Hs. apply nodup_In in Hs. apply filter_In in Hs. tauto.
  Qed.
  Lemma reason_mixed_spec ss :
    reason_mixed ss = true <->
    exists s s' p q, In s ss /\ In s' ss /\ det s = Some p /\ det s' = Some q /\ p <> q.
  Proof.
    unfold Tight2.reason_mixed. rewrite existsb_exists. split.
    - intros [s [Hs H]]. apply existsb_exists in H as [s' [Hs' H]].
      destruct (det s) as [p|] eqn:E1; [|discriminate]. destruct (det s') as [q|] eqn:E2; [|discriminate].
      apply negb_true_iff in H. apply StrTypes.pseudo_eqb_neq in H. exists s, s', p, q. auto.
    - intros [s [s' [p [q [Hs [Hs' [E1 [E2 N]]]]]]]]. exists s. split; auto. apply existsb_exists.
      exists s'. split; auto. rewrite E1, E2. apply negb_true_iff. now apply StrTypes.pseudo_eqb_neq.
  Qed.

  Lemma str_reason_cases obs : str_reason obs = true <->
    reason_long (strs_of obs) = true \/ reason_many (strs_of obs) = true \/ reason_mixed (strs_of obs) = true.
  Proof. unfold Tight2.str_reason. cbv zeta. rewrite !orb_true_iff. tauto. Qed.

  (* reasons persist when observations grow *)
  Lemma str_reason_mono obs obs' : incl obs obs' -> str_reason obs = true -> str_reason obs' = true.
  Proof.
    intros I. apply strs_of_incl in I. rewrite !str_reason_cases. intros [H|[H|H]].
    - left. apply reason_long_spec in H as [s [Hs H]]. apply reason_long_spec. exists s. split; auto.
    - right. left. apply reason_many_elim in H as [L H].
      apply (reason_many_intro _ (nodup str_dec (filter plain (strs_of obs)))); auto.
      + apply NoDup_nodup.
      + intros s Hs. destruct (H s Hs). split; auto.
    - right. right. apply reason_mixed_spec in H as [s [s' [p [q [Hs [Hs' H]]]]]]. apply reason_mixed_spec.
      exists s, s', p, q. split; auto.
  Qed.

  (* every reason exhibits an observed string: the new clause implies the old one *)
  Lemma str_reason_jstr obs : str_reason obs = true -> existsb is_jstr obs = true.
  Proof.
    rewrite str_reason_cases. intros H.
    assert (E : exists s, In s (strs_of obs)).
    { destruct H as [H|[H|H]].
      - apply reason_long_spec in H as [s [Hs _]]. eauto.
      - apply reason_many_elim in H as [L H].
        destruct (nodup str_dec (filter plain (strs_of obs))) as [|s r]; [simpl in L; lia|].
        exists s. apply (H s). left. reflexivity.
      - apply reason_mixed_spec in H as [s [_ [_ [_ [Hs _]]]]]. eauto. }
    destruct E as [s Hs]. apply strs_of_In in Hs. apply existsb_exists. exists (JStr s). split; auto.
  Qed.
End Reasons.

(* ------------------------------------------------------------------ *)
(* 1. a predicate on the string-typed parts of a type, routed like tightb *)
(* ------------------------------------------------------------------ *)
Section KG.
  Variable Pstr : list json -> Prop.
  Variable Pps : pseudo -> list json -> Prop.
  Variable Plit : bool -> list str -> list json -> Prop.

  Fixpoint Kg (t : ty) (obs : list json) {struct t} : Prop :=
    match t with
    | TStr => Pstr obs
    | TPseudo p => Pps p obs
    | TLit o ls => Plit o ls obs
    | TOpt x => Kg x obs
    | TList x => Kg x (concat (arrays_of obs))
    | TDict x => Kg x (concat (map (map snd) (objects_of obs)))
    | TUnion ts => (fix all (l : list ty) : Prop := match l with [] => True | x :: r => Kg x obs /\ all r end) ts
    | TObj fs => (fix all (l : fields) : Prop :=
                    match l with [] => True | (k, x) :: r => Kg x (vals k (objects_of obs)) /\ all r end) fs
    | _ => True
    end.

  Lemma Kg_union ts obs : Kg (TUnion ts) obs <-> Forall (fun x => Kg x obs) ts.
  Proof.
    simpl. induction ts as [|x r IH]; split; intros H.
    - constructor. - exact I.
    - constructor; [apply H|apply IH, H].
    - inversion H; subst. split; [assumption|]. apply IH. assumption.
  Qed.
  Lemma Kg_obj fs obs : Kg (TObj fs) obs <-> Forall (fun kt => Kg (snd kt) (vals (fst kt) (objects_of obs))) fs.
  Proof.
    simpl. induction fs as [|[k x] r IH]; split; intros H.
    - constructor. - exact I.
    - constructor; [apply H|apply IH, H].
    - inversion H; subst. split; [assumption|]. apply IH. assumption.
  Qed.

  Section Mono.
    Hypothesis Pstr_mono : forall obs obs', incl obs obs' -> Pstr obs -> Pstr obs'.
    Hypothesis Pps_mono : forall p obs obs', incl obs obs' -> Pps p obs -> Pps p obs'.
    Hypothesis Plit_mono : forall o ls obs obs', incl obs obs' -> Plit o ls obs -> Plit o ls obs'.
    Lemma Kg_mono : forall t obs obs', Kg t obs -> incl obs obs' -> Kg t obs'.
    Proof.
      induction t using ty_ind2; intros obs obs' HK I; try exact HK.
      - eapply Pstr_mono; eauto.
      - eapply Pps_mono; eauto.
      - eapply Plit_mono; eauto.
      - simpl in *. eauto.
      - simpl in *. eapply IHt; [exact HK|]. apply concat_incl. now apply arrays_of_incl.
      - simpl in *. eapply IHt; [exact HK|]. apply concat_incl. apply incl_map. now apply objects_of_incl.
      - rewrite Kg_union in *. rewrite Forall_forall in *. intros x Hx. eapply H; eauto.
      - rewrite Kg_obj in *. rewrite Forall_forall in *. intros kt Hkt. eapply (H kt Hkt); [apply HK, Hkt|].
        apply vals_incl. now apply objects_of_incl.
    Qed.
  End Mono.
End KG.

Lemma Kg_impl (P1 P2 : list json -> Prop) (Q1 Q2 : pseudo -> list json -> Prop)
      (R1 R2 : bool -> list str -> list json -> Prop) :
  (forall obs, P1 obs -> P2 obs) -> (forall p obs, Q1 p obs -> Q2 p obs) ->
  (forall o ls obs, R1 o ls obs -> R2 o ls obs) ->
  forall t obs, Kg P1 Q1 R1 t obs -> Kg P2 Q2 R2 t obs.
Proof.
  intros HP HQ HR. induction t using ty_ind2; intros obs HK; try exact HK; simpl in *; auto.
  - apply Kg_union. apply Kg_union in HK. rewrite Forall_forall in *. intros x Hx. apply (H x Hx). auto.
  - apply Kg_obj. apply Kg_obj in HK. rewrite Forall_forall in *. intros kt Hkt. apply (H kt Hkt). auto.
Qed.

(* ------------------------------------------------------------------ *)
(* 2. tightb2 = tightb + a reason at every str                          *)
(* ------------------------------------------------------------------ *)
Section Sem2.
  Variable registry : list pseudo.
  Variable accepts : pseudo -> str -> bool.
  Notation plain := (Tight2.plain registry accepts).
  Notation det := (Tight2.det registry accepts).
  Notation str_reason := (Tight2.str_reason registry accepts).
  Notation tightb := (tightb accepts).
  Notation tight_elem := (tight_elem accepts).
  Notation tight_container := (tight_container accepts).
  Notation tightb2 := (tightb2 registry accepts).
  Notation tight_elem2 := (tight_elem2 registry accepts).
  Notation tight_container2 := (tight_container2 registry accepts).
  Notation tight := (tight accepts).
  Notation tight2 := (tight2 registry accepts).

  Definition Pstr (obs : list json) : Prop := str_reason obs = true.
  (* weak: only str carries an obligation *)
  Definition Wk : ty -> list json -> Prop := Kg Pstr (fun _ _ => True) (fun _ _ _ => True).

  Lemma tightb2_S k obs m t :
    tightb2 (S k) obs m t =
    match t with
    | TInt => existsb (fun v => match v with JInt _ => true | _ => false end) obs
    | TFloat => existsb (fun v => match v with JInt _ | JFloat _ => true | _ => false end) obs
    | TBool => existsb (fun v => match v with JBool _ => true | _ => false end) obs
    | TNull => existsb is_jnull obs
    | TStr => str_reason obs
    | TUnknown => false
    | TPseudo p => existsb (fun v => match v with JStr s => accepts p s | _ => false end) obs
    | TLit o ls => negb o && negb (isnil ls) &&
                   forallb (fun s => existsb (fun v => match v with JStr s' => str_eqb s s' | _ => false end) obs) ls
    | TOpt x => (m || existsb is_jnull obs) && tight_elem2 k obs x
    | TList x => negb (isnil (arrays_of obs)) && tight_container2 k (arrays_of obs) (concat (arrays_of obs)) x
    | TDict x => negb (isnil (objects_of obs)) &&
                 tight_container2 k (map (map snd) (objects_of obs)) (concat (map (map snd) (objects_of obs))) x
    | TUnion ts => (2 <=? List.length ts) && forallb (tightb2 k obs false) ts
    | TObj fs =>
        negb (isnil (objects_of obs)) &&
        forallb (fun kt =>
                   negb (isnil (vals (fst kt) (objects_of obs))) &&
                   match snd kt with
                   | TOpt x => (miss (fst kt) (objects_of obs) || existsb is_jnull (vals (fst kt) (objects_of obs)))
                               && tight_elem2 k (vals (fst kt) (objects_of obs)) x
                   | x => tightb2 k (vals (fst kt) (objects_of obs)) false x
                   end) fs
    | TPtr _ => true
    end.
  Proof. destruct t; reflexivity. Qed.
  Lemma tight_elem2_S k obs x : tight_elem2 (S k) obs x = tightb2 k obs false x.
  Proof. reflexivity. Qed.
  Lemma tight_container2_S k c el x :
    tight_container2 (S k) c el x =
    match x with
    | TUnknown => existsb isnil c
    | TOpt TUnknown => existsb isnil c && existsb is_jnull el
    | _ => tightb2 k el false x
    end.
  Proof. reflexivity. Qed.
  Lemma tight_container2_ntop k c el x : ntop x = true -> tight_container2 (S k) c el x = tightb2 k el false x.
  Proof.
    intros N. rewrite tight_container2_S. destruct x; try reflexivity; try discriminate.
    destruct x; try reflexivity; discriminate.
  Qed.
  Lemma Wk_not_ntop x obs : ntop x = false -> Wk x obs.
  Proof. intros N. destruct x; try discriminate; [exact I|]. destruct x; try discriminate. exact I. Qed.
  Lemma tcont_not_ntop k c el x : ntop x = false -> tight_container2 (S k) c el x = tight_container (S k) c el x.
  Proof. intros N. destruct x; try discriminate; [reflexivity|]. destruct x; try discriminate. reflexivity. Qed.

  Lemma Wk_union ts obs : Wk (TUnion ts) obs <-> Forall (fun x => Wk x obs) ts.
  Proof. apply Kg_union. Qed.
  Lemma Wk_obj fs obs : Wk (TObj fs) obs <-> Forall (fun kt => Wk (snd kt) (vals (fst kt) (objects_of obs))) fs.
  Proof. apply Kg_obj. Qed.

  Lemma tcont2_iff k c el x :
    (tightb2 k el false x = true <-> tightb k el false x = true /\ Wk x el) ->
    (tight_container2 (S k) c el x = true <-> tight_container (S k) c el x = true /\ Wk x el).
  Proof.
    intros IH. destruct (ntop x) eqn:NX.
    - rewrite tight_container2_ntop, (tight_container_ntop accepts) by exact NX. exact IH.
    - rewrite tcont_not_ntop by exact NX. pose proof (Wk_not_ntop x el NX). tauto.
  Qed.

  Theorem tightb2_iff : forall k t obs m,
    tightb2 k obs m t = true <-> tightb k obs m t = true /\ Wk t obs.
  Proof.
    induction k as [k IH] using lt_wf_ind. intros t obs m.
    destruct k as [|k]; [split; [discriminate|intros [H _]; discriminate]|].
    rewrite tightb2_S, (tightb_S accepts).
    destruct t; try (split; [intros H; split; [exact H|exact I]|intros [H _]; exact H]).
    - (* TStr *) split; [intros H; split; [apply (str_reason_jstr registry accepts)|]; exact H|intros [_ H]; exact H].
    - (* TOpt *) destruct k as [|k]; [simpl; rewrite !andb_false_r; split; [discriminate|intros [H _]; discriminate]|].
      rewrite tight_elem2_S, (tight_elem_S accepts), !andb_true_iff, (IH k) by lia.
      change (Wk (TOpt t) obs) with (Wk t obs). tauto.
    - (* TList *) destruct k as [|k]; [simpl; rewrite !andb_false_r; split; [discriminate|intros [H _]; discriminate]|].
      rewrite !andb_true_iff, tcont2_iff by (apply IH; lia).
      change (Wk (TList t) obs) with (Wk t (concat (arrays_of obs))). tauto.
    - (* TDict *) destruct k as [|k]; [simpl; rewrite !andb_false_r; split; [discriminate|intros [H _]; discriminate]|].
      rewrite !andb_true_iff, tcont2_iff by (apply IH; lia).
      change (Wk (TDict t) obs) with (Wk t (concat (map (map snd) (objects_of obs)))). tauto.
    - (* TUnion *) rewrite !andb_true_iff, !forallb_forall, Wk_union, Forall_forall. split.
      + intros [A B]. split; [split; [exact A|]|]; intros x Hx; specialize (B x Hx);
          apply (IH k (Nat.lt_succ_diag_r k)) in B; tauto.
      + intros [[A B] C]. split; [exact A|]. intros x Hx. apply (IH k); auto.
    - (* TObj *) rewrite !andb_true_iff, !forallb_forall, Wk_obj, Forall_forall.
      assert (F : forall kt : str * ty,
                 (negb (isnil (vals (fst kt) (objects_of obs))) &&
                  match snd kt with
                  | TOpt x => (miss (fst kt) (objects_of obs) || existsb is_jnull (vals (fst kt) (objects_of obs)))
                              && tight_elem2 k (vals (fst kt) (objects_of obs)) x
                  | x => tightb2 k (vals (fst kt) (objects_of obs)) false x
                  end = true) <->
                 (negb (isnil (vals (fst kt) (objects_of obs))) &&
                  match snd kt with
                  | TOpt x => (miss (fst kt) (objects_of obs) || existsb is_jnull (vals (fst kt) (objects_of obs)))
                              && tight_elem k (vals (fst kt) (objects_of obs)) x
                  | x => tightb k (vals (fst kt) (objects_of obs)) false x
                  end = true) /\ Wk (snd kt) (vals (fst kt) (objects_of obs))).
      { intros [k0 x]. cbn [fst snd]. set (vs := vals k0 (objects_of obs)). rewrite !andb_true_iff.
        destruct (is_opt x) eqn:Ox.
        - destruct x; try discriminate.
          destruct k as [|k]; [simpl; rewrite !andb_false_r; split; [intros [_ H]; discriminate|intros [[_ H] _]; discriminate]|].
          rewrite tight_elem2_S, (tight_elem_S accepts), !andb_true_iff, (IH k) by lia.
          change (Wk (TOpt x) vs) with (Wk x vs). tauto.
        - assert (E : (tightb2 k vs false x = true) <-> (tightb k vs false x = true /\ Wk x vs)) by (apply IH; lia).
          destruct x; try discriminate; tauto. }
      split.
      + intros [A B]. split; [split; [exact A|]|]; intros kt Hkt; specialize (B kt Hkt); apply F in B; tauto.
      + intros [[A B] C]. split; [exact A|]. intros kt Hkt. apply F; auto.
  Qed.

  Corollary tightb2_tightb k obs m t : tightb2 k obs m t = true -> tightb k obs m t = true.
  Proof. intros H. now apply tightb2_iff in H. Qed.

  (* the propositional twin *)
  Lemma tcontP2_iff c el x (P2 P : Prop) :
    (P2 <-> P /\ Wk x el) -> (tcontP2 x c el P2 <-> tcontP x c el P /\ Wk x el).
  Proof.
    intros IH. destruct (ntop x) eqn:NX.
    - destruct x; try discriminate; try exact IH. destruct x; try discriminate; exact IH.
    - pose proof (Wk_not_ntop x el NX).
      destruct x; try discriminate; [simpl; tauto|]. destruct x; try discriminate. simpl. tauto.
  Qed.

  Lemma tight2_split : forall t obs m, tight2 t obs m <-> tight t obs m /\ Wk t obs.
  Proof.
    induction t using ty_ind2; intros obs m;
      try (split; [intros H; split; [exact H|exact I]|intros [H _]; exact H]).
    - (* TStr *) split; [intros H; split; [apply (str_reason_jstr registry accepts)|]; exact H|intros [_ H]; exact H].
    - (* TOpt *) simpl. rewrite IHt. change (Wk (TOpt t) obs) with (Wk t obs). tauto.
    - (* TList *) simpl. rewrite (tcontP2_iff _ _ _ _ _ (IHt _ false)).
      change (Wk (TList t) obs) with (Wk t (concat (arrays_of obs))). tauto.
    - (* TDict *) simpl. rewrite (tcontP2_iff _ _ _ _ _ (IHt _ false)).
      change (Wk (TDict t) obs) with (Wk t (concat (map (map snd) (objects_of obs)))). tauto.
    - (* TUnion *) rewrite tight_union, Wk_union.
      assert (E : tight2 (TUnion ts) obs m <-> 2 <= List.length ts /\ Forall (fun x => tight2 x obs false) ts).
      { simpl. apply and_iff_compat_l. clear H. induction ts as [|x r IH]; split; intros H.
        - constructor. - exact I.
        - constructor; [apply H|apply IH, H].
        - inversion H; subst. split; [assumption|]. apply IH. assumption. }
      rewrite E. rewrite !Forall_forall in *. split.
      + intros [A B]. split; [split; [exact A|]|]; intros x Hx; specialize (B x Hx); apply (H x Hx) in B; tauto.
      + intros [[A B] C]. split; [exact A|]. intros x Hx. apply (H x Hx). auto.
    - (* TObj *) rewrite tight_obj, Wk_obj.
      assert (E : tight2 (TObj fs) obs m <-> objects_of obs <> [] /\
                  Forall (fun kt => vals (fst kt) (objects_of obs) <> [] /\
                                    tight2 (snd kt) (vals (fst kt) (objects_of obs)) (miss (fst kt) (objects_of obs))) fs).
      { simpl. apply and_iff_compat_l. clear H. induction fs as [|[k x] r IH]; split; intros H.
        - constructor. - exact I.
        - constructor; [apply H|apply IH, H].
        - inversion H; subst. split; [assumption|]. apply IH. assumption. }
      rewrite E. rewrite !Forall_forall in *. split.
      + intros [A B]. split; [split; [exact A|]|]; intros kt Hkt; destruct (B kt Hkt) as [B1 B2];
          apply (H kt Hkt) in B2; tauto.
      + intros [[A B] C]. split; [exact A|]. intros kt Hkt. destruct (B kt Hkt) as [B1 B2]. split; [exact B1|].
        apply (H kt Hkt). auto.
  Qed.

  Theorem tight2_iff t obs m :
    tight2 t obs m <-> exists n, forall k, n <= k -> tightb2 k obs m t = true.
  Proof.
    rewrite tight2_split. split.
    - intros [T W]. apply (tight_iff accepts) in T as [n Hn]. exists n. intros k Hk. apply tightb2_iff. auto.
    - intros [n Hn]. specialize (Hn n (le_n n)). apply tightb2_iff in Hn as [T W]. split; [|exact W].
      eapply tightb_tight; eauto.
  Qed.
  Corollary tight2_tight t obs m : tight2 t obs m -> tight t obs m.
  Proof. intros H. now apply tight2_split in H. Qed.
  Corollary tightb2_tight2 k t obs m : tightb2 k obs m t = true -> tight2 t obs m.
  Proof.
    intros H. apply tightb2_iff in H as [T W]. apply tight2_split. split; [|exact W]. eapply tightb_tight; eauto.
  Qed.
End Sem2.

(* ------------------------------------------------------------------ *)
(* 3. the pipeline invariant K: J of TightProps is kept as it is; K adds, *)
(*    for the string-typed parts only:                                   *)
(*      str            one of the three reasons among the observed strings *)
(*      pseudo-type p  an observed string that detect_str types as p       *)
(*      literal        overflowed: a reason; otherwise a non-empty list of *)
(*                     PLAIN strings, each observed at the position        *)
(* ------------------------------------------------------------------ *)
Lemma ssorted_NoDup : forall l, NormalForm.ssorted l -> NoDup l.
Proof.
  induction l as [|x r IH]; intros H; [constructor|]. destruct H as [H1 H2]. constructor; [|auto].
  intros Hin. specialize (H1 x Hin). pose proof (NormalForm.str_cmp_antisym x x) as A. rewrite H1 in A. discriminate.
Qed.
Lemma set_of_strs_NoDup l : NoDup (set_of_strs l).
Proof. apply ssorted_NoDup. apply (NormalForm.ins_all_ssorted l []). exact I. Qed.

Lemma NoDup_pdedup l : NoDup (pdedup l).
Proof.
  unfold pdedup.
  assert (G : forall l acc, NoDup acc ->
            NoDup (fold_left (fun acc p => if pmem p acc then acc else acc ++ [p]) l acc)).
  { clear l. induction l as [|p l IH]; intros acc N; simpl; [exact N|]. apply IH.
    destruct (pmem p acc) eqn:E; [exact N|]. apply NoDup_snoc_gen; [exact N|].
    intros Hin. apply StrTypes.pmem_In in Hin. congruence. }
  apply G. constructor.
Qed.

Section K.
  Variable registry : list pseudo.
  Variable accepts : pseudo -> str -> bool.
  Notation plain := (Tight2.plain registry accepts).
  Notation det := (Tight2.det registry accepts).
  Notation str_reason := (Tight2.str_reason registry accepts).
  Notation Pstr := (Pstr registry accepts).

  Definition Pps (p : pseudo) (obs : list json) : Prop := exists s, In (JStr s) obs /\ det s = Some p.
  Definition Plit (o : bool) (ls : list str) (obs : list json) : Prop :=
    if o then str_reason obs = true
    else ls <> [] /\ forall s, In s ls -> plain s = true /\ In (JStr s) obs.
  Definition K : ty -> list json -> Prop := Kg Pstr Pps Plit.
  Notation Wk := (Wk registry accepts).

  Lemma K_Wk t obs : K t obs -> Wk t obs.
  Proof. apply Kg_impl; auto. Qed.

  Lemma K_union ts obs : K (TUnion ts) obs <-> Forall (fun x => K x obs) ts.
  Proof. apply Kg_union. Qed.
  Lemma K_obj fs obs : K (TObj fs) obs <-> Forall (fun kt => K (snd kt) (vals (fst kt) (objects_of obs))) fs.
  Proof. apply Kg_obj. Qed.
  Lemma K_opt x obs : K (TOpt x) obs <-> K x obs.
  Proof. reflexivity. Qed.
  Lemma K_list x obs : K (TList x) obs <-> K x (concat (arrays_of obs)).
  Proof. reflexivity. Qed.
  Lemma K_dict x obs : K (TDict x) obs <-> K x (concat (map (map snd) (objects_of obs))).
  Proof. reflexivity. Qed.

  (* T1: monotone in the observations *)
  Lemma K_mono t obs obs' : K t obs -> incl obs obs' -> K t obs'.
  Proof.
    apply Kg_mono.
    - intros o o' I. apply str_reason_mono. exact I.
    - intros p o o' I [s [Hs D]]. exists s. split; auto.
    - intros [|] ls o o' I; unfold Plit.
      + apply str_reason_mono. exact I.
      + intros [NE H]. split; [exact NE|]. intros s Hs. destruct (H s Hs). split; auto.
  Qed.

  (* ------------------------------------------------------------------ *)
  (* T3: union construction                                              *)
  (* ------------------------------------------------------------------ *)
  Lemma flat_K : forall t obs, K t obs -> Forall (fun x => K x obs) (flat t).
  Proof.
    induction t using ty_ind2; intros obs HK; try (constructor; [exact HK|constructor]).
    rewrite K_union in HK. simpl.
    induction H as [|x r Hx Hr IH]; [constructor|]. inversion HK; subst. apply Forall_app. split; auto.
  Qed.

  Lemma lit_overflow_reason L obs :
    (forall s, In s L -> plain s = true /\ In (JStr s) obs) ->
    lit_overflow (set_of_strs L) = true -> str_reason obs = true.
  Proof.
    intros HL O. apply str_reason_cases. unfold lit_overflow in O. apply orb_prop in O as [O|O].
    - right. left. apply Nat.ltb_lt in O.
      apply (reason_many_intro registry accepts _ (set_of_strs L)); [apply set_of_strs_NoDup| |exact O].
      intros s Hs. rewrite Literals.In_set_of_strs in Hs. destruct (HL s Hs) as [A B]. split; [exact A|].
      now apply strs_of_In.
    - left. apply existsb_exists in O as [s [Hs O]]. apply Nat.leb_le in O.
      rewrite Literals.In_set_of_strs in Hs. destruct (HL s Hs) as [A B].
      apply reason_long_spec. exists s. split; [now apply strs_of_In|]. split; auto.
  Qed.

  Lemma mk_union_K ts obs :
    Forall (fun x => K x obs) ts -> Forall (fun x => K x obs) (mk_union ts).
  Proof.
    intros H. assert (F : Forall (fun x => K x obs) (flatten_union ts)).
    { apply (flat_K (TUnion ts)). apply K_union. exact H. }
    rewrite Forall_forall in F.
    assert (HL : forall s, In s (Literals.lits_of (flatten_union ts)) -> plain s = true /\ In (JStr s) obs).
    { intros s Hs. unfold Literals.lits_of in Hs. apply in_flat_map in Hs as [t [Ht Hs]].
      destruct t; try contradiction. destruct overflow; [contradiction|].
      apply F in Ht. destruct Ht as [_ Ht]. auto. }
    apply Forall_forall. intros x Hx.
    destruct (is_lit x) eqn:L.
    - destruct x; try discriminate.
      destruct (Literals.mk_union_literal ts) as [C1 _]. destruct (C1 _ _ Hx) as [-> [_ [E [NE _]]]].
      split; [exact NE|]. intros s Hs. apply HL. subst ls. now rewrite Literals.In_set_of_strs in Hs.
    - destruct (NormalForm.mk_union_nonlit_from ts x Hx L) as [H1| ->]; [auto|].
      apply Literals.mk_union_str_iff in Hx. cbv zeta in Hx. destruct Hx as [Kl|[NE O]].
      + unfold Literals.kills in Kl.
        apply orb_prop in Kl as [Kl|Kl]; apply existsb_exists in Kl as [t [Ht Kt]]; apply F in Ht;
          destruct t; try discriminate.
        * exact Ht.
        * destruct overflow; try discriminate. exact Ht.
      + exact (lit_overflow_reason _ obs HL O).
  Qed.
  Lemma union1_K ts obs : Forall (fun x => K x obs) ts -> K (union1 ts) obs.
  Proof.
    intros H. apply mk_union_K in H. unfold union1. destruct (mk_union ts) as [|x [|y r]].
    - apply K_union. constructor.
    - now inversion H.
    - now apply K_union.
  Qed.
  Lemma dunion_K ts obs : Forall (fun x => K x obs) ts -> K (dunion ts) obs.
  Proof. intros H. apply K_union, mk_union_K, H. Qed.
  Lemma members_K t obs : K t obs -> Forall (fun x => K x obs) (members t).
  Proof. destruct t; intros H; try (constructor; [exact H|constructor]). now apply K_union in H. Qed.
  Lemma elem_type_K types obs : Forall (fun x => K x obs) types -> K (elem_type types) obs.
  Proof.
    intros H. destruct types as [|t [|t2 r]].
    - exact I.
    - now inversion H.
    - apply (union1_K _ _ H).
  Qed.

  (* ------------------------------------------------------------------ *)
  (* T2: detection                                                       *)
  (* ------------------------------------------------------------------ *)
  Section DetectK.
    Variable n_regex : nat.
    Variable key_matches : nat -> str -> bool.
    Variable dict_fields : list str.
    Notation detect := (detect registry accepts n_regex key_matches dict_fields).
    Notation convert := (convert registry accepts n_regex key_matches dict_fields).

    Lemma detect_str_K s : K (detect_str registry accepts s) [JStr s].
    Proof.
      unfold detect_str. destruct (find (fun p => accepts p s) registry) as [p|] eqn:Ef.
      - exists s. split; [left; reflexivity|exact Ef].
      - assert (P : plain s = true) by (apply plain_det; exact Ef).
        unfold mk_lit. destruct (lit_overflow [s]) eqn:O.
        + change (str_reason [JStr s] = true). apply (lit_overflow_reason [s]); [|exact O].
          intros s' [<-|[]]. split; [exact P|left; reflexivity].
        + split; [discriminate|]. intros s' [<-|[]]. split; [exact P|left; reflexivity].
    Qed.

    Lemma detect_K : forall v cd, wf_json v = true -> K (detect cd v) [v].
    Proof.
      induction v using json_ind2; intros cd W; try exact I.
      - (* JStr *) apply detect_str_K.
      - (* JArr *) apply wf_json_arr in W.
        change (detect cd (JArr l)) with (detect true (JArr l)). rewrite detect_arr. rewrite K_list.
        cbn [arrays_of flat_map app concat]. rewrite app_nil_r.
        rewrite Forall_forall in H, W. apply elem_type_K.
        apply Forall_forall. intros t Ht. apply in_map_iff in Ht as [x [<- Hx]].
        eapply K_mono; [apply (H x Hx true (W x Hx))|]. intros y [<-|[]]. exact Hx.
      - (* JObj *) apply Sound.wf_json_obj in W as [ND W]. rewrite detect_obj.
        rewrite Forall_forall in H, W.
        destruct l as [|kv0 r] eqn:El; [exact I|].
        rewrite <- El in *. clear El.
        destruct (cd && negb (all_keys_match n_regex key_matches (map fst l))).
        + rewrite K_obj. cbn [objects_of flat_map app].
          apply Forall_forall. intros kt Hkt. unfold Detect.convert in Hkt.
          apply in_map_iff in Hkt as [[k x] [<- Hin]]. cbn [fst snd].
          assert (L : lookup k l = Some x) by (apply In_lookup_nodup; auto).
          unfold vals. cbn [flat_map]. rewrite L. cbn [app].
          apply (H _ Hin _ (W _ Hin)).
        + rewrite K_dict. cbn [objects_of flat_map app map concat]. rewrite app_nil_r.
          apply elem_type_K.
          apply Forall_forall. intros t Ht. apply in_map_iff in Ht as [kv [<- Hx]].
          eapply K_mono; [apply (H kv Hx true (W kv Hx))|].
          intros y [<-|[]]. apply in_map. exact Hx.
    Qed.

    Lemma convert_K kvs : wf_json (JObj kvs) = true -> K (TObj (convert kvs)) [JObj kvs].
    Proof.
      intros W. apply Sound.wf_json_obj in W as [ND W]. rewrite Forall_forall in W.
      rewrite K_obj. cbn [objects_of flat_map app].
      apply Forall_forall. intros kt Hkt. unfold Detect.convert in Hkt.
      apply in_map_iff in Hkt as [[k x] [<- Hin]]. cbn [fst snd].
      assert (L : lookup k kvs = Some x) by (apply In_lookup_nodup; auto).
      unfold vals. cbn [flat_map]. rewrite L. cbn [app].
      apply (detect_K x _ (W _ Hin)).
    Qed.
  End DetectK.

  (* ------------------------------------------------------------------ *)
  (* T4: merge_field_sets                                                *)
  (* ------------------------------------------------------------------ *)
  Lemma K_wrap_opt t obs : K t obs -> K (wrap_opt t) obs.
  Proof. unfold wrap_opt. destruct (is_opt t); auto. Qed.

  Section MergeK.
    Variable peq : N -> N -> bool.
    Variable objs : list (list (str * json)).
    Definition FK (kt : str * ty) : Prop := K (snd kt) (vals (fst kt) objs).

    Lemma merge_field_FK first acc name field :
      Forall FK acc -> FK (name, field) -> Forall FK (merge_field peq first acc (name, field)).
    Proof.
      intros Fa Kf. unfold FK in Kf. cbn [fst snd] in Kf. unfold merge_field.
      destruct (lookup name acc) as [fo|] eqn:L.
      - pose proof (lookup_In _ _ _ L) as Hin.
        assert (Ko : K fo (vals name objs)).
        { rewrite Forall_forall in Fa. apply (Fa _ Hin). }
        assert (U : forall x, K x (vals name objs) -> K (union1 (members field ++ members x)) (vals name objs)).
        { intros x Hx. apply union1_K, Forall_app. split; apply members_K; auto. }
        assert (R1 : forall x, K x (vals name objs) ->
                     Forall FK (update name (union1 (members field ++ members x)) acc)).
        { intros x Hx. apply update_Forall; auto. apply U. exact Hx. }
        assert (R2 : forall x, K x (vals name objs) ->
                     Forall FK (update name (TOpt (union1 (members field ++ members x))) acc)).
        { intros x Hx. apply update_Forall; auto. apply (U x Hx). }
        assert (R3 : Forall FK (update name field acc)) by (apply update_Forall; auto).
        destruct fo;
          repeat match goal with |- context [if ?c then _ else _] => destruct c end; try assumption;
          try (apply R2; exact Ko);
          destruct field;
          repeat match goal with |- context [if ?c then _ else _] => destruct c end; try assumption;
          apply R1; exact Ko.
      - apply update_Forall; auto. unfold FK. cbn [fst snd]. destruct (first || is_opt field); exact Kf.
    Qed.

    Lemma fold_merge_FK first : forall model acc,
      Forall FK acc -> Forall FK model -> Forall FK (fold_left (merge_field peq first) model acc).
    Proof.
      induction model as [|[name field] r IH]; intros acc Fa Fm; cbn [fold_left]; [exact Fa|].
      inversion Fm; subst. apply IH; auto. apply merge_field_FK; auto.
    Qed.

    Lemma merge_step_FK first acc model :
      Forall FK acc -> Forall FK model -> Forall FK (snd (merge_step peq (first, acc) model)).
    Proof.
      intros Fa Fm. unfold merge_step. cbn [snd]. apply Forall_map.
      eapply Forall_impl; [|apply (fold_merge_FK first model acc Fa Fm)].
      intros [k t] Hkt. unfold FK in *. cbn [fst snd] in *.
      destruct (has_key k acc && negb (has_key k model)); cbn [fst snd]; [apply K_wrap_opt|]; exact Hkt.
    Qed.

    Lemma merge_fold_FK : forall sets st,
      Forall (Forall FK) sets -> Forall FK (snd st) -> Forall FK (snd (fold_left (merge_step peq) sets st)).
    Proof.
      induction sets as [|s r IH]; intros [first acc] Hs Fa; cbn [fold_left fst snd] in *; [exact Fa|].
      inversion Hs; subst. apply IH; auto.
      destruct (merge_step peq (first, acc) s) as [b acc'] eqn:E.
      change acc' with (snd (b, acc')). rewrite <- E. apply merge_step_FK; auto.
    Qed.
  End MergeK.

  Theorem merge_K peq sets obs :
    Forall (fun f => K (TObj f) obs) sets -> K (TObj (merge_field_sets peq sets)) obs.
  Proof.
    intros H. rewrite K_obj. unfold merge_field_sets.
    apply (merge_fold_FK peq (objects_of obs) sets (true, [])); [|constructor].
    eapply Forall_impl; [|exact H]. intros f Hf. now apply K_obj in Hf.
  Qed.

  (* ------------------------------------------------------------------ *)
  (* T5: optimize                                                        *)
  (* ------------------------------------------------------------------ *)
  Lemma finish_K types t' obs :
    Forall (fun x => K x obs) types -> finish types = Some t' -> K t' obs.
  Proof.
    intros H F. destruct types as [|x [|y r]]; [discriminate| |].
    - simpl in F. inversion F; subst. now inversion H.
    - remember (x :: y :: r) as types eqn:ET.
      assert (F' : Some (let types1 := if existsb is_unknown types && existsb (fun t => negb (is_unknown t) && negb (is_null t)) types
                   then remove_first is_unknown types else types in
               if existsb is_null types1 then TOpt (union1 (filter (fun x => negb (is_null x)) types1))
               else union1 (filter (fun x => negb (is_null x)) types1)) = Some t').
      { rewrite <- F. subst types. reflexivity. }
      clear F. inversion F' as [F]. clear F'. cbv zeta.
      set (types1 := if existsb is_unknown types && existsb (fun t => negb (is_unknown t) && negb (is_null t)) types
                   then remove_first is_unknown types else types).
      rewrite Forall_forall in H.
      assert (H1 : forall t, In t types1 -> K t obs).
      { intros t Ht. apply H. unfold types1 in Ht. destruct (_ && _); auto. eapply remove_first_sub; eauto. }
      assert (M : K (union1 (filter (fun x => negb (is_null x)) types1)) obs).
      { apply union1_K. apply Forall_forall. intros t Ht. apply filter_In in Ht as [Ht _]. auto. }
      destruct (existsb is_null types1); exact M.
  Qed.

  Section OptK.
    Variable replaces : list (pseudo * pseudo).
    Variable peq : N -> N -> bool.
    Notation optimize := (optimize registry replaces peq).
    Notation regroup := (regroup registry replaces peq).

    (* the string category collapses to str only when it holds a str already or two different pseudo-types *)
    Lemma str_result_K strs obs :
      Forall (fun x => K x obs /\ sreg x) strs -> Forall (fun x => K x obs) (str_result replaces strs).
    Proof.
      intros H. rewrite Forall_forall in H. unfold str_result.
      destruct (existsb is_str strs) eqn:Estr.
      - apply existsb_exists in Estr as [t [Ht St]]. destruct t; try discriminate.
        constructor; [apply (H _ Ht)|constructor].
      - destruct strs as [|t0 sr]; [constructor|]. remember (t0 :: sr) as strs eqn:Es.
        set (ps := pseudos_of strs).
        pose proof (StrTypes.resolve_incl replaces (S (List.length ps)) ps) as Hincl.
        assert (Kp : forall p, In p ps -> Pps p obs).
        { intros p Hp. apply StrTypes.In_pseudos_of in Hp. apply (H _ Hp). }
        assert (Mixed : (exists p q, In p ps /\ In q ps /\ p <> q) -> K TStr obs).
        { intros [p [q [Hp [Hq N]]]]. destruct (Kp p Hp) as [s [Hs Ds]]. destruct (Kp q Hq) as [s' [Hs' Ds']].
          apply str_reason_cases. right. right. apply reason_mixed_spec.
          exists s, s', p, q. rewrite !strs_of_In. auto. }
        (* the first member is a pseudo-type p0 *)
        assert (P0 : exists p0, In p0 ps).
        { assert (Ht0 : In t0 strs) by (subst strs; left; reflexivity).
          destruct (H _ Ht0) as [_ [->|[p0 ->]]].
          - exfalso. exact (StrTypes.existsb_is_str_false _ Estr Ht0).
          - exists p0. now apply StrTypes.In_pseudos_of. }
        destruct P0 as [p0 Hp0].
        assert (ND : NoDup ps) by apply NoDup_pdedup.
        destruct (forallb (pseudo_eqb p0) ps) eqn:All.
        + (* one pseudo-type only: nothing is replaced, resolve returns it *)
          rewrite forallb_forall in All.
          assert (E : ps = [p0]).
          { destruct ps as [|a [|b r]]; [destruct Hp0| |].
            - f_equal. symmetry. apply StrTypes.pseudo_eqb_eq. apply All. left. reflexivity.
            - exfalso. assert (a = p0) by (symmetry; apply StrTypes.pseudo_eqb_eq, All; left; reflexivity).
              assert (b = p0) by (symmetry; apply StrTypes.pseudo_eqb_eq, All; right; left; reflexivity).
              subst. inversion ND; subst. apply H2. left. reflexivity. }
          assert (R : forall n, resolve replaces n [p0] = [p0]).
          { intros [|n]; [reflexivity|]. simpl. unfold replaced_by. simpl.
            rewrite StrTypes.pseudo_eqb_refl. reflexivity. }
          assert (Kp0 : Pps p0 obs) by (apply Kp; exact Hp0).
          rewrite E, R. constructor; [exact Kp0|constructor].
        + (* two different pseudo-types *)
          assert (Two : exists p q, In p ps /\ In q ps /\ p <> q).
          { assert (X : exists q, In q ps /\ pseudo_eqb p0 q = false).
            { clear -All. induction ps as [|a r IH]; [discriminate|]. simpl in All.
              destruct (pseudo_eqb p0 a) eqn:E.
              - destruct (IH All) as [q [Hq Nq]]. exists q. split; [right; exact Hq|exact Nq].
              - exists a. split; [left; reflexivity|exact E]. }
            destruct X as [q [Hq Nq]]. exists p0, q. split; auto. split; auto.
            now apply StrTypes.pseudo_eqb_neq. }
          destruct (resolve replaces (S (List.length ps)) ps) as [|q0 [|q1 rest]].
          * constructor; [apply Mixed, Two|constructor].
          * constructor; [|constructor]. apply Kp. apply Hincl. left. reflexivity.
          * constructor; [apply Mixed, Two|constructor].
    Qed.

    Section Regroup.
      Variable obs : list json.
      Notation Kx := (fun x => K x obs).

      Definition catK2 (st : cats) : Prop :=
        let '(strs, objs, lists, dicts, other) := st in
        Forall (fun x => K x obs /\ sreg x) strs /\ Forall (fun f => K (TObj f) obs) objs /\
        Forall (fun x => K (TList x) obs) lists /\ Forall (fun x => K (TDict x) obs) dicts /\
        Forall Kx other.

      Lemma add_null_K2 st : catK2 st -> catK2 (add_null st).
      Proof.
        destruct st as [[[[strs objs] lists] dicts] other]. simpl. intros [A [B [C [D E]]]].
        repeat split; auto. apply Forall_app. split; auto. constructor; [exact I|constructor].
      Qed.
      Lemma classify_K2 st t : catK2 st -> K t obs -> catK2 (classify registry st t).
      Proof.
        destruct st as [[[[strs objs] lists] dicts] other]. intros [A [B [C [D E]]]] HK.
        destruct t; simpl; repeat split; auto; try (apply Forall_app; split; auto).
        - constructor; [|constructor]. split; [exact HK|left; reflexivity].
        - destruct (pmem p registry); simpl; repeat split; auto; apply Forall_app; split; auto.
          constructor; [|constructor]. split; [exact HK|right; eauto].
      Qed.
      Lemma split_fold_K2 : forall ts st, catK2 st -> Forall Kx ts ->
        catK2 (fold_left (split_step registry) ts st).
      Proof.
        induction ts as [|t r IH]; intros st C HK; cbn [fold_left]; [exact C|].
        inversion HK as [|? ? Kt Kr]; subst. apply IH; auto.
        rewrite split_step_eq. destruct t; try (apply classify_K2; assumption).
        apply classify_K2; [now apply add_null_K2|exact Kt].
      Qed.

      Lemma members_deep_K : forall t, K t obs -> Forall Kx (members_deep t).
      Proof.
        induction t using ty_ind2; intros HK; try (constructor; [exact HK|constructor]).
        - (* TOpt *) change (members_deep (TOpt t)) with (TNull :: members_deep t).
          constructor; [exact I|apply IHt, HK].
        - (* TUnion *) rewrite members_deep_union. rewrite K_union in HK.
          induction H as [|x r Hx Hr IHr]; [constructor|]. inversion HK; subst.
          cbn [flat_map]. apply Forall_app. split; auto.
      Qed.
      Lemma flat_map_members_deep_K ts : Forall Kx ts -> Forall Kx (flat_map members_deep ts).
      Proof. intros H. rewrite <- members_deep_union. apply members_deep_K. apply K_union. exact H. Qed.

      Lemma regroup_K ts : Forall Kx ts -> Forall Kx (regroup ts).
      Proof.
        intros HK0. unfold Optimize.regroup.
        pose proof (flat_map_members_deep_K ts HK0) as HK.
        clear HK0. set (ms := flat_map members_deep ts) in *. clearbody ms. clear ts. rename ms into ts.
        assert (C0 : catK2 ([], [], [], [], [])) by (simpl; repeat split; constructor).
        pose proof (split_fold_K2 ts _ C0 HK) as C.
        destruct (fold_left (split_step registry) ts ([], [], [], [], [])) as [[[[strs objs] lists] dicts] other].
        destruct C as [Cs [Co [Cl [Cd Ce]]]].
        repeat (apply Forall_app; split).
        - rewrite Forall_forall in *. intros x Hx. apply Ce.
          destruct (existsb (ty_eqb TInt) other && existsb (ty_eqb TFloat) other); auto.
          eapply remove_first_sub; eauto.
        - destruct objs as [|f0 fr] eqn:Eo; [constructor|]. rewrite <- Eo in *.
          constructor; [|constructor]. apply merge_K. exact Co.
        - destruct lists as [|x0 xr] eqn:El; [constructor|]. rewrite <- El in *.
          constructor; [|constructor]. rewrite K_list. apply dunion_K. exact Cl.
        - destruct dicts as [|x0 xr] eqn:El; [constructor|]. rewrite <- El in *.
          constructor; [|constructor]. rewrite K_dict. apply dunion_K. exact Cd.
        - apply str_result_K. exact Cs.
      Qed.
    End Regroup.

    Theorem optimize_K : forall fuel t t' obs, optimize fuel t = Some t' -> K t obs -> K t' obs.
    Proof.
      induction fuel as [|fuel IH]; intros t t' obs E HK; [discriminate|].
      rewrite optimize_S in E. destruct t; try (inversion E; subst; exact HK).
      - (* TLit *) inversion E; subst. destruct overflow; [exact HK|]. destruct ls as [|s0 ls]; [|exact HK].
        destruct HK as [NE _]. congruence.
      - (* TOpt *) destruct (optimize fuel t) as [y|] eqn:Ey; [|discriminate].
        assert (R : t' = match y with TOpt y' => TOpt y' | _ => TOpt y end) by (destruct y; inversion E; reflexivity).
        assert (Hy : K y obs) by (eapply IH; eauto).
        subst t'. destruct y; exact Hy.
      - (* TList *) destruct (optimize fuel t) as [y|] eqn:Ey; [|discriminate].
        inversion E; subst. rewrite K_list in *. eapply IH; eauto.
      - (* TDict *) destruct (optimize fuel t) as [y|] eqn:Ey; [|discriminate].
        inversion E; subst. rewrite K_dict in *. eapply IH; eauto.
      - (* TUnion *) rewrite K_union in HK.
        pose proof (regroup_K obs ts HK) as R.
        destruct (olist (optimize fuel) (regroup ts)) as [types|] eqn:EL; [|discriminate].
        apply olist_Forall2 in EL. apply (finish_K types t' obs); auto.
        clear E. induction EL as [|x x' l l' Hx _ IHl]; [constructor|].
        inversion R as [|? ? Kx0 R']; subst. constructor; [|apply IHl; exact R'].
        eapply IH; eauto.
      - (* TObj *) destruct (ofields (optimize fuel) fs) as [fs'|] eqn:EF; [|discriminate].
        inversion E; subst. apply ofields_F2 in EF. rewrite K_obj in *.
        clear E. revert HK.
        induction EF as [|[k x] [k' x'] l l' [Hk Hx] _ IHl]; intros F; [constructor|].
        cbn [fst snd] in *. subst k'. inversion F as [|? ? F1 F']; subst.
        constructor; [|apply IHl; assumption]. cbn [fst snd] in *. eapply IH; eauto.
    Qed.
  End OptK.
End K.

(* ------------------------------------------------------------------ *)
(* 4. T6: the pipeline                                                 *)
(* ------------------------------------------------------------------ *)
Theorem generate_K : forall registry replaces accepts n_regex key_matches dict_fields fuel samples fs,
  Forall (fun s => wf_json (JObj s) = true) samples ->
  generate registry replaces accepts n_regex key_matches dict_fields fuel samples = Some fs ->
  K registry accepts (TObj fs) (map JObj samples).
Proof.
  intros registry replaces accepts n_regex key_matches dict_fields fuel samples fs W G.
  unfold generate, optimize_fields in G.
  set (conv := convert registry accepts n_regex key_matches dict_fields) in *.
  set (merged := merge_field_sets N.eqb (map conv samples)) in *.
  destruct (optimize registry replaces N.eqb fuel (TObj merged)) as [t'|] eqn:EO; [|discriminate].
  destruct t'; try discriminate. inversion G; subst fs0. clear G.
  set (obs := map JObj samples).
  assert (Km : K registry accepts (TObj merged) obs).
  { apply merge_K. apply Forall_forall. intros f Hf. apply in_map_iff in Hf as [s [<- Hs]].
    rewrite Forall_forall in W.
    eapply K_mono; [apply (convert_K registry accepts n_regex key_matches dict_fields s (W s Hs))|].
    intros y [<-|[]]. unfold obs. apply in_map. exact Hs. }
  exact (optimize_K registry accepts replaces N.eqb fuel _ _ obs EO Km).
Qed.

(* the main theorem: the result of generate is tight in the sharper sense *)
Theorem generate_tight2 : forall registry replaces accepts n_regex key_matches dict_fields fuel samples fs,
  samples <> [] ->
  Forall (fun s => wf_json (JObj s) = true) samples ->
  generate registry replaces accepts n_regex key_matches dict_fields fuel samples = Some fs ->
  exists n, forall k, n <= k -> tightb2 registry accepts k (map JObj samples) false (TObj fs) = true.
Proof.
  intros registry replaces accepts n_regex key_matches dict_fields fuel samples fs NE W G.
  destruct (generate_tight _ _ _ _ _ _ _ _ _ NE W G) as [n Hn].
  pose proof (generate_K _ _ _ _ _ _ _ _ _ W G) as HK.
  exists n. intros k Hk. apply tightb2_iff. split; [apply Hn, Hk|]. apply K_Wk. exact HK.
Qed.

Theorem generate_tight2_spec : forall registry replaces accepts n_regex key_matches dict_fields fuel samples fs,
  samples <> [] ->
  Forall (fun s => wf_json (JObj s) = true) samples ->
  generate registry replaces accepts n_regex key_matches dict_fields fuel samples = Some fs ->
  tight2 registry accepts (TObj fs) (map JObj samples) false.
Proof.
  intros registry replaces accepts n_regex key_matches dict_fields fuel samples fs NE W G.
  apply tight2_iff. eapply generate_tight2; eauto.
Qed.

(* ------------------------------------------------------------------ *)
(* 5. examples                                                         *)
(* ------------------------------------------------------------------ *)
(* a small registry: IntString = digits, FloatString = digits and dots, no replacement pair unless stated *)
Definition x_digit (c : N) : bool := (N.leb 48 c && N.leb c 57)%bool.
Definition x_acc (p : pseudo) (s : str) : bool :=
  match p with
  | PInt => negb (isnil s) && forallb x_digit s
  | PFloat => negb (isnil s) && forallb (fun c => x_digit c || N.eqb c 46) s
  | _ => false
  end.
Definition x_reg : list pseudo := [PInt; PFloat].
Definition x_k : str := [107%N].
Definition x_gen (replaces : list (pseudo * pseudo)) := generate x_reg replaces x_acc 0 (fun _ _ => false) [].
Definition x_samples (ss : list str) : list (list (str * json)) := map (fun s => [(x_k, JStr s)]) ss.
(* short plain strings: the letters a, b, c, ... *)
Definition x_letters (n : nat) : list str := map (fun i => [N.of_nat (97 + i)]) (seq 0 n).

(* (a) the weak reading is refuted as a specification: str for a position that held two short plain strings *)
Example weak_reading_refuted :
  let obs := map JObj (x_samples (x_letters 2)) in
  tightb x_acc 10 obs false (TObj [(x_k, TStr)]) = true /\
  tightb2 x_reg x_acc 10 obs false (TObj [(x_k, TStr)]) = false /\
  x_gen [] 10 (x_samples (x_letters 2)) = Some [(x_k, TLit false (x_letters 2))] /\
  tightb2 x_reg x_acc 10 obs false (TObj [(x_k, TLit false (x_letters 2))]) = true.
Proof. cbv zeta. repeat split; vm_compute; reflexivity. Qed.

(* (b) premature overflow: 16 observations, 15 distinct short plain strings.  str is rejected by tightb2 (and accepted
   by tightb); the model yields the literal of the 15 strings, which is accepted *)
Definition x_16_15 : list str := x_letters 15 ++ [[97%N]].
Example premature_overflow_rejected :
  let obs := map JObj (x_samples x_16_15) in
  List.length x_16_15 = 16 /\
  tightb x_acc 10 obs false (TObj [(x_k, TStr)]) = true /\
  tightb2 x_reg x_acc 10 obs false (TObj [(x_k, TStr)]) = false /\
  x_gen [] 10 (x_samples x_16_15) = Some [(x_k, TLit false (x_letters 15))] /\
  tightb2 x_reg x_acc 10 obs false (TObj [(x_k, TLit false (x_letters 15))]) = true.
Proof. cbv zeta. repeat split; vm_compute; reflexivity. Qed.

(* (c) each reason is needed: generate returns str and exactly one reason holds *)
Definition x_reasons (ss : list str) : bool * bool * bool :=
  (reason_long x_reg x_acc ss, reason_many x_reg x_acc ss, reason_mixed x_reg x_acc ss).
Example reason_long_needed :
  let ss := [repeat 97%N 20] in
  x_gen [] 10 (x_samples ss) = Some [(x_k, TStr)] /\ x_reasons ss = (true, false, false) /\
  tightb2 x_reg x_acc 10 (map JObj (x_samples ss)) false (TObj [(x_k, TStr)]) = true.
Proof. cbv zeta. repeat split; vm_compute; reflexivity. Qed.
Example reason_many_needed :
  let ss := x_letters 16 in
  x_gen [] 10 (x_samples ss) = Some [(x_k, TStr)] /\ x_reasons ss = (false, true, false) /\
  tightb2 x_reg x_acc 10 (map JObj (x_samples ss)) false (TObj [(x_k, TStr)]) = true.
Proof. cbv zeta. repeat split; vm_compute; reflexivity. Qed.
Example reason_mixed_needed :
  let ss := [[49%N]; [49%N; 46%N; 53%N]] in
  x_gen [] 10 (x_samples ss) = Some [(x_k, TStr)] /\ x_reasons ss = (false, false, true) /\
  tightb2 x_reg x_acc 10 (map JObj (x_samples ss)) false (TObj [(x_k, TStr)]) = true.
Proof. cbv zeta. repeat split; vm_compute; reflexivity. Qed.
(* with the replacement pair (IntString, FloatString) the same samples resolve to FloatString: no str, no reason needed *)
Example mixed_resolved_no_str :
  let ss := [[49%N]; [49%N; 46%N; 53%N]] in
  x_gen [(PInt, PFloat)] 10 (x_samples ss) = Some [(x_k, TPseudo PFloat)] /\
  tightb2 x_reg x_acc 10 (map JObj (x_samples ss)) false (TObj [(x_k, TPseudo PFloat)]) = true.
Proof. cbv zeta. repeat split; vm_compute; reflexivity. Qed.
(* a cyclic replacement table empties the resolved set; str is still justified by reason_mixed *)
Example mixed_cyclic_str :
  let ss := [[49%N]; [49%N; 46%N; 53%N]] in
  x_gen [(PInt, PFloat); (PFloat, PInt)] 10 (x_samples ss) = Some [(x_k, TStr)] /\
  x_reasons ss = (false, false, true).
Proof. cbv zeta. repeat split; vm_compute; reflexivity. Qed.
(* 19 code points are not long, 15 distinct strings are not many, duplicates do not count *)
Example limits_exact :
  x_reasons [repeat 97%N 19] = (false, false, false) /\
  x_reasons (x_letters 15) = (false, false, false) /\
  x_reasons (x_letters 15 ++ x_letters 15) = (false, false, false) /\
  x_reasons [[49%N]; [50%N]] = (false, false, false).
Proof. repeat split; vm_compute; reflexivity. Qed.

Print Assumptions tightb2_iff.
Print Assumptions tightb2_tightb.
Print Assumptions tight2_iff.
Print Assumptions K_mono.
Print Assumptions detect_K.
Print Assumptions mk_union_K.
Print Assumptions merge_K.
Print Assumptions optimize_K.
Print Assumptions generate_K.
Print Assumptions generate_tight2.
Print Assumptions generate_tight2_spec.
