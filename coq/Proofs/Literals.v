(* Proofs/Literals.v — property C10: Literal annotations follow the limits and hold exact values. *)
From Coq Require Import List Bool Arith NArith ZArith Lia.
From J2M.Model Require Import Base Union Merge Optimize Detect.
From J2M.Gen Require Limits.
Import ListNotations.

(* ------------------------------------------------------------------ *)
(* L1. the generated limits are the limits of the model                *)
(* ------------------------------------------------------------------ *)
Lemma link_MAX_LITERALS : J2M.Gen.Limits.MAX_LITERALS = J2M.Model.Union.MAX_LITERALS.
Proof. reflexivity. Qed.

Lemma link_MAX_STRING_LENGTH : J2M.Gen.Limits.MAX_STRING_LENGTH = J2M.Model.Union.MAX_STRING_LENGTH.
Proof. reflexivity. Qed.

Lemma link_lit_overflow : forall ls, J2M.Gen.Limits.lit_overflow ls = J2M.Model.Union.lit_overflow ls.
Proof. intros ls. reflexivity. Qed.

(* ------------------------------------------------------------------ *)
(* L2                                                                  *)
(* ------------------------------------------------------------------ *)
Lemma existsb_false_Forall {A} (f : A -> bool) (l : list A) :
  existsb f l = false <-> Forall (fun x => f x = false) l.
Proof.
  induction l as [| x r IH]; simpl.
  - split; intros _; [constructor | reflexivity].
  - rewrite orb_false_iff, IH. split.
    + intros [H1 H2]. constructor; assumption.
    + intros H. inversion H; subst. split; assumption.
Qed.

Lemma lit_overflow_spec : forall ls,
  lit_overflow ls = false <-> (length ls <= 15 /\ Forall (fun s => length s < 20) ls).
Proof.
  intros ls. unfold lit_overflow, MAX_LITERALS, MAX_STRING_LENGTH.
  rewrite orb_false_iff, Nat.ltb_ge, existsb_false_Forall.
  split; intros [H1 H2]; split; try exact H1.
  - eapply Forall_impl; [| exact H2]. intros s Hs. apply Nat.leb_gt in Hs. exact Hs.
  - eapply Forall_impl; [| exact H2]. intros s Hs. apply Nat.leb_gt. exact Hs.
Qed.

(* ------------------------------------------------------------------ *)
(* L3. insert_sorted / set_of_strs                                     *)
(* ------------------------------------------------------------------ *)
Lemma str_cmp_eq : forall a b, str_cmp a b = Eq -> a = b.
Proof.
  induction a as [| c a IH]; intros [| d b] H; simpl in H; try discriminate; [reflexivity |].
  destruct (N.compare c d) eqn:E; try discriminate.
  apply N.compare_eq in E. subst d. f_equal. apply IH. exact H.
Qed.

Lemma In_insert_sorted : forall s x l, In s (insert_sorted x l) <-> s = x \/ In s l.
Proof.
  intros s x l. induction l as [| y r IH]; simpl.
  - split; intros [H | H]; auto; destruct H.
  - destruct (str_cmp x y) eqn:E.
    + apply str_cmp_eq in E. subst y. simpl. split; [intros H; right; exact H |].
      intros [H | H]; [left; symmetry; exact H | exact H].
    + simpl. split; intros [H | H]; auto.
    + simpl. rewrite IH. split.
      * intros [H | [H | H]]; auto.
      * intros [H | [H | H]]; auto.
Qed.

Definition ins := fun (acc : list str) (s : str) => insert_sorted s acc.

Lemma In_fold_insert : forall s l acc, In s (fold_left ins l acc) <-> In s l \/ In s acc.
Proof.
  intros s l. induction l as [| x r IH]; intros acc; simpl.
  - split; [intros H; right; exact H | intros [[] | H]; exact H].
  - rewrite IH. unfold ins. rewrite In_insert_sorted. split.
    + intros [H | [H | H]]; auto.
    + intros [[H | H] | H]; auto.
Qed.

Lemma In_set_of_strs : forall s l, In s (set_of_strs l) <-> In s l.
Proof.
  intros s l. unfold set_of_strs. fold ins. rewrite In_fold_insert. split; [intros [H | []]; exact H | auto].
Qed.

Lemma fold_insert_app : forall l1 l2 acc,
  fold_left ins l2 (fold_left ins l1 acc) = fold_left ins (l1 ++ l2) acc.
Proof. intros l1 l2 acc. symmetry. apply fold_left_app. Qed.

Lemma set_of_strs_app : forall l1 l2,
  set_of_strs (l1 ++ l2) = fold_left (fun acc s => insert_sorted s acc) l2 (set_of_strs l1).
Proof. intros l1 l2. unfold set_of_strs. apply fold_left_app. Qed.

Lemma set_of_strs_nonempty : forall l, l <> [] -> set_of_strs l <> [].
Proof.
  intros [| s r] H; [congruence |]. intros E.
  assert (Hin : In s (set_of_strs (s :: r))) by (apply In_set_of_strs; left; reflexivity).
  rewrite E in Hin. destruct Hin.
Qed.

Lemma set_of_strs_nil_inv : forall l, set_of_strs l = [] -> l = [].
Proof.
  intros l H. destruct l as [| s r]; [reflexivity |]. exfalso.
  apply (set_of_strs_nonempty (s :: r)); [discriminate | exact H].
Qed.

(* ------------------------------------------------------------------ *)
(* L4. the union                                                       *)
(* ------------------------------------------------------------------ *)
Definition lits_of (fl : list ty) : list str :=
  flat_map (fun t => match t with TLit false l => l | _ => [] end) fl.
Definition kills (fl : list ty) : bool :=
  existsb is_str fl || existsb (fun t => match t with TLit true _ => true | _ => false end) fl.

Definition kill1 (t : ty) : bool := is_str t || match t with TLit true _ => true | _ => false end.
Definition lits1 (t : ty) : list str := match t with TLit false l => l | _ => [] end.

Lemma kills_cons t fl : kills (t :: fl) = kill1 t || kills fl.
Proof.
  unfold kills, kill1. simpl.
  destruct (is_str t), (existsb is_str fl), (match t with TLit true _ => true | _ => false end); reflexivity.
Qed.

Lemma lits_of_cons t fl : lits_of (t :: fl) = lits1 t ++ lits_of fl.
Proof. reflexivity. Qed.

(* one iteration of the loop, in closed form *)
Lemma union_step_eq u ul ls t :
  union_step (u, ul, ls) t =
    (if is_lit t then u else add_unique u t,
     ul && negb (kill1 t),
     if ul && negb (kill1 t) then fold_left ins (lits1 t) ls else ls).
Proof.
  destruct t as [| | | | | | p | o l | x | x | x | us | fs | i]; destruct ul; try destruct o; reflexivity.
Qed.

Lemma In_add_unique t u x : In t (add_unique u x) -> In t u \/ t = x.
Proof.
  unfold add_unique. destruct (existsb (ty_eqb x) u); [auto |].
  rewrite in_app_iff. simpl. intros [H | [H | []]]; auto.
Qed.

Lemma In_add_unique_l t u x : In t u -> In t (add_unique u x).
Proof.
  unfold add_unique. destruct (existsb (ty_eqb x) u); [auto |]. rewrite in_app_iff. auto.
Qed.

Lemma In_add_unique_str u : In TStr (add_unique u TStr).
Proof.
  unfold add_unique. destruct (existsb (ty_eqb TStr) u) eqn:E.
  - apply existsb_exists in E. destruct E as [y [Hy E]]. destruct y; simpl in E; try discriminate. exact Hy.
  - rewrite in_app_iff. right. left. reflexivity.
Qed.

Definition no_lit (u : list ty) : Prop := forall t, In t u -> is_lit t = false.

(* the loop invariant, from an arbitrary start state *)
Lemma union_fold_inv : forall fl u ul ls u' ul' ls',
  fold_left union_step fl (u, ul, ls) = (u', ul', ls') ->
  ul' = ul && negb (kills fl) /\
  (ul' = true -> ls' = fold_left ins (lits_of fl) ls) /\
  (no_lit u -> no_lit u').
Proof.
  induction fl as [| t fl IH]; intros u ul ls u' ul' ls' H.
  - simpl in H. inversion H; subst. unfold kills. simpl. rewrite andb_true_r. auto.
  - cbn [fold_left] in H. rewrite union_step_eq in H. apply IH in H. destruct H as [H1 [H2 H3]].
    rewrite kills_cons, lits_of_cons. split; [| split].
    + rewrite H1. destruct ul, (kill1 t), (kills fl); reflexivity.
    + intros Hul. specialize (H2 Hul). rewrite Hul in H1.
      destruct (ul && negb (kill1 t)) eqn:E; [| simpl in H1; discriminate].
      rewrite H2. apply fold_insert_app.
    + intros Hu. apply H3. destruct (is_lit t) eqn:E; [exact Hu |].
      intros y Hy. apply In_add_unique in Hy. destruct Hy as [Hy | Hy]; [apply Hu; exact Hy | subst y; exact E].
Qed.

Lemma mk_union_inv ts :
  exists u ul ls,
    fold_left union_step (flatten_union ts) ([], true, []) = (u, ul, ls) /\
    ul = negb (kills (flatten_union ts)) /\
    (ul = true -> ls = set_of_strs (lits_of (flatten_union ts))) /\
    no_lit u.
Proof.
  destruct (fold_left union_step (flatten_union ts) ([], true, [])) as [[u ul] ls] eqn:E.
  exists u, ul, ls. split; [reflexivity |].
  apply union_fold_inv in E. destruct E as [H1 [H2 H3]]. split; [exact H1 |]. split; [exact H2 |].
  apply H3. intros t [].
Qed.

Lemma no_lit_not_In u o S : no_lit u -> ~ In (TLit o S) u.
Proof. intros Hu Hin. apply Hu in Hin. discriminate. Qed.

(* All four clauses hold exactly as stated; no side condition on [TLit false []] inputs is needed
   (such a member contributes nothing to [lits_of] and is dropped by the loop, see the examples below). *)
Theorem mk_union_literal : forall ts, let fl := flatten_union ts in
     (forall o S, In (TLit o S) (mk_union ts) ->
        o = false /\ kills fl = false /\ S = set_of_strs (lits_of fl) /\ S <> [] /\ lit_overflow S = false)
  /\ (kills fl = false -> lits_of fl <> [] -> lit_overflow (set_of_strs (lits_of fl)) = false ->
        In (TLit false (set_of_strs (lits_of fl))) (mk_union ts))
  /\ (forall o S o' S', In (TLit o S) (mk_union ts) -> In (TLit o' S') (mk_union ts) -> o = o' /\ S = S')
  /\ ((kills fl = true \/ (lits_of fl <> [] /\ lit_overflow (set_of_strs (lits_of fl)) = true)) ->
        (exists t, In t fl /\ is_lit t = true) -> In TStr (mk_union ts)).
Proof.
  intros ts fl.
  assert (C1 : forall o S, In (TLit o S) (mk_union ts) ->
        o = false /\ kills fl = false /\ S = set_of_strs (lits_of fl) /\ S <> [] /\ lit_overflow S = false).
  { intros o S Hin. unfold mk_union in Hin.
    destruct (mk_union_inv ts) as [u [ul [ls [E [Hul [Hls Hu]]]]]]. fold fl in Hul, Hls.
    rewrite E in Hin.
    assert (Hstr : forall u0, no_lit u0 -> ~ In (TLit o S) (add_unique u0 TStr)).
    { intros u0 Hu0 H. apply In_add_unique in H. destruct H as [H | H]; [| discriminate].
      exact (no_lit_not_In _ _ _ Hu0 H). }
    destruct ls as [| s ls0].
    - destruct ul; [exfalso; exact (no_lit_not_In _ _ _ Hu Hin) | exfalso; exact (Hstr u Hu Hin)].
    - destruct ul; [| exfalso; exact (Hstr u Hu Hin)].
      destruct (lit_overflow (s :: ls0)) eqn:Eo; [exfalso; exact (Hstr u Hu Hin) |].
      apply in_app_iff in Hin. destruct Hin as [Hin | Hin]; [exfalso; exact (no_lit_not_In _ _ _ Hu Hin) |].
      destruct Hin as [Hin | []]. inversion Hin; subst o S.
      specialize (Hls eq_refl).
      split; [reflexivity |]. split; [destruct (kills fl); [discriminate | reflexivity] |].
      split; [exact Hls |]. split; [discriminate | exact Eo]. }
  split; [exact C1 |]. split; [| split].
  - intros Hk Hne Hov. unfold mk_union.
    destruct (mk_union_inv ts) as [u [ul [ls [E [Hul [Hls Hu]]]]]]. fold fl in Hul, Hls.
    rewrite E. rewrite Hk in Hul. simpl in Hul. subst ul. specialize (Hls eq_refl). subst ls.
    destruct (set_of_strs (lits_of fl)) as [| s ls0] eqn:Es.
    + exfalso. apply (set_of_strs_nonempty (lits_of fl) Hne). exact Es.
    + rewrite Hov. apply in_app_iff. right. left. reflexivity.
  - intros o S o' S' H1 H2. apply C1 in H1. apply C1 in H2.
    destruct H1 as [Ho [_ [HS _]]]. destruct H2 as [Ho' [_ [HS' _]]]. subst. split; reflexivity.
  - intros Hcase _. unfold mk_union.
    destruct (mk_union_inv ts) as [u [ul [ls [E [Hul [Hls Hu]]]]]]. fold fl in Hul, Hls.
    rewrite E. destruct Hcase as [Hk | [Hne Hov]].
    + rewrite Hk in Hul. simpl in Hul. subst ul.
      destruct ls; apply In_add_unique_str.
    + destruct ul.
      * specialize (Hls eq_refl). subst ls.
        destruct (set_of_strs (lits_of fl)) as [| s ls0] eqn:Es.
        -- exfalso. apply (set_of_strs_nonempty (lits_of fl) Hne). exact Es.
        -- rewrite Hov. apply In_add_unique_str.
      * destruct ls; apply In_add_unique_str.
Qed.

(* the converse of clause 4: str is a member of the union only if a str (or an already overflowed literal)
   was a member, or the collected literals were generalised *)
Lemma union_fold_incl : forall fl u ul ls u' ul' ls' t,
  fold_left union_step fl (u, ul, ls) = (u', ul', ls') -> In t u' -> In t u \/ In t fl.
Proof.
  induction fl as [| x fl IH]; intros u ul ls u' ul' ls' t H Hin.
  - simpl in H. inversion H; subst. left. exact Hin.
  - cbn [fold_left] in H. rewrite union_step_eq in H.
    destruct (IH _ _ _ _ _ _ t H Hin) as [Hu | Hfl]; [| right; right; exact Hfl].
    destruct (is_lit x); [left; exact Hu |].
    apply In_add_unique in Hu. destruct Hu as [Hu | Hu]; [left; exact Hu | right; left; symmetry; exact Hu].
Qed.

Lemma kills_of_str fl : In TStr fl -> kills fl = true.
Proof.
  intros H. unfold kills. apply orb_true_iff. left. apply existsb_exists. exists TStr. split; [exact H | reflexivity].
Qed.

Theorem mk_union_str_iff : forall ts, let fl := flatten_union ts in
  In TStr (mk_union ts) <->
  (kills fl = true \/ (lits_of fl <> [] /\ lit_overflow (set_of_strs (lits_of fl)) = true)).
Proof.
  intros ts fl. split.
  - intros Hin. unfold mk_union in Hin.
    destruct (mk_union_inv ts) as [u [ul [ls [E [Hul [Hls Hu]]]]]]. fold fl in Hul, Hls.
    rewrite E in Hin.
    assert (HinU : forall t, In t u -> In t fl).
    { intros t Ht. destruct (union_fold_incl _ _ _ _ _ _ _ t E Ht) as [[] | H]. exact H. }
    destruct (kills fl) eqn:Hk; [left; reflexivity | right].
    simpl in Hul. subst ul. specialize (Hls eq_refl).
    assert (HnoStr : ~ In TStr u).
    { intros H. apply HinU in H. apply kills_of_str in H. congruence. }
    destruct ls as [| s ls0]; [contradiction |].
    destruct (lit_overflow (s :: ls0)) eqn:Eo.
    + split; [| rewrite <- Hls; exact Eo].
      intros En. rewrite En in Hls. discriminate.
    + apply in_app_iff in Hin. destruct Hin as [Hin | [Hin | []]]; [contradiction | discriminate].
  - intros Hcase. destruct (mk_union_literal ts) as [_ [_ [_ C4]]]. fold fl in C4.
    unfold mk_union.
    destruct (mk_union_inv ts) as [u [ul [ls [E [Hul [Hls Hu]]]]]]. fold fl in Hul, Hls.
    rewrite E. destruct Hcase as [Hk | [Hne Hov]].
    + rewrite Hk in Hul. simpl in Hul. subst ul. destruct ls; apply In_add_unique_str.
    + destruct ul.
      * specialize (Hls eq_refl). subst ls.
        destruct (set_of_strs (lits_of fl)) as [| s ls0] eqn:Es.
        -- exfalso. apply (set_of_strs_nonempty (lits_of fl) Hne). exact Es.
        -- rewrite Hov. apply In_add_unique_str.
      * destruct ls; apply In_add_unique_str.
Qed.

(* Remarks on degenerate inputs (not excluded by the theorem, which holds for them):
   - a lone empty literal set produces the EMPTY union;
   - a literal set that is over the limit on its own produces [str]. *)
Example mk_union_empty_literal : mk_union [TLit false []] = [].
Proof. vm_compute. reflexivity. Qed.

Example mk_union_overflowed_literal : mk_union [TLit true []; TInt] = [TInt; TStr].
Proof. vm_compute. reflexivity. Qed.

Example mk_union_two_literals :
  mk_union [TLit false [[2%N]]; TInt; TUnion [TLit false [[1%N]; [2%N]]]] = [TInt; TLit false [[1%N]; [2%N]]].
Proof. vm_compute. reflexivity. Qed.

(* the literal annotation of a union obeys the limits of L2 *)
Corollary mk_union_literal_limits : forall ts o S,
  In (TLit o S) (mk_union ts) -> o = false /\ S <> [] /\ length S <= 15 /\ Forall (fun s => length s < 20) S.
Proof.
  intros ts o S Hin. destruct (mk_union_literal ts) as [C1 _].
  destruct (C1 o S Hin) as [Ho [_ [_ [Hne Hov]]]]. apply lit_overflow_spec in Hov.
  destruct Hov as [H1 H2]. auto.
Qed.

(* ... and holds exactly the sample values: the strings of all literal members of the flattened input *)
Corollary mk_union_literal_exact : forall ts o S s,
  In (TLit o S) (mk_union ts) ->
  (In s S <-> exists l, In (TLit false l) (flatten_union ts) /\ In s l).
Proof.
  intros ts o S s Hin. destruct (mk_union_literal ts) as [C1 _].
  destruct (C1 o S Hin) as [_ [_ [HS _]]]. subst S. rewrite In_set_of_strs.
  unfold lits_of. rewrite in_flat_map. split.
  - intros [t [Ht Hs]]. destruct t as [| | | | | | p | o' l | x | x | x | us | fs | i]; try destruct Hs.
    destruct o'; [destruct Hs |]. exists l. split; assumption.
  - intros [l [Hl Hs]]. exists (TLit false l). split; assumption.
Qed.

(* ------------------------------------------------------------------ *)
(* L5                                                                  *)
(* ------------------------------------------------------------------ *)
Lemma find_none_iff {A} (f : A -> bool) (l : list A) :
  (forall x, In x l -> f x = false) -> find f l = None.
Proof.
  induction l as [| x r IH]; intros H; simpl; [reflexivity |].
  rewrite (H x (or_introl eq_refl)). apply IH. intros y Hy. apply H. right. exact Hy.
Qed.

Lemma lit_overflow_single (s : str) : lit_overflow [s] = (20 <=? length s).
Proof. unfold lit_overflow. cbn [existsb length]. rewrite orb_false_r. reflexivity. Qed.

Lemma detect_str_literal : forall registry accepts s,
  (forall q, In q registry -> accepts q s = false) ->
  detect_str registry accepts s = (if 20 <=? length s then TLit true [] else TLit false [s]).
Proof.
  intros registry accepts s H. unfold detect_str.
  rewrite (find_none_iff (fun p => accepts p s) registry H).
  unfold mk_lit. rewrite lit_overflow_single. reflexivity.
Qed.

(* ------------------------------------------------------------------ *)
(* L6. rendering limit                                                 *)
(* ------------------------------------------------------------------ *)
Lemma lit_render_off : forall fw n ls,
  J2M.Gen.Limits.use_literals fw = false \/ n = 0 ->
  (J2M.Gen.Limits.use_literals fw && J2M.Gen.Limits.lit_render_ok (Some n) ls) = false.
Proof.
  intros fw n ls [H | H].
  - rewrite H. reflexivity.
  - subst n. unfold J2M.Gen.Limits.lit_render_ok.
    replace (length ls <? 0) with false; [apply andb_false_r |].
    symmetry. apply Nat.ltb_ge. lia.
Qed.

Lemma lit_render_ok_spec : forall n ls,
  J2M.Gen.Limits.lit_render_ok (Some n) ls = true <-> length ls < n.
Proof. intros n ls. unfold J2M.Gen.Limits.lit_render_ok. apply Nat.ltb_lt. Qed.

Print Assumptions link_lit_overflow.
Print Assumptions lit_overflow_spec.
Print Assumptions In_insert_sorted.
Print Assumptions In_set_of_strs.
Print Assumptions fold_insert_app.
Print Assumptions mk_union_literal.
Print Assumptions mk_union_str_iff.
Print Assumptions mk_union_literal_limits.
Print Assumptions mk_union_literal_exact.
Print Assumptions detect_str_literal.
Print Assumptions lit_render_off.
Print Assumptions lit_render_ok_spec.
